//go:build verif

package blocktree

// Harness of C15 (block tree structure) — shared with C16 (fork choice), which adds c16_test.go.
//
// Case line:   <defs>|<ops>
//   defs  = comma separated block definitions, index = position
//           def 0      r.<number>.<hash8>                          the root header
//           def i>0    <parent index>.<kind>.<arrival>.<hash8>[.<number>]
//                      kind: p primary, s secondary plain, v secondary VRF (BABE pre-runtime digests),
//                            n no digest, x first digest is not pre-runtime, g undecodable pre-digest
//                      number defaults to parent's number + 1
//           hash8 = first 4 bytes of the real header hash (the model orders hashes by it); verified here.
//   ops   = `;` separated:  a<i> AddBlock(def i)   f<i> Prune(hash i)   q<i.j.k|*> dump every query on these ids
// Output: one field per op joined by `;`, hashes printed as definition indices.

import (
	"errors"
	"fmt"
	"os"
	"sort"
	"strconv"
	"strings"
	"testing"
	"time"

	"github.com/ChainSafe/gossamer/dot/types"
	"github.com/ChainSafe/gossamer/lib/common"
	"github.com/ChainSafe/gossamer/pkg/scale"
)

type c15Def struct {
	parent int
	kind   byte
	arr    int64
	h8     string
	number uint
	header *types.Header
	hash   common.Hash
}

type c15Case struct {
	defs []*c15Def
	ops  []string
}

func c15Digest(kind byte, idx int) types.Digest {
	d := types.NewDigest()
	pre := func(v any) {
		bd := types.NewBabeDigest()
		if err := bd.SetValue(v); err != nil {
			panic(err)
		}
		enc, err := scale.Marshal(bd)
		if err != nil {
			panic(err)
		}
		if err := d.Add(types.PreRuntimeDigest{ConsensusEngineID: types.BabeEngineID, Data: enc}); err != nil {
			panic(err)
		}
	}
	switch kind {
	case 'p':
		pre(types.BabePrimaryPreDigest{AuthorityIndex: uint32(idx), SlotNumber: uint64(idx)})
	case 's':
		pre(types.BabeSecondaryPlainPreDigest{AuthorityIndex: uint32(idx), SlotNumber: uint64(idx)})
	case 'v':
		pre(types.BabeSecondaryVRFPreDigest{AuthorityIndex: uint32(idx), SlotNumber: uint64(idx)})
	case 'x':
		if err := d.Add(types.SealDigest{ConsensusEngineID: types.BabeEngineID, Data: []byte{byte(idx)}}); err != nil {
			panic(err)
		}
		pre(types.BabePrimaryPreDigest{AuthorityIndex: uint32(idx)})
	case 'g':
		if err := d.Add(types.PreRuntimeDigest{ConsensusEngineID: types.BabeEngineID, Data: []byte{9, byte(idx)}}); err != nil {
			panic(err)
		}
	case 'n':
	}
	return d
}

// c15Build creates the real headers (parent hash = hash of the parent definition's header).
func c15Build(defs []*c15Def) {
	for i, d := range defs {
		h := &types.Header{Number: d.number, StateRoot: common.Hash{byte(i), byte(i >> 8), 0xc1}}
		if i == 0 {
			h.ParentHash = common.Hash{0xee}
			h.Digest = c15Digest('p', 0)
		} else {
			h.ParentHash = defs[d.parent].hash
			h.Digest = c15Digest(d.kind, i)
		}
		d.header = h
		d.hash = h.Hash()
	}
}

func c15H8(h common.Hash) string { return fmt.Sprintf("%02x%02x%02x%02x", h[0], h[1], h[2], h[3]) }

func c15Parse(line string) (*c15Case, string) {
	parts := strings.SplitN(line, "|", 2)
	if len(parts) != 2 {
		return nil, "bad-op"
	}
	c := &c15Case{}
	for i, ds := range strings.Split(parts[0], ",") {
		f := strings.Split(ds, ".")
		d := &c15Def{}
		if i == 0 {
			if len(f) != 3 || f[0] != "r" {
				return nil, "bad-op"
			}
			n, err := strconv.Atoi(f[1])
			if err != nil || n < 0 {
				return nil, "bad-op"
			}
			d.number, d.h8, d.parent = uint(n), f[2], -1
		} else {
			if len(f) != 4 && len(f) != 5 {
				return nil, "bad-op"
			}
			p, err := strconv.Atoi(f[0])
			if err != nil || p < 0 || p >= i || len(f[1]) != 1 || !strings.Contains("psvnxg", f[1]) {
				return nil, "bad-op"
			}
			a, err := strconv.ParseInt(f[2], 10, 62)
			if err != nil || a < 0 {
				return nil, "bad-op"
			}
			d.parent, d.kind, d.arr, d.h8 = p, f[1][0], a, f[3]
			d.number = c.defs[p].number + 1
			if len(f) == 5 {
				n, err := strconv.Atoi(f[4])
				if err != nil || n < 0 {
					return nil, "bad-op"
				}
				d.number = uint(n)
			}
		}
		c.defs = append(c.defs, d)
	}
	c15Build(c.defs)
	seen := map[string]bool{}
	for i, d := range c.defs {
		if c15H8(d.hash) != d.h8 || seen[d.h8] {
			return nil, fmt.Sprintf("bad-hash %d want=%s", i, c15H8(d.hash))
		}
		seen[d.h8] = true
	}
	if parts[1] != "" {
		c.ops = strings.Split(parts[1], ";")
	}
	return c, ""
}

// c15Line prints a case; hash8 fields are filled from the real headers.
func c15Line(defs []*c15Def, ops []string) string {
	c15Build(defs)
	var sb strings.Builder
	for i, d := range defs {
		if i == 0 {
			fmt.Fprintf(&sb, "r.%d.%s", d.number, c15H8(d.hash))
			continue
		}
		fmt.Fprintf(&sb, ",%d.%c.%d.%s", d.parent, d.kind, d.arr, c15H8(d.hash))
		if d.number != defs[d.parent].number+1 {
			fmt.Fprintf(&sb, ".%d", d.number)
		}
	}
	sb.WriteString("|")
	sb.WriteString(strings.Join(ops, ";"))
	return sb.String()
}

type c15Env struct {
	c   *c15Case
	bt  *BlockTree
	idx map[common.Hash]int
}

func c15NewEnv(c *c15Case) *c15Env {
	e := &c15Env{c: c, idx: map[common.Hash]int{}}
	for i, d := range c.defs {
		e.idx[d.hash] = i
	}
	e.bt = NewBlockTreeFromRoot(c.defs[0].header)
	return e
}

func (e *c15Env) name(h common.Hash) string {
	if i, ok := e.idx[h]; ok {
		return strconv.Itoa(i)
	}
	return "?"
}

func (e *c15Env) names(hs []common.Hash, sorted bool) string {
	if len(hs) == 0 {
		return "-"
	}
	out := make([]string, len(hs))
	if sorted {
		ix := make([]int, len(hs))
		for i, h := range hs {
			if j, ok := e.idx[h]; ok {
				ix[i] = j
			} else {
				ix[i] = -1
			}
		}
		sort.Ints(ix)
		for i, j := range ix {
			out[i] = strconv.Itoa(j)
		}
	} else {
		for i, h := range hs {
			out[i] = e.name(h)
		}
	}
	return strings.Join(out, ".")
}

func (e *c15Env) best() string {
	return vhCatch(func() string { return e.name(e.bt.BestBlockHash()) })
}

func (e *c15Env) add(i int) string {
	d := e.c.defs[i]
	// a fresh copy: AddBlock must not depend on the cached hash of an earlier call
	h := *d.header
	err := e.bt.AddBlock(&h, time.Unix(0, d.arr))
	switch {
	case err == nil:
		return "ok"
	case errors.Is(err, ErrParentNotFound):
		return "eP"
	case errors.Is(err, ErrBlockExists):
		return "eX"
	case errors.Is(err, errUnexpectedNumber):
		return "eN"
	default:
		return "eD"
	}
}

func c15RangeErr(err error) string {
	switch {
	case errors.Is(err, ErrEndNodeNotFound):
		return "eE"
	case errors.Is(err, ErrStartNodeNotFound):
		return "eS"
	case errors.Is(err, ErrStartGreaterThanEnd):
		return "eG"
	case errors.Is(err, ErrNilBlockInRange):
		return "eN"
	default:
		// ErrStartNotAncestorOfEnd (added by the repair) is matched by its text so that the harness also
		// builds against a tree without it
		if strings.Contains(err.Error(), "not an ancestor") {
			return "eA"
		}
		return "e?"
	}
}

func (e *c15Env) numRange() (lo, hi uint) {
	lo, hi = e.c.defs[0].number, e.c.defs[0].number
	for _, d := range e.c.defs {
		if d.number < lo {
			lo = d.number
		}
		if d.number > hi {
			hi = d.number
		}
	}
	if lo > 0 {
		lo--
	}
	return lo, hi + 1
}

func (e *c15Env) query(ids []int) string {
	bt := e.bt
	var out []string
	out = append(out, "A"+e.names(bt.GetAllBlocks(), false))
	var col []string
	for _, a := range ids {
		ds, err := bt.GetAllDescendants(e.c.defs[a].hash)
		if err != nil {
			col = append(col, "e")
		} else {
			col = append(col, e.names(ds, false))
		}
	}
	out = append(out, "D"+strings.Join(col, ","))
	var rowsI, rowsC, rowsR, rowsM []string
	for _, a := range ids {
		var sI strings.Builder
		var sC, sR, sM []string
		ha := e.c.defs[a].hash
		for _, b := range ids {
			hb := e.c.defs[b].hash
			is, err := bt.IsDescendantOf(ha, hb)
			switch {
			case errors.Is(err, ErrStartNodeNotFound):
				sI.WriteByte('s')
			case errors.Is(err, ErrEndNodeNotFound):
				sI.WriteByte('e')
			case err != nil:
				sI.WriteByte('?')
			case is:
				sI.WriteByte('1')
			default:
				sI.WriteByte('0')
			}
			sC = append(sC, vhCatch(func() string {
				h, err := bt.LowestCommonAncestor(ha, hb)
				if err != nil {
					return "e"
				}
				return e.name(h)
			}))
			r, err := bt.Range(ha, hb)
			if err != nil {
				sR = append(sR, c15RangeErr(err))
			} else {
				sR = append(sR, e.names(r, false))
			}
			r, err = bt.RangeInMemory(ha, hb)
			if err != nil {
				sM = append(sM, c15RangeErr(err))
			} else {
				sM = append(sM, e.names(r, false))
			}
		}
		rowsI = append(rowsI, sI.String())
		rowsC = append(rowsC, strings.Join(sC, "."))
		rowsR = append(rowsR, strings.Join(sR, "_"))
		rowsM = append(rowsM, strings.Join(sM, "_"))
	}
	out = append(out, "I"+strings.Join(rowsI, ","), "C"+strings.Join(rowsC, ","),
		"R"+strings.Join(rowsR, ","), "M"+strings.Join(rowsM, ","))
	lo, hi := e.numRange()
	var ns, hs []string
	for n := lo; n <= hi; n++ {
		ns = append(ns, e.names(bt.GetHashesAtNumber(n), false))
		hs = append(hs, vhCatch(func() string {
			h, err := bt.GetHashByNumber(n)
			switch {
			case err == nil:
				return e.name(h)
			case errors.Is(err, ErrNumGreaterThanHighest):
				return "eH"
			case errors.Is(err, ErrNumLowerThanRoot):
				return "eL"
			case errors.Is(err, ErrNodeNotFound):
				return "eF"
			}
			return "e?"
		}))
	}
	out = append(out, fmt.Sprintf("N%d:%s", lo, strings.Join(ns, ",")), "H"+strings.Join(hs, ","))
	var ts []string
	for _, a := range ids {
		tm, err := bt.GetArrivalTime(e.c.defs[a].hash)
		if err != nil {
			ts = append(ts, "e")
		} else if a == 0 {
			ts = append(ts, "r") // the root's arrival time is time.Now()
		} else {
			ts = append(ts, strconv.FormatInt(tm.UnixNano(), 10))
		}
	}
	out = append(out, "T"+strings.Join(ts, "."))
	return strings.Join(out, " ")
}

func c15ParseIds(s string, n int) ([]int, bool) {
	if s == "*" {
		ids := make([]int, n)
		for i := range ids {
			ids[i] = i
		}
		return ids, true
	}
	var ids []int
	for _, f := range strings.Split(s, ".") {
		i, err := strconv.Atoi(f)
		if err != nil || i < 0 || i >= n {
			return nil, false
		}
		ids = append(ids, i)
	}
	return ids, true
}

func (e *c15Env) step(op string) string {
	if len(op) < 2 {
		return "bad-op"
	}
	if op[0] == 'q' {
		ids, ok := c15ParseIds(op[1:], len(e.c.defs))
		if !ok {
			return "bad-op"
		}
		return e.query(ids)
	}
	i, err := strconv.Atoi(op[1:])
	if err != nil || i < 0 || i >= len(e.c.defs) {
		return "bad-op"
	}
	var res string
	switch op[0] {
	case 'a':
		if i == 0 {
			return "bad-op"
		}
		res = e.add(i)
	case 'f':
		res = "[" + e.names(e.bt.Prune(e.c.defs[i].hash), false) + "]"
	default:
		return "bad-op"
	}
	return res + " b" + e.best() + " L" + e.names(e.bt.Leaves(), true)
}

func c15Run(line string) string {
	c, bad := c15Parse(line)
	if c == nil {
		return bad
	}
	e := c15NewEnv(c)
	outs := make([]string, len(c.ops))
	for k, op := range c.ops {
		outs[k] = e.step(op)
		if outs[k] == "bad-op" {
			return "bad-op"
		}
	}
	return strings.Join(outs, ";")
}

// ---------------------------------------------------------------------------------------------- generators

// c15Counter numbers the generated cases of this process; together with the shard number (VERIF_SEED % 1000) and
// the shard size (VERIF_N) it gives a global case index, the first of which run through the exhaustive enumeration.
var c15Counter int

func c15GlobalIndex() int {
	k := c15Counter
	c15Counter++
	return (vhEnvInt("VERIF_SEED", 1)%1000)*vhEnvInt("VERIF_N", 0) + k
}

// c15Seq decodes the idx-th parent sequence (p_1..p_{n-1}), p_i < i: every rooted tree on n nodes in every
// parent-first insertion order exactly once for idx in [0, (n-1)!).
func c15Seq(n, idx int) []int {
	ps := make([]int, n)
	for i := 1; i < n; i++ {
		ps[i] = idx % i
		idx /= i
	}
	return ps
}

func c15Fact(n int) int {
	f := 1
	for i := 2; i <= n; i++ {
		f *= i
	}
	return f
}

var c15Kinds = []byte("psv")

// c15Enum: for n = 1.. nodes: (n-1)! parent sequences x (n+1) finalisation choices (none, or any node incl. the root).
// Returns nil when e is beyond the enumeration of trees with at most maxN nodes.
func c15Enum(e, maxN int) []string {
	for n := 1; n <= maxN; n++ {
		cnt := c15Fact(n-1) * (n + 1)
		if e >= cnt {
			e -= cnt
			continue
		}
		seq, tgt := e/(n+1), e%(n+1)-1
		ps := c15Seq(n, seq)
		r := vhNewRng(uint64(e*31 + n))
		defs := make([]*c15Def, n)
		defs[0] = &c15Def{parent: -1}
		if r.Chance(1, 3) {
			defs[0].number = uint(1 + r.Intn(7))
		}
		for i := 1; i < n; i++ {
			defs[i] = &c15Def{parent: ps[i], kind: c15Kinds[r.Intn(3)], arr: int64(r.Intn(3)),
				number: defs[ps[i]].number + 1}
		}
		var ops []string
		for i := 1; i < n; i++ {
			ops = append(ops, fmt.Sprintf("a%d", i), "q*")
		}
		if n == 1 {
			ops = append(ops, "q*")
		}
		if tgt >= 0 {
			// one more block below the finalised one, added after the prune, and a re-add of block 1
			ex := &c15Def{parent: tgt, kind: c15Kinds[r.Intn(3)], arr: int64(r.Intn(3)), number: defs[tgt].number + 1}
			defs = append(defs, ex)
			ops = append(ops, fmt.Sprintf("f%d", tgt), "q*")
			if n > 1 {
				ops = append(ops, "a1")
			}
			ops = append(ops, fmt.Sprintf("a%d", n), "q*")
		}
		return []string{c15Line(defs, ops)}
	}
	return nil
}

// c15EnumMax: trees of up to 6 nodes in the quick tier, up to 7 nodes when the shards are large (thorough tier).
func c15EnumMax() int {
	def := 6
	if vhEnvInt("VERIF_N", 0) >= 2500 {
		def = 7
	}
	return vhEnvInt("C15_ENUM_MAXN", def)
}

// c15Random: trees of up to 60 nodes in several shapes, interleaved prunes, duplicates, wrong numbers,
// headers whose primary flag cannot be determined.
func c15Random(r *vhRng, fork bool) string {
	n := 2 + r.Intn(r.Pick(6, 12, 25, 60))
	shape := r.Intn(5)
	defs := make([]*c15Def, n)
	defs[0] = &c15Def{parent: -1}
	if r.Chance(1, 3) {
		defs[0].number = uint(r.Pick(1, 2, 100))
	}
	arrMode := r.Intn(4)
	for i := 1; i < n; i++ {
		var p int
		switch shape {
		case 0: // uniform recursive tree
			p = r.Intn(i)
		case 1: // long chains with rare forks
			p = i - 1
			if r.Chance(1, 5) {
				p = r.Intn(i)
			}
		case 2: // wide: parents among the first few nodes
			p = r.Intn(1 + i/4)
		case 3: // many siblings under one parent, then chains
			p = r.Pick(0, 0, i-1, i/2)
		default: // forks near the tips
			p = i - 1 - r.Intn(1+min(i-1, 3))
		}
		d := &c15Def{parent: p, kind: c15Kinds[r.Intn(3)], number: defs[p].number + 1}
		if r.Chance(1, 40) {
			d.kind = "nxg"[r.Intn(3)]
		}
		if r.Chance(1, 40) {
			d.number = uint(max(0, int(d.number)+r.Pick(-1, 1, 2)))
			if r.Chance(1, 4) {
				d.number = 0
			}
		}
		switch arrMode {
		case 0:
			d.arr = 0
		case 1:
			d.arr = int64(r.Intn(2))
		case 2:
			d.arr = int64(i)
		default:
			d.arr = int64(r.Intn(4)) * 1000000007
		}
		defs[i] = d
	}
	var ops []string
	sample := func() string {
		if n <= 9 {
			return "q*"
		}
		k := 3 + r.Intn(4)
		ids := make([]string, k)
		for j := range ids {
			ids[j] = strconv.Itoa(r.Intn(n))
		}
		return "q" + strings.Join(ids, ".")
	}
	qEvery := r.Pick(1, 3, 8)
	if n > 25 {
		qEvery = r.Pick(8, 20)
	}
	pruneP := r.Pick(0, 10, 25)
	for i := 1; i < n; i++ {
		ops = append(ops, fmt.Sprintf("a%d", i))
		if r.Chance(1, 25) {
			ops = append(ops, fmt.Sprintf("a%d", 1+r.Intn(i))) // duplicate (or block lost by an earlier prune)
		}
		if pruneP > 0 && r.Chance(1, pruneP) {
			ops = append(ops, fmt.Sprintf("f%d", r.Intn(i+1)), sample())
		}
		if i%qEvery == 0 {
			ops = append(ops, sample())
		}
	}
	ops = append(ops, sample(), fmt.Sprintf("f%d", r.Intn(n)), sample())
	if r.Chance(1, 2) {
		ops = append(ops, fmt.Sprintf("f%d", r.Intn(n)), sample())
	}
	return c15Line(defs, ops)
}

func c15Gen(r *vhRng) string {
	if l := c15Enum(c15GlobalIndex(), c15EnumMax()); l != nil {
		return l[0]
	}
	return c15Random(r, false)
}

func TestVerifC15(t *testing.T) {
	if os.Getenv("C15_FIX") != "" {
		// helper for writing corpus lines: prints every VERIF_LINES line with corrected hash8 fields
		data, _ := os.ReadFile(os.Getenv("C15_FIX"))
		for _, l := range strings.Split(string(data), "\n") {
			for i := 0; i < 64 && strings.TrimSpace(l) != ""; i++ {
				_, bad := c15Parse(l)
				if !strings.HasPrefix(bad, "bad-hash ") {
					break
				}
				var k int
				var want string
				fmt.Sscanf(bad, "bad-hash %d want=%s", &k, &want)
				parts := strings.SplitN(l, "|", 2)
				ds := strings.Split(parts[0], ",")
				f := strings.Split(ds[k], ".")
				if k == 0 {
					f[2] = want
				} else {
					f[3] = want
				}
				ds[k] = strings.Join(f, ".")
				l = strings.Join(ds, ",") + "|" + parts[1]
			}
			fmt.Println("FIXED " + l)
		}
		return
	}
	vhMain(t, c15Gen, c15Run)
}
