//go:build verif

package keystore

import (
	"bytes"
	"crypto/aes"
	"crypto/cipher"
	"crypto/rand"
	"encoding/json"
	"fmt"
	"os"
	"path/filepath"
	"strconv"
	"strings"
	"testing"

	"github.com/ChainSafe/gossamer/lib/crypto"
	"github.com/ChainSafe/gossamer/lib/crypto/ed25519"
	"github.com/ChainSafe/gossamer/lib/crypto/secp256k1"
	"github.com/ChainSafe/gossamer/lib/crypto/sr25519"
)

// Case lines: see lean/Gossamer/Driver/C37.lean.

var (
	c37Dir string // per-test temp dir (t.TempDir, removed by the testing package)
	c37Seq int
)

// c37WithRand runs f with crypto/rand.Reader replaced by a reader over rnd (Encrypt draws its
// nonce from rand.Reader): the nonce of the case is a fact stated on the case line.
func c37WithRand(rnd []byte, f func()) {
	old := rand.Reader
	rand.Reader = bytes.NewReader(rnd)
	defer func() { rand.Reader = old }()
	f()
}

// c37Snap remembers the contents of caller-owned slices; changed() reports whether a public
// call wrote through any of them (observable " !mut").
type c37Snap struct{ refs, copies [][]byte }

func c37Snapshot(ss ...[]byte) *c37Snap {
	sn := &c37Snap{}
	for _, x := range ss {
		sn.refs = append(sn.refs, x)
		sn.copies = append(sn.copies, append([]byte{}, x...))
	}
	return sn
}

func (sn *c37Snap) changed() string {
	for i := range sn.refs {
		if !bytes.Equal(sn.refs[i], sn.copies[i]) {
			return " !mut"
		}
	}
	return ""
}

func c37Pw2(pw []byte, tok string) []byte {
	if tok == "=" {
		return pw
	}
	return vhUnhex(tok)
}

func c37Mutate(ct []byte, mu string) ([]byte, bool) {
	f := strings.Split(mu, ":")
	out := append([]byte{}, ct...)
	switch {
	case len(f) == 1 && f[0] == "none":
		return out, true
	case len(f) == 2 && f[0] == "trunc":
		k, err := strconv.Atoi(f[1])
		if err != nil || k < 0 {
			return nil, false
		}
		if k > len(out) {
			k = len(out)
		}
		return out[:k:k], true // cap == len: no hidden bytes behind the slice
	case len(f) == 2 && f[0] == "flip":
		i, err := strconv.Atoi(f[1])
		if err != nil || i < 0 {
			return nil, false
		}
		if len(out) == 0 {
			return out, true
		}
		i %= 8 * len(out)
		out[i/8] ^= 1 << uint(i%8)
		return out, true
	case len(f) == 2 && f[0] == "nonce":
		n := vhUnhex(f[1])
		rest := []byte{}
		if len(out) > 12 {
			rest = out[12:]
		}
		return append(append([]byte{}, n...), rest...), true
	case len(f) == 2 && f[0] == "ext":
		return append(out, vhUnhex(f[1])...), true
	case len(f) == 2 && f[0] == "pre":
		return append(append([]byte{}, vhUnhex(f[1])...), out...), true
	}
	return nil, false
}

func c37Shape(ct, rnd []byte) string {
	n := "x"
	if len(ct) >= 12 && len(rnd) >= 12 && bytes.Equal(ct[:12], rnd[:12]) {
		n = "n"
	}
	return fmt.Sprintf("%d %s", len(ct), n)
}

func c37NewKey(scheme string, kb []byte) (crypto.PrivateKey, error) {
	switch scheme {
	case "ed25519":
		return ed25519.NewPrivateKey(kb)
	case "sr25519":
		return sr25519.NewPrivateKey(kb)
	case "secp256k1":
		return secp256k1.NewPrivateKey(kb)
	}
	return nil, fmt.Errorf("scheme")
}

func c37Scheme(pk crypto.PrivateKey) string {
	switch pk.(type) {
	case *ed25519.PrivateKey:
		return "ed25519"
	case *sr25519.PrivateKey:
		return "sr25519"
	case *secp256k1.PrivateKey:
		return "secp256k1"
	}
	return "?"
}

func c37ShowB(m []byte, err error, orig []byte) string {
	if err != nil {
		return "err"
	}
	if bytes.Equal(m, orig) {
		return "ok same"
	}
	return "ok diff"
}

func c37ShowK(k crypto.PrivateKey, err error, scheme string, kb []byte) string {
	if err != nil {
		return "err"
	}
	if k == nil {
		return "ok nil"
	}
	if c37Scheme(k) == scheme && bytes.Equal(k.Encode(), kb) {
		return "ok same"
	}
	return "ok diff"
}

func c37Kt(tok string) string {
	if tok == "~" {
		return ""
	}
	return tok
}

func c37TmpFile() string {
	if c37Dir == "" {
		d, err := os.MkdirTemp("", "C37")
		if err != nil {
			panic(err)
		}
		c37Dir = d
	}
	c37Seq++
	return filepath.Join(c37Dir, fmt.Sprintf("k%d.key", c37Seq))
}

func c37File(scheme string, kb, pw, pw2, rnd []byte, fm string) string {
	pk, err := c37NewKey(scheme, kb)
	if err != nil {
		return "kerr"
	}
	path := c37TmpFile()
	defer os.Remove(path)
	var werr error
	sn := c37Snapshot(kb, pw, pw2, pk.Encode())
	c37WithRand(rnd, func() { werr = EncryptAndWriteToFile(path, pk, pw) })
	if werr != nil {
		if len(rnd) < 12 {
			return "eerr"
		}
		return "werr"
	}
	raw, err := os.ReadFile(path)
	if err != nil {
		return "harness-read"
	}
	ks := new(EncryptedKeystore)
	if err := json.Unmarshal(raw, ks); err != nil {
		return "harness-json"
	}
	pub, err := pk.Public()
	p := "q"
	if err == nil && ks.PublicKey == pub.Hex() {
		p = "p"
	}
	hd := fmt.Sprintf("%s %s %s ", c37Shape(ks.Ciphertext, rnd), ks.Type, p)
	canon := false
	rewrite := true
	f := strings.SplitN(fm, ":", 2)
	switch f[0] {
	case "none":
		rewrite = false
	case "ct":
		if len(f) != 2 {
			return "bad-op"
		}
		ct, ok := c37Mutate(ks.Ciphertext, f[1])
		if !ok {
			return "bad-op"
		}
		ks.Ciphertext = ct
	case "type":
		if len(f) != 2 {
			return "bad-op"
		}
		ks.Type = f[1]
	case "pub":
		ks.PublicKey += "00"
	case "noct":
		ks.Ciphertext = nil
	case "ftrunc":
		d, err := strconv.Atoi(f[1])
		if err != nil || d < 0 {
			return "bad-op"
		}
		if d > len(raw) {
			d = len(raw)
		}
		raw = raw[:len(raw)-d]
		rewrite = false
		if err := os.WriteFile(path, raw, 0600); err != nil {
			return "harness-write"
		}
	case "fflip":
		i, err := strconv.Atoi(f[1])
		if err != nil || i < 0 {
			return "bad-op"
		}
		i %= 8 * len(raw)
		raw[i/8] ^= 1 << uint(i%8)
		rewrite = false
		canon = true
		if err := os.WriteFile(path, raw, 0600); err != nil {
			return "harness-write"
		}
	case "missing":
		rewrite = false
		os.Remove(path)
	default:
		return "bad-op"
	}
	if rewrite {
		data, err := json.MarshalIndent(ks, "", "\t")
		if err != nil {
			return "harness-marshal"
		}
		if err := os.WriteFile(path, append(data, '\n'), 0600); err != nil {
			return "harness-write"
		}
	}
	return hd + vhCatch(func() string {
		k, err := ReadFromFileAndDecrypt(path, pw2)
		res := c37ShowK(k, err, scheme, kb)
		if canon && (res == "err" || res == "ok same") {
			return "safe"
		}
		return res
	}) + sn.changed()
}

// c37RunSeq runs several decryptions against ONE stored ciphertext (the same in-memory buffer for
// the raw/key paths, the same file for the file path).  Line:
//
//	seq enc <msg> <pw> <rnd>|op;op;…      seq key <scheme> <kb> <pw> <rnd>|…     seq file <scheme> <kb> <pw> <rnd>|…
//	op = d <pw2>            decrypt the stored buffer/file itself
//	   | t <pw2> <mut>      decrypt a tampered COPY of it
//
// Output: <len> <n>|o1;o2;…  each o = outcome [!mut] [!alias]; !mut = a caller-owned slice (stored
// buffer, password, key bytes) or the stored file changed during the call; !alias = the bytes of the
// first key/plaintext handed out changed afterwards.
func c37RunSeq(line string) string {
	parts := strings.SplitN(line, "|", 2)
	if len(parts) != 2 {
		return "bad-op"
	}
	h := strings.Split(parts[0], " ")
	var ops [][]string
	for _, o := range strings.Split(parts[1], ";") {
		of := strings.Split(o, " ")
		if !((of[0] == "d" && len(of) == 2) || (of[0] == "t" && len(of) == 3)) {
			return "bad-op"
		}
		ops = append(ops, of)
	}
	var kind, scheme string
	var orig, pw, rnd []byte
	switch {
	case len(h) == 5 && h[1] == "enc":
		kind, orig, pw, rnd = "enc", vhUnhex(h[2]), vhUnhex(h[3]), vhUnhex(h[4])
	case len(h) == 6 && (h[1] == "key" || h[1] == "file"):
		kind, scheme, orig, pw, rnd = h[1], h[2], vhUnhex(h[3]), vhUnhex(h[4]), vhUnhex(h[5])
	default:
		return "bad-op"
	}
	var pk crypto.PrivateKey
	var err error
	if kind != "enc" {
		if pk, err = c37NewKey(scheme, orig); err != nil {
			return "kerr"
		}
	}
	origCopy := append([]byte{}, orig...)
	var stored []byte // raw/key path: THE buffer every `d` op decrypts
	var path, path2 string
	var raw0 []byte
	sn := c37Snapshot(orig, pw)
	switch kind {
	case "enc":
		c37WithRand(rnd, func() { stored, err = Encrypt(orig, pw) })
	case "key":
		c37WithRand(rnd, func() { stored, err = EncryptPrivateKey(pk, pw) })
	case "file":
		path, path2 = c37TmpFile(), c37TmpFile()
		defer os.Remove(path)
		defer os.Remove(path2)
		c37WithRand(rnd, func() { err = EncryptAndWriteToFile(path, pk, pw) })
	}
	if err != nil {
		return "eerr" + sn.changed()
	}
	var ks EncryptedKeystore
	if kind == "file" {
		if raw0, err = os.ReadFile(path); err != nil {
			return "harness-read"
		}
		if err := json.Unmarshal(raw0, &ks); err != nil {
			return "harness-json"
		}
		stored = ks.Ciphertext
	}
	stored0 := append([]byte{}, stored...)
	head := c37Shape(stored, rnd) + sn.changed()
	var first []byte     // bytes of the first plaintext / key handed out (the live slice)
	var firstCopy []byte // what they were when handed out
	var firstKey crypto.PrivateKey
	outs := make([]string, 0, len(ops))
	for _, of := range ops {
		pw2 := c37Pw2(pw, of[1])
		target := stored
		if of[0] == "t" {
			var ok bool
			if target, ok = c37Mutate(stored0, of[2]); !ok {
				return "bad-op"
			}
		}
		g := c37Snapshot(stored, target, pw, pw2, orig)
		var gotB []byte
		var gotK crypto.PrivateKey
		res := vhCatch(func() string {
			switch kind {
			case "enc":
				m, err := Decrypt(target, pw2)
				if err == nil {
					gotB = m
				}
				return c37ShowB(m, err, origCopy)
			case "key":
				k, err := DecryptPrivateKey(target, pw2, scheme)
				if err == nil {
					gotK = k
				}
				return c37ShowK(k, err, scheme, origCopy)
			default:
				p := path
				if of[0] == "t" {
					k2 := ks
					k2.Ciphertext = target
					data, err := json.MarshalIndent(&k2, "", "\t")
					if err != nil {
						return "harness-marshal"
					}
					if err := os.WriteFile(path2, append(data, '\n'), 0600); err != nil {
						return "harness-write"
					}
					p = path2
				}
				k, err := ReadFromFileAndDecrypt(p, pw2)
				if err == nil {
					gotK = k
				}
				return c37ShowK(k, err, scheme, origCopy)
			}
		})
		res += g.changed()
		if !bytes.Equal(stored, stored0) && !strings.Contains(res, "!mut") {
			res += " !mut"
		}
		if kind == "file" {
			if now, err := os.ReadFile(path); err != nil || !bytes.Equal(now, raw0) {
				if !strings.Contains(res, "!mut") {
					res += " !mut"
				}
			}
		}
		// aliasing: the first result handed out must keep its bytes
		if first != nil || firstKey != nil {
			cur := first
			if firstKey != nil {
				cur = firstKey.Encode()
			}
			if !bytes.Equal(cur, firstCopy) {
				res += " !alias"
			}
		} else if gotB != nil || gotK != nil {
			first, firstKey = gotB, gotK
			if gotK != nil {
				firstCopy = append([]byte{}, gotK.Encode()...)
			} else {
				firstCopy = append([]byte{}, gotB...)
				if first == nil {
					first = []byte{}
				}
			}
		}
		outs = append(outs, res)
	}
	return head + "|" + strings.Join(outs, ";")
}

// c37RunHist: a history of keystore calls inside one process state, passwords handed over either
// in ONE reused buffer (`b`: the bytes are copied into the same backing array before the call, as a
// caller that reads every password into one buffer does) or in a fresh slice (`f`).
//
//	hist|op;op;…
//	op = e <slot> <kind> <data> <pw> <rnd> <b|f>     kind = m (raw message) | k:<scheme> | f:<scheme> (key file)
//	   | d <slot> <pw> <b|f>                         decrypt what the slot holds
//
// Output: o1;o2;…|s<i>:<dec right pw> <dec other pw>,…   (the part after | is computed after the
// history with fresh slices for every slot that holds a ciphertext).
type c37Slot struct {
	kind, scheme string
	data, pw, ct []byte
	path         string
}

func c37RunHist(line string) string {
	parts := strings.SplitN(line, "|", 2)
	if len(parts) != 2 || parts[0] != "hist" {
		return "bad-op"
	}
	pwbuf := make([]byte, 0, 2048)
	give := func(pw []byte, mode string) []byte {
		if mode == "b" {
			pwbuf = pwbuf[:len(pw)]
			copy(pwbuf, pw)
			return pwbuf
		}
		return append([]byte{}, pw...)
	}
	var slots [4]*c37Slot
	defer func() {
		for _, sl := range slots {
			if sl != nil && sl.path != "" {
				os.Remove(sl.path)
			}
		}
	}()
	dec := func(sl *c37Slot, pw []byte) string {
		sn := c37Snapshot(sl.ct, sl.data, pw)
		return vhCatch(func() string {
			switch sl.kind {
			case "m":
				m, err := Decrypt(sl.ct, pw)
				return c37ShowB(m, err, sl.data)
			case "k":
				k, err := DecryptPrivateKey(sl.ct, pw, sl.scheme)
				return c37ShowK(k, err, sl.scheme, sl.data)
			default:
				k, err := ReadFromFileAndDecrypt(sl.path, pw)
				return c37ShowK(k, err, sl.scheme, sl.data)
			}
		}) + sn.changed()
	}
	var outs []string
	for _, o := range strings.Split(parts[1], ";") {
		f := strings.Split(o, " ")
		switch {
		case f[0] == "e" && len(f) == 7:
			i, err := strconv.Atoi(f[1])
			if err != nil || i < 0 || i > 3 || (f[6] != "b" && f[6] != "f") || len(f[4]) > 4096 {
				return "bad-op"
			}
			kd := strings.SplitN(f[2], ":", 2)
			sl := &c37Slot{kind: kd[0], data: vhUnhex(f[3]), pw: vhUnhex(f[4])}
			rnd := vhUnhex(f[5])
			var pk crypto.PrivateKey
			if sl.kind == "k" || sl.kind == "f" {
				if len(kd) != 2 {
					return "bad-op"
				}
				sl.scheme = kd[1]
				if pk, err = c37NewKey(sl.scheme, sl.data); err != nil {
					outs = append(outs, "kerr")
					continue
				}
			} else if sl.kind != "m" {
				return "bad-op"
			}
			pw := give(sl.pw, f[6])
			sn := c37Snapshot(sl.data, pw)
			var ct []byte
			switch sl.kind {
			case "m":
				c37WithRand(rnd, func() { ct, err = Encrypt(sl.data, pw) })
			case "k":
				c37WithRand(rnd, func() { ct, err = EncryptPrivateKey(pk, pw) })
			default:
				sl.path = c37TmpFile()
				c37WithRand(rnd, func() { err = EncryptAndWriteToFile(sl.path, pk, pw) })
				if err == nil {
					raw, rerr := os.ReadFile(sl.path)
					ks := new(EncryptedKeystore)
					if rerr != nil || json.Unmarshal(raw, ks) != nil {
						return "harness-read"
					}
					ct = ks.Ciphertext
				}
			}
			if err != nil {
				if sl.path != "" {
					os.Remove(sl.path)
				}
				outs = append(outs, "eerr"+sn.changed())
				continue
			}
			sl.ct = ct
			if old := slots[i]; old != nil && old.path != "" {
				os.Remove(old.path)
			}
			slots[i] = sl
			outs = append(outs, "ok "+c37Shape(ct, rnd)+sn.changed())
		case f[0] == "d" && len(f) == 4:
			i, err := strconv.Atoi(f[1])
			if err != nil || i < 0 || i > 3 || (f[3] != "b" && f[3] != "f") || len(f[2]) > 4096 {
				return "bad-op"
			}
			if slots[i] == nil {
				outs = append(outs, "none")
				continue
			}
			outs = append(outs, dec(slots[i], give(vhUnhex(f[2]), f[3])))
		default:
			return "bad-op"
		}
	}
	var fin []string
	for i, sl := range slots {
		if sl == nil {
			continue
		}
		right := append([]byte{}, sl.pw...)
		other := append([]byte{}, sl.pw...)
		if len(other) == 0 {
			other = []byte{0}
		} else {
			other[len(other)-1] ^= 1
		}
		fin = append(fin, fmt.Sprintf("s%d:%s %s", i, dec(sl, right), dec(sl, other)))
	}
	return strings.Join(outs, ";") + "|" + strings.Join(fin, ",")
}

func c37Run(line string) string {
	if strings.HasPrefix(line, "hist|") {
		return c37RunHist(line)
	}
	if strings.HasPrefix(line, "seq ") {
		return c37RunSeq(line)
	}
	f := strings.Split(line, " ")
	switch {
	case f[0] == "const" && len(f) == 1:
		blk, _ := aes.NewCipher(make([]byte, 32))
		g, _ := cipher.NewGCM(blk)
		return fmt.Sprintf("%d %d", g.NonceSize(), g.Overhead())
	case f[0] == "enc" && len(f) == 6:
		msg, pw, rnd := vhUnhex(f[1]), vhUnhex(f[2]), vhUnhex(f[4])
		pw2 := c37Pw2(pw, f[3])
		var ct []byte
		var err error
		sn := c37Snapshot(msg, pw)
		c37WithRand(rnd, func() { ct, err = Encrypt(msg, pw) })
		if err != nil {
			return "eerr" + sn.changed()
		}
		mct, ok := c37Mutate(ct, f[5])
		if !ok {
			return "bad-op"
		}
		sn = c37Snapshot(msg, pw, pw2, mct, ct)
		return c37Shape(ct, rnd) + " " + vhCatch(func() string {
			m, err := Decrypt(mct, pw2)
			return c37ShowB(m, err, msg)
		}) + sn.changed()
	case f[0] == "key" && len(f) == 8:
		kb, pw, rnd := vhUnhex(f[2]), vhUnhex(f[3]), vhUnhex(f[5])
		pw2 := c37Pw2(pw, f[4])
		pk, err := c37NewKey(f[1], kb)
		if err != nil {
			return "kerr"
		}
		var ct []byte
		sn := c37Snapshot(kb, pw, pk.Encode())
		c37WithRand(rnd, func() { ct, err = EncryptPrivateKey(pk, pw) })
		if err != nil {
			return "eerr" + sn.changed()
		}
		mct, ok := c37Mutate(ct, f[7])
		if !ok {
			return "bad-op"
		}
		sn = c37Snapshot(kb, pw, pw2, mct, ct, pk.Encode())
		return c37Shape(ct, rnd) + " " + vhCatch(func() string {
			k, err := DecryptPrivateKey(mct, pw2, c37Kt(f[6]))
			return c37ShowK(k, err, f[1], kb)
		}) + sn.changed()
	case f[0] == "file" && len(f) == 7:
		kb, pw, rnd := vhUnhex(f[2]), vhUnhex(f[3]), vhUnhex(f[5])
		return c37File(f[1], kb, pw, c37Pw2(pw, f[4]), rnd, f[6])
	case f[0] == "swap" && len(f) == 5:
		msg, pw, r1, r2 := vhUnhex(f[1]), vhUnhex(f[2]), vhUnhex(f[3]), vhUnhex(f[4])
		var c1, c2 []byte
		var e1, e2 error
		c37WithRand(r1, func() { c1, e1 = Encrypt(msg, pw) })
		c37WithRand(r2, func() { c2, e2 = Encrypt(msg, pw) })
		if e1 != nil || e2 != nil {
			return "eerr"
		}
		a := append(append([]byte{}, c2[:12]...), c1[12:]...)
		b := append(append([]byte{}, c1[:12]...), c2[12:]...)
		sn := c37Snapshot(a, b, pw, msg, c1, c2)
		return vhCatch(func() string {
			m, err := Decrypt(a, pw)
			return c37ShowB(m, err, msg)
		}) + " " + vhCatch(func() string {
			m, err := Decrypt(b, pw)
			return c37ShowB(m, err, msg)
		}) + sn.changed()
	case f[0] == "dec" && len(f) == 3:
		data, pw := vhUnhex(f[1]), vhUnhex(f[2])
		data = data[:len(data):len(data)]
		sn := c37Snapshot(data, pw)
		return vhCatch(func() string {
			m, err := Decrypt(data, pw)
			return c37ShowB(m, err, nil)
		}) + sn.changed()
	case f[0] == "deck" && len(f) == 4:
		data, pw := vhUnhex(f[1]), vhUnhex(f[2])
		data = data[:len(data):len(data)]
		sn := c37Snapshot(data, pw)
		return vhCatch(func() string {
			k, err := DecryptPrivateKey(data, pw, c37Kt(f[3]))
			return c37ShowK(k, err, "", nil)
		}) + sn.changed()
	}
	return "bad-op"
}

// ---------------------------------------------------------------- generators

var c37Schemes = []string{"ed25519", "sr25519", "secp256k1"}

// c37GenKey draws a valid private key of the scheme through the package's own constructors and
// returns its Encode() bytes.
func c37GenKey(r *vhRng, scheme string) []byte {
	for {
		seed := r.Bytes(32)
		switch scheme {
		case "ed25519":
			kp, err := ed25519.NewKeypairFromSeed(seed)
			if err == nil {
				return kp.Private().Encode()
			}
		case "sr25519":
			kp, err := sr25519.NewKeypairFromSeed(seed)
			if err == nil {
				return kp.Private().Encode()
			}
		default:
			seed[0] &= 0x7f // below the group order
			seed[31] |= 1   // non-zero
			return seed
		}
	}
}

var c37Unicode = []string{
	"p\u00e4ssw\u00f6rd", "\u043f\u0430\u0440\u043e\u043b\u044c", "\u5bc6\u7801\U0001F511", "\u00e9", "e\u0301", "\u202epassword", "pass word\t\n", "\x00", "\x00\x00", "\u00ff",
}

func c37GenPw(r *vhRng) []byte {
	switch r.Intn(20) {
	case 0, 1, 2, 3:
		return []byte{}
	case 4:
		return r.Bytes(1024)
	case 5:
		return bytes.Repeat([]byte("a"), 1024)
	case 6, 7, 8, 9, 10:
		return []byte(c37Unicode[r.Intn(len(c37Unicode))])
	case 11, 12:
		return r.Bytes(1 + r.Intn(4))
	case 13, 14:
		return r.Bytes(r.Pick(31, 32, 33, 63, 64, 65, 127, 128, 129))
	default:
		return []byte("Password" + strconv.Itoa(r.Intn(3)))
	}
}

// c37GenPw2 draws the decryption password token: mostly "=" or a near miss of pw.
func c37GenPw2(r *vhRng, pw []byte, same bool) string {
	if same {
		if r.Chance(1, 8) {
			return vhHex(pw) // same password spelled out
		}
		return "="
	}
	var q []byte
	switch r.Intn(8) {
	case 0:
		if len(pw) > 0 {
			q = append([]byte{}, pw...)
			q[r.Intn(len(q))] ^= 1 << uint(r.Intn(8))
		} else {
			q = []byte{0}
		}
	case 1:
		q = append(append([]byte{}, pw...), 0)
	case 2:
		if len(pw) > 0 {
			q = pw[:len(pw)-1]
		} else {
			q = []byte(" ")
		}
	case 3:
		q = []byte{}
		if len(pw) == 0 {
			q = []byte("\x00")
		}
	case 4:
		q = []byte(strings.ToUpper(string(pw)))
	case 5:
		q = append([]byte{0}, pw...)
	case 6: // canonically equivalent unicode spelling: different bytes, hence a different password
		q = []byte(strings.ReplaceAll(string(pw), "\u00e9", "e\u0301"))
	default:
		q = c37GenPw(r)
	}
	if bytes.Equal(q, pw) {
		q = append(q, 'x')
	}
	return vhHex(q)
}

// c37GenMut draws a ciphertext mutation for a blob of length n (= 12 + |msg| + 16).
func c37GenMut(r *vhRng, n int) string {
	switch r.Intn(12) {
	case 0, 1, 2, 3:
		return "trunc:" + strconv.Itoa(r.Intn(n+1)) // every length 0..n (n = unchanged)
	case 4:
		return "trunc:" + strconv.Itoa(r.Pick(0, 1, 11, 12, 13, 27, 28, 29, n-17, n-16, n-15, n-1, n, n+1))
	case 5, 6, 7:
		return "flip:" + strconv.Itoa(r.Intn(8*n))
	case 8:
		return "flip:" + strconv.Itoa(r.Pick(0, 7, 8, 95, 96, 97, 8*(n-16)-1, 8*(n-16), 8*n-1))
	case 9:
		nn := r.Bytes(12)
		return "nonce:" + vhHex(nn)
	case 10:
		return "ext:" + vhHex(r.Bytes(1+r.Intn(17)))
	default:
		return "pre:" + vhHex(r.Bytes(1+r.Intn(13)))
	}
}

func c37GenRnd(r *vhRng) []byte {
	switch r.Intn(40) {
	case 0:
		return r.Bytes(r.Intn(12)) // the randomness source runs dry: Encrypt must return an error
	case 1:
		return make([]byte, 12)
	case 2:
		return r.Bytes(12 + r.Intn(8)) // only the first 12 bytes are consumed
	}
	return r.Bytes(12)
}

var c37Types = []string{"ed25519", "sr25519", "secp256k1", "", "unknown", "ED25519", "Sr25519", "secp256k1 ", "gran", "babe"}

// c37GenSeq draws 2..5 decryptions against one stored ciphertext: right password, near-miss
// password, tampered copy, in every order (always ending with the right password on the buffer).
func c37GenSeq(r *vhRng, pw []byte, n int) string {
	k := 1 + r.Intn(4)
	ops := make([]string, 0, k+1)
	for i := 0; i < k; i++ {
		switch r.Intn(4) {
		case 0:
			ops = append(ops, "d =")
		case 1:
			ops = append(ops, "d "+c37GenPw2(r, pw, false))
		case 2:
			ops = append(ops, "t = "+c37GenMut(r, n))
		default:
			ops = append(ops, "t "+c37GenPw2(r, pw, false)+" "+c37GenMut(r, n))
		}
	}
	if r.Chance(5, 6) {
		ops = append(ops, "d =")
	}
	return strings.Join(ops, ";")
}

// c37GenHist draws a history of 3..9 calls over a pool of passwords that mostly have the SAME
// length (one bit different, all zero, wiped tail): exactly what an in-place reuse of a password
// buffer produces.
func c37GenHist(r *vhRng) string {
	var base []byte
	switch r.Intn(6) {
	case 0:
		base = []byte{}
	case 1:
		base = r.Bytes(1 + r.Intn(3))
	case 2:
		base = []byte(c37Unicode[r.Intn(len(c37Unicode))])
	case 3:
		base = r.Bytes(r.Pick(32, 64, 200))
	default:
		base = []byte("correct horse battery staple")[:8+r.Intn(21)]
	}
	pool := [][]byte{base}
	if len(base) > 0 {
		a := append([]byte{}, base...)
		a[r.Intn(len(a))] ^= 1 << uint(r.Intn(8))
		b := make([]byte, len(base)) // wiped buffer
		c := append([]byte{}, base...)
		c[len(c)-1] ^= 0x80
		pool = append(pool, a, b, c)
	}
	if r.Chance(1, 2) {
		pool = append(pool, append(append([]byte{}, base...), byte(r.Intn(256)))) // other length
	}
	if r.Chance(1, 4) && len(base) > 0 {
		pool = append(pool, base[:len(base)-1])
	}
	pick := func() []byte { return pool[r.Intn(len(pool))] }
	mode := func() string {
		if r.Chance(3, 4) {
			return "b"
		}
		return "f"
	}
	n := 3 + r.Intn(7)
	ops := make([]string, 0, n)
	used := 0
	for i := 0; i < n; i++ {
		if used == 0 || r.Chance(1, 3) {
			slot := r.Intn(3)
			scheme := c37Schemes[r.Intn(3)]
			var kind string
			var data []byte
			switch r.Intn(5) {
			case 0, 1:
				kind, data = "m", r.Bytes(r.Pick(0, 1, 16, 32, 33))
			case 2, 3:
				kind, data = "k:"+scheme, c37GenKey(r, scheme)
			default:
				kind, data = "f:"+scheme, c37GenKey(r, scheme)
			}
			ops = append(ops, fmt.Sprintf("e %d %s %s %s %s %s", slot, kind, vhHex(data), vhHex(pick()), vhHex(r.Bytes(12)), mode()))
			used++
		} else {
			ops = append(ops, fmt.Sprintf("d %d %s %s", r.Intn(3), vhHex(pick()), mode()))
		}
	}
	return "hist|" + strings.Join(ops, ";")
}

func c37Gen(r *vhRng) string {
	if r.Chance(1, 8) {
		return c37GenHist(r)
	}
	if r.Chance(1, 7) {
		scheme := c37Schemes[r.Intn(3)]
		pw := c37GenPw(r)
		if len(pw) > 200 {
			pw = pw[:r.Pick(100, 129, 200)]
		}
		rnd := r.Bytes(12)
		switch r.Intn(5) {
		case 0:
			msg := r.Bytes(r.Pick(0, 1, 16, 31, 32, 33, 64))
			return fmt.Sprintf("seq enc %s %s %s|%s", vhHex(msg), vhHex(pw), vhHex(rnd), c37GenSeq(r, pw, 28+len(msg)))
		case 1, 2:
			kb := c37GenKey(r, scheme)
			return fmt.Sprintf("seq key %s %s %s %s|%s", scheme, vhHex(kb), vhHex(pw), vhHex(rnd), c37GenSeq(r, pw, 28+len(kb)))
		default:
			kb := c37GenKey(r, scheme)
			return fmt.Sprintf("seq file %s %s %s %s|%s", scheme, vhHex(kb), vhHex(pw), vhHex(rnd), c37GenSeq(r, pw, 28+len(kb)))
		}
	}
	scheme := c37Schemes[r.Intn(3)]
	pw := c37GenPw(r)
	rnd := c37GenRnd(r)
	klen := 32
	if scheme == "ed25519" {
		klen = 64
	}
	switch c := r.Intn(100); {
	case c < 1:
		return "const"
	case c < 22: // raw Encrypt/Decrypt on arbitrary messages
		var msg []byte
		switch r.Intn(5) {
		case 0:
			msg = []byte{}
		case 1:
			msg = r.Bytes(r.Pick(1, 15, 16, 17, 31, 32, 33, 64))
		default:
			msg = r.Bytes(r.Intn(80))
		}
		same := r.Chance(3, 4)
		mu := "none"
		if r.Chance(3, 4) {
			mu = c37GenMut(r, 28+len(msg))
		}
		return fmt.Sprintf("enc %s %s %s %s %s", vhHex(msg), vhHex(pw), c37GenPw2(r, pw, same), vhHex(rnd), mu)
	case c < 55: // DecryptPrivateKey path
		kb := c37GenKey(r, scheme)
		if r.Chance(1, 40) { // wrong-length key material: NewPrivateKey must refuse
			kb = r.Bytes(r.Pick(0, 31, 33, 63, 64, 65, 32))
		}
		kt := scheme
		if r.Chance(1, 6) {
			kt = c37Types[r.Intn(len(c37Types))]
			if kt == "" {
				kt = "~"
			}
			kt = strings.ReplaceAll(kt, " ", "_")
		}
		same := r.Chance(3, 4)
		mu := "none"
		if r.Chance(3, 4) {
			mu = c37GenMut(r, 28+klen)
		}
		return fmt.Sprintf("key %s %s %s %s %s %s %s", scheme, vhHex(kb), vhHex(pw), c37GenPw2(r, pw, same), vhHex(rnd), kt, mu)
	case c < 88: // JSON key file path
		kb := c37GenKey(r, scheme)
		same := r.Chance(3, 4)
		var fm string
		switch m := r.Intn(20); {
		case m < 3:
			fm = "none"
		case m < 12:
			fm = "ct:" + c37GenMut(r, 28+klen)
		case m < 14:
			fm = "type:" + strings.ReplaceAll(c37Types[r.Intn(len(c37Types))], " ", "_")
		case m < 15:
			fm = "pub"
		case m < 16:
			fm = "noct"
		case m < 17:
			fm = "ftrunc:" + strconv.Itoa(r.Pick(0, 1, 2, 3, r.Intn(400), 100000))
		case m < 19:
			fm = "fflip:" + strconv.Itoa(r.Intn(1<<20))
		default:
			fm = "missing"
		}
		return fmt.Sprintf("file %s %s %s %s %s %s", scheme, vhHex(kb), vhHex(pw), c37GenPw2(r, pw, same), vhHex(rnd), fm)
	case c < 92:
		r1, r2 := r.Bytes(12), r.Bytes(12)
		if r.Chance(1, 6) {
			r2 = append([]byte{}, r1...)
			if r.Bool() {
				r2[r.Intn(12)] ^= 1 << uint(r.Intn(8))
			}
		}
		return fmt.Sprintf("swap %s %s %s %s", vhHex(r.Bytes(r.Intn(70))), vhHex(pw), vhHex(r1), vhHex(r2))
	case c < 97: // arbitrary bytes, all short lengths
		n := r.Intn(48)
		if r.Chance(1, 4) {
			n = r.Pick(0, 1, 11, 12, 13, 27, 28, 29, 60, 92)
		}
		return fmt.Sprintf("dec %s %s", vhHex(r.Bytes(n)), vhHex(pw))
	default:
		n := r.Intn(100)
		kt := strings.ReplaceAll(c37Types[r.Intn(len(c37Types))], " ", "_")
		if kt == "" {
			kt = "~"
		}
		return fmt.Sprintf("deck %s %s %s", vhHex(r.Bytes(n)), vhHex(pw), kt)
	}
}

func TestVerifC37(t *testing.T) {
	c37Dir = t.TempDir()
	vhMain(t, c37Gen, c37Run)
}
