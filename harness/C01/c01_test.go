//go:build verif

package inmemory

import (
	"encoding/hex"
	"fmt"
	"sort"
	"strconv"
	"strings"
	"testing"

	"github.com/ChainSafe/gossamer/pkg/trie"
)

// One case = `ver|op;op;...` with the mutating ops of C02 (put k v | del k | clr p | clrl p n).
// Observable: hex of `Hash()` after every op, `;`-joined, then
// `;R=<TrieLayout.Root(new trie, final entries ascending)>,<same, entries descending>`.

func c01Hash(t *InMemoryTrie) string {
	h, err := t.Hash()
	if err != nil {
		return "err"
	}
	return hex.EncodeToString(h[:])
}

func c01Run(line string) string {
	i := strings.IndexByte(line, '|')
	if i < 0 {
		return "bad-op"
	}
	var ver trie.TrieLayout
	switch line[:i] {
	case "0":
		ver = trie.V0
	case "1":
		ver = trie.V1
	default:
		return "bad-op"
	}
	t := NewEmptyTrie()
	t.SetVersion(ver)
	ops := strings.Split(line[i+1:], ";")
	outs := make([]string, 0, len(ops)+1)
	for _, op := range ops {
		f := strings.Fields(op)
		if len(f) == 0 {
			return "bad-op"
		}
		var err error
		switch {
		case f[0] == "put" && len(f) == 3:
			err = t.Put(vhUnhex(f[1]), vhUnhex(f[2]))
		case f[0] == "del" && len(f) == 2:
			err = t.Delete(vhUnhex(f[1]))
		case f[0] == "clr" && len(f) == 2:
			err = t.ClearPrefix(vhUnhex(f[1]))
		case f[0] == "clrl" && len(f) == 3:
			n, perr := strconv.ParseUint(f[2], 10, 32)
			if perr != nil {
				return "bad-op"
			}
			_, _, err = t.ClearPrefixLimit(vhUnhex(f[1]), uint32(n))
		case (f[0] == "get" || f[0] == "next" || f[0] == "keys") && len(f) == 2, f[0] == "entries" && len(f) == 1:
			// read-only ops of C02 lines: no effect on the root
		default:
			return "bad-op"
		}
		if err != nil {
			return "err"
		}
		outs = append(outs, c01Hash(t))
	}
	// TrieLayout.Root on the final entry list, both insertion orders
	m := t.Entries()
	ks := make([]string, 0, len(m))
	for k := range m {
		ks = append(ks, k)
	}
	sort.Strings(ks)
	asc := make(trie.Entries, 0, len(ks))
	for _, k := range ks {
		asc = append(asc, trie.Entry{Key: []byte(k), Value: m[k]})
	}
	desc := make(trie.Entries, 0, len(ks))
	for j := len(asc) - 1; j >= 0; j-- {
		desc = append(desc, asc[j])
	}
	r1, err1 := ver.Root(NewEmptyTrie(), asc)
	r2, err2 := ver.Root(NewEmptyTrie(), desc)
	if err1 != nil || err2 != nil {
		return "err"
	}
	outs = append(outs, fmt.Sprintf("R=%s,%s", hex.EncodeToString(r1[:]), hex.EncodeToString(r2[:])))
	return strings.Join(outs, ";")
}

// ---------------------------------------------------------------- generator

// value sizes around the V1 hashing threshold (32) and the inline Merkle-value threshold
var c01ValueSizes = []int{0, 1, 1, 2, 31, 32, 33, 40, 200}

func c01Value(r *vhRng) []byte {
	n := c01ValueSizes[r.Intn(len(c01ValueSizes))]
	v := make([]byte, n)
	b := byte(r.Intn(256))
	for i := range v {
		v[i] = b + byte(i)
	}
	return v
}

// stem lengths (bytes) so that partial keys land on the header length boundaries:
// 15/16, 31/32 nibbles (hashed branch / hashed leaf masks), 62..64 (plain mask 63) and
// 63+255 = 318 nibbles (first 255-run).
var c01StemLens = []int{0, 0, 1, 7, 8, 15, 16, 30, 31, 32, 33, 158, 159, 160}

func c01NewPool(r *vhRng) *c02Pool {
	p := &c02Pool{}
	p.alpha = c02Alphabets[r.Intn(len(c02Alphabets))]
	stemLen := c01StemLens[r.Intn(len(c01StemLens))]
	stem := make([]byte, stemLen)
	for i := range stem {
		stem[i] = p.alpha[r.Intn(len(p.alpha))]
	}
	n := 2 + r.Intn(6)
	for i := 0; i < n; i++ {
		var k []byte
		switch r.Intn(5) {
		case 0:
			// short key outside of the stem
			k = c02Key(r, p.alpha, 2)
		case 1:
			// a prefix of the stem: branches in the middle of the stem
			k = append([]byte{}, stem[:r.Intn(stemLen+1)]...)
		case 2:
			// stem + tail + long tail: long leaf partial keys below the stem
			tail := c01StemLens[r.Intn(len(c01StemLens))]
			k = append(append([]byte{}, stem...), c02Key(r, p.alpha, 1)...)
			for j := 0; j < tail; j++ {
				k = append(k, p.alpha[r.Intn(len(p.alpha))])
			}
		default:
			k = append(append([]byte{}, stem...), c02Key(r, p.alpha, 2)...)
		}
		p.keys = append(p.keys, k)
	}
	return p
}

// c01GenNested: a key that is a strict prefix of two or more other keys (a branch with its own
// value) gets values on both sides of the V1 hashing threshold or the empty value, is overwritten,
// and then the keys around it are deleted one by one (branch -> leaf, merges, re-insertions):
// the header variant must follow the value that is stored at that moment.
func c01GenNested(r *vhRng) string {
	alpha := c02Alphabets[r.Intn(len(c02Alphabets))]
	base := c02Key(r, alpha, 3)
	if r.Chance(1, 4) {
		base = append(make([]byte, c01StemLens[r.Intn(len(c01StemLens))]), base...)
	}
	nkids := 2 + r.Intn(3)
	kids := make([][]byte, 0, nkids)
	for len(kids) < nkids {
		k := append(append([]byte{}, base...), alpha[r.Intn(len(alpha))])
		k = append(k, c02Key(r, alpha, 2)...)
		kids = append(kids, k)
	}
	big := func() []byte {
		n := r.Pick(33, 33, 40, 200)
		v := make([]byte, n)
		b := byte(r.Intn(256))
		for i := range v {
			v[i] = b + byte(i)
		}
		return v
	}
	small := func() []byte {
		n := r.Pick(0, 0, 1, 31, 32)
		v := make([]byte, n)
		for i := range v {
			v[i] = byte(7 + i)
		}
		return v
	}
	val := func() []byte {
		if r.Chance(3, 5) {
			return big()
		}
		return small()
	}
	var ops []string
	put := func(k, v []byte) { ops = append(ops, "put "+vhHex(k)+" "+vhHex(v)) }
	del := func(k []byte) { ops = append(ops, "del "+vhHex(k)) }
	// build in a random order
	order := r.Intn(3)
	if order == 0 {
		put(base, val())
	}
	for i, k := range kids {
		put(k, val())
		if order == 1 && i == 0 {
			put(base, val())
		}
	}
	if order == 2 {
		put(base, val())
	}
	// overwrite across the threshold, then take the neighbourhood apart
	n := 2 + r.Intn(6)
	for i := 0; i < n; i++ {
		switch r.Intn(8) {
		case 0, 1:
			put(base, val())
		case 2:
			if len(base) > 0 {
				del(base)
			} else {
				put(base, small())
			}
		case 3, 4, 5:
			del(kids[r.Intn(len(kids))])
		case 6:
			put(kids[r.Intn(len(kids))], val())
		default:
			ops = append(ops, fmt.Sprintf("clrl %s %d", vhHex(kids[r.Intn(len(kids))]), 1+r.Intn(2)))
		}
	}
	ver := "1"
	if r.Chance(1, 5) {
		ver = "0"
	}
	return ver + "|" + strings.Join(ops, ";")
}

func c01Gen(r *vhRng) string {
	if r.Chance(2, 5) {
		return c01GenNested(r)
	}
	p := c01NewPool(r)
	if r.Chance(1, 4) {
		p = c02NewPool(r)
	}
	nops := 2 + r.Intn(9)
	ops := make([]string, 0, nops)
	for i := 0; i < nops; i++ {
		switch r.Intn(10) {
		case 0, 1, 2, 3, 4, 5:
			ops = append(ops, "put "+vhHex(p.key(r))+" "+vhHex(c01Value(r)))
		case 6, 7:
			k := p.key(r)
			if len(k) == 0 && r.Chance(3, 4) {
				k = p.key(r)
			}
			ops = append(ops, "del "+vhHex(k))
		case 8:
			ops = append(ops, "clr "+vhHex(p.prefix(r)))
		default:
			ops = append(ops, fmt.Sprintf("clrl %s %d", vhHex(p.prefix(r)), r.Intn(5)))
		}
	}
	ver := "0"
	if r.Chance(2, 3) {
		ver = "1"
	}
	return ver + "|" + strings.Join(ops, ";")
}

func TestVerifC01(t *testing.T) { vhMain(t, c01Gen, c01Run) }
