//go:build verif

package wazero_runtime

import (
	"math/big"
	"strings"
	"testing"

	"github.com/ChainSafe/gossamer/lib/runtime"
	"github.com/ChainSafe/gossamer/lib/runtime/storage"
	"github.com/ChainSafe/gossamer/pkg/scale"
	"github.com/ChainSafe/gossamer/pkg/trie"
	inmemory_trie "github.com/ChainSafe/gossamer/pkg/trie/inmemory"
)

// c09Store is a map-backed runtime.Storage: storageAppend only calls Get and Put.
type c09Store struct {
	runtime.Storage
	m    map[string][]byte
	puts int
}

func (s *c09Store) Get(key []byte) []byte { return s.m[string(key)] }
func (s *c09Store) Put(key, value []byte) error {
	s.puts++
	s.m[string(key)] = append([]byte{}, value...)
	return nil
}

// line: `app <cur|absent> <item>`  -> `<stored value hex>` (or `err`, `panic`)
//       `seq <cur|absent> <item>,<item>,...` -> value after appending every item in order
// ---------------------------------------------------------------- runs on a real TrieState

var c09TsKeys = []string{"61", "62", "6162"}

// c09RunTS: `ts|op;op;…` on a storage.TrieState over an empty in-memory trie.  Ops: `a K ITEM`
// (storageAppend), `p K VAL` (Put), `g K`, `b`/`r`/`c` (Start/Rollback/CommitTransaction), `cap K`
// (keep the slice Get returned), `snap` (outside transactions: continue on a snapshot of the trie
// and keep the old trie).  After every op: the value of every key in the current view | the
// CURRENT bytes of the captured slices | the values in the kept old trie.
func c09RunTS(line string) string {
	ts := storage.NewTrieState(inmemory_trie.NewEmptyTrie())
	depth := 0
	caps := map[string][]byte{}
	capSet := map[string]bool{}
	var old trie.Trie
	show := func() string {
		cur := make([]string, len(c09TsKeys))
		cp := make([]string, len(c09TsKeys))
		od := make([]string, len(c09TsKeys))
		for i, k := range c09TsKeys {
			cur[i] = vhHex(ts.Get(vhUnhex(k)))
			cp[i], od[i] = ".", "."
			if capSet[k] {
				cp[i] = vhHex(caps[k])
			}
			if old != nil {
				od[i] = vhHex(old.Get(vhUnhex(k)))
			}
		}
		return strings.Join(cur, "/") + "|" + strings.Join(cp, "/") + "|" + strings.Join(od, "/")
	}
	var outs []string
	for _, o := range strings.Split(strings.TrimPrefix(line, "ts|"), ";") {
		f := strings.Fields(o)
		res := vhCatch(func() string {
			switch {
			case len(f) == 3 && f[0] == "a":
				if err := storageAppend(ts, vhUnhex(f[1]), vhUnhex(f[2])); err != nil {
					return "err"
				}
			case len(f) == 3 && f[0] == "p":
				if err := ts.Put(vhUnhex(f[1]), vhUnhex(f[2])); err != nil {
					return "err"
				}
			case len(f) == 2 && f[0] == "g":
			case len(f) == 1 && f[0] == "b":
				ts.StartTransaction()
				depth++
			case len(f) == 1 && f[0] == "r":
				ts.RollbackTransaction()
				depth--
			case len(f) == 1 && f[0] == "c":
				ts.CommitTransaction()
				depth--
			case len(f) == 2 && f[0] == "cap":
				caps[f[1]] = ts.Get(vhUnhex(f[1])) // the very slice, not a copy
				capSet[f[1]] = true
			case len(f) == 1 && f[0] == "snap":
				if depth == 0 {
					old = ts.Trie()
					ts = storage.NewTrieState(old.(*inmemory_trie.InMemoryTrie).Snapshot())
				}
			default:
				return "bad-op"
			}
			return show()
		})
		outs = append(outs, res)
		if res == "panic" || res == "bad-op" || res == "err" {
			break
		}
	}
	return strings.Join(outs, ";")
}

// c09GenTS draws a well-nested run with several appends per key (so that stored slices have
// spare capacity), nested transactions that are rolled back or committed, captures and snapshots.
func c09GenTS(r *vhRng) string {
	var ops []string
	depth := 0
	item := func() string {
		switch r.Intn(4) {
		case 0:
			return vhHex(c09Compact(big.NewInt(0))) // an empty byte string item: 00
		case 1:
			return vhHex(append(c09Compact(big.NewInt(4)), r.Bytes(4)...))
		default:
			return vhHex(r.Bytes(1 + r.Intn(3)))
		}
	}
	key := func() string { return c09TsKeys[r.Pick(0, 0, 0, 1, 2)] }
	if r.Chance(1, 3) { // an existing list just below a prefix-width boundary, or an odd value
		switch r.Intn(3) {
		case 0:
			ops = append(ops, "p 61 "+vhHex(append(c09Compact(big.NewInt(int64(r.Pick(61, 62, 63)))), r.Bytes(r.Intn(4))...)))
		case 1:
			ops = append(ops, "p 61 "+vhHex(r.Bytes(1+r.Intn(3))))
		default:
			ops = append(ops, "p 62 "+vhHex(append(c09Compact(big.NewInt(2)), r.Bytes(2)...)))
		}
	}
	for i, n := 0, 4+r.Intn(14); i < n; i++ {
		switch x := r.Intn(20); {
		case x < 9:
			ops = append(ops, "a "+key()+" "+item())
		case x < 12 && depth < 4:
			ops = append(ops, "b")
			depth++
		case x < 14 && depth > 0:
			ops = append(ops, "r")
			depth--
		case x < 16 && depth > 0:
			ops = append(ops, "c")
			depth--
		case x < 18:
			ops = append(ops, "cap "+key())
		case x == 18 && depth == 0:
			ops = append(ops, "snap")
		default:
			ops = append(ops, "g "+key())
		}
	}
	for depth > 0 { // close what is open, mostly by rolling back
		if r.Chance(2, 3) {
			ops = append(ops, "r")
		} else {
			ops = append(ops, "c")
		}
		depth--
		if r.Bool() {
			ops = append(ops, "a "+key()+" "+item())
		}
	}
	return "ts|" + strings.Join(ops, ";")
}

func c09Run(line string) string {
	if strings.HasPrefix(line, "ts|") {
		return c09RunTS(line)
	}
	f := strings.Fields(line)
	if len(f) != 3 {
		return "bad-op"
	}
	key := []byte("k")
	st := &c09Store{m: map[string][]byte{}}
	if f[1] != "absent" {
		st.m[string(key)] = vhUnhex(f[1])
	}
	switch f[0] {
	case "app":
		item := vhUnhex(f[2])
		itemCopy := append([]byte{}, item...)
		if err := storageAppend(st, key, item); err != nil {
			return "err"
		}
		if st.puts != 1 || string(item) != string(itemCopy) || len(st.m) != 1 {
			return "bad-effects"
		}
		return vhHex(st.m[string(key)])
	case "seq":
		for _, it := range strings.Split(f[2], ",") {
			if err := storageAppend(st, key, vhUnhex(it)); err != nil {
				return "err"
			}
		}
		return vhHex(st.m[string(key)])
	}
	return "bad-op"
}

// c09Compact is the canonical compact encoding of n (via the big-integer encoder of pkg/scale).
func c09Compact(n *big.Int) []byte {
	b, err := scale.Marshal(n)
	if err != nil {
		panic(err)
	}
	return b
}

func c09Pow2(k int) *big.Int { return new(big.Int).Lsh(big.NewInt(1), uint(k)) }

// c09Len draws a length concentrated at the compact mode boundaries and at u32::MAX.
func c09Len(r *vhRng) *big.Int {
	switch r.Intn(10) {
	case 0:
		return big.NewInt(int64(r.Intn(70)))
	case 1, 2, 3:
		bases := []*big.Int{big.NewInt(64), c09Pow2(14), c09Pow2(30), c09Pow2(32), c09Pow2(40), c09Pow2(56),
			c09Pow2(64), c09Pow2(536), c09Pow2(16), c09Pow2(24), c09Pow2(8), c09Pow2(528)}
		b := bases[r.Intn(len(bases))]
		d := int64(r.Intn(5)) - 2
		v := new(big.Int).Add(b, big.NewInt(d))
		if v.Sign() < 0 || v.BitLen() > 536 {
			v = b
		}
		if v.BitLen() > 536 {
			v = new(big.Int).Sub(c09Pow2(536), big.NewInt(1))
		}
		return v
	case 4:
		return new(big.Int).SetBytes(r.Bytes(1 + r.Intn(4)))
	case 5:
		return new(big.Int).SetBytes(r.Bytes(4 + r.Intn(6)))
	case 6:
		return new(big.Int).SetBytes(r.Bytes(1 + r.Intn(67)))
	default:
		return big.NewInt(int64(r.Intn(1 << 16)))
	}
}

// c09NonCanon encodes a (small) n in a wider mode than necessary.
func c09NonCanon(r *vhRng, n uint64) []byte {
	le := func(v uint64, k int) []byte {
		b := make([]byte, k)
		for i := 0; i < k; i++ {
			b[i] = byte(v >> (8 * uint(i)))
		}
		return b
	}
	switch r.Intn(4) {
	case 0: // two-byte mode
		return le((n&0x3fff)<<2|1, 2)
	case 1: // four-byte mode
		return le((n&0x3fffffff)<<2|2, 4)
	case 2: // big-integer mode, 4 payload bytes
		return append([]byte{3}, le(n&0xffffffff, 4)...)
	default: // big-integer mode with k payload bytes, top bytes zero
		k := 5 + r.Intn(8)
		return append([]byte{byte((k-4)<<2 | 3)}, le(n, k)...)
	}
}

func c09Cur(r *vhRng) string {
	switch r.Intn(16) {
	case 0:
		return "absent"
	case 1:
		return "-"
	case 2: // 1..3 arbitrary bytes
		return vhHex(r.Bytes(1 + r.Intn(3)))
	case 3, 4: // non-canonical prefix (+ body)
		var n uint64
		switch r.Intn(4) {
		case 0:
			n = uint64(r.Intn(64))
		case 1:
			n = uint64(r.Pick(63, 64, 16383, 16384, 1<<30-1, 1<<30))
		case 2:
			n = uint64(r.Intn(1 << 14))
		default:
			n = r.U64() >> uint(r.Intn(64))
		}
		return vhHex(append(c09NonCanon(r, n), r.Bytes(r.Intn(6))...))
	case 5, 6: // truncated canonical prefix
		p := c09Compact(c09Len(r))
		return vhHex(p[:r.Intn(len(p))+0])
	case 7: // random bytes
		return vhHex(r.Bytes(r.Intn(12)))
	case 8: // arbitrary first byte in big-integer mode with random payload
		k := r.Intn(64)
		b := append([]byte{byte(k<<2 | 3)}, r.Bytes(r.Intn(k+4+3))...)
		if r.Bool() && len(b) > 1 {
			b[len(b)-1] = 0
		}
		return vhHex(b)
	default: // canonical prefix + body
		return vhHex(append(c09Compact(c09Len(r)), r.Bytes(r.Intn(10))...))
	}
}

func c09Gen(r *vhRng) string {
	if r.Chance(1, 4) {
		return c09GenTS(r)
	}
	if r.Chance(1, 8) {
		k := 1 + r.Intn(5)
		items := make([]string, k)
		for i := range items {
			items[i] = vhHex(r.Bytes(r.Intn(4)))
		}
		return "seq " + c09Cur(r) + " " + strings.Join(items, ",")
	}
	return "app " + c09Cur(r) + " " + vhHex(r.Bytes(r.Intn(6)))
}

func TestVerifC09(t *testing.T) { vhMain(t, c09Gen, c09Run) }
