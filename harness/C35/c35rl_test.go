//go:build verif

package ratelimiters

import (
	"fmt"
	"strconv"
	"strings"
	"sync"
	"testing"
	"time"

	"github.com/ChainSafe/gossamer/lib/common"
)

func c35rID(i int) common.Hash { return common.Hash{byte(i), 0x35} }

// c35rCount: number of recorded requests of id (in-package view of the cache entry).
func c35rCount(rl *SlidingWindowRateLimiter, i int) int { return len(rl.limits.Get(c35rID(i))) }

func c35rTable() string {
	t, err := ltTable("sliding_window.go", "SlidingWindowRateLimiter", []string{"maxReqs", "windowSize"})
	if err != nil || len(t) == 0 {
		return "table SlidingWindowRateLimiter|unparsable"
	}
	return "table SlidingWindowRateLimiter|" + ltText(t)
}

func c35rRun(line string) string {
	f := strings.Fields(line)
	if len(f) == 0 {
		return "bad-op"
	}
	switch f[0] {
	case "table":
		return "safe" // the Lean driver decides the table on the line; the property demands `safe`
	case "sw":
		return c35rConc(f[1:])
	case "swseq":
	default:
		return "bad-op"
	}
	parts := strings.Split(strings.TrimPrefix(line, "swseq "), "|")
	if len(parts) != 2 {
		return "bad-op"
	}
	max, err := strconv.ParseUint(parts[0], 10, 32)
	if err != nil {
		return "bad-op"
	}
	// a window of an hour: no request ever leaves the window during a case
	rl := NewSlidingWindowRateLimiter(uint32(max), time.Hour)
	var outs []string
	if parts[1] != "" {
		for _, op := range strings.Split(parts[1], ";") {
			g := strings.Fields(op)
			if len(g) != 2 {
				return "bad-op"
			}
			i, err := strconv.Atoi(g[1])
			if err != nil || i < 0 || i > 7 {
				return "bad-op"
			}
			switch g[0] {
			case "add":
				rl.AddRequest(c35rID(i))
				outs = append(outs, "_")
			case "exc":
				if rl.IsLimitExceeded(c35rID(i)) {
					outs = append(outs, "T")
				} else {
					outs = append(outs, "F")
				}
			default:
				return "bad-op"
			}
		}
	}
	var cs []string
	for i := 0; i < 4; i++ {
		cs = append(cs, strconv.Itoa(c35rCount(rl, i)))
	}
	return fmt.Sprintf("%s|c=%s", strings.Join(outs, ";"), strings.Join(cs, ","))
}

// c35rConc: `sw <seed> <goroutines> <perG>`.  G goroutines each record perG requests of the SAME
// id (and some of other ids) while two more keep asking IsLimitExceeded.  The limit is
// G*perG-1, so the final verdict is `true` exactly when every single request was recorded.
// All requests are inside the hour-long window, so the result does not depend on the schedule.
func c35rConc(f []string) string {
	if len(f) != 3 {
		return "bad-op"
	}
	seed, _ := strconv.Atoi(f[0])
	gs, _ := strconv.Atoi(f[1])
	per, _ := strconv.Atoi(f[2])
	if gs < 1 || gs > 16 || per < 1 || per > 400 {
		return "bad-op"
	}
	n := gs * per
	rl := NewSlidingWindowRateLimiter(uint32(n-1), time.Hour)
	var wg sync.WaitGroup
	start := make(chan struct{})
	stop := make(chan struct{})
	for g := 0; g < gs; g++ {
		wg.Add(1)
		go func(g int) {
			defer wg.Done()
			r := vhNewRng(uint64(seed*31 + g))
			<-start
			for i := 0; i < per; i++ {
				rl.AddRequest(c35rID(0))
				if r.Chance(1, 4) {
					rl.AddRequest(c35rID(1 + r.Intn(3)))
				}
			}
		}(g)
	}
	var wq sync.WaitGroup
	for g := 0; g < 2; g++ {
		wq.Add(1)
		go func() {
			defer wq.Done()
			<-start
			for {
				select {
				case <-stop:
					return
				default:
					rl.IsLimitExceeded(c35rID(0))
				}
			}
		}()
	}
	close(start)
	wg.Wait()
	close(stop)
	wq.Wait()
	ex := "F"
	if rl.IsLimitExceeded(c35rID(0)) {
		ex = "T"
	}
	return fmt.Sprintf("count=%d exceeded=%s", c35rCount(rl, 0), ex)
}

var c35rDrawn int

func c35rGen(r *vhRng) string {
	c35rDrawn++
	switch {
	case c35rDrawn == 1:
		return c35rTable()
	case c35rDrawn <= 4 || r.Intn(60) == 0:
		return fmt.Sprintf("sw %d %d %d", r.Intn(100000), 2+r.Intn(7), 20+r.Intn(80))
	}
	max := r.Intn(6)
	nops := 1 + r.Intn(25)
	var ops []string
	for i := 0; i < nops; i++ {
		id := r.Intn(3)
		if r.Chance(3, 5) {
			ops = append(ops, fmt.Sprintf("add %d", id))
		} else {
			ops = append(ops, fmt.Sprintf("exc %d", id))
		}
	}
	return fmt.Sprintf("swseq %d|%s", max, strings.Join(ops, ";"))
}

func TestVerifC35Limiter(t *testing.T) { vhMain(t, c35rGen, c35rRun) }
