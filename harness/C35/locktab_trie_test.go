//go:build verif

package inmemory

// Lock-table extraction (shared verbatim by harness/C34 and harness/C35; only the package clause
// differs).  Parses a Go source file at run time and derives, for every method of a struct type
// guarded by a sync.Mutex/sync.RWMutex field, which lock it takes and how it touches the other
// (mutable) fields of the struct:
//
//	<mode> <access>                         mode: none|RLock|Lock   access: pure|reads|writes
//	split <mode> <access> <mode> <access>…  the guarded fields are touched in several lock regions
//
// The analysis is syntactic: lock regions are delimited by Lock/RLock/Unlock/RUnlock calls on the
// mutex in source order (a deferred unlock holds to the end of the method); the body of a `go`
// statement runs outside the caller's critical section.  A write is: assignment / ++ / -- whose
// target is rooted at a guarded field or at a local variable obtained from one (pointer alias),
// delete(field, …), any call receiving &field, any method call on a guarded field that is not in
// the small list of read-only methods.  Everything else mentioning a guarded field is a read.
// A call recv.M() of another method of the same type contributes M's critical sections; a method
// whose accesses lie in two or more own regions, or that has a reading region followed by a
// writing region (check-then-act, also through such calls), is reported as `split`.  A method that
// only strings together complete operations of other methods (PopWithTimer polling Pop) is `pure`.

import (
	"go/ast"
	"go/parser"
	"go/token"
	"sort"
	"strings"
)

var ltPureMethods = map[string]bool{"Len": true, "Back": true, "Front": true}

type ltSeg struct {
	mode   string
	access int  // 0 pure 1 reads 2 writes
	call   bool // the region is a call of another locking method of the same receiver
}

var ltAccessName = []string{"pure", "reads", "writes"}

type ltAnalysis struct {
	recv      string
	guarded   map[string]bool // mutable, lock-protected fields
	immutable map[string]bool // fields set at construction only: reads are free, writes count
	mutexes   map[string]bool // names of mutex fields ("" = embedded)
	tainted   map[string]bool
	mode      string
	maxMode   string
	segs      []ltSeg
	callee    map[string][]ltSeg // second pass: the critical sections of the type's own methods
}

func ltIsMutexType(e ast.Expr) bool {
	if s, ok := e.(*ast.SelectorExpr); ok {
		if x, ok := s.X.(*ast.Ident); ok && x.Name == "sync" {
			return s.Sel.Name == "Mutex" || s.Sel.Name == "RWMutex"
		}
	}
	return false
}

// ltRecvTypeName returns the receiver's type name of a method declaration.
func ltRecvTypeName(fd *ast.FuncDecl) (typ, name string) {
	if fd.Recv == nil || len(fd.Recv.List) == 0 {
		return "", ""
	}
	f := fd.Recv.List[0]
	if len(f.Names) > 0 {
		name = f.Names[0].Name
	}
	t := f.Type
	for {
		switch x := t.(type) {
		case *ast.StarExpr:
			t = x.X
			continue
		case *ast.IndexExpr:
			t = x.X
			continue
		case *ast.IndexListExpr:
			t = x.X
			continue
		case *ast.ParenExpr:
			t = x.X
			continue
		case *ast.Ident:
			return x.Name, name
		}
		return "", name
	}
}

// mutexCall recognises recv.Lock() / recv.mu.Lock() etc. and returns the method name.
func (a *ltAnalysis) mutexCall(c *ast.CallExpr) string {
	sel, ok := c.Fun.(*ast.SelectorExpr)
	if !ok {
		return ""
	}
	switch sel.Sel.Name {
	case "Lock", "Unlock", "RLock", "RUnlock":
	default:
		return ""
	}
	switch x := sel.X.(type) {
	case *ast.Ident: // embedded mutex
		if x.Name == a.recv && a.mutexes[""] {
			return sel.Sel.Name
		}
	case *ast.SelectorExpr:
		if id, ok := x.X.(*ast.Ident); ok && id.Name == a.recv && a.mutexes[x.Sel.Name] {
			return sel.Sel.Name
		}
	}
	return ""
}

// fieldOf: e == recv.<field> for a non-mutex field → field name.
func (a *ltAnalysis) fieldOf(e ast.Expr) string {
	if s, ok := e.(*ast.SelectorExpr); ok {
		if id, ok := s.X.(*ast.Ident); ok && id.Name == a.recv && !a.mutexes[s.Sel.Name] {
			if a.guarded[s.Sel.Name] || a.immutable[s.Sel.Name] {
				return s.Sel.Name
			}
		}
	}
	return ""
}

// root peels index/selector/star/paren/type-assert/slice and reports the struct field or the
// tainted local the expression is rooted at; depth = number of peels.
func (a *ltAnalysis) root(e ast.Expr) (field string, taintedLocal bool, depth int) {
	for {
		if f := a.fieldOf(e); f != "" {
			return f, false, depth
		}
		switch x := e.(type) {
		case *ast.IndexExpr:
			e = x.X
		case *ast.SelectorExpr:
			e = x.X
		case *ast.StarExpr:
			e = x.X
		case *ast.ParenExpr:
			e = x.X
		case *ast.TypeAssertExpr:
			e = x.X
		case *ast.SliceExpr:
			e = x.X
		case *ast.Ident:
			return "", a.tainted[x.Name], depth
		default:
			return "", false, depth
		}
		depth++
	}
}

func (a *ltAnalysis) note(access int) {
	if len(a.segs) == 0 {
		a.segs = append(a.segs, ltSeg{a.mode, 0, false})
	}
	if n := len(a.segs); access > a.segs[n-1].access {
		a.segs[n-1].access = access
	}
}

func (a *ltAnalysis) noteWriteTarget(e ast.Expr) {
	f, t, depth := a.root(e)
	if f != "" {
		a.note(2) // writing a field (guarded or declared immutable) is a write
	} else if t && depth > 0 {
		a.note(2) // through a pointer obtained from a guarded field
	}
}

// aliasSource: does evaluating e yield a pointer/reference into the guarded data?  True for an
// expression rooted at a guarded field or at a tainted local, for a method call on such an
// expression (c.lruList.Back()), for a call receiving &field (heap.Pop(&spq.pq)) and for append
// of such values.  len/cap/make and other calls yield fresh values.
func (a *ltAnalysis) aliasSource(e ast.Expr) bool {
	for {
		switch x := e.(type) {
		case *ast.ParenExpr:
			e = x.X
			continue
		case *ast.TypeAssertExpr:
			e = x.X
			continue
		case *ast.StarExpr:
			e = x.X
			continue
		case *ast.UnaryExpr:
			e = x.X
			continue
		}
		break
	}
	if c, ok := e.(*ast.CallExpr); ok {
		if id, ok := c.Fun.(*ast.Ident); ok {
			if id.Name != "append" {
				return false // len, cap, make, new, conversions, local functions
			}
			for _, arg := range c.Args {
				if a.aliasSource(arg) {
					return true
				}
			}
			return false
		}
		if sel, ok := c.Fun.(*ast.SelectorExpr); ok {
			if f, t, _ := a.root(sel.X); (f != "" && a.guarded[f]) || t {
				return true
			}
		}
		for _, arg := range c.Args {
			if u, ok := arg.(*ast.UnaryExpr); ok && u.Op == token.AND {
				if f, _, _ := a.root(u.X); f != "" && a.guarded[f] {
					return true
				}
			}
		}
		return false
	}
	f, t, _ := a.root(e)
	return (f != "" && a.guarded[f]) || t
}

// setMode starts a new lock region (every Lock/Unlock call is a region boundary).
func (a *ltAnalysis) setMode(m string) {
	a.mode = m
	a.segs = append(a.segs, ltSeg{m, 0, false})
	rank := map[string]int{"none": 0, "RLock": 1, "Lock": 2}
	if rank[m] > rank[a.maxMode] {
		a.maxMode = m
	}
}

func (a *ltAnalysis) walk(n ast.Node) {
	ast.Inspect(n, func(n ast.Node) bool {
		switch x := n.(type) {
		case *ast.DeferStmt:
			if a.mutexCall(x.Call) != "" {
				return false // deferred unlock: the lock is held to the end
			}
		case *ast.GoStmt:
			saved := a.mode
			a.setMode("none")
			a.walk(x.Call)
			a.setMode(saved)
			return false
		case *ast.ExprStmt:
			if c, ok := x.X.(*ast.CallExpr); ok {
				switch a.mutexCall(c) {
				case "Lock":
					a.setMode("Lock")
					return false
				case "RLock":
					a.setMode("RLock")
					return false
				case "Unlock", "RUnlock":
					a.setMode("none")
					return false
				}
			}
		case *ast.AssignStmt:
			for _, l := range x.Lhs {
				a.noteWriteTarget(l)
			}
			// taint locals defined from guarded data
			rhsGuarded := false
			for _, r := range x.Rhs {
				if a.aliasSource(r) {
					rhsGuarded = true
				}
			}
			if rhsGuarded {
				for _, l := range x.Lhs {
					if id, ok := l.(*ast.Ident); ok && id.Name != "_" {
						a.tainted[id.Name] = true
					}
				}
			}
		case *ast.RangeStmt:
			if a.aliasSource(x.X) {
				for _, l := range []ast.Expr{x.Key, x.Value} {
					if id, ok := l.(*ast.Ident); ok && id.Name != "_" {
						a.tainted[id.Name] = true
					}
				}
			}
		case *ast.IncDecStmt:
			a.noteWriteTarget(x.X)
		case *ast.CallExpr:
			// recv.M(...) where M is a method of the same type with its own critical section(s):
			// those sections belong to this method's behaviour (check-then-act detection)
			if sel, ok := x.Fun.(*ast.SelectorExpr); ok && a.callee != nil {
				if id, ok := sel.X.(*ast.Ident); ok && id.Name == a.recv {
					if cs := a.callee[sel.Sel.Name]; len(cs) > 0 {
						if a.mode != "none" {
							for _, c := range cs { // called while already holding a lock
								a.note(c.access)
							}
						} else {
							for _, c := range cs {
								// a helper that takes no lock itself is part of this method's own accesses
								a.segs = append(a.segs, ltSeg{c.mode, c.access, c.mode != "none"})
							}
							a.segs = append(a.segs, ltSeg{a.mode, 0, false})
						}
					}
				}
			}
			if id, ok := x.Fun.(*ast.Ident); ok && id.Name == "delete" && len(x.Args) > 0 {
				if f, t, _ := a.root(x.Args[0]); f != "" || t {
					a.note(2)
				}
			}
			for _, arg := range x.Args {
				if u, ok := arg.(*ast.UnaryExpr); ok && u.Op == token.AND {
					if f, _, _ := a.root(u.X); f != "" {
						a.note(2) // &field handed to a callee (heap.Push(&spq.pq, …))
					}
				}
			}
			if sel, ok := x.Fun.(*ast.SelectorExpr); ok {
				if f, _, _ := a.root(sel.X); f != "" && a.guarded[f] && !ltPureMethods[sel.Sel.Name] {
					a.note(2) // mutating method on a guarded field (MoveToFront, PushFront, …)
				}
			}
		case ast.Expr:
			if f := a.fieldOf(x); f != "" && a.guarded[f] {
				a.note(1)
			}
		}
		// reading through a pointer obtained from a guarded field: elem.Value, item.index, p[i], *p
		var inner ast.Expr
		switch x := n.(type) {
		case *ast.SelectorExpr:
			inner = x.X
		case *ast.IndexExpr:
			inner = x.X
		case *ast.StarExpr:
			inner = x.X
		case *ast.SliceExpr:
			inner = x.X
		}
		for inner != nil {
			if p, ok := inner.(*ast.ParenExpr); ok {
				inner = p.X
				continue
			}
			if id, ok := inner.(*ast.Ident); ok && a.tainted[id.Name] {
				a.note(1)
			}
			break
		}
		return true
	})
}

// ltTable returns method name → entry for struct type `typ` declared in `file`.
func ltTable(file, typ string, immutable []string) (map[string]string, error) {
	fset := token.NewFileSet()
	f, err := parser.ParseFile(fset, file, nil, 0)
	if err != nil {
		return nil, err
	}
	fields := map[string]bool{}
	mutexes := map[string]bool{}
	ast.Inspect(f, func(n ast.Node) bool {
		ts, ok := n.(*ast.TypeSpec)
		if !ok || ts.Name.Name != typ {
			return true
		}
		st, ok := ts.Type.(*ast.StructType)
		if !ok {
			return false
		}
		for _, fl := range st.Fields.List {
			if ltIsMutexType(fl.Type) {
				if len(fl.Names) == 0 {
					mutexes[""] = true
					mutexes["Mutex"] = true
					mutexes["RWMutex"] = true
				}
				for _, nm := range fl.Names {
					mutexes[nm.Name] = true
				}
				continue
			}
			for _, nm := range fl.Names {
				fields[nm.Name] = true
			}
		}
		return false
	})
	imm := map[string]bool{}
	for _, i := range immutable {
		imm[i] = true
		delete(fields, i)
	}
	analyse := func(fd *ast.FuncDecl, recv string, callee map[string][]ltSeg) (*ltAnalysis, []ltSeg) {
		a := &ltAnalysis{recv: recv, guarded: fields, immutable: imm, mutexes: mutexes,
			tainted: map[string]bool{}, mode: "none", maxMode: "none", callee: callee}
		if recv != "" {
			a.walk(fd.Body)
		}
		var segs []ltSeg
		for _, s := range a.segs {
			if s.access > 0 {
				segs = append(segs, s)
			}
		}
		return a, segs
	}
	var methods []*ast.FuncDecl
	recvOf := map[*ast.FuncDecl]string{}
	for _, d := range f.Decls {
		fd, ok := d.(*ast.FuncDecl)
		if !ok || fd.Body == nil {
			continue
		}
		t, recv := ltRecvTypeName(fd)
		if t != typ {
			continue
		}
		methods = append(methods, fd)
		recvOf[fd] = recv
	}
	// pass 1: the critical sections each method has by itself
	direct := map[string][]ltSeg{}
	for _, fd := range methods {
		_, segs := analyse(fd, recvOf[fd], nil)
		direct[fd.Name.Name] = segs
	}
	// pass 2: including the critical sections of the receiver's own methods it calls
	out := map[string]string{}
	for _, fd := range methods {
		// an unexported helper that takes no lock itself (it relies on its callers' lock) is
		// accounted for at its call sites, where its accesses are inlined
		if !ast.IsExported(fd.Name.Name) && len(direct[fd.Name.Name]) > 0 {
			lockFree := true
			for _, sg := range direct[fd.Name.Name] {
				if sg.mode != "none" {
					lockFree = false
				}
			}
			if lockFree {
				continue
			}
		}
		a, segs := analyse(fd, recvOf[fd], direct)
		var own []ltSeg
		for _, s := range segs {
			if !s.call {
				own = append(own, s)
			}
		}
		// check-then-act: a region that reads, then a different region that writes
		checkThenAct := false
		for i := range segs {
			for j := i + 1; j < len(segs); j++ {
				if segs[i].access == 1 && segs[j].access == 2 {
					checkThenAct = true
				}
			}
		}
		switch {
		case len(own) >= 2 || (checkThenAct && len(segs) >= 2):
			parts := []string{"split"}
			for _, s := range segs {
				parts = append(parts, s.mode, ltAccessName[s.access])
			}
			out[fd.Name.Name] = strings.Join(parts, " ")
		case len(own) == 1:
			out[fd.Name.Name] = own[0].mode + " " + ltAccessName[own[0].access]
		default: // touches the guarded fields only through complete operations of other methods
			out[fd.Name.Name] = a.maxMode + " pure"
		}
	}
	return out, nil
}

func ltNames(t map[string]string) []string {
	var ns []string
	for n := range t {
		ns = append(ns, n)
	}
	sort.Strings(ns)
	return ns
}

// ltText renders the table as `Name:<entry>,Name:<entry>` sorted by name.
func ltText(t map[string]string) string {
	var parts []string
	for _, n := range ltNames(t) {
		parts = append(parts, n+":"+t[n])
	}
	return strings.Join(parts, ",")
}
