//go:build verif

package inmemory

import (
	"bytes"
	"fmt"
	"sort"
	"strconv"
	"strings"
	"sync"
	"testing"

	lrucache "github.com/ChainSafe/gossamer/lib/utils/lru-cache"
)

// c35tKey hands the key to the wrapper the way the mode says:
//
//	f  a fresh slice
//	s  the case's shared scratch buffer (overwritten by the next s/m call)
//	m  the scratch buffer, scribbled over right after the call returns
func c35tKey(scratch *[]byte, mode string, k []byte) []byte {
	if mode == "f" {
		return append([]byte{}, k...)
	}
	b := (*scratch)[:len(k)]
	copy(b, k)
	return b
}

func c35tAfter(scratch *[]byte, mode string, n int) {
	if mode == "m" {
		b := (*scratch)[:n]
		for i := range b {
			b[i] ^= 0xa5
		}
	}
}

func c35tShow(b []byte) string {
	if b == nil {
		return "nil"
	}
	return vhHex(b)
}

func c35tRun(line string) string {
	f := strings.Fields(line)
	if len(f) == 0 {
		return "bad-op"
	}
	if f[0] == "defcap" && len(f) == 2 {
		n, err := strconv.Atoi(f[1])
		if err != nil || n < 1 || n > 30000 {
			return "bad-op"
		}
		tc := NewTrieInMemoryCache()
		defer tc.valueCache.lru.Stop()
		for i := 0; i < n; i++ {
			tc.SetNode([]byte{byte(i), byte(i >> 8), 7}, []byte{1})
		}
		if tc.GetNode([]byte{0, 0, 7}) != nil {
			return "T"
		}
		return "F"
	}
	if f[0] == "table" {
		return "safe" // the Lean driver decides the table on the line; the property demands `safe`
	}
	if f[0] == "trieconc" {
		return c35tConc(f[1:])
	}
	if f[0] != "trie" {
		return "bad-op"
	}
	parts := strings.Split(strings.TrimPrefix(line, "trie "), "|")
	if len(parts) != 2 {
		return "bad-op"
	}
	capacity, err := strconv.ParseUint(parts[0], 10, 32)
	if err != nil {
		return "bad-op"
	}
	// the same wrapper type and methods as NewTrieInMemoryCache, with a small node capacity
	tc := &TrieInMemoryCache{
		nodeCache:  lrucache.NewLRUCache[string, []byte](uint(capacity)),
		valueCache: newLruCache(defaultValueCacheMaxSize),
	}
	defer tc.valueCache.lru.Stop()
	scratch := make([]byte, 16)
	var outs []string
	if parts[1] != "" {
		for _, op := range strings.Split(parts[1], ";") {
			g := strings.Fields(op)
			if len(g) < 3 || (g[1] != "f" && g[1] != "s" && g[1] != "m") {
				return "bad-op"
			}
			k := vhUnhex(g[2])
			if len(k) > 16 {
				return "bad-op"
			}
			key := c35tKey(&scratch, g[1], k)
			switch {
			case g[0] == "sn" && len(g) == 4:
				tc.SetNode(key, append([]byte{}, vhUnhex(g[3])...))
				outs = append(outs, "_")
			case g[0] == "gn" && len(g) == 3:
				outs = append(outs, c35tShow(tc.GetNode(key)))
			case g[0] == "sv" && len(g) == 4:
				tc.SetValue(key, append([]byte{}, vhUnhex(g[3])...))
				outs = append(outs, "_")
			case g[0] == "gv" && len(g) == 3:
				outs = append(outs, c35tShow(tc.GetValue(key)))
			default:
				return "bad-op"
			}
			c35tAfter(&scratch, g[1], len(k))
		}
	}
	return fmt.Sprintf("%s|vlen=%d", strings.Join(outs, ";"), tc.valueCache.lru.ItemCount())
}

// c35tTable: lock table of TrieInMemoryCache from trie_cache.go.  nodeCache / valueCache are set
// by the constructor only and are thread-safe objects themselves; any other field a method
// assigns or reads is shared mutable state and needs a lock.
func c35tTable() string {
	t, err := ltTable("trie_cache.go", "TrieInMemoryCache", []string{"nodeCache", "valueCache"})
	if err != nil || len(t) == 0 {
		return "table TrieInMemoryCache|unparsable"
	}
	return "table TrieInMemoryCache|" + ltText(t)
}

// c35tConc: `trieconc <seed> <G> <n>`.  G goroutines SetNode/GetNode over a small key set and a
// small node capacity; the value stored under a key always starts with that key, so every
// GetNode result must be nil or start with the key asked for.  `foreign` counts the others.
func c35tConc(f []string) string {
	if len(f) != 3 {
		return "bad-op"
	}
	seed, _ := strconv.Atoi(f[0])
	gs, _ := strconv.Atoi(f[1])
	n, _ := strconv.Atoi(f[2])
	if gs < 1 || gs > 16 || n < 1 || n > 20000 {
		return "bad-op"
	}
	tc := &TrieInMemoryCache{
		nodeCache:  lrucache.NewLRUCache[string, []byte](3),
		valueCache: newLruCache(defaultValueCacheMaxSize),
	}
	defer tc.valueCache.lru.Stop()
	foreign := make([]int, gs)
	var wg sync.WaitGroup
	for g := 0; g < gs; g++ {
		wg.Add(1)
		go func(g int) {
			defer wg.Done()
			r := vhNewRng(uint64(seed*53 + g))
			for i := 0; i < n; i++ {
				key := []byte{0x6b, byte(r.Intn(6))}
				if r.Chance(2, 5) {
					tc.SetNode(key, append(append([]byte{}, key...), byte(g), byte(i)))
				} else if v := tc.GetNode(key); v != nil && !bytes.HasPrefix(v, key) {
					foreign[g]++
				}
			}
		}(g)
	}
	wg.Wait()
	total := 0
	for _, x := range foreign {
		total += x
	}
	return fmt.Sprintf("foreign=%d", total)
}

var c35tDrawn int

func c35tGen(r *vhRng) string {
	c35tDrawn++
	switch {
	case c35tDrawn == 1:
		return c35tTable()
	case c35tDrawn <= 3 || r.Intn(150) == 0:
		return fmt.Sprintf("trieconc %d %d %d", r.Intn(100000), 2+r.Intn(6), 2000+r.Intn(3000))
	}
	if r.Intn(2000) == 0 {
		return fmt.Sprintf("defcap %d", r.Pick(9999, 10000, 10001, 10002))
	}
	capacity := 1 + r.Intn(6)
	nkeys := capacity + 1 + r.Intn(3)
	klen := 1 + r.Intn(3)
	keys := make([]string, nkeys)
	for i := range keys {
		b := r.Bytes(klen)
		b[0] = byte(i) // distinct
		if r.Chance(1, 8) {
			b = b[:1+r.Intn(klen)] // varying lengths, sometimes a prefix of another key
			b[0] = byte(i)
		}
		keys[i] = vhHex(b)
	}
	mode := func() string {
		switch r.Intn(10) {
		case 0, 1, 2:
			return "f"
		case 3:
			return "m"
		default:
			return "s"
		}
	}
	val := func() string { return vhHex(r.Bytes(r.Intn(3))) }
	nops := 2 + r.Intn(30)
	var ops []string
	used := map[string]bool{}
	for i := 0; i < nops; i++ {
		k := keys[r.Intn(nkeys)]
		used[k] = true
		switch x := r.Intn(100); {
		case x < 40:
			ops = append(ops, fmt.Sprintf("sn %s %s %s", mode(), k, val()))
		case x < 70:
			ops = append(ops, fmt.Sprintf("gn %s %s", mode(), k))
		case x < 85:
			ops = append(ops, fmt.Sprintf("sv %s %s %s", mode(), k, val()))
		default:
			ops = append(ops, fmt.Sprintf("gv %s %s", mode(), k))
		}
	}
	// finally look every key up through a fresh slice: what is reachable under its own key
	var ks []string
	for k := range used {
		ks = append(ks, k)
	}
	sort.Strings(ks)
	for _, k := range ks {
		ops = append(ops, "gv f "+k)
	}
	for _, k := range ks {
		ops = append(ops, "gn f "+k)
	}
	return fmt.Sprintf("trie %d|%s", capacity, strings.Join(ops, ";"))
}

func TestVerifC35Trie(t *testing.T) { vhMain(t, c35tGen, c35tRun) }
