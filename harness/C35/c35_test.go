//go:build verif

package lrucache

import (
	"fmt"
	"sort"
	"strconv"
	"strings"
	"sync"
	"testing"
)

// c35List prints the recency list front→back as `k=v,k=v` (`-` when empty).
func c35List(c *LRUCache[int, int]) string {
	var parts []string
	for e := c.lruList.Front(); e != nil; e = e.Next() {
		en := e.Value.(*Entry[int, int])
		parts = append(parts, fmt.Sprintf("%d=%d", en.key, en.value))
	}
	if len(parts) == 0 {
		return "-"
	}
	return strings.Join(parts, ",")
}

// c35Map prints the sorted map keys; `!` marks a map entry whose element is not an element of
// the list under that key.
func c35Map(c *LRUCache[int, int]) string {
	inList := map[any]int{}
	for e := c.lruList.Front(); e != nil; e = e.Next() {
		inList[e] = e.Value.(*Entry[int, int]).key
	}
	ok := true
	var ks []int
	for k, e := range c.cache {
		ks = append(ks, k)
		if lk, in := inList[e]; !in || lk != k {
			ok = false
		}
	}
	sort.Ints(ks)
	var parts []string
	for _, k := range ks {
		parts = append(parts, strconv.Itoa(k))
	}
	s := strings.Join(parts, ",")
	if s == "" {
		s = "-"
	}
	if !ok {
		s += "!"
	}
	return s
}

func c35Table() (map[string]string, error) {
	return ltTable("lru_cache.go", "LRUCache", nil)
}

func c35Run(line string) string {
	f := strings.Fields(line)
	if len(f) == 0 {
		return "bad-op"
	}
	switch {
	case f[0] == "table":
		// The line carries the lock table extracted from the current source when the case was
		// generated; the Lean driver decides it.  The property demands `safe`.
		return "safe"
	case f[0] == "race":
		return c35Race(f[1:])
	}
	parts := strings.Split(line, "|")
	if len(parts) != 2 {
		return "bad-op"
	}
	capacity, err := strconv.ParseUint(parts[0], 10, 64)
	if err != nil {
		return "bad-op"
	}
	c := NewLRUCache[int, int](uint(capacity))
	var outs []string
	if parts[1] != "" {
		for _, op := range strings.Split(parts[1], ";") {
			g := strings.Fields(op)
			switch {
			case len(g) == 2 && g[0] == "g":
				k, err := strconv.Atoi(g[1])
				if err != nil {
					return "bad-op"
				}
				outs = append(outs, fmt.Sprintf("%d:%s", c.Get(k), c35List(c)))
			case len(g) == 3 && g[0] == "p":
				k, err1 := strconv.Atoi(g[1])
				v, err2 := strconv.Atoi(g[2])
				if err1 != nil || err2 != nil {
					return "bad-op"
				}
				c.Put(k, v)
				outs = append(outs, "_:"+c35List(c))
			default:
				return "bad-op"
			}
		}
	}
	return fmt.Sprintf("%d|%s|map=%s", c.capacity, strings.Join(outs, ";"), c35Map(c))
}

// c35Race hammers one cache from several goroutines: `race <seed> <cap> <goroutines> <ops>`.
// Only meaningful in the -race build: the race detector aborts the binary on a data race.
func c35Race(f []string) string {
	if len(f) != 4 {
		return "bad-op"
	}
	seed, _ := strconv.Atoi(f[0])
	capacity, _ := strconv.Atoi(f[1])
	gs, _ := strconv.Atoi(f[2])
	ops, _ := strconv.Atoi(f[3])
	if gs > 16 || ops > 5000 {
		return "bad-op"
	}
	c := NewLRUCache[int, int](uint(capacity))
	var wg sync.WaitGroup
	bad := make([]bool, gs)
	for g := 0; g < gs; g++ {
		wg.Add(1)
		go func(g int) {
			defer wg.Done()
			r := vhNewRng(uint64(seed*131 + g))
			for i := 0; i < ops; i++ {
				k := r.Intn(capacity + 3)
				if r.Bool() {
					c.Put(k, k*7+1)
				} else if v := c.Get(k); v != 0 && v != k*7+1 {
					bad[g] = true // a value that was never stored under this key
				}
			}
		}(g)
	}
	wg.Wait()
	for _, b := range bad {
		if b {
			return "wrong-value"
		}
	}
	if len(c.cache) > int(c.capacity) || c.lruList.Len() != len(c.cache) {
		return "inconsistent"
	}
	return "ok"
}

func c35GenSeq(r *vhRng) string {
	var capacity uint64
	nkeys, nops := 0, 0
	switch r.Intn(20) {
	case 0: // default capacity: needs more than 20 keys to reach eviction
		capacity = 0
		nkeys, nops = 24, 30+r.Intn(50)
	case 1:
		capacity = uint64(r.Pick(19, 20, 21))
		nkeys, nops = 24, 30+r.Intn(50)
	case 2:
		capacity = []uint64{1 << 63, 1<<64 - 1, 1<<63 - 1}[r.Intn(3)]
		nkeys, nops = 4, r.Intn(12)
	default:
		capacity = uint64(1 + r.Intn(8))
		nkeys = int(capacity) + 1 + r.Intn(3)
		nops = r.Intn(40)
	}
	var ops []string
	filled := false
	for i := 0; i < nops; i++ {
		k := r.Intn(nkeys)
		switch {
		case !filled && r.Chance(1, 3) && capacity > 0 && capacity <= 8:
			// fill the cache to capacity with distinct keys, then touch some in a chosen order
			filled = true
			for j := 0; j < int(capacity); j++ {
				ops = append(ops, fmt.Sprintf("p %d %d", j, 1+r.Intn(9)))
			}
		case r.Chance(9, 20):
			ops = append(ops, fmt.Sprintf("g %d", k))
		default:
			ops = append(ops, fmt.Sprintf("p %d %d", k, r.Intn(10)))
		}
	}
	return fmt.Sprintf("%d|%s", capacity, strings.Join(ops, ";"))
}

// c35TableCase: the lock table of LRUCache, freshly extracted from lru_cache.go.
func c35TableCase() string {
	t, err := c35Table()
	if err != nil || len(t) == 0 {
		return "table LRUCache|unparsable"
	}
	return "table LRUCache|" + ltText(t)
}

var c35Drawn int

func c35Gen(r *vhRng) string {
	c35Drawn++
	if c35Drawn == 1 || r.Intn(400) == 0 { // every shard starts with the table case
		return c35TableCase()
	}
	return c35GenSeq(r)
}

func c35GenRace(r *vhRng) string {
	return fmt.Sprintf("race %d %d %d %d", r.Intn(1000), 1+r.Intn(8), 2+r.Intn(5), 200+r.Intn(800))
}

func TestVerifC35(t *testing.T)     { vhMain(t, c35Gen, c35Run) }
func TestVerifC35Race(t *testing.T) { vhMain(t, c35GenRace, c35Run) }
