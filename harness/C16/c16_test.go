//go:build verif

package blocktree

// Harness of C16 (fork choice).  Case lines have the format of C15 (see ../C15/c15_test.go, injected alongside).
// Every case is executed c16Reruns times on fresh trees so that Go's randomised iteration order of the leaf
// sync.Map / of `counts` varies; all executions must agree.  Output per op: the best block after the op
// (`a`: result code + best, `f`: best), `q`: GetHashByNumber on the best chain for every number in range and the
// primaryAncestorCount of every leaf.

import (
	"errors"
	"fmt"
	"strconv"
	"strings"
	"testing"
)

const c16Reruns = 8

func (e *c15Env) c16Step(op string) string {
	if len(op) < 2 {
		return "bad-op"
	}
	if op[0] == 'q' {
		lo, hi := e.numRange()
		var hs []string
		for n := lo; n <= hi; n++ {
			hs = append(hs, vhCatch(func() string {
				h, err := e.bt.GetHashByNumber(n)
				switch {
				case err == nil:
					return e.name(h)
				case errors.Is(err, ErrNumGreaterThanHighest):
					return "eH"
				case errors.Is(err, ErrNumLowerThanRoot):
					return "eL"
				case errors.Is(err, ErrNodeNotFound):
					return "eF"
				}
				return "e?"
			}))
		}
		// primaryAncestorCount of every leaf (the root must not be counted), leaves in definition order
		var ps []string
		for i, d := range e.c.defs {
			if n, err := e.bt.leaves.load(d.hash); err == nil {
				ps = append(ps, fmt.Sprintf("%d:%d", i, n.primaryAncestorCount(0)))
			}
		}
		return "H" + strings.Join(hs, ",") + " P" + strings.Join(ps, ".") + " b" + e.best()
	}
	i, err := strconv.Atoi(op[1:])
	if err != nil || i < 0 || i >= len(e.c.defs) {
		return "bad-op"
	}
	switch op[0] {
	case 'a':
		if i == 0 {
			return "bad-op"
		}
		return e.add(i) + " b" + e.best()
	case 'f':
		e.bt.Prune(e.c.defs[i].hash)
		return "b" + e.best()
	}
	return "bad-op"
}

func c16Once(c *c15Case) string {
	e := c15NewEnv(c)
	outs := make([]string, len(c.ops))
	for k, op := range c.ops {
		outs[k] = e.c16Step(op)
		if outs[k] == "bad-op" {
			return "bad-op"
		}
	}
	return strings.Join(outs, ";")
}

func c16Run(line string) string {
	c, bad := c15Parse(line)
	if c == nil {
		return bad
	}
	first := c16Once(c)
	for k := 1; k < c16Reruns; k++ {
		if again := c16Once(c); again != first {
			return "nondet " + first + " / " + again
		}
	}
	return first
}

// c16Enum: n nodes: (n-1)! parent sequences x 2^(n-1) primary marks x 2^(n-1) arrival patterns over {0,1}
// x finalisation choice (n < maxN: none or any node; n == maxN: none or one derived target).
func c16Enum(e, maxN int) []string {
	for n := 1; n <= maxN; n++ {
		tg := n + 1
		if n == maxN && n > 1 {
			tg = 2
		}
		m := 1 << uint(n-1)
		cnt := c15Fact(n-1) * m * m * tg
		if e >= cnt {
			e -= cnt
			continue
		}
		t := e % tg
		e /= tg
		arrs := e % m
		e /= m
		marks := e % m
		seq := e / m
		tgt := t - 1
		if tg == 2 && t == 1 {
			tgt = (seq*7 + marks*3 + arrs) % n
		}
		ps := c15Seq(n, seq)
		defs := make([]*c15Def, n)
		defs[0] = &c15Def{parent: -1}
		if (seq+marks+arrs)%5 == 0 {
			defs[0].number = 3
		}
		for i := 1; i < n; i++ {
			k := byte('s')
			if marks>>(uint(i-1))&1 == 1 {
				k = 'p'
			} else if (arrs+i)%2 == 0 {
				k = 'v'
			}
			defs[i] = &c15Def{parent: ps[i], kind: k, arr: int64(arrs >> uint(i-1) & 1), number: defs[ps[i]].number + 1}
		}
		var ops []string
		for i := 1; i < n; i++ {
			ops = append(ops, fmt.Sprintf("a%d", i))
		}
		if tgt >= 0 {
			ex := &c15Def{parent: tgt, kind: 's', arr: 1, number: defs[tgt].number + 1}
			defs = append(defs, ex)
			ops = append(ops, "q*", fmt.Sprintf("f%d", tgt), "q*", fmt.Sprintf("a%d", n))
		}
		ops = append(ops, "q*")
		return []string{c15Line(defs, ops)}
	}
	return nil
}

func c16EnumMax() int {
	def := 5
	if vhEnvInt("VERIF_N", 0) >= 20000 {
		def = 6
	}
	return vhEnvInt("C16_ENUM_MAXN", def)
}

func c16Gen(r *vhRng) string {
	if l := c16Enum(c15GlobalIndex(), c16EnumMax()); l != nil {
		return l[0]
	}
	return c15Random(r, true)
}

func TestVerifC16(t *testing.T) { vhMain(t, c16Gen, c16Run) }
