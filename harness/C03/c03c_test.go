//go:build verif

package inmemory

import (
	"fmt"
	"sort"
	"strconv"
	"strings"
	"testing"

	"github.com/ChainSafe/gossamer/pkg/trie"
)

// Property C03, third run: snapshot isolation of the CHILD TRIES.  One case = `child;op;op;...` on a
// growing list of trie handles: h0 = NewEmptyTrie(), every `snap hI` appends hI.Snapshot().
//   put h k v | del h k | ver h 0|1                                   -> ok
//   snap h                                                             -> h<new index>
//   hash h                                                             -> root hash
//   putc h child k v  (PutIntoChild)                                   -> ok | err
//   delc h child      (DeleteChild)                                    -> ok | err
//   getc h child k    (GetFromChild)                                   -> value | nil | err
//   clrc h child k    (ClearFromChild)                                 -> ok | err
//   gct h             (len(GetChildTries()))                           -> count
// Observable of an op: `<result> h0:<view> h1:<view> ...`; the view of a handle is its sorted
// Entries() followed, if GetChildTries() is not empty, by `{<root hash>:<entries>|...}` (sorted by
// root hash).  A Go panic inside an op is the observable `panic` and ends the case.

func c03cEntries(m map[string][]byte) string {
	if len(m) == 0 {
		return "empty"
	}
	ks := make([]string, 0, len(m))
	for k := range m {
		ks = append(ks, k)
	}
	sort.Strings(ks)
	parts := make([]string, len(ks))
	for i, k := range ks {
		v := m[k]
		vs := "nil"
		if v != nil {
			vs = vhHex(v)
		}
		parts[i] = vhHex([]byte(k)) + "=" + vs
	}
	return strings.Join(parts, ",")
}

func c03cView(t *InMemoryTrie) string {
	out := c03cEntries(t.Entries())
	cts := t.GetChildTries()
	if len(cts) == 0 {
		return out
	}
	hs := make([]string, 0, len(cts))
	byHex := map[string]trie.Trie{}
	for h, c := range cts {
		x := vhHex(h[:])
		hs = append(hs, x)
		byHex[x] = c
	}
	sort.Strings(hs)
	parts := make([]string, len(hs))
	for i, x := range hs {
		parts[i] = x + ":" + c03cEntries(byHex[x].Entries())
	}
	return out + "{" + strings.Join(parts, "|") + "}"
}

type c03cState struct{ hs []*InMemoryTrie }

func (s *c03cState) views() string {
	parts := make([]string, len(s.hs))
	for i, t := range s.hs {
		parts[i] = fmt.Sprintf("h%d:%s", i, c03cView(t))
	}
	return strings.Join(parts, " ")
}

func (s *c03cState) op(op string) string {
	f := strings.Fields(op)
	if len(f) == 1 && f[0] == "child" {
		return "ok"
	}
	if len(f) < 2 || len(f[1]) < 2 || f[1][0] != 'h' {
		return "bad-op"
	}
	i, err := strconv.Atoi(f[1][1:])
	if err != nil || i < 0 || i >= len(s.hs) {
		return "bad-op"
	}
	t := s.hs[i]
	switch {
	case f[0] == "put" && len(f) == 4:
		if err := t.Put(vhUnhex(f[2]), vhUnhex(f[3])); err != nil {
			return "err"
		}
		return "ok"
	case f[0] == "del" && len(f) == 3:
		if err := t.Delete(vhUnhex(f[2])); err != nil {
			return "err"
		}
		return "ok"
	case f[0] == "snap" && len(f) == 2:
		s.hs = append(s.hs, t.Snapshot())
		return fmt.Sprintf("h%d", len(s.hs)-1)
	case f[0] == "ver" && len(f) == 3:
		switch f[2] {
		case "0":
			t.SetVersion(trie.V0)
		case "1":
			t.SetVersion(trie.V1)
		default:
			return "bad-op"
		}
		return "ok"
	case f[0] == "hash" && len(f) == 2:
		h, err := t.Hash()
		if err != nil {
			return "err"
		}
		return vhHex(h[:])
	case f[0] == "putc" && len(f) == 5:
		if err := t.PutIntoChild(vhUnhex(f[2]), vhUnhex(f[3]), vhUnhex(f[4])); err != nil {
			return "err"
		}
		return "ok"
	case f[0] == "delc" && len(f) == 3:
		if err := t.DeleteChild(vhUnhex(f[2])); err != nil {
			return "err"
		}
		return "ok"
	case f[0] == "getc" && len(f) == 4:
		v, err := t.GetFromChild(vhUnhex(f[2]), vhUnhex(f[3]))
		if err != nil {
			return "err"
		}
		if v == nil {
			return "nil"
		}
		return vhHex(v)
	case f[0] == "clrc" && len(f) == 4:
		if err := t.ClearFromChild(vhUnhex(f[2]), vhUnhex(f[3])); err != nil {
			return "err"
		}
		return "ok"
	case f[0] == "gct" && len(f) == 2:
		return strconv.Itoa(len(t.GetChildTries()))
	}
	return "bad-op"
}

func c03cRun(line string) string {
	s := &c03cState{hs: []*InMemoryTrie{NewEmptyTrie()}}
	ops := strings.Split(line, ";")
	outs := make([]string, 0, len(ops))
	for _, op := range ops {
		op := op
		res := vhCatch(func() string { return s.op(op) })
		if res == "panic" || strings.HasPrefix(res, "panic ") {
			outs = append(outs, res)
			break
		}
		v := vhCatch(func() string { return s.views() })
		outs = append(outs, res+" "+v)
		if v == "panic" || strings.HasPrefix(v, "panic ") {
			break
		}
	}
	return strings.Join(outs, ";")
}

// ---------------------------------------------------------------- generator

func c03cGenLine(r *vhRng) string {
	alpha := []byte{0x10, 0x11, 0x1f, 0xa0}
	rnd := func(maxLen int) []byte {
		n := 1 + r.Intn(maxLen)
		k := make([]byte, n)
		for i := range k {
			k[i] = alpha[r.Intn(len(alpha))]
		}
		return k
	}
	nk := 2 + r.Intn(3)
	keys := make([][]byte, nk)
	for i := range keys {
		keys[i] = rnd(2)
	}
	key := func() []byte { return keys[r.Intn(len(keys))] }
	vals := [][]byte{{0x01}, {0x02}, r.Bytes(r.Pick(1, 33, 40))}
	val := func() []byte { return vals[r.Intn(len(vals))] }
	children := [][]byte{{0xc0}, {0xc1}, {0xc2}}
	child := func() []byte { return children[r.Intn(len(children))] }

	loose := r.Chance(1, 10) // also write through handles that have snapshots (known-finding region)
	nkids := []int{0}        // number of snapshots of each handle
	ops := []string{"child"}
	writable := func() int {
		c := []int{}
		for i, n := range nkids {
			if n == 0 || loose {
				c = append(c, i)
			}
		}
		if len(c) == 0 {
			return -1
		}
		if r.Chance(1, 2) {
			return c[len(c)-1-r.Intn(min(len(c), 3))]
		}
		return c[r.Intn(len(c))]
	}
	snap := func(h int) int {
		ops = append(ops, fmt.Sprintf("snap h%d", h))
		nkids[h]++
		nkids = append(nkids, 0)
		return len(nkids) - 1
	}
	write := func(h int) {
		switch r.Intn(10) {
		case 0, 1:
			ops = append(ops, fmt.Sprintf("put h%d %s %s", h, vhHex(key()), vhHex(val())))
		case 2:
			ops = append(ops, fmt.Sprintf("del h%d %s", h, vhHex(key())))
		case 3:
			ops = append(ops, fmt.Sprintf("clrc h%d %s %s", h, vhHex(child()), vhHex(key())))
		case 4:
			if r.Chance(1, 3) {
				ops = append(ops, fmt.Sprintf("delc h%d %s", h, vhHex(child())))
			}
		default:
			ops = append(ops, fmt.Sprintf("putc h%d %s %s %s", h, vhHex(child()), vhHex(key()), vhHex(val())))
		}
	}
	if r.Chance(1, 3) {
		ops = append(ops, "ver h0 1")
	}
	// the parent of the forks: child-less in half of the cases
	if r.Bool() {
		for i := r.Intn(3); i > 0; i-- {
			ops = append(ops, fmt.Sprintf("put h0 %s %s", vhHex(key()), vhHex(val())))
		}
	} else {
		for i := 1 + r.Intn(4); i > 0; i-- {
			write(0)
		}
	}
	steps := 4 + r.Intn(22)
	for s := 0; s < steps && len(nkids) < 9; s++ {
		switch r.Intn(10) {
		case 0, 1:
			// fork: a snapshot of any handle (siblings, snapshots of snapshots)
			h := r.Intn(len(nkids))
			if !loose && r.Chance(2, 3) {
				// prefer forking a handle that already has a snapshot, or the most recent one
				h = len(nkids) - 1
				for i, n := range nkids {
					if n > 0 && r.Bool() {
						h = i
					}
				}
			}
			snap(h)
		case 2:
			// two sibling forks with equal-content children, then one of them moves on
			h := r.Intn(len(nkids))
			a, b := snap(h), snap(h)
			c, k, v := child(), key(), val()
			ops = append(ops, fmt.Sprintf("putc h%d %s %s %s", a, vhHex(c), vhHex(k), vhHex(v)))
			c2 := c
			if r.Bool() {
				c2 = child()
			}
			ops = append(ops, fmt.Sprintf("putc h%d %s %s %s", b, vhHex(c2), vhHex(k), vhHex(v)))
			ops = append(ops, fmt.Sprintf("putc h%d %s %s %s", a, vhHex(c), vhHex(key()), vhHex(val())))
			ops = append(ops, fmt.Sprintf("getc h%d %s %s", b, vhHex(c2), vhHex(k)))
		case 3:
			if h := r.Intn(len(nkids)); true {
				ops = append(ops, fmt.Sprintf("getc h%d %s %s", h, vhHex(child()), vhHex(key())))
			}
		case 4:
			switch r.Intn(3) {
			case 0:
				ops = append(ops, fmt.Sprintf("gct h%d", r.Intn(len(nkids))))
			case 1:
				ops = append(ops, fmt.Sprintf("hash h%d", r.Intn(len(nkids))))
			default:
				if h := writable(); h >= 0 && r.Chance(1, 4) {
					ops = append(ops, fmt.Sprintf("ver h%d 1", h))
				}
			}
		default:
			if h := writable(); h >= 0 {
				write(h)
			}
		}
	}
	for i := range nkids {
		if r.Chance(1, 3) {
			ops = append(ops, fmt.Sprintf("getc h%d %s %s", i, vhHex(child()), vhHex(key())))
		}
	}
	return strings.Join(ops, ";")
}

func TestVerifC03C(t *testing.T) { vhMain(t, c03cGenLine, c03cRun) }
