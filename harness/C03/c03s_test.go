//go:build verif

package state

import (
	"fmt"
	"sort"
	"strconv"
	"strings"
	"testing"

	"github.com/ChainSafe/gossamer/internal/database"
	"github.com/ChainSafe/gossamer/lib/runtime/storage"
	"github.com/ChainSafe/gossamer/pkg/trie"
	inmemory_trie "github.com/ChainSafe/gossamer/pkg/trie/inmemory"
)

// Property C03, second run: snapshot isolation of the trie states handed out by dot/state
// InmemoryStorageState.  One in-memory Pebble database per case, a storage state with its cache of
// tries (`Tries`), a growing list of trie states: h0 = NewTrieState(NewEmptyTrie()); every
// successful `tstate hI` appends StorageState.TrieState(&root(hI)).  The line starts with the op
// `state` (it tells the driver which of the two C03 models to run).
//   state                                                                -> ok
//   put h k v | del h k | clr h p | ver h 0|1   (on the trie of the state)   -> ok
//   store h     (StoreTrie(ts, nil): cache the trie object + WriteDirty)      -> root hash
//   evict h     (tries.delete(root(h)): the next look-up of that root misses the cache)  -> ok
//   fresh       (a new InmemoryStorageState with an empty cache over the SAME database)  -> ok
//   tstate h    (TrieState(&root(h)): cached trie or LoadFromDB; root check; Snapshot)   -> h<new> | err
//   gs h k      (GetStorage(&root(h), k))                                     -> value hex | nil | err
//   ents h      (Entries(&root(h)))                                           -> sorted entries | err
//   hash h                                                                    -> root hash
// Observable of an op: `<result> h0:<entries> h1:<entries> ...`: the result token and the sorted
// Entries() of the trie of EVERY trie state handed out so far.  A Go panic is the observable
// `panic` and ends the case.

type c03sState struct {
	db database.Database
	ss *InmemoryStorageState
	hs []*storage.TrieState
}

func c03sTrie(ts *storage.TrieState) *inmemory_trie.InMemoryTrie {
	return ts.Trie().(*inmemory_trie.InMemoryTrie)
}

func c03sEntries(m map[string][]byte) string {
	if len(m) == 0 {
		return "empty"
	}
	ks := make([]string, 0, len(m))
	for k := range m {
		ks = append(ks, k)
	}
	sort.Strings(ks)
	parts := make([]string, len(ks))
	for i, k := range ks {
		v := m[k]
		vs := "nil"
		if v != nil {
			vs = vhHex(v)
		}
		parts[i] = vhHex([]byte(k)) + "=" + vs
	}
	return strings.Join(parts, ",")
}

func (s *c03sState) views() string {
	parts := make([]string, len(s.hs))
	for i, ts := range s.hs {
		parts[i] = fmt.Sprintf("h%d:%s", i, c03sEntries(c03sTrie(ts).Entries()))
	}
	return strings.Join(parts, " ")
}

func (s *c03sState) op(op string) string {
	f := strings.Fields(op)
	if len(f) == 1 && f[0] == "state" {
		return "ok"
	}
	if len(f) == 1 && f[0] == "fresh" {
		ss, err := NewStorageState(s.db, nil, NewTries())
		if err != nil {
			return "err"
		}
		s.ss = ss
		return "ok"
	}
	if len(f) < 2 || len(f[1]) < 2 || f[1][0] != 'h' {
		return "bad-op"
	}
	i, err := strconv.Atoi(f[1][1:])
	if err != nil || i < 0 || i >= len(s.hs) {
		return "bad-op"
	}
	ts := s.hs[i]
	t := c03sTrie(ts)
	switch {
	case f[0] == "put" && len(f) == 4:
		if err := t.Put(vhUnhex(f[2]), vhUnhex(f[3])); err != nil {
			return "err"
		}
		return "ok"
	case f[0] == "del" && len(f) == 3:
		if err := t.Delete(vhUnhex(f[2])); err != nil {
			return "err"
		}
		return "ok"
	case f[0] == "clr" && len(f) == 3:
		if err := t.ClearPrefix(vhUnhex(f[2])); err != nil {
			return "err"
		}
		return "ok"
	case f[0] == "ver" && len(f) == 3:
		switch f[2] {
		case "0":
			t.SetVersion(trie.V0)
		case "1":
			t.SetVersion(trie.V1)
		default:
			return "bad-op"
		}
		return "ok"
	case f[0] == "hash" && len(f) == 2:
		h := t.MustHash()
		return vhHex(h[:])
	case f[0] == "store" && len(f) == 2:
		if err := s.ss.StoreTrie(ts, nil); err != nil {
			return "err"
		}
		h := t.MustHash()
		return vhHex(h[:])
	case f[0] == "evict" && len(f) == 2:
		s.ss.tries.delete(t.MustHash())
		return "ok"
	case f[0] == "tstate" && len(f) == 2:
		root := t.MustHash()
		next, err := s.ss.TrieState(&root)
		if err != nil {
			return "err"
		}
		s.hs = append(s.hs, next)
		return fmt.Sprintf("h%d", len(s.hs)-1)
	case f[0] == "gs" && len(f) == 3:
		root := t.MustHash()
		v, err := s.ss.GetStorage(&root, vhUnhex(f[2]))
		if err != nil {
			return "err"
		}
		if v == nil {
			return "nil"
		}
		return vhHex(v)
	case f[0] == "ents" && len(f) == 2:
		root := t.MustHash()
		m, err := s.ss.Entries(&root)
		if err != nil {
			return "err"
		}
		return c03sEntries(m)
	}
	return "bad-op"
}

func c03sRun(line string) string {
	db, err := database.NewPebble("", true)
	if err != nil {
		return "err-db"
	}
	defer db.Close()
	ss, err := NewStorageState(db, nil, NewTries())
	if err != nil {
		return "err-db"
	}
	s := &c03sState{db: db, ss: ss, hs: []*storage.TrieState{storage.NewTrieState(inmemory_trie.NewEmptyTrie())}}
	ops := strings.Split(line, ";")
	outs := make([]string, 0, len(ops))
	for _, op := range ops {
		op := op
		res := vhCatch(func() string {
			r := s.op(op)
			if r == "bad-op" {
				return r
			}
			return r + " " + s.views()
		})
		outs = append(outs, res)
		if res == "panic" || strings.HasPrefix(res, "panic ") {
			break
		}
	}
	return strings.Join(outs, ";")
}

// ---------------------------------------------------------------- generator

var c03sAlphabets = [][]byte{
	{0x00, 0x01, 0x10},
	{0x10, 0x11, 0x1f},
	{0x12, 0x13, 0x30, 0x3f},
	{0xab, 0xa0, 0x0a, 0xb0},
}

// what the generator knows of a handle
type c03sH struct {
	stored bool // given to StoreTrie and not written since: its root is persisted
	frozen bool // given to StoreTrie at some point: callers stop writing to it
}

func c03sGenLine(r *vhRng) string {
	alpha := c03sAlphabets[r.Intn(len(c03sAlphabets))]
	rnd := func(maxLen int) []byte {
		n := r.Intn(maxLen + 1)
		k := make([]byte, n)
		for i := range k {
			k[i] = alpha[r.Intn(len(alpha))]
		}
		return k
	}
	keys := [][]byte{}
	nk := 2 + r.Intn(5)
	for i := 0; i < nk; i++ {
		if len(keys) > 0 && r.Chance(1, 3) {
			keys = append(keys, append(append([]byte{}, keys[r.Intn(len(keys))]...), rnd(2)...))
		} else {
			keys = append(keys, rnd(1+r.Intn(3)))
		}
	}
	key := func() []byte { return keys[r.Intn(len(keys))] }
	nv := 2 + r.Intn(3)
	vals := make([][]byte, nv)
	for i := range vals {
		switch r.Intn(6) {
		case 0:
			vals[i] = r.Bytes(r.Pick(31, 32, 33, 40))
		case 1:
			vals[i] = r.Bytes(r.Pick(8, 20))
		default:
			vals[i] = []byte{byte(1 + r.Intn(250))}
		}
	}
	val := func() []byte { return vals[r.Intn(len(vals))] }

	kfMode := r.Chance(1, 10) // also write through stored tries (known-finding region)
	hs := []*c03sH{{}}
	ops := []string{"state"}
	pick := func(ok func(*c03sH) bool) int {
		c := []int{}
		for i, h := range hs {
			if ok(h) {
				c = append(c, i)
			}
		}
		if len(c) == 0 {
			return -1
		}
		// prefer recent handles
		if r.Chance(1, 2) {
			return c[len(c)-1-r.Intn(min(len(c), 2))]
		}
		return c[r.Intn(len(c))]
	}
	writable := func(h *c03sH) bool { return kfMode || !h.frozen }
	stored := func(h *c03sH) bool { return h.stored }
	write := func(h int) {
		switch {
		case r.Chance(1, 12):
			ops = append(ops, fmt.Sprintf("clr h%d %s", h, vhHex(key())))
		case r.Chance(1, 4):
			ops = append(ops, fmt.Sprintf("del h%d %s", h, vhHex(key())))
		default:
			ops = append(ops, fmt.Sprintf("put h%d %s %s", h, vhHex(key()), vhHex(val())))
		}
		hs[h].stored = false
	}
	tstate := func(h int) int {
		ops = append(ops, fmt.Sprintf("tstate h%d", h))
		hs = append(hs, &c03sH{})
		return len(hs) - 1
	}
	if r.Bool() {
		ops = append(ops, "ver h0 1")
	}
	for i := 1 + r.Intn(5); i > 0; i-- {
		write(0)
	}
	steps := 5 + r.Intn(28)
	for s := 0; s < steps && len(hs) < 10; s++ {
		switch r.Intn(12) {
		case 0, 1, 2, 3:
			if h := pick(writable); h >= 0 {
				write(h)
			}
		case 4, 5:
			if h := pick(func(h *c03sH) bool { return !h.stored }); h >= 0 {
				ops = append(ops, fmt.Sprintf("store h%d", h))
				hs[h].stored, hs[h].frozen = true, true
			}
		case 6, 7:
			if h := pick(stored); h >= 0 {
				n := tstate(h)
				if r.Chance(1, 2) {
					write(n)
				}
			}
		case 8:
			// cache miss, then two trie states of the same root, writes through them
			if h := pick(stored); h >= 0 {
				if r.Bool() {
					ops = append(ops, fmt.Sprintf("evict h%d", h))
				} else {
					ops = append(ops, "fresh")
				}
				a := tstate(h)
				if r.Chance(1, 3) {
					write(a)
				}
				b := tstate(h)
				for i := 1 + r.Intn(3); i > 0; i-- {
					if r.Bool() {
						write(a)
					} else {
						write(b)
					}
				}
			}
		case 9:
			if h := pick(stored); h >= 0 {
				ops = append(ops, fmt.Sprintf("evict h%d", h))
			} else {
				ops = append(ops, "fresh")
			}
		case 10:
			if h := pick(stored); h >= 0 {
				if r.Bool() {
					ops = append(ops, fmt.Sprintf("ents h%d", h))
				} else {
					ops = append(ops, fmt.Sprintf("gs h%d %s", h, vhHex(key())))
				}
			}
		case 11:
			switch r.Intn(4) {
			case 0:
				ops = append(ops, "fresh")
			case 1:
				if h := pick(writable); h >= 0 && r.Chance(1, 3) {
					ops = append(ops, fmt.Sprintf("ver h%d 1", h))
				}
			default:
				ops = append(ops, fmt.Sprintf("hash h%d", r.Intn(len(hs))))
			}
		}
	}
	// every stored root once more, from the cache or from the database
	for i, h := range hs {
		if h.stored && r.Chance(1, 2) {
			ops = append(ops, fmt.Sprintf("ents h%d", i))
		}
	}
	if r.Chance(1, 20) {
		// a root that was (most likely) never persisted: error path, ends the line
		if h := pick(func(h *c03sH) bool { return !h.stored }); h >= 0 {
			ops = append(ops, fmt.Sprintf("tstate h%d", h))
		}
	}
	return strings.Join(ops, ";")
}

func TestVerifC03S(t *testing.T) { vhMain(t, c03sGenLine, c03sRun) }
