//go:build verif

package inmemory

import (
	"fmt"
	"sort"
	"strconv"
	"strings"
	"testing"

	"github.com/ChainSafe/gossamer/internal/database"
	"github.com/ChainSafe/gossamer/pkg/trie"
)

// One case = `op;op;...` on a growing list of trie handles: h0 = NewEmptyTrie(), every
// `snap hI` appends hI.Snapshot().  Ops:
//   put h k v | del h k | clr h p | clrl h p n | snap h | ver h 0|1 | hash h | hashall | wd h | drop h
// Observable of an op: `<result> h0:<entries> h1:<entries> ...` = its result token followed by the
// sorted Entries() listing of EVERY live handle (a dropped handle is no longer used or observed).
//   put/del/clr/wd/drop/ver: `ok` | clrl: `<deleted>,<allDeleted>` | snap: `h<new index>`
//   hash: root hash hex | hashall: `H0=<hash> H1=<hash> ...` (live handles, in order)
// A Go panic inside an op is the observable `panic` and ends the case.

// c03DB is a map-backed database (WriteDirty only needs NewBatch; its content is not observed here).
type c03DB struct{ m map[string][]byte }

type c03Batch struct {
	db  *c03DB
	buf [][2][]byte
}

func newC03DB() *c03DB                            { return &c03DB{m: map[string][]byte{}} }
func (d *c03DB) NewBatch() database.Batch         { return &c03Batch{db: d} }
func (b *c03Batch) Put(key, value []byte) error   { b.buf = append(b.buf, [2][]byte{append([]byte{}, key...), append([]byte{}, value...)}); return nil }
func (b *c03Batch) Del(key []byte) error          { return nil }
func (b *c03Batch) Close() error                  { return nil }
func (b *c03Batch) ValueSize() int                { return len(b.buf) }
func (b *c03Batch) Reset()                        { b.buf = nil }
func (b *c03Batch) Flush() error {
	for _, kv := range b.buf {
		b.db.m[string(kv[0])] = kv[1]
	}
	b.buf = nil
	return nil
}

func c03Entries(t *InMemoryTrie) string {
	m := t.Entries()
	if len(m) == 0 {
		return "empty"
	}
	ks := make([]string, 0, len(m))
	for k := range m {
		ks = append(ks, k)
	}
	sort.Strings(ks)
	parts := make([]string, len(ks))
	for i, k := range ks {
		v := m[k]
		vs := "nil"
		if v != nil {
			vs = vhHex(v)
		}
		parts[i] = vhHex([]byte(k)) + "=" + vs
	}
	return strings.Join(parts, ",")
}

type c03State struct {
	hs   []*InMemoryTrie
	live []bool
	db   *c03DB
}

func (s *c03State) handle(tok string) (int, *InMemoryTrie) {
	if len(tok) < 2 || tok[0] != 'h' {
		return -1, nil
	}
	i, err := strconv.Atoi(tok[1:])
	if err != nil || i < 0 || i >= len(s.hs) || !s.live[i] {
		return -1, nil
	}
	return i, s.hs[i]
}

func (s *c03State) views() string {
	parts := []string{}
	for i, t := range s.hs {
		if s.live[i] {
			parts = append(parts, fmt.Sprintf("h%d:%s", i, c03Entries(t)))
		}
	}
	return strings.Join(parts, " ")
}

func (s *c03State) op(op string) string {
	f := strings.Fields(op)
	if len(f) == 0 {
		return "bad-op"
	}
	var t *InMemoryTrie
	idx := -1
	if f[0] != "hashall" {
		if len(f) < 2 {
			return "bad-op"
		}
		idx, t = s.handle(f[1])
		if t == nil {
			return "bad-op"
		}
	}
	switch {
	case f[0] == "put" && len(f) == 4:
		if err := t.Put(vhUnhex(f[2]), vhUnhex(f[3])); err != nil {
			return "err"
		}
		return "ok"
	case f[0] == "del" && len(f) == 3:
		if err := t.Delete(vhUnhex(f[2])); err != nil {
			return "err"
		}
		return "ok"
	case f[0] == "clr" && len(f) == 3:
		if err := t.ClearPrefix(vhUnhex(f[2])); err != nil {
			return "err"
		}
		return "ok"
	case f[0] == "clrl" && len(f) == 4:
		n, err := strconv.ParseUint(f[3], 10, 32)
		if err != nil {
			return "bad-op"
		}
		deleted, all, err := t.ClearPrefixLimit(vhUnhex(f[2]), uint32(n))
		if err != nil {
			return "err"
		}
		return fmt.Sprintf("%d,%v", deleted, all)
	case f[0] == "snap" && len(f) == 2:
		s.hs = append(s.hs, t.Snapshot())
		s.live = append(s.live, true)
		return fmt.Sprintf("h%d", len(s.hs)-1)
	case f[0] == "ver" && len(f) == 3:
		switch f[2] {
		case "0":
			t.SetVersion(trie.V0)
		case "1":
			t.SetVersion(trie.V1)
		default:
			return "bad-op"
		}
		return "ok"
	case f[0] == "hash" && len(f) == 2:
		h, err := t.Hash()
		if err != nil {
			return "err"
		}
		return vhHex(h[:])
	case f[0] == "hashall" && len(f) == 1:
		parts := []string{}
		for i, x := range s.hs {
			if !s.live[i] {
				continue
			}
			h, err := x.Hash()
			if err != nil {
				parts = append(parts, fmt.Sprintf("H%d=err", i))
				continue
			}
			parts = append(parts, fmt.Sprintf("H%d=%s", i, vhHex(h[:])))
		}
		return strings.Join(parts, " ")
	case f[0] == "wd" && len(f) == 2:
		if err := t.WriteDirty(s.db); err != nil {
			return "err"
		}
		return "ok"
	case f[0] == "drop" && len(f) == 2:
		s.live[idx] = false
		return "ok"
	}
	return "bad-op"
}

func c03Run(line string) string {
	s := &c03State{hs: []*InMemoryTrie{NewEmptyTrie()}, live: []bool{true}, db: newC03DB()}
	ops := strings.Split(line, ";")
	outs := make([]string, 0, len(ops))
	for _, op := range ops {
		op := op
		res := vhCatch(func() string { return s.op(op) })
		if res == "panic" || strings.HasPrefix(res, "panic ") {
			outs = append(outs, res)
			break
		}
		v := vhCatch(func() string { return s.views() })
		outs = append(outs, res+" "+v)
		if v == "panic" || strings.HasPrefix(v, "panic ") {
			break
		}
	}
	return strings.Join(outs, ";")
}

// ---------------------------------------------------------------- generator

var c03Alphabets = [][]byte{
	{0x00, 0x01, 0x10},
	{0x10, 0x11, 0x1f},
	{0x00, 0x0f, 0xf0, 0xff},
	{0x12, 0x13, 0x30, 0x3f},
	{0x00, 0x01},
	{0x10, 0x15, 0x1f, 0x50},
	{0xab, 0xa0, 0x0a, 0xb0},
}

type c03Gen struct {
	r      *vhRng
	alpha  []byte
	keys   [][]byte
	vals   [][]byte
	parent []int
	live   []bool
	depth  []int
	kids   []int
	ver    []int
	loose  bool // also write through handles that have live snapshots (known-finding region)
}

func (g *c03Gen) rndKey(maxLen int) []byte {
	n := g.r.Intn(maxLen + 1)
	k := make([]byte, n)
	for i := range k {
		k[i] = g.alpha[g.r.Intn(len(g.alpha))]
	}
	return k
}

func (g *c03Gen) key() []byte {
	if g.r.Chance(1, 12) {
		return g.rndKey(3)
	}
	return g.keys[g.r.Intn(len(g.keys))]
}

func (g *c03Gen) prefix() []byte {
	k := g.key()
	pre := append([]byte{}, k[:g.r.Intn(len(k)+1)]...)
	if len(pre) > 0 && g.r.Chance(1, 4) {
		pre[len(pre)-1] = g.alpha[g.r.Intn(len(g.alpha))]
	}
	return pre
}

func (g *c03Gen) val() []byte { return g.vals[g.r.Intn(len(g.vals))] }

func (g *c03Gen) hasLiveDesc(h int) bool {
	for i := range g.parent {
		if !g.live[i] {
			continue
		}
		for p := g.parent[i]; p >= 0; p = g.parent[p] {
			if p == h {
				return true
			}
		}
	}
	return false
}

// a live handle; unless `loose`, writable means: no live snapshot below it
func (g *c03Gen) pick(writable bool) int {
	cands := []int{}
	for i := range g.live {
		if g.live[i] && (!writable || g.loose || !g.hasLiveDesc(i)) {
			cands = append(cands, i)
		}
	}
	if len(cands) == 0 {
		return -1
	}
	// prefer recent handles a little
	if g.r.Chance(1, 3) {
		return cands[len(cands)-1]
	}
	return cands[g.r.Intn(len(cands))]
}

func c03GenLine(r *vhRng) string {
	g := &c03Gen{r: r, parent: []int{-1}, live: []bool{true}, depth: []int{0}, kids: []int{0}, ver: []int{0}}
	if r.Chance(1, 8) {
		g.alpha = r.Bytes(3)
	} else {
		g.alpha = c03Alphabets[r.Intn(len(c03Alphabets))]
	}
	g.loose = r.Chance(1, 10)
	maxLen := 1 + r.Intn(3)
	nk := 3 + r.Intn(6)
	for i := 0; i < nk; i++ {
		switch {
		case len(g.keys) > 0 && r.Chance(1, 3):
			base := g.keys[r.Intn(len(g.keys))]
			g.keys = append(g.keys, append(append([]byte{}, base...), g.rndKey(2)...))
		default:
			g.keys = append(g.keys, g.rndKey(maxLen))
		}
	}
	// a small pool of values so that equal values are rewritten; sizes around the V1 threshold
	big := r.Chance(1, 2)
	nv := 2 + r.Intn(3)
	for i := 0; i < nv; i++ {
		switch {
		case big && r.Chance(1, 2):
			n := r.Pick(31, 32, 33, 40, 40, 64)
			v := make([]byte, n)
			for j := range v {
				v[j] = byte(i + 1)
			}
			g.vals = append(g.vals, v)
		case r.Chance(1, 10):
			g.vals = append(g.vals, []byte{})
		default:
			g.vals = append(g.vals, []byte{byte(1 + r.Intn(250))})
		}
	}
	nops := 6 + r.Intn(20)
	if r.Chance(1, 6) {
		nops = 25 + r.Intn(30)
	}
	ops := []string{}
	burst := 1 + r.Intn(len(g.keys))
	for i := 0; i < burst; i++ {
		ops = append(ops, fmt.Sprintf("put h0 %s %s", vhHex(g.keys[i%len(g.keys)]), vhHex(g.val())))
	}
	if r.Chance(1, 3) {
		ops = append(ops, "wd h0")
	}
	for len(ops) < nops {
		switch c := r.Intn(100); {
		case c < 30:
			if h := g.pick(true); h >= 0 {
				ops = append(ops, fmt.Sprintf("put h%d %s %s", h, vhHex(g.key()), vhHex(g.val())))
			}
		case c < 42:
			if h := g.pick(true); h >= 0 {
				ops = append(ops, fmt.Sprintf("del h%d %s", h, vhHex(g.key())))
			}
		case c < 47:
			if h := g.pick(true); h >= 0 {
				ops = append(ops, fmt.Sprintf("clr h%d %s", h, vhHex(g.prefix())))
			}
		case c < 53:
			if h := g.pick(true); h >= 0 {
				ops = append(ops, fmt.Sprintf("clrl h%d %s %d", h, vhHex(g.prefix()), r.Intn(5)))
			}
		case c < 68:
			h := g.pick(false)
			if h >= 0 && len(g.live) < 9 && g.depth[h] < 4 && g.kids[h] < 3 {
				ops = append(ops, fmt.Sprintf("snap h%d", h))
				g.parent = append(g.parent, h)
				g.live = append(g.live, true)
				g.depth = append(g.depth, g.depth[h]+1)
				g.kids = append(g.kids, 0)
				g.ver = append(g.ver, g.ver[h])
				g.kids[h]++
			}
		case c < 75:
			if h := g.pick(false); h >= 0 {
				v := 1
				if r.Chance(1, 6) {
					v = 0
				}
				if v < g.ver[h] && !r.Chance(1, 8) {
					v = 1 // a version regress panics: keep it rare
				}
				ops = append(ops, fmt.Sprintf("ver h%d %d", h, v))
				if v > g.ver[h] {
					g.ver[h] = v
				}
			}
		case c < 83:
			ops = append(ops, "hashall")
		case c < 87:
			if h := g.pick(false); h >= 0 {
				ops = append(ops, fmt.Sprintf("hash h%d", h))
			}
		case c < 95:
			if h := g.pick(false); h >= 0 {
				ops = append(ops, fmt.Sprintf("wd h%d", h))
			}
		default:
			nlive := 0
			for _, l := range g.live {
				if l {
					nlive++
				}
			}
			if h := g.pick(false); h >= 0 && nlive > 1 {
				ops = append(ops, fmt.Sprintf("drop h%d", h))
				g.live[h] = false
			}
		}
	}
	ops = append(ops, "hashall")
	return strings.Join(ops, ";")
}

func TestVerifC03(t *testing.T) { vhMain(t, c03GenLine, c03Run) }
