import Gossamer.Props.C10
open Gossamer.C10
#print axioms C10_root
#print axioms C10_root_v1
#print axioms C10_last_wins
#print axioms C10_ordered_root
#print axioms C10_ordered_entries
#print axioms C10_ordered_keys
#print axioms C10_bad_version
#print axioms C10_undecodable_partial
#print axioms C10_ordered_undecodable_partial
#print axioms C10_undecodable_counterexample
#print axioms C10_root_of_encoding
#print axioms C10_ordered_root_of_encoding
#print axioms C10_refines_partial
