import Gossamer.Props.C38
open Gossamer.C38
#print axioms C38_hex_order
#print axioms C38_pages_spec
#print axioms C38_pages_partition_partial
#print axioms C38_pages_partition_nonzero
#print axioms C38_pages_concat_partial
#print axioms C38_pages_partition_counterexample
#print axioms C38_pages_run_partial
#print axioms C38_page_partial
#print axioms C38_pairs_partial
#print axioms C38_pairs_all
#print axioms C38_pairs_counterexample
#print axioms C38_bad_prefix
#print axioms C38_block_counterexample
#print axioms C38_state_rep
#print axioms C38_refines_partial
#print axioms C38_history
#print axioms C38_pages_at_partial
