import Gossamer.Props.C19
open Gossamer.C19
#print axioms C19_sound
#print axioms C19_complete
#print axioms C19_ghost_maximal
#print axioms C19_iff_partial
#print axioms C19_iff_counterexample
#print axioms C19_order_independent
#print axioms C19_order_counterexample
#print axioms C19_width_independent
#print axioms C19_dup_weights_summed
#print axioms C19_bracket
#print axioms C19_early_return_dead
#print axioms C19_wrapper_sound
#print axioms C19_set_lookup
#print axioms C19_importer_sound
