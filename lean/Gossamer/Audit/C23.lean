import Gossamer.Props.C23
open Gossamer.C23
#print axioms C23_startNext_setId
