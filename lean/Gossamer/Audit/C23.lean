import Gossamer.Props.C23
open Gossamer.C23
#print axioms C23_refines
#print axioms C23_refines_pending
#print axioms C23_refines_next
#print axioms C23_refused_import_counterexample
#print axioms C23_setid_increments
#print axioms C23_sets_contiguous
#print axioms C23_setIdAt
#print axioms C23_one_forced_per_fork
#print axioms C23_reimport_counterexample
#print axioms C23_abandoned_discarded
#print axioms C23_spec_abandoned_discarded
#print axioms C23_scheduled_applies_on_own_fork
#print axioms C23_forced_applies_at_effective_block
#print axioms C23_forced_delay0_applies_at_own_block
