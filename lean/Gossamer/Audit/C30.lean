import Gossamer.Props.C30
open Gossamer.C30
#print axioms C30_counters
#print axioms C30_no_banned
#print axioms C30_rep_range
#print axioms C30_slots_partial
#print axioms C30_slots_counterexample
#print axioms C30_report_all
#print axioms C30_report_all_reachable
#print axioms C30_saturating_add
#print axioms C30_saturating_sub
#print axioms C30_tick32_eq
#print axioms C30_tick_toward_zero
#print axioms C30_incoming_banned_rejected
#print axioms run_inv
#print axioms run_inv2
#print axioms C30_sortedPeers
#print axioms C30_sortedPeers_not_banned
#print axioms C30_actor_fifo
#print axioms C30_actor_drained
#print axioms C30_handler_inv
#print axioms C30_handler_slots_partial
