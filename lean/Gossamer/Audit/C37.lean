import Gossamer.Props.C37
open Gossamer.C37
#print axioms C37_roundtrip
#print axioms C37_wrong_password_errors
#print axioms C37_tamper_errors
#print axioms C37_never_panics
#print axioms C37_decrypt_ok_only_honest
#print axioms C37_single_roundtrip
#print axioms C37_single_wrong_password_errors
#print axioms C37_single_tamper_errors
#print axioms C37_single_never_different
#print axioms C37_truncation_errors
#print axioms C37_bitflip_errors
#print axioms C37_nonce_change_errors
#print axioms C37_nonce_swap_errors
#print axioms C37_mutation_errors
#print axioms C37_key_roundtrip
#print axioms C37_key_never_different
#print axioms C37_key_tamper_or_wrong_password_errors
#print axioms C37_key_never_panics
#print axioms C37_file_roundtrip
#print axioms C37_file_tamper_errors_partial
#print axioms C37_file_never_different_partial
#print axioms C37_file_tamper_errors_counterexample
#print axioms C37_file_never_panics
#print axioms C37_ideal_instance
#print axioms C37_never_panics_before_fix_counterexample
