import Gossamer.Props.C37
