import Gossamer.Props.C21
open Gossamer.C21
#print axioms C21_threshold_arith
#print axioms C21_total_eq_weight
#print axioms C21_prevoted_closed_form
#print axioms C21_order_independent
#print axioms C21_order_dependent_on_ties
#print axioms C21_ghost_unique
#print axioms C21_precommit_target_partial
#print axioms C21_precommit_target_counterexample
#print axioms C21_cap_is_ancestor
#print axioms C21_filter_partial
#print axioms C21_filter_counterexample
#print axioms C21_reachable_good
#print axioms C21_finalise_sound
#print axioms C21_reachable_accounted
#print axioms C21_precommit_target_reachable_partial
#print axioms C21_bfc_closed_form
#print axioms C21_finalise_closed_form
#print axioms C21_set_change_resets
#print axioms C21_filter_history
#print axioms C21_history_good
#print axioms C21_history_accounted
#print axioms C21_precommit_target_history_partial
#print axioms C21_set_change_example
