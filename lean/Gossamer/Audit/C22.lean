import Gossamer.Props.C22
open Gossamer.C22
#print axioms C22_quorum_intersection
#print axioms C22_quorum_intersection_counterexample
#print axioms C22_single_round_safe
#print axioms C22_single_round_counterexample
#print axioms C22_threshold_tie
#print axioms C22_commit_rule_complete
#print axioms C22_commit_rule_not_strict
#print axioms C22_commit_rule_quorum_partial
#print axioms C22_commit_rule_quorum_counterexample
#print axioms C22_commit_rule_disjoint_counterexample
#print axioms C22_safe
#print axioms C22_locked_later
#print axioms C22_safe_of_rule
#print axioms C22_safe_nonvacuous
#print axioms C22_possible_complete
#print axioms C22_closable_of_computed
#print axioms C22_lib_rounds_counterexample
#print axioms C22_safe_sets
#print axioms C22_safe_within_set
#print axioms C22_safe_sets_nonvacuous
