import Gossamer.Props.C29
open Gossamer.C29
#print axioms C29_twox128
#print axioms C29_twox256
#print axioms C29_twox_lengths
#print axioms C29_u64le_value
