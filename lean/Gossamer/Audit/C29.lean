import Gossamer.Props.C29
open Gossamer.C29
#print axioms C29_twox128
#print axioms C29_twox256
#print axioms C29_twox_lengths
#print axioms C29_u64le_value
#print axioms C29_merlin_append
#print axioms C29_merlin_challenge
#print axioms C29_absorb_append
#print axioms C29_merlin_len_frame
#print axioms C29_squeeze_length
#print axioms C29_signing_context
#print axioms C29_challenge_reduced
#print axioms C29_sr_marker
#print axioms C29_sr_lengths
#print axioms C29_sr_accept_wellformed
#print axioms C29_ristretto_canonical
#print axioms C29_sr_deprecated_ref_marked
#print axioms C29_sr_deprecated_go_marker_blind
#print axioms C29_host_sr1_ignores_signature
#print axioms C29_host_sr2_nonzero
#print axioms C29_host_recover_shape
#print axioms C29_host_recover_badv
