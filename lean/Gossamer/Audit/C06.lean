import Gossamer.Props.C06
open Gossamer Gossamer.C06 Gossamer.C06.Nb
#print axioms C06_root_eq_spec
#print axioms C06_reopen
#print axioms C06_get
#print axioms C06_root_eq_spec_partial
#print axioms C06_reopen_partial
#print axioms C06_reopen_collision
#print axioms C06_history_independent
#print axioms C06_threshold
#print axioms C06_nibbles_len_refines
#print axioms C06_nibbles_at_refines
#print axioms C06_nibbles_mid_refines
#print axioms C06_nibbles_advance_refines
#print axioms C06_nibbles_nodeKey_refines
#print axioms C06_nibbles_left_refines
#print axioms C06_nibbles_commonPrefix_refines
#print axioms C06_nibbles_startsWith_refines
#print axioms C06_nibbles_right_refines
#print axioms C06_nibbles_shiftKey_refines
#print axioms C06_nibbles_combineKey_refines
#print axioms C06_nibbles_nodeKeyRange_refines
#print axioms C06_nibbles_push_refines
#print axioms C06_nibbles_nsPrefix_refines
#print axioms C06_nibbles_dropLasts_refines
#print axioms C06_nibbles_appendPartial_refines
#print axioms C06_nibbles_appendOpt_refines
#print axioms C06_nibbles_prefix_injective
