import Gossamer.Props.C06
open Gossamer Gossamer.C06
#print axioms C06_root_eq_spec
#print axioms C06_reopen
#print axioms C06_get
#print axioms C06_root_eq_spec_partial
#print axioms C06_reopen_partial
#print axioms C06_reopen_collision
#print axioms C06_history_independent
#print axioms C06_threshold
