import Gossamer.Props.C06
open Gossamer Gossamer.C06
#print axioms C06_threshold
