import Gossamer.Props.C25
open Gossamer.C25
#print axioms C25_exact
#print axioms C25_floor
#print axioms C25_monotone_in_p
#print axioms C25_saturates
#print axioms C25_below_one
#print axioms C25_errors
#print axioms C25_errors_rounding_counterexample
#print axioms C25_calc
#print axioms C25_compare
#print axioms C25_secondary_author
#print axioms C25_slot_bytes
#print axioms C25_secondary_author_counterexample
#print axioms f64OfNat_mono
