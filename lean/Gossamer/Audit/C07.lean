import Gossamer.Props.C07
open Gossamer.C07
#print axioms C07_header_roundtrip
#print axioms C07_key_roundtrip
#print axioms C07_node_roundtrip
#print axioms C07_no_panic
#print axioms C07_total
#print axioms C07_decode_ok_or_err
#print axioms C07_tnode_roundtrip_partial
#print axioms C07_tnode_roundtrip_spec
#print axioms C07_tnode_roundtrip_counterexample
#print axioms C07_tdecode_no_panic
#print axioms C07_scale_int_mode_irrelevant
#print axioms Gossamer.TrieCodec.scaleBytes_enc
#print axioms Gossamer.TrieCodec.bitmap_roundtrip
