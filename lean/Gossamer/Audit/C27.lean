import Gossamer.Props.C27
open Gossamer.C27
#print axioms C27_refines
#print axioms C27_proof_sound
#print axioms C27_exact
#print axioms C27_complete_in_window
#print axioms C27_complete_history
#print axioms C27_retained
#print axioms C27_idempotent
#print axioms C27_idempotent_recorded
#print axioms C27_unique_signer
#print axioms C27_start_le_stored_partial
#print axioms C27_start_le_stored_counterexample
#print axioms C27_idempotent_naive_counterexample
#print axioms C27_constants
#print axioms refines_step
#print axioms byteCodec_lawful
