import Gossamer.Props.C24
open Gossamer.C24
#print axioms C24_verify_iff
#print axioms C24_authorised_accepted
#print axioms C24_iff_partial
#print axioms C24_iff_counterexample
#print axioms C24_iff_counterexample_vrf
#print axioms C24_own_claims_authorised
#print axioms C24_own_claims_pass
#print axioms verifyAuthorshipRight_ok
#print axioms verifyPreRuntimeDigest_ok
#print axioms C24_manager_history_independent
#print axioms C24_manager_two_histories
#print axioms C24_verifyBlock_iff_partial
#print axioms C24_manager_accepts_authorised
#print axioms C24_disabled_no_duplicates
#print axioms C24_primary_at_or_over_threshold_rejected
#print axioms C24_no_primary_claim_at_threshold
