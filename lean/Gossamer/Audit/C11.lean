import Gossamer.Props.C11
open Gossamer.C11 Gossamer.Scale
#print axioms C11_encodeUint_canonical
#print axioms C11_encodeBigInt_canonical
#print axioms C11_encode_canonical
#print axioms C11_roundtrip_partial
#print axioms C11_roundtrip_canonical
#print axioms C11_roundtrip_counterexample
#print axioms C11_marshalGo_partial
#print axioms C11_marshalGo_counterexample
#print axioms C11_fieldOrder_mem
#print axioms C11_fieldOrder_sorted
#print axioms decPA_spec
#print axioms Gossamer.Scale.Spec.roundtrip
#print axioms Gossamer.Scale.Spec.sound
#print axioms Gossamer.Scale.Spec.truncated
#print axioms Gossamer.Scale.compactDec_enc
#print axioms Gossamer.Scale.compactDec_sound
