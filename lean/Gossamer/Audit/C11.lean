import Gossamer.Props.C11
open Gossamer.C11
#print axioms C11_spec_roundtrip
