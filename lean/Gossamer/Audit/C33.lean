import Gossamer.Props.C33
open Gossamer.C33
#print axioms C33_no_panic
#print axioms C33_reencode
#print axioms C33_reencode_small
#print axioms C33_steps_linear
#print axioms C33_steps_constants
#print axioms C33_steps_block
#print axioms C33_alloc_linear_partial
#print axioms C33_alloc_linear_counterexample
#print axioms steps_ok
#print axioms unmarshal_reencode
#print axioms goParse_encFields
#print axioms C33_steps_linear_bresp
#print axioms goParse_size
#print axioms C33_steps_linear_sresp
#print axioms C33_stream_no_panic
#print axioms C33_stream_frame
#print axioms C33_stream_buffer
#print axioms C33_stream_old_panics
#print axioms C33_stream_old_alloc
#print axioms C33_stream_old_merges
