import Gossamer.Props.C01
open Gossamer Gossamer.C01
#print axioms C01_root_eq_spec_puts
#print axioms C01_layoutRoot
#print axioms C01_root_eq_spec_present
#print axioms C01_root_eq_spec_partial
#print axioms C01_root_eq_spec_counterexample
#print axioms C01_history_independent
#print axioms C01_history_independent_puts
#print axioms C01_trie_independent
#print axioms C01_v1_threshold
#print axioms C01_empty
#print axioms Gossamer.Rep.eq_build
#print axioms Gossamer.Trie.canon_unique
#print axioms Gossamer.buildN_spec
