import Gossamer.Props.C28
open Gossamer.C28
