import Gossamer.Props.C28
open Gossamer.C28
#print axioms C28_inv_init
#print axioms C28_inv_preserved
#print axioms C28_inv_reachable
#print axioms C28_no_overlap
#print axioms C28_alloc_result
#print axioms C28_frame
#print axioms C28_host_malloc_result
#print axioms C28_host_traps
#print axioms C28_bad_free
#print axioms C28_double_free
#print axioms C28_freed_after_free
#print axioms C28_poisoned_sticky
#print axioms C28_error_poisons
#print axioms C28_too_large
#print axioms C28_order_spec
#print axioms C28_max_memory
#print axioms C28_max_memory_run
#print axioms C28_heap_base_partial
#print axioms C28_heap_base_counterexample
#print axioms C28_opsok_example
#print axioms C28_bad_free_forged_counterexample
#print axioms hashStore_lawful
#print axioms funStore_lawful
