import Gossamer.Props.C05
open Gossamer Gossamer.C05
#print axioms C05_sound
#print axioms C05_sound_map_partial
#print axioms C05_sound_map_counterexample
#print axioms C05_absent
#print axioms C05_wrong_value
#print axioms C05_empty_claim_counterexample
#print axioms C05_complete
#print axioms C05_complete_map
#print axioms C05_generate_present
#print axioms C05_generate_absent_counterexample
#print axioms C05_driver_generate
#print axioms C05_driver_verify
#print axioms Gossamer.C05.verify_sound_inj
#print axioms Gossamer.C05.verify_complete_inj
#print axioms Gossamer.C05.view_inj
#print axioms Gossamer.Bridge.decode_encodeNode
