import Gossamer.Props.C05
