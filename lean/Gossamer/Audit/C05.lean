import Gossamer.Props.C05
open Gossamer Gossamer.C05
#print axioms C05_sound
#print axioms C05_sound_map_partial
#print axioms C05_absent
#print axioms C05_wrong_value
