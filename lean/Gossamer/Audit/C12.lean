import Gossamer.Props.C12
open Gossamer.C12 Gossamer.Scale
#print axioms C12_decodeA_res
#print axioms C12_refines
#print axioms C12_decode_sound_partial
#print axioms C12_unmarshal_sound_partial
#print axioms C12_truncated_partial
#print axioms C12_noncanonical_rejected
#print axioms C12_zero_fill_is_malformed
#print axioms C12_decode_sound_counterexample
#print axioms C12_alloc_bounded_partial
#print axioms C12_alloc_bounded_counterexample
#print axioms C12_no_panic
#print axioms Gossamer.Scale.Spec.sound
#print axioms Gossamer.Scale.Spec.truncated
#print axioms Gossamer.Scale.compactDec_sound
#print axioms C12_alloc_ok_bounded
