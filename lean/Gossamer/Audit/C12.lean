import Gossamer.Props.C12
open Gossamer.C12
#print axioms C12_spec_sound
