import Gossamer.Props.C08
open Gossamer.C08
