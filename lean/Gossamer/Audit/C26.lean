import Gossamer.Props.C26
#print axioms Gossamer.C26.C26_own_fork
#print axioms Gossamer.C26.C26_none_on_fork
#print axioms Gossamer.C26.C26_config_latest_earlier
#print axioms Gossamer.C26.C26_terminates
#print axioms Gossamer.C26.C26_fuel_stable
#print axioms Gossamer.C26.C26_never_hangs
#print axioms Gossamer.C26.C26_skipped_own_fork
#print axioms Gossamer.C26.C26_skipped_config_own_fork
#print axioms Gossamer.C26.C26_wf_reachable
#print axioms Gossamer.C26.C26_known_header_ok
#print axioms Gossamer.C26.C26_own_fork_history
#print axioms Gossamer.C26.C26_config_own_fork_history
#print axioms Gossamer.C26.C26_skipped_own_fork_history
#print axioms Gossamer.C26.C26_db_from_finalised
#print axioms Gossamer.C26.C26_prompt_history
#print axioms Gossamer.C26.C26_first_slot_own_fork
#print axioms Gossamer.C26.C26_old_loop_diverges
