import Gossamer.Props.C20
open Gossamer.C20
