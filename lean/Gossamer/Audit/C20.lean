import Gossamer.Props.C20
open Gossamer.C20
#print axioms C20_weight_eq_spec
#print axioms C20_equivocator_counts_everywhere
#print axioms C20_import_order_independent
#print axioms C20_spec_ghost_meaning
#print axioms C20_spec_meaning
#print axioms C20_ghost_eq_spec_partial
#print axioms C20_precommit_ghost_eq_spec_partial
#print axioms C20_finalized_eq_spec_partial
#print axioms C20_estimate_eq_spec_partial
#print axioms C20_completable_eq_spec_partial
#print axioms C20_spec_order_independent
#print axioms C20_state_order_independent_partial
#print axioms C20_bitfield_ops
#print axioms C20_bitfield_weight
#print axioms C20_bitfield_refines
#print axioms C20_graph_inv
#print axioms C20_graph_weight_refines
#print axioms C20_graph_ancestor_refines
#print axioms C20_graph_ghost_refines
#print axioms C20_graph_ghost_hyps
#print axioms C20_graph_round_refines
#print axioms C20_ghost_intolerant_counterexample
#print axioms C20_estimate_shortcut_counterexample
#print axioms C20_estimate_intolerant_counterexample
#print axioms C20_hypotheses_satisfiable
