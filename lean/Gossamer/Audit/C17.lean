import Gossamer.Props.C17
#print axioms Gossamer.C17.C17_inv_reachable
#print axioms Gossamer.C17.C17_monotone
#print axioms Gossamer.C17.C17_failed_unchanged
#print axioms Gossamer.C17.C17_unknown_rejected
#print axioms Gossamer.C17.C17_stale_rejected
#print axioms Gossamer.C17.C17_abandoned_gone
#print axioms Gossamer.C17.C17_unfin_below_head
#print axioms Gossamer.C17.C17_number_lookup
#print axioms Gossamer.C17.C17_history
#print axioms Gossamer.C17.C17_head_trie_kept
#print axioms Gossamer.C17.C17_shared_root_evicts_head_trie
