import Gossamer.Props.C04
