import Gossamer.Props.C04
open Gossamer.C04
#print axioms C04_atNode
#print axioms C04_getFromDB
#print axioms C04_getFromDB_stored
#print axioms C04_absent
#print axioms C04_empty
#print axioms C04_writeDirty_stores
#print axioms C04_writeDirty_coherent
#print axioms C04_writeDirty_getFromDB
#print axioms C04_incremental_inv
#print axioms C04_incremental_partial
