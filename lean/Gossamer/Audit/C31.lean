import Gossamer.Props.C31
open Gossamer.C31
#print axioms C31_plan_partition
#print axioms C31_plan_consecutive
#print axioms C31_plan_empty
#print axioms C31_plan_partition_counterexample
#print axioms C31_serve_chain_partial
#print axioms C31_serve_chain_counterexample
#print axioms C31_serve_genesis_desc_counterexample
#print axioms C31_serve_by_number_length
#print axioms wf_addSeg
#print axioms wf_finalise
#print axioms exampleTree_wf
#print axioms prunedTree_wf
#print axioms C31_limiter_refused_iff
#print axioms C31_limiter_window
#print axioms C31_limiter_repeat
#print axioms C31_limiter_evicted
#print axioms cacheOf_eq
