import Gossamer.Props.C32
open Gossamer.C32
#print axioms C32_parents_first
#print axioms C32_parents_first_exec
#print axioms C32_handed_flag
#print axioms C32_exec_flag
#print axioms C32_never_fails
#print axioms C32_at_most_once
#print axioms C32_unready_good
#print axioms C32_rejects_non_chain
#print axioms C32_rejects_forged_hash
#print axioms C32_forged_hash_reported
#print axioms C32_accepted_honest_chain
#print axioms C32_rejected_no_effect
