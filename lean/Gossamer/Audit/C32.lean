import Gossamer.Props.C32
open Gossamer.C32
