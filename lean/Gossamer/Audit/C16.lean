import Gossamer.Props.C16
open Gossamer.C16
#print axioms C16_best_is_leaf
#print axioms C16_best_eq_spec
#print axioms C16_order_independent
#print axioms C16_primary_count_excludes_root
#print axioms isBest_unique
#print axioms bestHash_isBest
#print axioms C16_getHashByNumber
