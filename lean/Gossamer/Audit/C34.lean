import Gossamer.Props.C34
open Gossamer.C34
