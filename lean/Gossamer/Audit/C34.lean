import Gossamer.Props.C34
open Gossamer.C34
#print axioms C34_refines
#print axioms C34_heap_inv
#print axioms C34_pop_is_max
#print axioms C34_fifo_among_equal
#print axioms C34_order_is_insertion
#print axioms C34_dup_refused
#print axioms C34_at_most_once
#print axioms C34_race_free
#print axioms C34_race_free_counterexample
#print axioms C34_linearizable
#print axioms C34_mutual_exclusion
#print axioms up_ord
#print axioms down_ord
#print axioms heapPop_spec
#print axioms heapRemove_spec
#print axioms heapPush_spec
#print axioms Gossamer.Monitor.linearizable
#print axioms Gossamer.Monitor.no_conflict
#print axioms C34_check_then_act_rejected
#print axioms Gossamer.C34.goodTable_today
#print axioms Gossamer.C34.goodTable_rwmutex
#print axioms Gossamer.Monitor.modeIn_lock
#print axioms C34_conservation
#print axioms C34_nil_takes_nothing
#print axioms C34_state_remove_both
