import Gossamer.Props.C13
open Gossamer.C13
#print axioms C13_bytesLE
#print axioms C13_bytesBE
#print axioms C13_string
#print axioms C13_ofBig
#print axioms C13_ofBytesLE
#print axioms C13_ofBytesBE
#print axioms C13_json_roundtrip
#print axioms C13_views
#print axioms C13_compare
#print axioms Gossamer.parseDec_decChars
#print axioms C13_scale_value
#print axioms C13_scale_roundtrip
