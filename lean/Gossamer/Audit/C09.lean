import Gossamer.Props.C09
open Gossamer.C09
#print axioms C09_append_eq
#print axioms C09_spec_bump
#print axioms C09_spec_reset
#print axioms C09_append_bump
#print axioms C09_append_reset
#print axioms C09_appendAll_vec
#print axioms C09_appendAll_fresh
#print axioms C09_result_prefix
#print axioms C09_unguarded_wrong
#print axioms C09_unguarded_counterexample
#print axioms C09_append_frame
#print axioms C09_tx_frame
#print axioms C09_rollback_restores
