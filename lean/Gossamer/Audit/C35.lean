import Gossamer.Props.C35
open Gossamer.C35
#print axioms C35_refines
#print axioms C35_invariant
#print axioms C35_refines_counterexample
#print axioms C35_capacity
#print axioms C35_recency_order
#print axioms C35_evicts_lru
#print axioms C35_race_free
#print axioms C35_race_free_counterexample
#print axioms C35_linearizable
#print axioms C35_mutual_exclusion
#print axioms Gossamer.Monitor.linearizable
#print axioms Gossamer.Monitor.no_conflict
#print axioms Gossamer.Monitor.prefix_consistent
#print axioms Gossamer.Monitor.disciplined_raceFree
#print axioms Gossamer.Monitor.raceFree_disciplined
#print axioms C35_get_needs_lock
#print axioms Gossamer.C35.goodTable_today
#print axioms Gossamer.Monitor.modeIn_lock
#print axioms C35_triecache_refines
#print axioms encBytes_injective
#print axioms C35_limiter_seq
#print axioms C35_limiter_counts_all
#print axioms C35_limiter_unlocked_rejected
#print axioms C35_triecache_table
