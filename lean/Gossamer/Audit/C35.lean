import Gossamer.Props.C35
open Gossamer.C35
