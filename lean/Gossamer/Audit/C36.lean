import Gossamer.Props.C36
open Gossamer.C36
#print axioms C36_prefix_recoverable
#print axioms C36_prefix_restart
#print axioms C36_driver_covered
#print axioms C36_setid_monotone
#print axioms C36_finalised_atomic
#print axioms C36_increment_first_counterexample
#print axioms C36_increment_first_not_good
#print axioms C36_round_not_monotone
#print axioms run_safe
#print axioms C36_epoch_data_not_lost
#print axioms C36_config_data_not_lost
#print axioms C36_votes_durable
#print axioms C36_own_round_justified
