import Gossamer.Props.C03
