import Gossamer.Props.C03
open Gossamer.C03
#print axioms C03_frame
#print axioms C03_step
#print axioms C03_inv_reachable
#print axioms C03_isolated
#print axioms C03_isolated_hashall
#print axioms C03_hash_sound
#print axioms C03_hash_unique
#print axioms C03_isolated_full_counterexample
