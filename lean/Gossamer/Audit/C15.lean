import Gossamer.Props.C15
open Gossamer.C15
#print axioms C15_contents
#print axioms C15_leaves
#print axioms C15_isDescendantOf
#print axioms C15_prune_exact
#print axioms C15_addBlock_errors
#print axioms C15_hashesAtNumber
#print axioms reach
#print axioms C15_range
#print axioms C15_lca
