/-
C17 — Finality is monotone and fully discards abandoned forks.  Core Lean only.

Model of dot/state/block_finalisation.go (`SetFinalisedHash`, `handleFinalisedBlock`, `deleteFromTries`,
`setHighestRoundAndSetID`, `GetHighestFinalisedHash`), dot/state/block.go (`AddBlock`, `HasHeader`,
`GetHeader`, `GetHashByNumber` at or below the root), dot/state/hashtoblockmap.go, dot/state/inmemory_tries.go
and the part of lib/blocktree they call (`AddBlock`, `RangeInMemory`/`accumulateHashesInDescedingOrder`,
`Prune`, `GetHashByNumber` at or below the root).

The block tree is the flat list of its nodes in insertion order; a Go `*node` is identified with the node
carrying its hash and `n.parent` is the lookup of the parent hash (`nil` for the root).  `Prune` and
`isDescendantOf` are expressed through that parent walk (the pointer-level traversal is C15's subject).
`bt.root.hash` and `bs.lastFinalised` are assigned together (at construction and at the end of a successful
`SetFinalisedHash`) and are one field `root` here.  Of the database only the header table (`hdr`), the
number table (`hsh`), the round/set-id keys are modelled; body, arrival time and first-slot writes are not
observed by this property.
-/
namespace Gossamer.C17

structure Blk where
  hash : Nat
  parent : Nat
  number : Nat
  /-- state root (key of the in-memory trie) -/
  sroot : Nat
deriving DecidableEq, Repr, Inhabited

structure St where
  /-- `bt.root.hash` = `bs.lastFinalised` -/
  root : Nat
  /-- nodes of the block tree, root included, insertion order -/
  tree : List Blk
  /-- `unfinalisedBlocks` -/
  unfin : List Blk
  /-- keys of `Tries.rootToTrie` -/
  tries : List Nat
  /-- `hdr ++ hash` table -/
  dbHdr : List Blk
  /-- `hsh ++ number` table -/
  dbNum : List (Nat × Nat)
  /-- `finalisedHashKey(round, setID)` entries -/
  finKey : List ((Nat × Nat) × Nat)
  /-- `highestRoundAndSetIDKey` -/
  highest : Nat × Nat
deriving Repr, Inhabited

def findB (l : List Blk) (h : Nat) : Option Blk := l.find? (fun b => b.hash = h)

def lookupN (m : List (Nat × Nat)) (k : Nat) : Option Nat :=
  match m.find? (fun p => p.1 = k) with
  | some p => some p.2
  | none => none

/-- `db.Put(headerHashKey(n), h)` -/
def putN (m : List (Nat × Nat)) (k v : Nat) : List (Nat × Nat) := (k, v) :: m.filter (fun p => p.1 ≠ k)

def lookupK (m : List ((Nat × Nat) × Nat)) (k : Nat × Nat) : Option Nat :=
  match m.find? (fun p => p.1 = k) with
  | some p => some p.2
  | none => none

/-- `NewBlockStateFromGenesis` followed by the harness' `tries.softSet(genesis state root)` -/
def St.init (g : Blk) : St :=
  { root := g.hash, tree := [g], unfin := [], tries := [g.sroot], dbHdr := [g], dbNum := [(g.number, g.hash)],
    finKey := [((0, 0), g.hash)], highest := (0, 0) }

/-! ### block.go / hashtoblockmap.go / inmemory_tries.go -/

/-- `hashToBlockMap.store` -/
def storeB (l : List Blk) (b : Blk) : List Blk := l.filter (fun x => x.hash ≠ b.hash) ++ [b]

/-- `hashToBlockMap.delete` -/
def deleteB (l : List Blk) (h : Nat) : List Blk := l.filter (fun x => x.hash ≠ h)

/-- `Tries.softSet` -/
def softSet (t : List Nat) (r : Nat) : List Nat := if r ∈ t then t else t ++ [r]

/-- `Tries.delete` -/
def triesDelete (t : List Nat) (r : Nat) : List Nat := t.filter (fun x => x ≠ r)

/-- `BlockState.GetHeader` / `HasHeader`: the in-memory map first, then the header table -/
def getHeader (st : St) (h : Nat) : Option Blk :=
  match findB st.unfin h with
  | some b => some b
  | none => findB st.dbHdr h

inductive AddRes where
  | ok | errParent | errExists | errNumber
deriving DecidableEq, Repr

/-- `BlockState.AddBlock` → `BlockTree.AddBlock`, then (harness) `tries.softSet(header.StateRoot)` on success -/
def addBlock (st : St) (b : Blk) : St × AddRes :=
  match findB st.tree b.parent with
  | none => (st, .errParent)
  | some p =>
    if (findB st.tree b.hash).isSome then (st, .errExists)
    else if p.number + 1 ≠ b.number then (st, .errNumber)
    else ({ st with tree := st.tree ++ [b], unfin := storeB st.unfin b, tries := softSet st.tries b.sroot }, .ok)

/-! ### lib/blocktree -/

/-- `n.parent` -/
def parentNode (st : St) (b : Blk) : Option Blk :=
  if b.hash = st.root then none else findB st.tree b.parent

/-- the walk `endNode = endNode.parent` of `accumulateHashesInDescedingOrder`, `k` steps:
    `[node k levels up, …, b]`; `none` = a nil parent on the way (`ErrNilBlockInRange`) -/
def pathUp (st : St) : Nat → Blk → Option (List Blk)
  | 0, b => some [b]
  | k + 1, b =>
    match parentNode st b with
    | none => none
    | some p => (pathUp st k p).map (fun l => l ++ [b])

inductive RangeRes where
  | ok (path : List Blk)
  | endNotFound | startNotFound | startGreater | nilBlock | notAncestor
deriving DecidableEq, Repr

/-- `BlockTree.RangeInMemory(start, end)` -/
def rangeInMemory (st : St) (s e : Nat) : RangeRes :=
  match findB st.tree e with
  | none => .endNotFound
  | some en =>
    match findB st.tree s with
    | none => .startNotFound
    | some sn =>
      if sn.number > en.number then .startGreater
      else match pathUp st (en.number - sn.number) en with
        | none => .nilBlock
        | some [] => .nilBlock
        | some (top :: rest) => if top.hash = sn.hash then .ok (top :: rest) else .notAncestor

/-- the hashes of `b` and of its ancestors up to the root (`fuel` nodes at most) -/
def upList (st : St) : Nat → Blk → List Nat
  | 0, _ => []
  | fuel + 1, b =>
    match parentNode st b with
    | none => [b.hash]
    | some p => b.hash :: upList st fuel p

def up (st : St) (b : Blk) : List Nat := upList st (b.number + 1) b

/-- `BlockTree.Prune(finalised)` for a finalised node `hn ≠ root`: the hashes of the pruned nodes (neither
    descendants-or-self of `hn` nor its ancestors) and the nodes that stay -/
def pruned (st : St) (hn : Blk) : List Blk :=
  st.tree.filter (fun b => !(decide (hn.hash ∈ up st b)) && !(decide (b.hash ∈ up st hn)))

def kept (st : St) (hn : Blk) : List Blk := st.tree.filter (fun b => decide (hn.hash ∈ up st b))

/-! ### block_finalisation.go -/

/-- the loop of `handleFinalisedBlock` over `subchain[1:]`; `batch` collects the `headerHashKey` puts.
    `false` = "failed to find block in unfinalised block map" (the direct puts made so far stay) -/
def finaliseChain (genesis head : Nat) : St → List (Nat × Nat) → List Blk → St × List (Nat × Nat) × Bool
  | st, batch, [] => (st, batch, true)
  | st, batch, b :: rest =>
    if b.hash = genesis then finaliseChain genesis head st batch rest
    else match findB st.unfin b.hash with
      | none => (st, batch, false)
      | some blk =>
        let st1 := { st with
          dbHdr := blk :: st.dbHdr.filter (fun x => x.hash ≠ blk.hash)
          unfin := deleteB st.unfin b.hash
          tries := if head ≠ b.hash then triesDelete st.tries blk.sroot else st.tries }
        finaliseChain genesis head st1 (batch ++ [(blk.number, b.hash)]) rest

/-- the cleanup loop over `bt.Prune`'s result -/
def dropPruned : St → List Blk → St
  | st, [] => st
  | st, p :: rest =>
    match findB st.unfin p.hash with
    | none => dropPruned { st with unfin := deleteB st.unfin p.hash } rest
    | some hd => dropPruned { st with unfin := deleteB st.unfin p.hash, tries := triesDelete st.tries hd.sroot } rest

inductive FinRes where
  | ok
  | errUnknown                 -- "cannot finalise unknown block"
  | errSetID                   -- errSetIDLowerThanHighest
  | errRange (r : RangeRes)    -- RangeInMemory failed
  | errMissing                 -- block of the subchain missing from unfinalisedBlocks
  | errHeader                  -- "failed to get finalised header"
deriving DecidableEq, Repr

/-- `handleFinalisedBlock(hash)`: the new state, and the error if it failed (the state then keeps the
    direct puts and map deletions made before the failure; the batch is not flushed) -/
def handleFinalised (genesis : Nat) (st : St) (h : Nat) : St × Option FinRes :=
  if h = st.root then (st, none)
  else match rangeInMemory st st.root h with
    | .ok path =>
      match finaliseChain genesis h st [] path.tail with
      | (s1, batch, true) => ({ s1 with dbNum := batch.foldl (fun m p => putN m p.1 p.2) s1.dbNum }, none)
      | (s1, _, false) => (s1, some .errMissing)
    | e => (st, some (.errRange e))

/-- `SetFinalisedHash(hash, round, setID)`; `genesis` is `bs.genesisHash`.
    (repaired order: the set id is checked before anything is written) -/
def setFinalised (genesis : Nat) (st : St) (h round setID : Nat) : St × FinRes :=
  match getHeader st h with
  | none => (st, .errUnknown)
  | some _ =>
    if setID < st.highest.2 then (st, .errSetID)
    else match handleFinalised genesis st h with
      | (s1, some e) => (s1, e)
      | (s1, none) =>
        let s2 := { s1 with
          finKey := ((round, setID), h) :: s1.finKey.filter (fun p => p.1 ≠ (round, setID))
          highest := (round, setID) }
        if h = st.root then (s2, .ok)
        else match findB st.tree h with
          | none => (s2, .errHeader)
          | some hn =>
            let s3 := dropPruned s2 (pruned st hn)
            match getHeader s3 h with
            | none => (s3, .errHeader)
            | some _ =>
              -- deleteFromTries(bs.lastFinalised)
              let s4 := match getHeader s3 st.root with
                | some rb => { s3 with tries := triesDelete s3.tries rb.sroot }
                | none => s3
              ({ s4 with root := h, tree := kept st hn }, .ok)

/-- `GetHighestFinalisedHash` -/
def highestFinalised (st : St) : Option Nat := lookupK st.finKey st.highest

/-- `GetHashByNumber(num)` for `num` at or below the root's number: the root itself, else the number table -/
def hashByNumber (st : St) (num : Nat) : Option Nat :=
  match findB st.tree st.root with
  | none => none
  | some rb => if rb.number = num then some rb.hash else if num < rb.number then lookupN st.dbNum num else none

inductive Op where
  | add (b : Blk)
  | fin (h round setID : Nat)
deriving Repr

def step (genesis : Nat) (st : St) : Op → St
  | .add b => (addBlock st b).1
  | .fin h r s => (setFinalised genesis st h r s).1

def run (g : Blk) (ops : List Op) : St := ops.foldl (step g.hash) (St.init g)

end Gossamer.C17
