/-
C02: the in-memory trie as an ordered byte-string map.
Operation language of the harness line, the run of the Go model (`TrieMem`) and the run of the
specification (`OMap` over byte keys), both producing the observable of the harness.
-/
import Gossamer.Base.Proto
import Gossamer.Lib.TrieMem
namespace Gossamer.C02
open Gossamer Gossamer.Trie

inductive Op where
  | put (k v : Bytes)
  | del (k : Bytes)
  | clr (p : Bytes)
  | clrl (p : Bytes) (n : Nat)
  | get (k : Bytes)
  | next (k : Bytes)
  | keys (p : Bytes)
  | entries
  | bad
deriving Repr

/-! ### observables -/

def showOpt : Option Bytes → String
  | none => "nil"
  | some b => hex b

def joinWith (sep : String) : List String → String
  | [] => ""
  | [a] => a
  | a :: r => a ++ sep ++ joinWith sep r

def showEntries (es : List (Bytes × Option Bytes)) : String :=
  if es.isEmpty then "empty"
  else joinWith "," (es.map (fun e => hex e.1 ++ "=" ++ showOpt e.2))

def showKeys (ks : List Bytes) : String :=
  if ks.isEmpty then "none" else joinWith "," (ks.map hex)

def showBool (b : Bool) : String := if b then "true" else "false"

/-- the harness sorts the Go map returned by `Entries()` by key -/
def sortEntries (es : List (Bytes × Option Bytes)) : List (Bytes × Option Bytes) :=
  es.mergeSort (fun a b => !(klt b.1 a.1))

def modelEntries (t : Trie) : String := showEntries (sortEntries (Trie.entries t))

def specEntries (es : Entries) : String := showEntries (es.map (fun e => (e.1, some e.2)))

/-! ### one step of the model (Go code) -/

def stepModel (t : Trie) : Op → Trie × String
  | .put k v => let t' := Trie.put t k v; (t', "ok " ++ modelEntries t')
  | .del k => let t' := Trie.delete t k; (t', "ok " ++ modelEntries t')
  | .clr p => let t' := Trie.clearPrefix t p; (t', "ok " ++ modelEntries t')
  | .clrl p n =>
    let r := Trie.clearPrefixLimit t p n
    (r.1, toString r.2.1 ++ " " ++ showBool r.2.2 ++ " " ++ modelEntries r.1)
  | .get k => (t, showOpt (Trie.get t k))
  | .next k => (t, showOpt (Trie.nextKey t k))
  | .keys p => (t, showKeys (Trie.keysWithPrefix t p))
  | .entries => (t, modelEntries t)
  | .bad => (t, "bad-op")

/-! ### one step of the specification (ordered map over byte keys) -/

def stepSpec (es : Entries) : Op → Entries × String
  | .put k v => let es' := OMap.upsert k v es; (es', "ok " ++ specEntries es')
  | .del k => let es' := OMap.erase k es; (es', "ok " ++ specEntries es')
  | .clr p => let es' := OMap.clearPrefix p es; (es', "ok " ++ specEntries es')
  | .clrl p n =>
    let r := OMap.clearPrefixLimit p n es
    (r.1, toString r.2.1 ++ " " ++ showBool r.2.2 ++ " " ++ specEntries r.1)
  | .get k => (es, showOpt (OMap.get k es))
  | .next k => (es, showOpt (OMap.nextKey k es))
  | .keys p => (es, showKeys (OMap.keysWithPrefix p es))
  | .entries => (es, specEntries es)
  | .bad => (es, "bad-op")

def runModelFrom (t : Trie) : List Op → List String
  | [] => []
  | op :: r => let s := stepModel t op; s.2 :: runModelFrom s.1 r

def runSpecFrom (es : Entries) : List Op → List String
  | [] => []
  | op :: r => let s := stepSpec es op; s.2 :: runSpecFrom s.1 r

def runModel (ops : List Op) : List String := runModelFrom Trie.nil ops
def runSpec (ops : List Op) : List String := runSpecFrom [] ops

/-! ### regions of the known findings (computed on the state before the offending op) -/

/-- tag of the known finding whose region contains `(state, op)`; `""` when there is none -/
def kfTag (t : Trie) (es : Entries) : Op → String
  | .get k => if emptyKeyHit t (keyLEToNibbles k) then "empty-remaining-key" else ""
  | .del k => if emptyKeyHit t (keyLEToNibbles k) then "empty-remaining-key" else ""
  | .keys p => if trimRegion p es then "prefix-zero-nibble" else ""
  | .clr p => if trimRegion p es then "prefix-zero-nibble" else ""
  | .clrl p _ =>
    if trimRegion p es then "prefix-zero-nibble"
    else if nestedRegion p es then "clrl-children-first" else ""
  | _ => ""

/-- first op on which model and spec observables differ → its tag -/
def firstTag (t : Trie) (es : Entries) : List Op → String
  | [] => ""
  | op :: r =>
    let m := stepModel t op
    let s := stepSpec es op
    if m.2 == s.2 then firstTag m.1 s.1 r else kfTag t es op

/-! ### parsing -/

def parseNat? (s : String) : Option Nat :=
  if s.isEmpty then none
  else s.toList.foldl (fun acc c => acc.bind (fun n =>
    if '0' ≤ c ∧ c ≤ '9' then some (n * 10 + (c.toNat - 48)) else none)) (some 0)

def parseOp (s : String) : Op :=
  match words s with
  | ["put", k, v] => match ofHex? k, ofHex? v with
    | some k, some v => .put k v
    | _, _ => .bad
  | ["del", k] => match ofHex? k with | some k => .del k | none => .bad
  | ["clr", p] => match ofHex? p with | some p => .clr p | none => .bad
  | ["clrl", p, n] => match ofHex? p, parseNat? n with
    | some p, some n => .clrl p n
    | _, _ => .bad
  | ["get", k] => match ofHex? k with | some k => .get k | none => .bad
  | ["next", k] => match ofHex? k with | some k => .next k | none => .bad
  | ["keys", p] => match ofHex? p with | some p => .keys p | none => .bad
  | ["entries"] => .entries
  | _ => .bad

/-- `ver|op;op;…` → version token and ops -/
def parseLine (line : String) : Option (String × List Op) :=
  match line.splitOn "|" with
  | [ver, body] =>
    if ver == "0" || ver == "1" then some (ver, (body.splitOn ";").map parseOp) else none
  | _ => none

end Gossamer.C02
