/-
Model of property C23: GRANDPA authority-set changes (dot/state/grandpa.go, grandpa_changes.go,
dot/digest/block_import.go, dot/core/service.go handleBlock, dot/digest/digest.go finalisation handler).
Core Lean only.

Blocks are small numbers (0 = genesis); the block tree of a case is static (`Tree.parents`), the part of it the
node knows is dynamic (`St.live`, `St.root`).  Hashes are identified with block ids (headers of different blocks
differ in their BABE slot).  Every Go function that takes an `isDescendantOfFunc` takes the model's `isD`.
-/
namespace Gossamer.C23

-- (block ids are plain `Nat`s: 0 = genesis)

/-- Go `pendingChange` (also the announcement carried by a header's consensus digest):
    announcing block, kind, delay, next authorities (a tag), `bestFinalizedNumber` (forced only) -/
structure Ann where
  blk : Nat
  forced : Bool
  delay : Nat
  tag : Nat
  best : Nat
deriving DecidableEq, Repr, Inhabited

/-- the block tree of a case: `parents[i]` is the parent of block `i+1`; announcements in digest order -/
structure Tree where
  parents : List Nat
  anns : List Ann
deriving Repr, Inhabited

def par (t : Tree) (b : Nat) : Nat := t.parents.getD (b - 1) 0

/-- `b, parent b, …, 0` (fuel = `b` suffices because `par b < b`) -/
def up (t : Tree) : Nat → Nat → List Nat
  | 0, b => [b]
  | f + 1, b => if b = 0 then [0] else b :: up t f (par t b)

def chain (t : Tree) (b : Nat) : List Nat := up t b b

/-- header number = depth -/
def num (t : Tree) (b : Nat) : Nat := (chain t b).length - 1

/-- `a` is `d` or an ancestor of `d` -/
def anc (t : Tree) (a d : Nat) : Bool := (chain t d).contains a

/-- `pendingChange.effectiveNumber` -/
def eff (t : Tree) (c : Ann) : Nat := num t c.blk + c.delay

inductive Err where
  | dup | already | pending | unfin | anc
deriving DecidableEq, Repr

def Err.str : Err → String
  | .dup => "dup" | .already => "already" | .pending => "pending" | .unfin => "unfin" | .anc => "anc"

/-- result class of an operation -/
inductive Res where
  | ok | eParent | eDigest (e : Err) | eForced (e : Err) | eFin | okSched (e : Err)
deriving DecidableEq, Repr

def Res.str : Res → String
  | .ok => "ok" | .eParent => "e-parent" | .eDigest e => "e-digest:" ++ e.str | .eForced e => "e-forced:" ++ e.str
  | .eFin => "e-fin" | .okSched e => "ok+e-sched:" ++ e.str

/-- Go `pendingChangeNode` -/
inductive Node where
  | mk (c : Ann) (kids : List Node)
deriving Repr, Inhabited

def Node.ann : Node → Ann
  | .mk c _ => c

def Node.kids : Node → List Node
  | .mk _ ks => ks

abbrev IsD := Nat → Nat → Option Bool

/-! ### orderedPendingChanges (forced changes) -/

/-- the ancestry loop at the head of `orderedPendingChanges.importChange` -/
def forcedGuard (isD : IsD) (pc : Ann) : List Ann → Except Err Unit
  | [] => .ok ()
  | c :: cs =>
    if c.blk = pc.blk then .error .dup
    else match isD c.blk pc.blk with
      | none => .error .anc
      | some true => .error .already
      | some false => forcedGuard isD pc cs

/-- Go `sort.Search(n, f)`: plain bisection, whatever `f` is (`f` need not be monotone) -/
def goSearch (f : Nat → Bool) : Nat → Nat → Nat → Nat
  | 0, i, _ => i
  | fuel + 1, i, j =>
    if i < j then
      let h := (i + j) / 2
      if f h then goSearch f fuel i h else goSearch f fuel (h + 1) j
    else i

/-- the predicate handed to `sort.Search` in `importChange` -/
def searchPred (t : Tree) (oc : List Ann) (pc : Ann) (i : Nat) : Bool :=
  match oc[i]? with
  | some c => decide (eff t c ≥ eff t pc) && decide (num t c.blk ≥ num t pc.blk)
  | none => false

def insertAt (oc : List Ann) (i : Nat) (pc : Ann) : List Ann := oc.take i ++ pc :: oc.drop i

/-- `orderedPendingChanges.importChange` -/
def forcedImport (t : Tree) (isD : IsD) (pc : Ann) (oc : List Ann) : Except Err (List Ann) :=
  match forcedGuard isD pc oc with
  | .error e => .error e
  | .ok () => .ok (insertAt oc (goSearch (searchPred t oc pc) (oc.length + 1) 0 oc.length) pc)

/-- `orderedPendingChanges.findApplicable` -/
def forcedFind (t : Tree) (isD : IsD) (h : Nat) (n : Nat) : List Ann → Except Err (Option Ann)
  | [] => .ok none
  | c :: cs =>
    if h = c.blk ∧ eff t c = n then .ok (some c)
    else match isD c.blk h with
      | none => .error .anc
      | some d => if d ∧ eff t c = n then .ok (some c) else forcedFind t isD h n cs

/-- `orderedPendingChanges.pruneChanges` (the slice is replaced only when no ancestry check failed) -/
def forcedPrune (isD : IsD) (h : Nat) : List Ann → Except Err (List Ann)
  | [] => .ok []
  | c :: cs =>
    match isD h c.blk with
    | none => .error .anc
    | some d =>
      match forcedPrune isD h cs with
      | .error e => .error e
      | .ok r => .ok (if d then c :: r else r)

/-! ### changeTree (scheduled changes) -/

mutual
/-- `pendingChangeNode.importNode`: `none` = not imported here, `some n'` = the node after taking the change -/
def importNode (t : Tree) (isD : IsD) (pc : Ann) : Node → Except Err (Option Node)
  | .mk c kids =>
    if pc.blk = c.blk then .error .dup
    else match isD c.blk pc.blk with
      | none => .error .anc
      | some false => .ok none
      | some true =>
        if num t pc.blk ≤ num t c.blk then .ok none
        else match importKids t isD pc kids with
          | .error e => .error e
          | .ok (some kids') => .ok (some (.mk c kids'))
          | .ok none => .ok (some (.mk c (kids ++ [.mk pc []])))
/-- `importNode` on every node of a slice in order, the first `imported` wins -/
def importKids (t : Tree) (isD : IsD) (pc : Ann) : List Node → Except Err (Option (List Node))
  | [] => .ok none
  | n :: rest =>
    match importNode t isD pc n with
    | .error e => .error e
    | .ok (some n') => .ok (some (n' :: rest))
    | .ok none =>
      match importKids t isD pc rest with
      | .error e => .error e
      | .ok (some rest') => .ok (some (n :: rest'))
      | .ok none => .ok none
end

/-- `changeTree.importChange` -/
def schedImport (t : Tree) (isD : IsD) (pc : Ann) (roots : List Node) : Except Err (List Node) :=
  match importKids t isD pc roots with
  | .error e => .error e
  | .ok (some roots') => .ok roots'
  | .ok none => .ok (roots ++ [.mk pc []])

/-- the loop over `pcn.nodes` in `findApplicableChange` (the ancestry call precedes the number test) -/
def kidsCheck (t : Tree) (isD : IsD) (h : Nat) (n : Nat) : List Node → Except Err Bool
  | [] => .ok true
  | k :: ks =>
    match isD k.ann.blk h with
    | none => .error .anc
    | some d => if num t k.ann.blk ≤ n ∧ d then .error .unfin else kidsCheck t isD h n ks

/-- the condition of `findApplicableChange` -/
def applicableCond (t : Tree) (isD : IsD) (h : Nat) (n : Nat) (r : Node) : Except Err Bool :=
  if eff t r.ann > n then .ok false
  else if h ≠ r.ann.blk then
    match isD r.ann.blk h with
    | none => .error .anc
    | some false => .ok false
    | some true => kidsCheck t isD h n r.kids
  else kidsCheck t isD h n r.kids

/-- `changeTree.lookupChangeWhere` -/
def lookupRoots (cond : Node → Except Err Bool) : List Node → Except Err (Option Node)
  | [] => .ok none
  | r :: rs =>
    match cond r with
    | .error e => .error e
    | .ok true => .ok (some r)
    | .ok false => lookupRoots cond rs

/-- `orderedPendingChanges.lookupChangeWhere` -/
def lookupForced (cond : Ann → Except Err Bool) : List Ann → Except Err (Option Ann)
  | [] => .ok none
  | c :: cs =>
    match cond c with
    | .error e => .error e
    | .ok true => .ok (some c)
    | .ok false => lookupForced cond cs

/-- the test of `changeTree.pruneChanges`: the root descends from `h`, or is announced by an ancestor of `h` -/
def onBranch (isD : IsD) (h : Nat) (r : Node) : Except Err Bool :=
  match isD h r.ann.blk with
  | none => .error .anc
  | some true => .ok true
  | some false =>
    match isD r.ann.blk h with
    | none => .error .anc
    | some d => .ok d

/-- `changeTree.pruneChanges` -/
def schedPrune (isD : IsD) (h : Nat) : List Node → Except Err (List Node)
  | [] => .ok []
  | r :: rs =>
    match onBranch isD h r with
    | .error e => .error e
    | .ok d =>
      match schedPrune isD h rs with
      | .error e => .error e
      | .ok l => .ok (if d then r :: l else l)

/-- `changeTree.findApplicable`: the node found (if any) and the new roots -/
def schedFindApplicable (t : Tree) (isD : IsD) (h : Nat) (n : Nat) (roots : List Node) :
    Except Err (Option Node × List Node) :=
  match lookupRoots (applicableCond t isD h n) roots with
  | .error e => .error e
  | .ok (some r) => .ok (some r, r.kids)
  | .ok none =>
    match schedPrune isD h roots with
    | .error e => .error e
    | .ok roots' => .ok (none, roots')

/-! ### the node: block state + GrandpaState -/

structure St where
  /-- blocks whose header the BlockState can return: block-tree nodes and the finalised chain -/
  live : List Nat
  /-- root of the block tree = last finalised block -/
  root : Nat
  forced : List Ann
  roots : List Node
  setId : Nat
  /-- database table `auth<setID>` (latest write first) -/
  auths : List (Nat × Nat)
  /-- database table `change<setID>` -/
  change : List (Nat × Nat)
deriving Repr, Inhabited

def St.init : St :=
  { live := [0], root := 0, forced := [], roots := [], setId := 0, auths := [(0, 0)], change := [(0, 0)] }

def lookup (m : List (Nat × Nat)) (k : Nat) : Option Nat := (m.find? (·.1 = k)).map (·.2)

/-- node of the block tree -/
def inBt (t : Tree) (s : St) (b : Nat) : Bool := s.live.contains b && anc t s.root b

/-- `GrandpaState.isDescendantOf` over `BlockState.IsDescendantOf`: the block tree answers when it holds both
    blocks; otherwise headers are followed, which fails with `database.ErrNotFound` for a block that is
    neither in the tree nor on the finalised chain — the wrapper turns that into "not a descendant" -/
def isDesc (t : Tree) (s : St) : IsD := fun a d =>
  if a = d then some true
  else if s.live.contains a && s.live.contains d then some (anc t a d)
  else some false

/-- `startNextAuthoritySet` -/
def startNext (s : St) (tag at_ : Nat) : St :=
  { s with auths := (s.setId + 1, tag) :: s.auths, change := (s.setId + 1, at_) :: s.change, setId := s.setId + 1 }

/-- `checkForGRANDPAForcedChanges`: a forced change in the header removes its scheduled changes -/
def filterDigests (ds : List Ann) : List Ann :=
  if ds.any (·.forced) then ds.filter (·.forced) else ds

/-- `HandleDigests` → `HandleGRANDPADigest` for every digest in order; the first error stops the loop -/
def handleDigests (t : Tree) (s : St) : List Ann → Except Err St
  | [] => .ok s
  | d :: ds =>
    if d.forced then
      match forcedImport t (isDesc t s) d s.forced with
      | .error e => .error e
      | .ok f => handleDigests t { s with forced := f } ds
    else
      match schedImport t (isDesc t s) d s.roots with
      | .error e => .error e
      | .ok r => handleDigests t { s with roots := r } ds

/-- state after a failing `HandleDigests` (earlier digests of the header stay tracked) -/
def handleDigestsPartial (t : Tree) (s : St) : List Ann → St
  | [] => s
  | d :: ds =>
    if d.forced then
      match forcedImport t (isDesc t s) d s.forced with
      | .error _ => s
      | .ok f => handleDigestsPartial t { s with forced := f } ds
    else
      match schedImport t (isDesc t s) d s.roots with
      | .error _ => s
      | .ok r => handleDigestsPartial t { s with roots := r } ds

/-- the condition of the dependency lookup in `ApplyForcedChanges`: a root that is effective at or before the
    forced change's best finalized number and announced on its chain -/
def depCond (t : Tree) (s : St) (fc : Ann) (r : Node) : Except Err Bool :=
  if eff t r.ann > fc.best then .ok false
  else match isDesc t s r.ann.blk fc.blk with
    | none => .error .anc
    | some d => .ok d

/-- `ApplyForcedChanges` -/
def applyForced (t : Tree) (s : St) (b : Nat) : Except Err St :=
  match forcedFind t (isDesc t s) b (num t b) s.forced with
  | .error e => .error e
  | .ok none => .ok s
  | .ok (some fc) =>
    let dep := lookupRoots (depCond t s fc) s.roots
    match dep with
    | .error e => .error e
    | .ok (some _) => .error .pending
    | .ok none =>
      let s2 := startNext s fc.tag fc.best
      .ok { s2 with forced := [], roots := [] }

/-- `imp b`: Service.handleBlock = AddBlock, HandleDigests, ApplyForcedChanges -/
def importBlock (t : Tree) (s : St) (b : Nat) : St × Res :=
  if !inBt t s (par t b) then (s, .eParent)
  else
    let s0 := if inBt t s b then s else { s with live := s.live ++ [b] }
    let ds := filterDigests (t.anns.filter (·.blk = b))
    match handleDigests t s0 ds with
    | .error e => (handleDigestsPartial t s0 ds, .eDigest e)
    | .ok s1 =>
      match applyForced t s1 b with
      | .error e => (s1, .eForced e)
      | .ok s2 => (s2, .ok)

/-- `ApplyScheduledChanges` -/
def applyScheduled (t : Tree) (s : St) (b : Nat) : Except Err St :=
  match forcedPrune (isDesc t s) b s.forced with
  | .error e => .error e
  | .ok f =>
    let s1 := { s with forced := f }
    if s1.roots.isEmpty then .ok s1
    else match schedFindApplicable t (isDesc t s1) b (num t b) s1.roots with
      | .error e => .error e  -- NB the pruned forced slice is kept
      | .ok (none, roots') => .ok { s1 with roots := roots' }
      | .ok (some r, roots') => .ok (startNext { s1 with roots := roots' } r.ann.tag (num t b))

/-- state after a failing `ApplyScheduledChanges` -/
def applyScheduledPartial (t : Tree) (s : St) (b : Nat) : St :=
  match forcedPrune (isDesc t s) b s.forced with
  | .error _ => s
  | .ok f => { s with forced := f }

/-- `SetFinalisedHash`: only a node of the block tree can be finalised; everything that is neither an
    ancestor nor a descendant of it is forgotten -/
def setFinalised (t : Tree) (s : St) (b : Nat) : Option St :=
  if inBt t s b then some { s with live := s.live.filter (fun x => anc t b x || anc t x b), root := b }
  else none

/-- `fin b`: SetFinalisedHash, then (finalisation notification) ApplyScheduledChanges -/
def finalise (t : Tree) (s : St) (b : Nat) : St × Res :=
  match setFinalised t s b with
  | none => (s, .eFin)
  | some s1 =>
    match applyScheduled t s1 b with
    | .error e => (applyScheduledPartial t s1 b, .okSched e)
    | .ok s2 => (s2, .ok)

inductive Op where
  | imp (b : Nat)
  | fin (b : Nat)
deriving Repr, DecidableEq

def step (t : Tree) (s : St) : Op → St × Res
  | .imp b => importBlock t s b
  | .fin b => finalise t s b

/-! ### queries -/

/-- `GetSetIDByBlockNumber` (the loop counts `curr` down; fuel = current set id + 1) -/
def setIdAtLoop (change : List (Nat × Nat)) (n : Nat) : Nat → Nat → Option Nat
  | 0, _ => some 0
  | fuel + 1, curr =>
    match lookup change (curr + 1) with
    | none => if curr = 0 then some 0 else setIdAtLoop change n fuel (curr - 1)
    | some upper =>
      match lookup change curr with
      | none => none
      | some lower =>
        if n ≤ upper ∧ n > lower then some curr
        else if n > upper then some (curr + 1)
        else if curr = 0 then some 0
        else setIdAtLoop change n fuel (curr - 1)

def setIdAt (s : St) (n : Nat) : Option Nat := setIdAtLoop s.change n (s.setId + 2) s.setId

/-- the condition of the forced-change lookup of `NextGrandpaAuthorityChange` -/
def nextForcedCond (t : Tree) (s : St) (b n : Nat) (c : Ann) : Except Err Bool :=
  match isDesc t s c.blk b with
  | none => .error .anc
  | some d => .ok (d && decide (eff t c ≤ n))

/-- the condition of its scheduled-change lookup -/
def nextRootCond (t : Tree) (s : St) (b n : Nat) (r : Node) : Except Err Bool :=
  match isDesc t s r.ann.blk b with
  | none => .error .anc
  | some d => .ok (d && decide (eff t r.ann ≤ n))

/-- `NextGrandpaAuthorityChange`: `none` = ancestry error, `some 0` = ErrNoNextAuthorityChange -/
def nextChange (t : Tree) (s : St) (b : Nat) : Option Nat :=
  let n := num t b
  match lookupForced (nextForcedCond t s b n) s.forced with
  | .error _ => none
  | .ok f =>
    match lookupRoots (nextRootCond t s b n) s.roots with
    | .error _ => none
    | .ok r =>
      let next := match r with | some r => eff t r.ann | none => 0
      match f with
      | some f => if eff t f < next ∨ next = 0 then some (eff t f) else some next
      | none => some next

end Gossamer.C23
