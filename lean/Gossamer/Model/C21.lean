/-
C21 model: the vote tallies of lib/grandpa's `Service` (grandpa.go, vote_message.go, types.go).

What is mirrored (quirks included):
* `validateVoteMessage`      – the checks in the order of the code: signature (oracle), set id, round window
                               (`round-1 … round+1`, saturating at 0), lagging round (error), round ahead
                               (tracker + error), `pubkeyToVoter`, vote from ourselves, `validateVote`
                               (`HasHeader`, descendant of the finalised head; the vote's NUMBER is not compared
                               with the header: known finding c21-wrong-number-vote-counted; the tracker keeps
                               votes for unknown blocks), `checkAndReportEquivocation`, the store
                               by stage (`prevote`/`primaryProposal` → prevotes, `precommit` → precommits, any
                               other stage byte → nothing is stored and the answer is still `ok`).
* `checkAndReportEquivocation` – an authority already in the equivocation map: the vote is appended there;
                               a stored vote with another *hash*: both go to the equivocation map and the stored
                               vote is deleted; the same hash again: not an equivocation.
* `getDirectVotes`           – a Go map `Vote → count` keyed by the PAIR (hash, number).
* `getVotesForBlock` / `getTotalVotesForBlock` – sum of the counts of the votes whose block descends from (or is) the
                               block, `IsDescendantOf` errors for unknown blocks skipped, plus the NUMBER of
                               equivocators of the stage.
* `getPossibleSelectedBlocks` – first loop over the direct votes with `total > threshold`; if it selects anything the
                               function returns at once (this is why a directly voted block hides a higher common
                               ancestor of other votes: known finding c21-direct-vote-shadows-ghost); otherwise
                               `getPossibleSelectedAncestors` from every direct vote.
* `getPossibleSelectedAncestors` – the recursive search over `maps.Keys(votes)` with its early `return` when the
                               common ancestor is the current block; the number stored is the header's number.
* `getPreVotedBlock` / `getGrandpaGHOST` – empty → fallback with a decreasing threshold; one block → it;
                               several → strictly greater number wins starting from the finalised head.
* `getBestFinalCandidate`, `retrieveBestFinalCandidate`, `attemptToFinalize`, `finalise` (both recompute the
                               candidates), `determinePreCommit`, `determinePreVote` (cap at the next authority
                               change on the chain of the vote).

Every `for … range <Go map>` takes its iteration order from an explicit parameter (`Ord`): a family of
list permutations indexed by the call path, so that every dynamic call may see another order.
The theorems quantify over all of them.

Blocks are `0 … size-1`, block 0 is the root of the tree, `par[b] < b` is the parent of `b`, the header number
of `b` is `base + depth b`.  A block index `≥ size` is a hash nobody knows.
Authorities are the keys listed in `voters` (the current set); `me` is the key of the Service.
-/
namespace Gossamer.C21

/-! ### block tree -/

structure Tree where
  par : List Nat
  deriving Repr

def Tree.size (t : Tree) : Nat := t.par.length
def Tree.parent (t : Tree) (b : Nat) : Nat := t.par.getD b 0

/-- `[b, parent b, …, 0]`; fuel `b` suffices because `parent b < b`. -/
def chainUp (t : Tree) : Nat → Nat → List Nat
  | 0, b => [b]
  | f + 1, b => if b = 0 then [0] else b :: chainUp t f (t.parent b)

def Tree.chain (t : Tree) (b : Nat) : List Nat := chainUp t b b

/-- `a` is `b` or an ancestor of `b` -/
def Tree.le (t : Tree) (a b : Nat) : Bool := (t.chain b).contains a

def Tree.depth (t : Tree) (b : Nat) : Nat := (t.chain b).length - 1

/-- well-formed parent table -/
def Tree.WF (t : Tree) : Prop := 0 < t.size ∧ ∀ b, 0 < b → b < t.size → t.parent b < b

def Tree.wf (t : Tree) : Bool :=
  decide (0 < t.size) && (List.range t.size).all (fun b => b == 0 || decide (t.parent b < b))

/-- `blocktree.IsDescendantOf(parent, child)` -/
inductive Desc where
  | yes | no | errStart | errEnd
  deriving DecidableEq, Repr

def isDesc (t : Tree) (p c : Nat) : Desc :=
  if p = c then .yes
  else if t.size ≤ p then .errStart
  else if t.size ≤ c then .errEnd
  else if t.le p c then .yes else .no

/-- `blocktree.LowestCommonAncestor`; `none` = `ErrNodeNotFound` -/
def lca (t : Tree) (a b : Nat) : Option Nat :=
  if a < t.size ∧ b < t.size then (t.chain a).find? (fun x => t.le x b) else none

/-- the best leaf of lib/blocktree when no block is a primary-slot block and block `i` arrived at time `i`:
the deepest block, the lowest index among equally deep ones -/
def Tree.best (t : Tree) : Nat :=
  (List.range t.size).foldl (fun b x => if t.depth b < t.depth x then x else b) 0

/-! ### configuration, votes, state -/

structure Vote where
  blk : Nat
  num : Nat
  deriving DecidableEq, Repr, BEq

inductive Chg where
  | none            -- ErrNoNextAuthorityChange
  | fail            -- any other error
  | at (h : Nat)
  deriving DecidableEq, Repr

structure Cfg where
  voters : List Nat   -- `State.voters`: the keys of the current authority set, in order
  me : Nat
  base : Nat
  t : Tree
  fin : Nat
  chg : Chg
  round : Nat
  set : Nat
  strict : Bool := false   -- `true`: the vote number is checked against the header (what the property demands)
  deriving Repr

/-- `len(s.state.voters)` -/
def Cfg.n (c : Cfg) : Nat := c.voters.length

def Cfg.number (c : Cfg) (b : Nat) : Nat := c.base + c.t.depth b
def Cfg.voteOf (c : Cfg) (b : Nat) : Vote := ⟨b, c.number b⟩
def Cfg.headNum (c : Cfg) : Nat := c.number c.fin

/-- `State.threshold()` -/
def thr (n : Nat) : Nat := 2 * n / 3

structure St where
  pv : List (Nat × Vote) := []    -- Service.prevotes      (authority key → latest vote)
  pc : List (Nat × Vote) := []    -- Service.precommits
  pve : List (Nat × Nat) := []    -- Service.pvEquivocations (authority key → number of votes kept)
  pce : List (Nat × Nat) := []    -- Service.pcEquivocations
  trk : List (Nat × Nat) := []    -- tracker.votes (block, authority)
  deriving Repr, DecidableEq

/-- a vote message; `sigOK` is the signature oracle (the harness knows how it signed) -/
structure Msg where
  stage : Nat      -- 0 prevote, 1 precommit, 2 primaryProposal, other = undefined
  key : Nat
  blk : Nat
  num : Nat
  sigOK : Bool
  mround : Nat
  mset : Nat
  deriving Repr, DecidableEq

inductive Err where
  | sig | set | oob | lag | ahead | voter | self | noblock | num | notdesc | equiv
  | noghost | before | chg | node | hdr
  deriving DecidableEq, Repr

/-! ### association lists standing for Go maps -/

def aget {α : Type} (l : List (Nat × α)) (k : Nat) : Option α :=
  match l with
  | [] => none
  | (k', v) :: rest => if k' = k then some v else aget rest k

def ahas {α : Type} (l : List (Nat × α)) (k : Nat) : Bool := (aget l k).isSome

/-- `m[k] = v` -/
def aset {α : Type} : List (Nat × α) → Nat → α → List (Nat × α)
  | [], k, v => [(k, v)]
  | (k', v') :: rest, k, v => if k' = k then (k, v) :: rest else (k', v') :: aset rest k v

def adel {α : Type} (l : List (Nat × α)) (k : Nat) : List (Nat × α) := l.filter (fun p => p.1 != k)

/-! ### vote_message.go -/

def trackAdd (trk : List (Nat × Nat)) (blk key : Nat) : List (Nat × Nat) :=
  if trk.contains (blk, key) then trk else trk ++ [(blk, key)]

/-- `validateVote` -/
def validateVote (c : Cfg) (v : Vote) : Option Err :=
  if c.t.size ≤ v.blk then some .noblock
  else if c.strict && v.num != c.number v.blk then some .num
  else match isDesc c.t c.fin v.blk with
    | .yes => none
    | .no => some .notdesc
    | _ => some .node

/-- the votes / equivocations a stage byte addresses (`loadVote`, `checkAndReportEquivocation`) -/
def isPvStage (stage : Nat) : Bool := stage == 0 || stage == 2
def isPcStage (stage : Nat) : Bool := stage == 1

/-- `validateVoteMessage`: `none` = accepted -/
def validateVoteMessage (c : Cfg) (s : St) (m : Msg) : Option Err × St :=
  if !m.sigOK then (some .sig, s)
  else if m.mset ≠ c.set then (some .set, s)
  else if m.mround < c.round - 1 ∨ c.round + 1 < m.mround then (some .oob, s)
  else if m.mround < c.round then (some .lag, s)
  else if c.round < m.mround then (some .ahead, { s with trk := trackAdd s.trk m.blk m.key })
  else if m.key ∉ c.voters then (some .voter, s)
  else if m.key = c.me then (some .self, s)
  else
    let vote : Vote := ⟨m.blk, m.num⟩
    match validateVote c vote with
    | some .noblock => (some .noblock, { s with trk := trackAdd s.trk m.blk m.key })
    | some e => (some e, s)
    | none =>
      if isPvStage m.stage then
        if ahas s.pve m.key then
          (some .equiv, { s with pve := aset s.pve m.key ((aget s.pve m.key).getD 0 + 1) })
        else match aget s.pv m.key with
          | some ev =>
            if ev.blk ≠ m.blk then
              (some .equiv, { s with pve := aset s.pve m.key 2, pv := adel s.pv m.key })
            else (none, { s with pv := aset s.pv m.key vote })
          | none => (none, { s with pv := aset s.pv m.key vote })
      else if isPcStage m.stage then
        if ahas s.pce m.key then
          (some .equiv, { s with pce := aset s.pce m.key ((aget s.pce m.key).getD 0 + 1) })
        else match aget s.pc m.key with
          | some ev =>
            if ev.blk ≠ m.blk then
              (some .equiv, { s with pce := aset s.pce m.key 2, pc := adel s.pc m.key })
            else (none, { s with pc := aset s.pc m.key vote })
          | none => (none, { s with pc := aset s.pc m.key vote })
      else (none, s)

/-- the Service stores its own vote for a block it knows on the chain of its finalised head -/
def ownVote (c : Cfg) (s : St) (stage : Nat) (b : Nat) : St :=
  if stage = 0 then { s with pv := aset s.pv c.me (c.voteOf b) }
  else { s with pc := aset s.pc c.me (c.voteOf b) }

inductive Op where
  | msg (m : Msg)
  | own (stage : Nat) (b : Nat)
  deriving Repr, DecidableEq

def step (c : Cfg) (s : St) : Op → St
  | .msg m => (validateVoteMessage c s m).2
  | .own stage b => ownVote c s stage b

def run (c : Cfg) (ops : List Op) : St := ops.foldl (step c) {}

/-! ### authority-set changes: `initiateRound` → `updateAuthorities` -/

/-- what the node's state answers while a round is initiated -/
structure Init where
  cur : Nat             -- GrandpaState.GetCurrentSetID
  auths : List Nat      -- GrandpaState.GetAuthorities(cur)
  hr : Nat              -- BlockState.GetHighestRoundAndSetID
  hs : Nat
  head : Nat            -- BlockState.GetFinalisedHeader(hr, hs): a block of the tree
  deriving Repr, DecidableEq

/-- `updateAuthorities`: a new set id replaces the voters and resets the round -/
def updateAuthorities (c : Cfg) (i : Init) : Cfg :=
  if i.cur = c.set then c else { c with voters := i.auths, set := i.cur, round := 0 }

/-- `initiateRound`: authority change, catch up with a higher finalised round / set id (the set id alone – the
voters are NOT reloaded on that path), new finalised head, next round, all four tallies emptied.  The tracker is
kept. -/
def initiateRound (c : Cfg) (s : St) (i : Init) : Cfg × St :=
  let c1 := updateAuthorities c i
  let c2 := if c1.round < i.hr ∧ i.hs = c1.set then { c1 with round := i.hr } else c1
  let c3 := if c2.set < i.hs then { c2 with set := i.hs, round := i.hr } else c2
  ({ c3 with fin := i.head, round := c3.round + 1 }, { trk := s.trk })

/-- an event of a history with authority-set changes -/
inductive Ev where
  | msg (m : Msg)
  | own (stage : Nat) (b : Nat)   -- ignored unless `b` is a block of the tree on the chain of the current head
  | init (i : Init)
  deriving Repr, DecidableEq

def stepAll (cs : Cfg × St) : Ev → Cfg × St
  | .msg m => (cs.1, (validateVoteMessage cs.1 cs.2 m).2)
  | .own stage b =>
    if b < cs.1.t.size ∧ cs.1.t.le cs.1.fin b then (cs.1, ownVote cs.1 cs.2 stage b) else cs
  | .init i => initiateRound cs.1 cs.2 i

def runAll (c : Cfg) (evs : List Ev) : Cfg × St := evs.foldl stepAll (c, {})

/-! ### iteration orders of Go maps -/

structure Perms where
  votes : List (Vote × Nat) → List (Vote × Nat)
  keys : List Vote → List Vote
  blocks : List (Nat × Nat) → List (Nat × Nat)

/-- one `Perms` per call path: every dynamic call of a tally function may see other orders -/
abbrev Ord := List Nat → Perms

def Ord.sub (o : Ord) (i : Nat) : Ord := fun p => o (i :: p)

def Perms.id : Perms := ⟨fun l => l, fun l => l, fun l => l⟩

/-! ### grandpa.go: tallies -/

/-- `votes[sv.Vote]++` -/
def dvAdd : List (Vote × Nat) → Vote → List (Vote × Nat)
  | [], v => [(v, 1)]
  | (w, c) :: rest, v => if w = v then (w, c + 1) :: rest else (w, c) :: dvAdd rest v

/-- `getDirectVotes`: the Go map `Vote → count` (its iteration order is applied where it is ranged over) -/
def directVotes : List (Nat × Vote) → List (Vote × Nat)
  | [] => []
  | kv :: rest => dvAdd (directVotes rest) kv.2

/-- `getVotesForBlock`: the sum over the map (addition commutes: no iteration order) -/
def votesFor (t : Tree) (b : Nat) : List (Vote × Nat) → Nat
  | [] => 0
  | p :: rest => (if isDesc t b p.1.blk = .yes then p.2 else 0) + votesFor t b rest

/-- `getTotalVotesForBlock`: the equivocators count for every block -/
def total (t : Tree) (dv : List (Vote × Nat)) (e : Nat) (b : Nat) : Nat := votesFor t b dv + e

abbrev Sel := List (Nat × Nat)   -- Go map hash → number

/-- loop body of `getPossibleSelectedAncestors`; `rec` is the recursive call -/
def psaLoop (c : Cfg) (tot : Nat → Nat) (th : Nat) (curr : Nat) (rec : Nat → Sel → Sel) :
    List Vote → Sel → Sel
  | [], sel => sel
  | v :: rest, sel =>
    if v.blk = curr then psaLoop c tot th curr rec rest sel
    else match lca c.t v.blk curr with
      | none => psaLoop c tot th curr rec rest sel
      | some pred =>
        if pred = curr then sel
        else if th < tot pred then psaLoop c tot th curr rec rest (aset sel pred (c.number pred))
        else psaLoop c tot th curr rec rest (rec pred sel)

/-- `getPossibleSelectedAncestors`; the first argument is fuel (`size + 1` is never exhausted) -/
def psa (c : Cfg) (tot : Nat → Nat) (th : Nat) (va : List Vote) : Nat → Nat → Sel → Sel
  | 0, _, sel => sel
  | f + 1, curr, sel => psaLoop c tot th curr (psa c tot th va f) va sel

/-- body of the first loop of `getPossibleSelectedBlocks`: the number stored is the one found in the vote -/
def dirStep (tot : Nat → Nat) (th : Nat) (bl : Sel) (p : Vote × Nat) : Sel :=
  if th < tot p.1.blk then aset bl p.1.blk p.1.num else bl

/-- `getPossibleSelectedBlocks` for the votes and the number of equivocators of one stage -/
def psb (c : Cfg) (o : Ord) (votes : List (Nat × Vote)) (e : Nat) (th : Nat) : Sel :=
  let dv := directVotes votes
  let tot := total c.t dv e
  let blocks := ((o [0]).votes dv).foldl (dirStep tot th) []
  if !blocks.isEmpty then blocks
  else
    let va := (o [2]).keys (dv.map (·.1))
    ((o [1]).votes dv).foldl (fun bl p => psa c tot th va (c.t.size + 1) p.1.blk bl) []

/-- the `for h, n := range blocks { if n > highest.Number … }` loops -/
def pickHighest (init : Vote) (l : List (Nat × Nat)) : Vote :=
  l.foldl (fun hi p => if hi.num < p.2 then ⟨p.1, p.2⟩ else hi) init

/-- the `for { … threshold-- }` loop of `getGrandpaGHOST` -/
def ghostLoop (c : Cfg) (o : Ord) (votes : List (Nat × Vote)) (e : Nat) : Nat → Sel
  | 0 => psb c (o.sub 0) votes e 0
  | th + 1 =>
    let b := psb c (o.sub (th + 1)) votes e (th + 1)
    if !b.isEmpty then b else ghostLoop c o votes e th

def Cfg.head (c : Cfg) : Vote := c.voteOf c.fin

/-- `getGrandpaGHOST` -/
def getGrandpaGHOST (c : Cfg) (o : Ord) (s : St) : Except Err Vote :=
  let blocks := ghostLoop c (o.sub 0) s.pv s.pve.length (thr c.n)
  if blocks.isEmpty then .error .noghost
  else .ok (pickHighest c.head ((o [1]).blocks blocks))

/-- `getPreVotedBlock` -/
def getPreVotedBlock (c : Cfg) (o : Ord) (s : St) : Except Err Vote :=
  let blocks := psb c (o.sub 0) s.pv s.pve.length (thr c.n)
  match blocks with
  | [] => getGrandpaGHOST c (o.sub 2) s
  | [(h, n)] => .ok ⟨h, n⟩
  | _ => .ok (pickHighest c.head ((o [1]).blocks blocks))

/-- the header found by walking the parent links from `b` down to number `h` (the cap of a vote) -/
def ancestorAtNumber (c : Cfg) (b : Nat) (h : Nat) : Except Err Vote :=
  if c.t.size ≤ b then .error .hdr
  else match (c.t.chain b).find? (fun x => c.number x ≤ h) with
    | some x => .ok (c.voteOf x)
    | none => .error .hdr

def capVote (c : Cfg) (v : Vote) : Except Err Vote :=
  match c.chg with
  | .none => .ok v
  | .fail => .error .chg
  | .at h => if h < v.num then ancestorAtNumber c v.blk h else .ok v

/-- `determinePreCommit` -/
def determinePreCommit (c : Cfg) (o : Ord) (s : St) : Except Err Vote := do
  let pvb ← getPreVotedBlock c (o.sub 0) s
  capVote c pvb

/-- `determinePreVote` -/
def determinePreVote (c : Cfg) (s : St) : Except Err Vote :=
  let bestVote := c.voteOf c.t.best
  let vote := match aget s.pv (c.voters.getD (c.round % c.n) 0) with
    | some prm => if c.headNum ≤ prm.num then prm else bestVote
    | none => bestVote
  capVote c vote

/-- the genesis hash: the root when its number is 0, otherwise a hash outside the tree -/
def Cfg.genesis (c : Cfg) : Nat := if c.base = 0 then 0 else c.t.size

/-- one iteration of the candidate loop of `getBestFinalCandidate` -/
def bfcStep (c : Cfg) (prevoted : Vote) (acc : Except Err Vote) (p : Nat × Nat) : Except Err Vote := do
  let bfc ← acc
  let cand : Nat × Nat ← match isDesc c.t p.1 prevoted.blk with
    | .yes => .ok p
    | .no => match lca c.t p.1 prevoted.blk with
      | some pred => .ok (pred, c.number pred)
      | none => .error .node
    | _ => .error .node
  if bfc.num < cand.2 then .ok ⟨cand.1, cand.2⟩ else .ok bfc

/-- `getBestFinalCandidate` -/
def getBestFinalCandidate (c : Cfg) (o : Ord) (s : St) : Except Err Vote := do
  let prevoted ← getPreVotedBlock c (o.sub 0) s
  let blocks := psb c (o.sub 1) s.pc s.pce.length (thr c.n)
  if blocks.isEmpty then .ok prevoted
  else ((o [2]).blocks blocks).foldl (bfcStep c prevoted) (.ok ⟨c.genesis, 0⟩)

def pcTotal (c : Cfg) (s : St) (b : Nat) : Nat := total c.t (directVotes s.pc) s.pce.length b
def pvTotal (c : Cfg) (s : St) (b : Nat) : Nat := total c.t (directVotes s.pv) s.pve.length b

/-- `createJustification`: only its error path matters here -/
def justErr (c : Cfg) (bfc : Nat) (votes : List (Nat × Vote)) : Bool :=
  votes.any (fun kv => match isDesc c.t bfc kv.2.blk with | .errStart | .errEnd => true | _ => false)

inductive Fin where
  | no                       -- not finalisable
  | yes (b : Nat)            -- SetFinalisedHash(b, round, set), head := b
  deriving DecidableEq, Repr

/-- `attemptToFinalize` (with `retrieveBestFinalCandidate` and `finalise`) -/
def attemptToFinalize (c : Cfg) (o : Ord) (s : St) : Except Err Fin := do
  let bfc ← getBestFinalCandidate c (o.sub 0) s
  if bfc.num < c.headNum then .error .before
  else
    let count := pcTotal c s bfc.blk
    if count ≤ thr c.n then .ok .no
    else
      -- finalise() recomputes both
      let bfc2 ← getBestFinalCandidate c (o.sub 1) s
      let _pv ← getPreVotedBlock c (o.sub 2) s
      if justErr c bfc2.blk s.pv || justErr c bfc2.blk s.pc then .error .node
      else if c.t.size ≤ bfc2.blk then .error .hdr
      else .ok (.yes bfc2.blk)

/-! ### the closed form: what the tallies select whatever the iteration orders (theorems in Props) -/

/-- blocks named by a vote of the stage -/
def votedBlocks (votes : List (Nat × Vote)) : List Nat := votes.map (·.2.blk)

/-- directly voted blocks with more than `th` total votes -/
def dirSel (c : Cfg) (votes : List (Nat × Vote)) (e th : Nat) : List Nat :=
  (votedBlocks votes).filter (fun b => th < total c.t (directVotes votes) e b)

/-- all blocks of the tree with more than `th` total votes -/
def superBlocks (c : Cfg) (votes : List (Nat × Vote)) (e th : Nat) : List Nat :=
  (List.range c.t.size).filter (fun b => th < total c.t (directVotes votes) e b)

/-- the blocks among which the highest is chosen -/
def cands (c : Cfg) (votes : List (Nat × Vote)) (e th : Nat) : List Nat :=
  let d := dirSel c votes e th
  if !d.isEmpty then d else if votes.isEmpty then [] else superBlocks c votes e th

/-- the elements of maximal depth -/
def maxDepth (t : Tree) (l : List Nat) : List Nat :=
  l.filter (fun b => l.all (fun b' => t.depth b' ≤ t.depth b))

/-- first non-empty candidate set for thresholds `th, th-1, …, 0` -/
def candsDown (c : Cfg) (votes : List (Nat × Vote)) (e : Nat) : Nat → List Nat
  | 0 => cands c votes e 0
  | th + 1 =>
    let d := cands c votes e (th + 1)
    if !d.isEmpty then d else candsDown c votes e th

/-- the possible results of `getPreVotedBlock` (as blocks); empty = `ErrNoGHOST` -/
def pvbSet (c : Cfg) (s : St) : List Nat :=
  maxDepth c.t (candsDown c s.pv s.pve.length (thr c.n))

/-- the GRANDPA-GHOST of the specification: the blocks of maximal number among those with a supermajority -/
def ghostSet (c : Cfg) (votes : List (Nat × Vote)) (e th : Nat) : List Nat :=
  maxDepth c.t (superBlocks c votes e th)

/-- `getBestFinalCandidate` for a given pre-voted block: the highest block on the chain of `p` that is
(an ancestor of) a candidate -/
def bfcOf (c : Cfg) (s : St) (p : Nat) : Nat :=
  let cs := cands c s.pc s.pce.length (thr c.n)
  if cs.isEmpty then p
  else
    let on := cs.filterMap (fun h => if c.t.le h p then some h else lca c.t h p)
    match maxDepth c.t on with
    | x :: _ => x
    | [] => p

/-- the specification's best final candidate: the highest block on the chain of `p` with a supermajority of
precommits -/
def bfcSpec (c : Cfg) (s : St) (p : Nat) : Option Nat :=
  (c.t.chain p).find? (fun x => thr c.n < pcTotal c s x)

end Gossamer.C21
