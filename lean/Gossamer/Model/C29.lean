/-
Model of the glue in lib/common/hasher.go over the reference hash functions of Lib/HashRef.lean, and of
the crypto host functions of lib/runtime/wazero/imports.go over the signature references of
Lib/SigRef.lean and Lib/SrRef.lean (what gossamer does: `…Go`; what Substrate does: `…Ref`).
The primitives themselves live in third-party Go libraries that are not translated; C29 ties the Go
helpers to these references by correspondence only (see DESIGN.md, C29).
-/
import Gossamer.Lib.HashRef
import Gossamer.Lib.SigRef
import Gossamer.Lib.SrRef
namespace Gossamer.C29
open Gossamer Gossamer.HashRef Gossamer.SigRef Gossamer.SrRef

def twox64 (m : Bytes) : Bytes := u64le (xxh64 0 m)
def twox128 (m : Bytes) : Bytes := u64le (xxh64 0 m) ++ u64le (xxh64 1 m)
def twox256 (m : Bytes) : Bytes :=
  u64le (xxh64 0 m) ++ u64le (xxh64 1 m) ++ u64le (xxh64 2 m) ++ u64le (xxh64 3 m)
def blake2b128 (m : Bytes) : Bytes := blake2b 16 m
def blake2b8 (m : Bytes) : Bytes := blake2b 8 m
def blake2bHash (m : Bytes) : Bytes := blake2b 32 m

/-! host functions of lib/runtime/wazero/imports.go -/

def zeros32 : Bytes := List.replicate 32 0

/-- `ext_crypto_sr25519_verify_version_1` as written: 0 only when the public key does not decode;
    the result of `VerifyDeprecated` is logged, not returned -/
def hostSr1Go (pk _m _sg : Bytes) : Bool := (rDecode pk).isSome

/-- `ext_crypto_sr25519_verify_version_2` as written: the all-zero key is handed to version 1 -/
def hostSr2Go (pk m sg : Bytes) : Bool :=
  if pk == zeros32 then hostSr1Go pk m sg else srVerifyGo pk m sg

/-- the queueing branch of `ext_crypto_ecdsa_verify_version_2` (dead in production): BLAKE2b-256 of the
    message, plain (low-s) ECDSA verification of the first 64 signature bytes -/
def hostEcvQueued (pub m sg : Bytes) : Bool := ecdsaVerify pub (blake2b 32 m) (sg.take 64)

/-- Substrate `ecdsa::Pair::verify`: recover the key from the 65-byte signature (recovery id 0..3, no
    27 offset) over BLAKE2b-256 of the message and compare its compressed form with the given key -/
def hostEcvRef (pub m sg : Bytes) : Bool :=
  if sg.length ≠ 65 ∨ (sg.getD 64 0).toNat > 3 then false else
  match ecdsaRecover (blake2b 32 m) sg with
  | some q => ((if natOfBE (q.drop 32) % 2 == 1 then 3 else 2) :: q.take 32) == pub
  | none => false

/-- `ext_crypto_ecdsa_verify_version_2` as written (since fix 3): the 33 key bytes must decompress, then
    recover-and-compare as Substrate does -/
def hostEcvGo (pub m sg : Bytes) : Bool := (skParsePub pub).isSome && hostEcvRef pub m sg

def compressQ (q : Bytes) : Bytes := (if natOfBE (q.drop 32) % 2 == 1 then 3 else 2) :: q.take 32

/-- `ecdsaVerifyError` of imports.go: the variant of sp_io::EcdsaVerifyError (BadRS = 0, BadV = 1,
    BadSignature = 2) for a 65-byte signature that did not recover -/
def ecdsaErrCode (sg : Bytes) : UInt8 :=
  let v0 := (sg.getD 64 0).toNat
  let v := if v0 ≥ 27 then v0 - 27 else v0
  if v > 3 then 1
  else if natOfBE (sg.take 32) ≥ skN || natOfBE ((sg.drop 32).take 32) ≥ skN then 0
  else 2

/-- SCALE `Result<[u8; N], EcdsaVerifyError>` as gossamer writes it: `00 ‖ key` or `01 ‖ variant` -/
def hostRecoverGo (compressed : Bool) (m sg : Bytes) : Bytes :=
  match ecdsaRecover m sg with
  | some q => 0 :: (if compressed then compressQ q else q)
  | none => [1, ecdsaErrCode sg]

/-- the same as Substrate's `secp256k1_ecdsa_recover(_compressed)`: the error carries its variant
    (BadRS = 0, BadV = 1, BadSignature = 2); version 1 parses r and s "overflowing" (reduced mod n),
    version 2 rejects r, s ≥ n with BadRS -/
def hostRecoverRef (ver : Nat) (compressed : Bool) (m sg : Bytes) : Bytes :=
  let v0 := (sg.getD 64 0).toNat
  let v := if v0 > 26 then v0 - 27 else v0
  let r := natOfBE (sg.take 32)
  let s := natOfBE ((sg.drop 32).take 32)
  let sg' : Bytes := if ver == 1 then beBytes 32 (r % skN) ++ beBytes 32 (s % skN) ++ [sg.getD 64 0] else sg
  if ver == 1 then
    if v > 3 then [1, 1] else
    match ecdsaRecover m sg' with
    | some q => 0 :: (if compressed then compressQ q else q)
    | none => [1, 2]
  else
    if v > 3 then [1, 1] else
    if r ≥ skN || s ≥ skN then [1, 0] else
    match ecdsaRecover m sg' with
    | some q => 0 :: (if compressed then compressQ q else q)
    | none => [1, 2]


end Gossamer.C29
