/-
Model of the glue in lib/common/hasher.go over the reference hash functions of Lib/HashRef.lean.
The primitives themselves live in third-party Go libraries that are not translated; C29 ties the Go
helpers to these references by correspondence only (see DESIGN.md, C29).
-/
import Gossamer.Lib.HashRef
namespace Gossamer.C29
open Gossamer Gossamer.HashRef

def twox64 (m : Bytes) : Bytes := u64le (xxh64 0 m)
def twox128 (m : Bytes) : Bytes := u64le (xxh64 0 m) ++ u64le (xxh64 1 m)
def twox256 (m : Bytes) : Bytes :=
  u64le (xxh64 0 m) ++ u64le (xxh64 1 m) ++ u64le (xxh64 2 m) ++ u64le (xxh64 3 m)
def blake2b128 (m : Bytes) : Bytes := blake2b 16 m
def blake2b8 (m : Bytes) : Bytes := blake2b 8 m
def blake2bHash (m : Bytes) : Bytes := blake2b 32 m

end Gossamer.C29
