/-
C16 model: fork choice.  `leafMap.bestBlock` / `highestLeaf` / `primaryAncestorCount` / `BestBlockHash` are in
`Gossamer.Lib.BlockTree` (`bestBlock`, `highestLeaf`, `primaryCount`, `BT.bestBlockHash`), parameterised by the
iteration order of the two sync.Maps involved.  This file fixes the vocabulary the C16 theorems use.
-/
import Gossamer.Model.C15

namespace Gossamer.C16
open Gossamer.BlockTree

/-- an iteration order of Go's randomised map: any function that permutes its argument -/
def IsOrder (σ : List Info → List Info) : Prop := ∀ l, (σ l).Perm l

/-- `bt.best()` when the leaf map is iterated in the order `it` and the temporary map of the tie group in the
    order chosen by `σ` -/
def bestWith (bt : BT) (it : List Info) (σ : List Info → List Info) : Option (Option Info) :=
  bestBlock bt.root it σ

/-- `BestBlockHash` under those orders (`none` = a nil dereference, never reached) -/
def bestHashWith (bt : BT) (it : List Info) (σ : List Info → List Info) : Option Hash :=
  if bt.root.children.isEmpty then some bt.root.info.hash
  else match bestWith bt it σ with
    | some (some b) => some b.hash
    | _ => none

end Gossamer.C16
