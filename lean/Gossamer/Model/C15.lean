/-
C15 model: the block tree of lib/blocktree as a state machine over AddBlock / Prune.
The structure, the traversals and the flat specification live in `Gossamer.Lib.BlockTree` (shared with C16,
C17, …); this file adds the operation level (`Op`, `step`, `run`) the theorems of Props/C15 quantify over.
-/
import Gossamer.Lib.BlockTree

namespace Gossamer.C15
open Gossamer.BlockTree

/-- one call of the public API that changes the tree -/
inductive Op where
  /-- `AddBlock(header, arrivalTime)` -/
  | add (hd : Header) (arrival : Nat)
  /-- `Prune(finalised)` -/
  | prune (h : Hash)
deriving Repr

/-- state after the call (a failing AddBlock leaves the tree untouched) -/
def step (bt : BT) : Op → BT
  | .add hd arr => match bt.addBlock hd arr with
    | .ok bt' => bt'
    | .error _ => bt
  | .prune h => (bt.prune h).1

/-- every history: a root, then any sequence of calls -/
def run (init : BT) (ops : List Op) : BT := ops.foldl step init

end Gossamer.C15
