/-
C20 model: the GRANDPA round accumulator of pkg/finality-grandpa (round.go, context.go, bitfield.go)
over the *uncompressed* vote graph (layer (a) of DESIGN §4 C20).

What is mirrored (quirks included):
* `voteTracker.addVote`      – first vote `single`, second different (vote, signature) `equivocated`,
                               same pair again = duplicate, third different one = ignored;
                               `currentWeight` grows only with the first vote of a voter.
* `Round.importPrevote/importPrecommit` – unknown signer ignored; the vote is tracked *before* the graph
                               insert, so a target outside the chain leaves the tracker updated and returns an
                               error without `update()`; the equivocator bit is set in `context.equivocations`
                               (position 2·voter + phase); the prevote GHOST is recomputed only when the
                               prevote weight reached the threshold and *starting from the memoised ghost*.
* `Round.update`              – the early returns, `finalized` only recomputed once precommit weight reached
                               the threshold, the "possible to precommit" closure with Go's wrapping `uint64`
                               subtraction, the `estimate = prevoteGhost; return` shortcut below the threshold
                               (which leaves `completable` untouched).
* `Round.PrecommitGHOST`      – memoised like the prevote ghost.
* `context.Weight`            – weight of (node bits ∪ equivocation bits) of one phase.
* `VoteGraph` (abstractly)    – one cumulative bit mask per block: `insert` sets the vote's bit on every block
                               from the target down to the base; `findGhost` descends from the start block to
                               the first child (that is in the graph) whose cumulative mask meets the condition;
                               `findAncestor` walks from a block towards the base.
The compressed representation of vote_graph.go (entries with ancestor edges, `introduceBranch`,
`ghostFindMergePoint`) is NOT modelled; it is tied to this layer by the correspondence run only.

Blocks are `0 … size-1`, block 0 is the round base, `par[b] < b` is the parent of `b`.
Voters are positions `0 … ws.length-1` of the (ordered) voter set, `ws[i]` their weights.
-/
namespace Gossamer.C20

/-! ### block tree -/

structure Tree where
  par : List Nat
  deriving Repr

def Tree.size (t : Tree) : Nat := t.par.length
def Tree.parent (t : Tree) (b : Nat) : Nat := t.par.getD b 0

/-- `[b, parent b, …, 0]`; fuel `b` suffices because `parent b < b`. -/
def chainUp (t : Tree) : Nat → Nat → List Nat
  | 0, b => [b]
  | f + 1, b => if b = 0 then [0] else b :: chainUp t f (t.parent b)

def Tree.chain (t : Tree) (b : Nat) : List Nat := chainUp t b b

/-- `a` is `b` or an ancestor of `b` -/
def Tree.le (t : Tree) (a b : Nat) : Bool := (t.chain b).contains a

def Tree.children (t : Tree) (b : Nat) : List Nat :=
  (List.range t.size).filter (fun c => c != 0 && t.parent c == b)

/-- well-formed parent table -/
def Tree.WF (t : Tree) : Prop := 0 < t.size ∧ ∀ b, 0 < b → b < t.size → t.parent b < b

/-! ### weights and bit masks (bitfield.go / context.go) -/

abbrev Mask := Nat

/-- bit position of voter `v` in phase `ph` (0 = prevote, 1 = precommit): `newVote` -/
def bitPos (v ph : Nat) : Nat := 2 * v + ph

def setBit (m : Mask) (p : Nat) : Mask := m ||| (1 <<< p)

/-- Σ ws[i] over the positions `i ≥ start` with `p i` -/
def wsumFrom (p : Nat → Bool) : Nat → List Nat → Nat
  | _, [] => 0
  | i, w :: ws => (if p i then w else 0) + wsumFrom p (i + 1) ws

def wsum (ws : List Nat) (p : Nat → Bool) : Nat := wsumFrom p 0 ws

/-- `weight(bits.Iter1sEven/Odd(), voters)` -/
def maskWeight (ws : List Nat) (m : Mask) (ph : Nat) : Nat :=
  wsum ws (fun v => m.testBit (bitPos v ph))

def total (ws : List Nat) : Nat := wsum ws (fun _ => true)

/-- `threshold(totalWeight)` of voter_set.go -/
def threshold (tot : Nat) : Nat := tot - (tot - 1) / 3

def MOD : Nat := 18446744073709551616
/-- Go `uint64` subtraction (wraps) -/
def sub64 (a b : Nat) : Nat := (a + MOD - b % MOD) % MOD
/-- Go `uint64` addition (wraps) -/
def add64 (a b : Nat) : Nat := (a + b) % MOD

/-! ### votes -/

/-- a signed vote: target block and signature (both take part in `voteMultiplicity.Contains`) -/
structure SV where
  blk : Nat
  sig : Nat
  deriving DecidableEq, Repr

inductive VM where
  | single (a : SV)
  | equiv (a b : SV)
  deriving DecidableEq, Repr

inductive AddRes where
  | fresh            -- first vote of this voter
  | dup              -- the same (vote, signature) again
  | equivocated (a b : SV)  -- the first equivocation
  | ignored          -- a further equivocation
  deriving DecidableEq, Repr

/-- `voteTracker.addVote` on one voter's slot -/
def addVote (slot : Option VM) (sv : SV) : AddRes × Option VM :=
  match slot with
  | none => (.fresh, some (.single sv))
  | some (.single a) => if a = sv then (.dup, slot) else (.equivocated a sv, some (.equiv a sv))
  | some (.equiv a b) => if a = sv ∨ b = sv then (.dup, slot) else (.ignored, slot)

/-! ### the uncompressed vote graph -/

/-- `VoteGraph.Insert`: set the bit on the target and every ancestor down to the base -/
def insert (t : Tree) (cum : Nat → Mask) (b : Nat) (pos : Nat) : Nat → Mask :=
  fun B => if (t.chain b).contains B then setBit (cum B) pos else cum B

/-- the block is the base or lies on the ancestry of some vote -/
def inGraph (cum : Nat → Mask) (B : Nat) : Bool := B == 0 || cum B != 0

def descend (t : Tree) (cum : Nat → Mask) (cond : Mask → Bool) : Nat → Nat → Nat
  | 0, B => B
  | f + 1, B =>
    match (t.children B).find? (fun c => inGraph cum c && cond (cum c)) with
    | none => B
    | some c => descend t cum cond f c

/-- `VoteGraph.FindGHOST(currentBest, condition)` -/
def findGhost (t : Tree) (cum : Nat → Mask) (cur : Option Nat) (cond : Mask → Bool) : Option Nat :=
  let start := match cur with
    | none => 0
    | some b => if inGraph cum b then b else 0
  if cond (cum start) then some (descend t cum cond t.size start) else none

/-- `VoteGraph.FindAncestor(hash, number, condition)` -/
def findAncestor (t : Tree) (cum : Nat → Mask) (b : Nat) (cond : Mask → Bool) : Option Nat :=
  if inGraph cum b then (t.chain b).find? (fun B => cond (cum B)) else none

/-! ### the round -/

/-- phase as a bit-position offset: `false` = prevote (even bits), `true` = precommit (odd bits) -/
def phN (ph : Bool) : Nat := if ph then 1 else 0

structure Round where
  trk : Bool → Nat → Option VM   -- prevotes.votes / precommits.votes, by voter position
  cur : Bool → Nat               -- prevotes.currentWeight / precommits.currentWeight
  eqv : Mask                     -- context.equivocations
  cum : Nat → Mask               -- cumulative vote bits per block
  ghost : Option Nat             -- prevoteGhost
  pcGhost : Option Nat           -- precommitGhost (memo of PrecommitGHOST())
  fin : Option Nat               -- finalized
  est : Option Nat               -- estimate
  compl : Bool                   -- completable

def Round.init : Round :=
  { trk := fun _ _ => none, cur := fun _ => 0, eqv := 0, cum := fun _ => 0,
    ghost := none, pcGhost := none, fin := none, est := none, compl := false }

/-- `context.Weight(node, phase)` -/
def nodeWeight (ws : List Nat) (eqv node : Mask) (ph : Bool) : Nat := maskWeight ws (node ||| eqv) (phN ph)

/-- the condition "`phase` weight of the node ≥ threshold" handed to FindGHOST / FindAncestor -/
def supermCond (ws : List Nat) (eqv : Mask) (ph : Bool) (node : Mask) : Bool :=
  decide (nodeWeight ws eqv node ph ≥ threshold (total ws))

/-- the closure `possibleToPrecommit` of `Round.update` (Go `uint64` arithmetic) -/
def possibleToPrecommit (ws : List Nat) (curPc : Nat) (eqv : Mask) (node : Mask) : Bool :=
  let tot := total ws
  let thr := threshold tot
  let tolerated := sub64 tot thr
  let currentEquiv := maskWeight ws eqv 1
  let additionalEquiv := sub64 tolerated currentEquiv
  let remaining := sub64 tot curPc
  let precommittedFor := nodeWeight ws eqv node true
  let d := sub64 curPc precommittedFor
  let possibleEquiv := if d ≤ additionalEquiv then d else additionalEquiv
  let full := add64 (add64 precommittedFor remaining) possibleEquiv
  decide (full ≥ thr)

/-- `Round.update` -/
def update (t : Tree) (ws : List Nat) (r : Round) : Round :=
  let thr := threshold (total ws)
  if r.cur false < thr then r else
  match r.ghost with
  | none => r
  | some g =>
    let fin := if r.cur true ≥ thr then findAncestor t r.cum g (supermCond ws r.eqv true) else r.fin
    if r.cur true ≥ thr then
      let est := findAncestor t r.cum g (possibleToPrecommit ws (r.cur true) r.eqv)
      let compl := match est with
        | none => false
        | some e => (e != g) ||
            (match findGhost t r.cum (some e) (possibleToPrecommit ws (r.cur true) r.eqv) with
             | none => true
             | some x => x == g)
      { r with fin := fin, est := est, compl := compl }
    else
      { r with fin := fin, est := some g }

inductive ImportRes where
  | notVoter | dup | ok | equivocation (a b : SV) | err
  deriving DecidableEq, Repr

/-- "update prevote-GHOST" of `importPrevote` (importPrecommit has no such step) -/
def ghostStep (t : Tree) (ws : List Nat) (ph : Bool) (r : Round) : Round :=
  if ph = false ∧ r.cur false ≥ threshold (total ws)
  then { r with ghost := findGhost t r.cum r.ghost (supermCond ws r.eqv false) }
  else r

/-- `Round.importPrevote` (`ph = false`) and `Round.importPrecommit` (`ph = true`) -/
def importVote (t : Tree) (ws : List Nat) (r : Round) (ph : Bool) (v : Nat) (sv : SV) : ImportRes × Round :=
  if v ≥ ws.length then (.notVoter, r) else
  match addVote (r.trk ph v) sv with
  | (.dup, _) => (.dup, r)
  | (.ignored, _) => (.ok, r)
  | (.fresh, slot) =>
    let r1 := { r with trk := fun p u => if p = ph ∧ u = v then slot else r.trk p u,
                       cur := fun p => if p = ph then r.cur p + ws.getD v 0 else r.cur p }
    if sv.blk ≥ t.size then (.err, r1) else
    let r2 := { r1 with cum := insert t r1.cum sv.blk (bitPos v (phN ph)) }
    (.ok, update t ws (ghostStep t ws ph r2))
  | (.equivocated a b, slot) =>
    let r1 := { r with trk := fun p u => if p = ph ∧ u = v then slot else r.trk p u }
    let r2 := { r1 with eqv := setBit r1.eqv (bitPos v (phN ph)) }
    (.equivocation a b, update t ws (ghostStep t ws ph r2))

def importPrevote (t : Tree) (ws : List Nat) (r : Round) (v : Nat) (sv : SV) := importVote t ws r false v sv
def importPrecommit (t : Tree) (ws : List Nat) (r : Round) (v : Nat) (sv : SV) := importVote t ws r true v sv

/-- `Round.PrecommitGHOST` (memoises) -/
def precommitGhost (t : Tree) (ws : List Nat) (r : Round) : Round :=
  if r.cur true ≥ threshold (total ws)
  then { r with pcGhost := findGhost t r.cum r.pcGhost (supermCond ws r.eqv true) }
  else r

/-- one imported vote: phase (`false` prevote / `true` precommit), voter position, signed vote -/
structure Op where
  ph : Bool
  v : Nat
  sv : SV
  deriving DecidableEq, Repr

def step (t : Tree) (ws : List Nat) (r : Round) (o : Op) : Round := (importVote t ws r o.ph o.v o.sv).2

def run (t : Tree) (ws : List Nat) (ops : List Op) : Round := ops.foldl (step t ws) Round.init

end Gossamer.C20
