/-
Model of `scale.Unmarshal` / `Decoder.Decode` (pkg/scale/decode.go) with the observables of
property C12: the result, the largest read buffer the decoder allocated (`req`) and whether a
short read was zero-filled (`zf`).  Same walk as `Scale.decode C11.codec` (`decodeA_res`), written
out so that the two counters follow the order in which the Go code reads.
-/
import Gossamer.Model.C11
namespace Gossamer.C12
open Gossamer Gossamer.Scale

/-- outcome of a decode -/
structure DRes where
  res : Option (Val × Bytes)
  req : Nat
  zf : Bool
deriving Inhabited

/-- outcome of decoding a run of items -/
structure LRes where
  res : Option (List Val × Bytes)
  req : Nat
  zf : Bool
deriving Inhabited

def ofP (o : C11.PRes) : DRes := ⟨o.res, o.req, o.zf⟩

/-- `decodeArray` / the loop of `decodeSlice`: `n` items, stop at the first error -/
def decNA (f : Bytes → DRes) : Nat → Bytes → LRes
  | 0, bs => ⟨some ([], bs), 0, false⟩
  | n + 1, bs =>
    let o := f bs
    match o.res with
    | none => ⟨none, o.req, o.zf⟩
    | some (v, r) =>
      let l := decNA f n r
      ⟨l.res.map (fun (vs, r') => (v :: vs, r')), max o.req l.req, o.zf || l.zf⟩

/-- `decodeState.unmarshal` -/
def decodeA : Ty → Bytes → DRes
  | .prim p, bs => ofP (C11.decPA p bs)
  | .unit, bs => ⟨some (.unit, bs), 0, false⟩                        -- decodeStruct, no fields
  | .pair a b, bs =>                                                   -- decodeStruct, field by field
    let o1 := decodeA a bs
    match o1.res with
    | none => ⟨none, o1.req, o1.zf⟩
    | some (x, r) =>
      let o2 := decodeA b r
      ⟨o2.res.map (fun (y, r') => (.pair x y, r')), max o1.req o2.req, o1.zf || o2.zf⟩
  | .option t, bs =>                                                   -- decodePointer
    match bs with
    | [] => ⟨none, 1, false⟩
    | tag :: r =>
      if tag = 0 then ⟨some (.none, r), 1, false⟩
      else if tag = 1 then
        let o := decodeA t r
        ⟨o.res.map (fun (v, r') => (.some v, r')), max 1 o.req, o.zf⟩
      else ⟨none, 1, false⟩
  | .result a b, bs =>                                                 -- decodeResult
    match bs with
    | [] => ⟨none, 1, false⟩
    | tag :: r =>
      if tag = 0 then
        let o := decodeA a r
        ⟨o.res.map (fun (v, r') => (.ok v, r')), max 1 o.req, o.zf⟩
      else if tag = 1 then
        let o := decodeA b r
        ⟨o.res.map (fun (v, r') => (.err v, r')), max 1 o.req, o.zf⟩
      else ⟨none, 1, false⟩
  | .array n t, bs =>                                                  -- decodeArray
    let l := decNA (decodeA t) n bs
    ⟨l.res.map (fun (vs, r) => (.list vs, r)), l.req, l.zf⟩
  | .seq t, bs =>                                                      -- decodeSlice
    match C11.decodeUintV bs with
    | none => ⟨none, C11.decodeUintReq bs, false⟩
    | some (n, r) =>
      let l := decNA (decodeA t) n r
      ⟨l.res.map (fun (vs, r') => (.list vs, r')), max (C11.decodeUintReq bs) l.req, l.zf⟩
  | .enumNil, _ => ⟨none, 1, false⟩                                    -- ValueAt: unknown index
  | .enumCons i t rest, bs =>                                          -- decodeVaryingDataType
    match bs with
    | [] => ⟨none, 1, false⟩
    | tag :: r =>
      if tag.toNat = i then
        let o := decodeA t r
        ⟨o.res.map (fun (v, r') => (.variant i v, r')), max 1 o.req, o.zf⟩
      else decodeA rest bs


/-! ## the same input through other readers

`scale.NewDecoder(r)` accepts any `io.Reader`.  All integer paths use `io.ReadFull`, so they see the
same bytes whatever the reader; `decodeBytes` issues ONE `Read` and ignores the count, so what a
byte string decodes to depends on how much the reader delivers per call (known finding
`bytes-chunked-read`). -/

/-- how the input reaches the decoder -/
inductive RKind
  | buffer   -- `bytes.Buffer` (scale.Unmarshal) / `bytes.Reader`: min(len(p), available)
  | half     -- `iotest.HalfReader`: (len(p)+1)/2 bytes per Read
  | one      -- `iotest.OneByteReader`: one byte per Read
  | dataErr  -- `iotest.DataErrReader`: chunks of at most 1024, the last data arrives WITH io.EOF
deriving DecidableEq, Repr

/-- one `Read(b)` with `len(b) = len > 0` at `avail` remaining bytes of a `total`-byte input:
    the number of bytes delivered and whether an error is returned -/
def readOnce (k : RKind) (total len avail : Nat) : Nat × Bool :=
  if avail = 0 then (0, true)
  else
    match k with
    | .buffer => (min len avail, false)
    | .half => (min ((len + 1) / 2) avail, false)
    | .one => (1, false)
    | .dataErr =>
      let unread := min (1024 - (total - avail) % 1024) avail
      let n := min len unread
      (n, decide (n = avail))

/-- `decodeBytes` over a reader of kind `k` -/
def decBytesR (k : RKind) (total : Nat) (bs : Bytes) : Option (Val × Bytes) :=
  match C11.decodeUintV bs with
  | none => none
  | some (len, r) =>
    if len > 4294967295 then none
    else if len = 0 then some (.bytes [], r)
    else if len > total + 65536 then none      -- observation guard of the harness: not materialised
    else
      match readOnce k total len r.length with
      | (_, true) => none
      | (n, false) =>
        some (.bytes (r.take n ++ List.replicate (min (len - n) C11.padCap) 0), r.drop n)

/-- the Go codec over a reader of kind `k` (`total` = length of the whole input) -/
def codecR (k : RKind) (total : Nat) : Codec where
  encP := C11.encP
  decP p bs := match p with
    | .bytes => decBytesR k total bs
    | .str => decBytesR k total bs
    | _ => (C11.decPA p bs).res
  encLen := C11.encodeUint
  decLen := C11.decLen

/-- `NewDecoder(r).Decode` over a reader of kind `k` -/
def decodeR (k : RKind) (t : Ty) (input : Bytes) : Option (Val × Bytes) :=
  decode (codecR k input.length) t input


/-! ## decoding into a destination that already holds a value

`unmarshal` decodes in place.  Most paths overwrite what was there, two do not (known finding
`dirty-dst`): `decodePointer` leaves a non-nil pointer untouched on `None`, decodes `Some` into the
existing pointee and, when the pointee is itself a pointer, skips one level (`dstv.Elem().Elem()`:
the inner option byte is not read; a `*big.Int` / `*Uint128` pointee is then walked as a plain struct);
`decodeResult` refuses a `Result` that is already set.  Arrays, slices, varying data types and all
primitives start from a fresh value. -/

def dirtyPrim : Prim → Val
  | .i8 => .int (-1) | .i16 => .int (-1) | .i32 => .int (-1) | .i64 => .int (-1)
  | .bool => .bool true
  | .bytes => .bytes [0xaa] | .str => .bytes [0xaa]
  | _ => .nat 1

/-- the value the harness puts into a "dirty" destination (`c11DirtyVal`) -/
def dirtyVal : Ty → Val
  | .prim p => dirtyPrim p
  | .unit => .unit
  | .pair a b => .pair (dirtyVal a) (dirtyVal b)
  | .option t => .some (dirtyVal t)
  | .result a _ => .ok (dirtyVal a)
  | .array n t => .list (List.replicate n (dirtyVal t))
  | .seq t => .list [dirtyVal t]
  | .enumNil => .unit
  | .enumCons i t _ => .variant i (dirtyVal t)

/-- `unmarshal` into a destination holding `old` (`total` = length of the whole input: a declared
    byte-string length above `total + 65536` counts as a failure, see `decBytesR`) -/
def decodeD (total : Nat) : Ty → Val → Bytes → Option (Val × Bytes)
  | .pair a b, .pair x y, bs =>                               -- decodeStruct: fields in place
    match decodeD total a x bs with
    | none => none
    | some (v, r) =>
      match decodeD total b y r with
      | none => none
      | some (w, r') => some (.pair v w, r')
  | .option (.option t2), .some (.some o2), bs =>              -- pointee is a pointer: one level skipped
    match bs with
    | [] => none
    | tag :: r =>
      if tag = 0 then some (.some (.some o2), r)
      else if tag = 1 then (decodeD total t2 o2 r).map (fun (v, r') => (.some (.some v), r'))
      else none
  | .option (.prim .big), .some o, bs =>                       -- big.Int walked as a struct: reset to 0
    match bs with
    | [] => none
    | tag :: r =>
      if tag = 0 then some (.some o, r) else if tag = 1 then some (.some (.nat 0), r) else none
  | .option (.prim .u128), .some o, bs =>                      -- Uint128{Upper, Lower} as a struct
    match bs with
    | [] => none
    | tag :: r =>
      if tag = 0 then some (.some o, r)
      else if tag = 1 then
        match C11.readFull 8 r with
        | none => none
        | some (up, r1) =>
          match C11.readFull 8 r1 with
          | none => none
          | some (lo, r2) => some (.some (.nat (natOfLE up * 2 ^ 64 + natOfLE lo)), r2)
      else none
  | .option t, .some o, bs =>                                  -- None keeps the old pointer
    match bs with
    | [] => none
    | tag :: r =>
      if tag = 0 then some (.some o, r)
      else if tag = 1 then (decodeD total t o r).map (fun (v, r') => (.some v, r'))
      else none
  | .result _ _, .ok _, _ => none                              -- ErrResultAlreadySet
  | .result _ _, .err _, _ => none
  | t, _, bs => decode (codecR .buffer total) t bs   -- everything else starts from a fresh value

/-- `Decoder.Decode` into a destination holding `dirtyVal t` -/
def decodeDG (t : Ty) (input : Bytes) : Option (Val × Bytes) :=
  decodeD input.length t (dirtyVal t) input

/-- no byte string / string anywhere in the type -/
def noByteString : Ty → Bool
  | .prim .bytes => false
  | .prim .str => false
  | .prim _ => true
  | .unit => true
  | .pair a b => noByteString a && noByteString b
  | .option t => noByteString t
  | .result a b => noByteString a && noByteString b
  | .array _ t => noByteString t
  | .seq t => noByteString t
  | .enumNil => true
  | .enumCons _ t rest => noByteString t && noByteString rest

/-- the harness feeds chunking readers to these types only (elsewhere a desynchronised byte string
    makes the decoder allocate random declared lengths: too slow to observe on every case) -/
def chunkingObserved : Ty → Bool
  | .prim .bytes => true
  | .prim .str => true
  | t => noByteString t

/-- does the type contain a pointer to a varying data type (known finding `opt-vdt`) -/
def hasOptVdt : Ty → Bool
  | .prim _ => false
  | .unit => false
  | .pair a b => hasOptVdt a || hasOptVdt b
  | .option t => C11.isVdt t || hasOptVdt t
  | .result a b => hasOptVdt a || hasOptVdt b
  | .array _ t => hasOptVdt t
  | .seq t => hasOptVdt t
  | .enumNil => false
  | .enumCons _ t rest => hasOptVdt t || hasOptVdt rest

/-- does the value contain a Go `uint` in [2^32, 2^56) (known finding `uint-5to7`) -/
def hasMidUint : Ty → Val → Bool
  | .prim .compact, .nat n => decide (4294967296 ≤ n ∧ n < 72057594037927936)
  | .pair a b, .pair x y => hasMidUint a x || hasMidUint b y
  | .option t, .some v => hasMidUint t v
  | .result a _, .ok v => hasMidUint a v
  | .result _ b, .err v => hasMidUint b v
  | .array _ t, .list vs => vs.any (hasMidUint t)
  | .seq t, .list vs => vs.any (hasMidUint t)
  | .enumCons i t rest, .variant j v => if j = i then hasMidUint t v else hasMidUint rest (.variant j v)
  | _, _ => false

end Gossamer.C12
