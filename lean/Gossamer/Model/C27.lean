/-
Model of dot/state/slot.go: `SlotState.CheckEquivocation` over a key/value database, and the
reference it was ported from (Substrate `sc_consensus_slots::aux_schema::check_equivocation`)
as an abstract state machine.  Core Lean only.

What is modelled byte-exactly: the database keys (table prefix "slot", `slot_header_map` ‖ le64 slot,
`slot_header_start`), the le64 value of the start marker, the order of the batch (put, put, deletes).
What is a parameter: the header hash (`hash`) and the SCALE codec of the per-slot list (`Codec`).
All slot numbers are Go `uint64`; the model uses `Nat` (the code only subtracts: saturating, or after a
`≥` guard) and the theorems assume the inputs are `< 2^64`.
-/
import Gossamer.Base.Bytes
namespace Gossamer.C27

/-! ### constants of slot.go -/

/-- `maxSlotCapacity` -/
def maxSlotCapacity : Nat := 1000
/-- `pruningBound = 2 * maxSlotCapacity` -/
def pruningBound : Nat := 2 * maxSlotCapacity

/-- `slotTablePrefix = "slot"` (prepended by `database.table` to every key) -/
def tablePrefix : Bytes := [0x73, 0x6c, 0x6f, 0x74]
/-- `slotHeaderMapKey = []byte("slot_header_map")` -/
def slotHeaderMapKey : Bytes :=
  [0x73, 0x6c, 0x6f, 0x74, 0x5f, 0x68, 0x65, 0x61, 0x64, 0x65, 0x72, 0x5f, 0x6d, 0x61, 0x70]
/-- `slotHeaderStartKey = []byte("slot_header_start")` -/
def slotHeaderStartKey : Bytes :=
  [0x73, 0x6c, 0x6f, 0x74, 0x5f, 0x68, 0x65, 0x61, 0x64, 0x65, 0x72, 0x5f, 0x73, 0x74, 0x61, 0x72, 0x74]

/-- database key of a slot: prefix ‖ `slot_header_map` ‖ `PutUint64(LittleEndian, slot)` -/
def slotKey (slot : Nat) : Bytes := tablePrefix ++ (slotHeaderMapKey ++ leBytes 8 slot)
/-- database key of the first-saved-slot marker -/
def startKey : Bytes := tablePrefix ++ slotHeaderStartKey

/-! ### the database: an association map with batches -/

abbrev DB := List (Bytes × Bytes)

def DB.get : DB → Bytes → Option Bytes
  | [], _ => none
  | (k', v) :: r, k => if k' = k then some v else DB.get r k

def DB.del (db : DB) (k : Bytes) : DB := db.filter (fun e => e.1 ≠ k)

def DB.put (db : DB) (k v : Bytes) : DB := (k, v) :: db.del k

inductive BatchOp where
  | put (k v : Bytes)
  | del (k : Bytes)

def BatchOp.apply (db : DB) : BatchOp → DB
  | .put k v => db.put k v
  | .del k => db.del k

/-- `batch.Flush()`: the operations take effect in the order they were added -/
def DB.flush (db : DB) (ops : List BatchOp) : DB := ops.foldl BatchOp.apply db

/-! ### parameters: SCALE codec of `[]headerAndSigner` -/

structure Codec (H S : Type) where
  enc : List (H × S) → Bytes
  dec : Bytes → Option (List (H × S))

/-- the codec round-trips and never produces the empty byte string (a SCALE vector starts with
    its compact length) -/
structure Codec.Lawful {H S : Type} (c : Codec H S) : Prop where
  dec_enc : ∀ l, c.dec (c.enc l) = some l
  enc_ne : ∀ l, c.enc l ≠ []

/-! ### CheckEquivocation -/

inductive Out (H S : Type) where
  | none
  | proof (slot : Nat) (offender : S) (first second : H)
  | err
deriving DecidableEq, Repr

/-- `primitives.SaturatingSub` on unsigned integers -/
def satSub (a b : Nat) : Nat := a - b

section
variable {H S Hh : Type} [DecidableEq S] [DecidableEq Hh]

/-- the `for _, headerAndSigner := range headersWithSigners` loop: `some o` = the loop returned `o`,
    `none` = it ran to the end -/
def scan (hash : H → Hh) (slot : Nat) (header : H) (signer : S) : List (H × S) → Option (Out H S)
  | [] => none
  | (ph, ps) :: rest =>
    if ps = signer then
      if hash ph ≠ hash header then some (.proof slot signer ph header) else some .none
    else scan hash slot header signer rest

/-- the `for s := firstSavedSlot; s < newFirstSavedSlot; s++` loop collecting the keys to delete -/
def pruneKeys (first newFirst : Nat) : List Bytes :=
  (List.range' first (newFirst - first)).map slotKey

/-- `binary.LittleEndian.Uint64(b)` -/
def le64 (b : Bytes) : Nat := natOfLE (b.take 8)

/-- `(*SlotState).CheckEquivocation(slotNow, slot, header, signer)`: result and database afterwards -/
def checkEquivocation (c : Codec H S) (hash : H → Hh) (db : DB) (slotNow slot : Nat) (header : H)
    (signer : S) : Out H S × DB :=
  if satSub slotNow slot > maxSlotCapacity then (.none, db) else
  let currentSlotKey := slotKey slot
  -- `Get`; ErrNotFound leaves the nil slice
  let encoded := (db.get currentSlotKey).getD []
  match (if encoded.length > 0 then c.dec encoded else some []) with
  | none => (.err, db)
  | some headersWithSigners =>
    let firstSavedSlotEncoded := (db.get startKey).getD []
    let firstSavedSlot := if firstSavedSlotEncoded.length > 0 then le64 firstSavedSlotEncoded else slot
    if slotNow < firstSavedSlot then (.none, db) else
    match scan hash slot header signer headersWithSigners with
    | some o => (o, db)
    | none =>
      let prune := slotNow - firstSavedSlot ≥ pruningBound
      let newFirstSavedSlot := if prune then satSub slotNow maxSlotCapacity else firstSavedSlot
      let keysToDelete := if prune then pruneKeys firstSavedSlot newFirstSavedSlot else []
      let headersWithSigners := headersWithSigners ++ [(header, signer)]
      let batch := [BatchOp.put currentSlotKey (c.enc headersWithSigners),
                    BatchOp.put startKey (leBytes 8 newFirstSavedSlot)]
                   ++ keysToDelete.map BatchOp.del
      (.none, db.flush batch)

/-! ### the reference: Substrate `check_equivocation` as an abstract state machine -/

/-- `start` = the SLOT_HEADER_START entry (absent before the first write), `slots n` = the
    `Vec<(Header, Signer)>` stored for slot `n` (`[]` = no entry).  This state *is* the
    "retained window" the property speaks about. -/
structure Spec (H S : Type) where
  start : Option Nat
  slots : Nat → List (H × S)

def Spec.empty : Spec H S := { start := none, slots := fun _ => [] }

def specStep (hash : H → Hh) (st : Spec H S) (slotNow slot : Nat) (header : H) (signer : S) :
    Out H S × Spec H S :=
  if slotNow - slot > 1000 then (.none, st) else
  let first := st.start.getD slot
  if slotNow < first then (.none, st) else
  match (st.slots slot).find? (fun e => e.2 = signer) with
  | some (prev, _) =>
    if hash header ≠ hash prev then (.proof slot signer prev header, st) else (.none, st)
  | none =>
    let newFirst := if slotNow - first ≥ 2000 then slotNow - 1000 else first
    (.none, { start := some newFirst,
              slots := fun n =>
                -- insert_aux: the inserts, then the deletes of [first, newFirst)
                if first ≤ n ∧ n < newFirst then []
                else if n = slot then st.slots slot ++ [(header, signer)]
                else st.slots n })

end

/-! ### op sequences -/

structure Op (H S : Type) where
  slotNow : Nat
  slot : Nat
  header : H
  signer : S
deriving Repr

/-- run a step function over a list of inputs, collecting the outputs -/
def run {σ ι ο : Type} (step : σ → ι → ο × σ) : σ → List ι → List ο × σ
  | s, [] => ([], s)
  | s, i :: is =>
    let r := step s i
    let rs := run step r.2 is
    (r.1 :: rs.1, rs.2)

section
variable {H S Hh : Type} [DecidableEq S] [DecidableEq Hh]

def mstep (c : Codec H S) (hash : H → Hh) (db : DB) (o : Op H S) : Out H S × DB :=
  checkEquivocation c hash db o.slotNow o.slot o.header o.signer

def sstep (hash : H → Hh) (st : Spec H S) (o : Op H S) : Out H S × Spec H S :=
  specStep hash st o.slotNow o.slot o.header o.signer

end

/-! ### instance used by the driver: headers and signers are small table indices (one byte each),
      `hash = id`; the codec is proved lawful in Props (`byteCodec_lawful`) -/

def bytePairs : List UInt8 → Option (List (UInt8 × UInt8))
  | [] => some []
  | [_] => none
  | h :: s :: r => (bytePairs r).map ((h, s) :: ·)

def byteCodec : Codec UInt8 UInt8 where
  enc l := 0x2a :: l.flatMap (fun e => [e.1, e.2])
  dec b := match b with
    | [] => none
    | _ :: r => bytePairs r

end Gossamer.C27
