/-
C04: persisted state reads back identically.
One heap of trie nodes, one database, a growing list of tries (handle 0 = `NewEmptyTrie()`, `snap h`
appends `h.Snapshot()`), each with its child tries.  `wd h` persists (`WriteDirty`), `load h` reloads
the root hash of `h` into a fresh trie (`Load`) and prints what it sees, `gfd h k` reads one key
directly from the database (`GetFromDB`).  The model follows the Go code (`TrieHeap`, `TrieHeapDB`);
the specification says: for a persisted root, `load` shows exactly the in-memory state and `gfd`
returns exactly the in-memory `Get`.
-/
import Gossamer.Model.C03
import Gossamer.Lib.TrieHeapDB
namespace Gossamer.C04
open Gossamer Gossamer.Trie Gossamer.TrieHeap

inductive Op where
  | put (h : Nat) (k v : Bytes)
  | del (h : Nat) (k : Bytes)
  | clr (h : Nat) (p : Bytes)
  | putc (h : Nat) (c k v : Bytes)
  | snap (h : Nat)
  | ver (h : Nat) (v : Ver)
  | hash (h : Nat)
  | wd (h : Nat)
  | load (h : Nat)
  | lput (h : Nat) (k v : Bytes)
  | gfd (h : Nat) (k : Bytes)
  -- dot/state `InmemoryStorageState` (second harness run)
  | store (h : Nat)
  | evict (h : Nat)
  | tstate (h : Nat)
  | gs (h : Nat) (k : Bytes)
  | ents (h : Nat)
  | bad

structure St where
  hp : Heap
  db : DB
  ts : List MTrie
  /-- root hashes that were persisted by a `wd` (ghost: where the specification applies) -/
  persisted : List Bytes
  /-- ghost: some `PutIntoChild` gave a child trie the root hash of ANOTHER child trie of the same
      trie (region of the known finding `child-tries-equal-content`) -/
  aliased : Bool := false
  /-- `Tries.rootToTrie`: root hash ↦ cached trie object = a handle (`true`) or a trie that
      `LoadFromDB` built (`false`, index into `hidden`) -/
  cache : List (Bytes × Bool × Nat) := []
  hidden : List MTrie := []
  /-- ghost: a trie was written through its handle while the cache of tries held that very object
      (region of the known finding `stored-trie-mutated`) -/
  stale : Bool := false

def St.init : St := { hp := Heap.empty, db := [], ts := [MTrie.empty], persisted := [] }

def St.setTrie (s : St) (hp : Heap) (h : Nat) (m : MTrie) : St :=
  { s with hp := hp, ts := C03.setAt s.ts h m }

/-- what the harness prints of a trie: root hash, sorted entries, and for every key under
    `:child_storage:default:` the entries of the child trie it names -/
def view (H : Bytes → Bytes) (hp : Heap) (m : MTrie) : Heap × String :=
  let h := hash H hp m.t
  let hp := h.1
  let kids := (keysWithBytePrefix hp m.t.root childPrefix).map (fun key =>
    "c" ++ hex (key.drop childPrefix.length) ++ ":" ++
      (match get hp m.t.root key with
       | none => "missing"
       | some hv =>
         match kidsLookup m.kids (bytesToHash hv) with
         | none => "missing"
         | some c => C03.showEntries hp c))
  (hp, showHash h.2 ++ " " ++ C03.showEntries hp m.t ++ " [" ++ C02.joinWith "|" kids ++ "]")

def showGet : Option (Option Bytes) → String
  | none => "err"
  | some v => C02.showOpt v

/-! ### `dot/state`: the cache of tries in front of the database -/

def cacheGet (s : St) (root : Bytes) : Option (Bool × Nat) :=
  match s.cache.find? (fun e => e.1 == root) with
  | some e => some e.2
  | none => none

/-- `Tries.softSet` -/
def softSet (s : St) (root : Bytes) (v : Bool × Nat) : St :=
  match cacheGet s root with
  | some _ => s
  | none => { s with cache := s.cache ++ [(root, v)] }

def cachedTrie (s : St) (v : Bool × Nat) : Option MTrie :=
  if v.1 then s.ts[v.2]? else s.hidden[v.2]?

/-- `InmemoryStorageState.LoadFromDB(root)`: load, cache under the loaded trie's own hash -/
def loadFromDB (H : Bytes → Bytes) (s : St) (root : Bytes) : Option (St × Nat) :=
  match loadF H s.db 3 s.hp root with
  | none => none
  | some (hp', lm) =>
    let h := hash H hp' lm.t
    let idx := s.hidden.length
    let s1 := { s with hp := h.1, hidden := s.hidden ++ [lm] }
    some (softSet s1 (h.2.getD []) (false, idx), idx)

/-- handle `h` is an object the cache of tries holds -/
def isCached (s : St) (h : Nat) : Bool := s.cache.any (fun e => e.2.1 && e.2.2 == h)

/-- one op of the model (without the ghost flag `stale`): new state, observable, Go panic -/
def stepModel0 (H : Bytes → Bytes) (s : St) : Op → St × String × Bool
  | .put h k v =>
    match s.ts[h]? with
    | none => (s, "bad-op", false)
    | some m => let r := put H s.hp m.t k v; (s.setTrie r.1 h { m with t := r.2 }, "ok", false)
  | .del h k =>
    match s.ts[h]? with
    | none => (s, "bad-op", false)
    | some m => let r := delete H s.hp m.t k; (s.setTrie r.1 h { m with t := r.2 }, "ok", false)
  | .clr h p =>
    match s.ts[h]? with
    | none => (s, "bad-op", false)
    | some m => let r := clearPrefix H s.hp m.t p; (s.setTrie r.1 h { m with t := r.2 }, "ok", false)
  | .putc h c k v =>
    match s.ts[h]? with
    | none => (s, "bad-op", false)
    | some m =>
      match m.putIntoChild H s.hp c k v with
      | none => (s, "panic", true)
      | some r =>
        -- two keys of the main trie now name the same child root hash
        let names := (keysWithBytePrefix r.1 r.2.t.root childPrefix).map (fun key => get r.1 r.2.t.root key)
        let dup := names.any (fun a => (names.filter (fun b => a == b)).length > 1)
        ({ s.setTrie r.1 h r.2 with aliased := s.aliased || dup }, "ok", false)
  | .snap h =>
    match s.ts[h]? with
    | none => (s, "bad-op", false)
    | some m =>
      match m.snapshot s.hp with
      | none => (s, "panic", true)
      | some r => ({ s with hp := r.1, ts := s.ts ++ [r.2] }, "h" ++ toString s.ts.length, false)
  | .ver h v =>
    match s.ts[h]? with
    | none => (s, "bad-op", false)
    | some m =>
      if C03.verLt v m.t.ver then (s, "panic", true)
      else (s.setTrie s.hp h { m with t := { m.t with ver := v } }, "ok", false)
  | .hash h =>
    match s.ts[h]? with
    | none => (s, "bad-op", false)
    | some m => let r := hash H s.hp m.t; ({ s with hp := r.1 }, showHash r.2, false)
  | .wd h =>
    match s.ts[h]? with
    | none => (s, "bad-op", false)
    | some m =>
      let w := m.writeDirty H s.hp s.db
      let r := hash H w.1 m.t
      ({ s with hp := r.1, db := w.2, persisted := r.2.getD [] :: s.persisted }, showHash r.2, false)
  | .load h =>
    match s.ts[h]? with
    | none => (s, "bad-op", false)
    | some m =>
      let r := hash H s.hp m.t
      match loadF H s.db 3 r.1 (r.2.getD []) with
      | none => ({ s with hp := r.1 }, "err", false)
      | some (hp', lm) =>
        let v := view H hp' lm
        ({ s with hp := v.1 }, "ok " ++ v.2, false)
  | .lput h k v =>
    match s.ts[h]? with
    | none => (s, "bad-op", false)
    | some m =>
      let r := hash H s.hp m.t
      match loadF H s.db 3 r.1 (r.2.getD []) with
      | none => ({ s with hp := r.1 }, "err", false)
      | some (hp', lm) =>
        -- the reloaded trie is modified: its nodes must carry what later hashing needs
        let p := put H hp' { lm.t with ver := m.t.ver } k v
        let hh := hash H p.1 p.2
        ({ s with hp := hh.1 }, "ok " ++ showHash hh.2 ++ " " ++ C03.showEntries hh.1 p.2, false)
  | .gfd h k =>
    match s.ts[h]? with
    | none => (s, "bad-op", false)
    | some m =>
      let r := hash H s.hp m.t
      ({ s with hp := r.1 }, showGet (getFromDB H s.db (r.2.getD []) k), false)
  | .store h =>
    match s.ts[h]? with
    | none => (s, "bad-op", false)
    | some m =>
      let r := hash H s.hp m.t
      let root := r.2.getD []
      let s1 := softSet { s with hp := r.1 } root (true, h)
      let w := m.writeDirty H s1.hp s1.db
      ({ s1 with hp := w.1, db := w.2, persisted := root :: s1.persisted }, toHex root, false)
  | .evict h =>
    match s.ts[h]? with
    | none => (s, "bad-op", false)
    | some m =>
      let r := hash H s.hp m.t
      ({ s with hp := r.1, cache := s.cache.filter (fun e => !(e.1 == r.2.getD [])) }, "ok", false)
  | .tstate h =>
    match s.ts[h]? with
    | none => (s, "bad-op", false)
    | some m =>
      let r := hash H s.hp m.t
      let root := r.2.getD []
      let s0 := { s with hp := r.1 }
      match cacheGet s0 root with
      | none =>
        match loadFromDB H s0 root with
        | none => (s0, "err", false)
        | some (s1, idx) =>
          let s2 := softSet s1 root (false, idx)
          match s2.hidden[idx]? with
          | none => (s2, "err", false)
          | some lm =>
            match lm.snapshot s2.hp with
            | none => (s2, "panic", true)
            | some sn => ({ s2 with hp := sn.1, ts := s2.ts ++ [sn.2] }, "h" ++ toString s2.ts.length, false)
      | some v =>
        match cachedTrie s0 v with
        | none => (s0, "err", false)
        | some ct =>
          let hc := hash H s0.hp ct.t
          if hc.2.getD [] != root then ({ s0 with hp := hc.1 }, "panic", true)
          else
            match ct.snapshot hc.1 with
            | none => ({ s0 with hp := hc.1 }, "panic", true)
            | some sn => ({ s0 with hp := sn.1, ts := s0.ts ++ [sn.2] }, "h" ++ toString s0.ts.length, false)
  | .gs h k =>
    match s.ts[h]? with
    | none => (s, "bad-op", false)
    | some m =>
      let r := hash H s.hp m.t
      let root := r.2.getD []
      let s0 := { s with hp := r.1 }
      match cacheGet s0 root with
      | some v =>
        match cachedTrie s0 v with
        | some ct => (s0, C02.showOpt (get s0.hp ct.t.root k), false)
        | none => (s0, "err", false)
      | none => (s0, showGet (getFromDB H s0.db root k), false)
  | .ents h =>
    match s.ts[h]? with
    | none => (s, "bad-op", false)
    | some m =>
      let r := hash H s.hp m.t
      let root := r.2.getD []
      let s0 := { s with hp := r.1 }
      match cacheGet s0 root with
      | some v =>
        match cachedTrie s0 v with
        | some ct => (s0, C03.showEntries s0.hp ct.t, false)
        | none => (s0, "err", false)
      | none =>
        match loadFromDB H s0 root with
        | none => (s0, "err", false)
        | some (s1, idx) =>
          match s1.hidden[idx]? with
          | some lm => (s1, C03.showEntries s1.hp lm.t, false)
          | none => (s1, "err", false)
  | .bad => (s, "bad-op", false)

/-- the handle an op writes through -/
def Op.writes : Op → Option Nat
  | .put h _ _ => some h
  | .del h _ => some h
  | .clr h _ => some h
  | .putc h _ _ _ => some h
  | _ => none

/-- one op of the model: new state, observable, Go panic -/
def stepModel (H : Bytes → Bytes) (s : St) (op : Op) : St × String × Bool :=
  let x := stepModel0 H s op
  match op.writes with
  | some h => if isCached s h then ({ x.1 with stale := true }, x.2) else x
  | none => x

/-- what the property demands of `load` / `gfd` on the state `s` (`none`: no demand — the root of
    the handle was never persisted — the model's output stands) -/
def specOut (H : Bytes → Bytes) (s : St) : Op → Option String
  | .load h =>
    match s.ts[h]? with
    | none => none
    | some m =>
      let r := hash H s.hp m.t
      if s.persisted.contains (r.2.getD []) then some ("ok " ++ (view H r.1 m).2) else none
  | .lput h k v =>
    match s.ts[h]? with
    | none => none
    | some m =>
      let r := hash H s.hp m.t
      if s.persisted.contains (r.2.getD []) then
        -- the same modification on a snapshot of the in-memory trie
        let p := put H r.1 (snapshot m.t) k v
        let hh := hash H p.1 p.2
        some ("ok " ++ showHash hh.2 ++ " " ++ C03.showEntries hh.1 p.2)
      else none
  | .gfd h k =>
    match s.ts[h]? with
    | none => none
    | some m =>
      let r := hash H s.hp m.t
      if s.persisted.contains (r.2.getD []) then some (C02.showOpt (get r.1 m.t.root k)) else none
  | .gs h k =>
    match s.ts[h]? with
    | none => none
    | some m =>
      let r := hash H s.hp m.t
      if s.persisted.contains (r.2.getD []) then some (C02.showOpt (get r.1 m.t.root k)) else none
  | .ents h =>
    match s.ts[h]? with
    | none => none
    | some m =>
      let r := hash H s.hp m.t
      if s.persisted.contains (r.2.getD []) then some (C03.showEntries r.1 m.t) else none
  | .tstate h =>
    match s.ts[h]? with
    | none => none
    | some m =>
      let r := hash H s.hp m.t
      if s.persisted.contains (r.2.getD []) then some ("h" ++ toString s.ts.length) else none
  | _ => none

/-- model observables and specification observables of a run -/
def runFrom (H : Bytes → Bytes) (s : St) : List Op → List (String × String)
  | [] => []
  | op :: r =>
    let x := stepModel H s op
    let sp := (specOut H s op).getD x.2.1
    if x.2.2 then [(x.2.1, sp)] else (x.2.1, sp) :: runFrom H x.1 r

def run (H : Bytes → Bytes) (ops : List Op) : List (String × String) := runFrom H St.init ops

/-- some trie of the run had two child tries with equal contents (equal root hashes) -/
def runAliased (H : Bytes → Bytes) (s : St) : List Op → Bool
  | [] => s.aliased
  | op :: r =>
    let x := stepModel H s op
    if x.2.2 then x.1.aliased else runAliased H x.1 r

/-- some trie of the run was written through its handle while the cache of tries held it -/
def runStale (H : Bytes → Bytes) (s : St) : List Op → Bool
  | [] => s.stale
  | op :: r =>
    let x := stepModel H s op
    if x.2.2 then x.1.stale else runStale H x.1 r

/-! ### parsing -/

def parseOp (s : String) : Op :=
  match words s with
  | ["put", h, k, v] => match C03.parseHandle h, ofHex? k, ofHex? v with
    | some h, some k, some v => .put h k v
    | _, _, _ => .bad
  | ["del", h, k] => match C03.parseHandle h, ofHex? k with
    | some h, some k => .del h k
    | _, _ => .bad
  | ["clr", h, p] => match C03.parseHandle h, ofHex? p with
    | some h, some p => .clr h p
    | _, _ => .bad
  | ["putc", h, c, k, v] => match C03.parseHandle h, ofHex? c, ofHex? k, ofHex? v with
    | some h, some c, some k, some v => .putc h c k v
    | _, _, _, _ => .bad
  | ["snap", h] => match C03.parseHandle h with | some h => .snap h | none => .bad
  | ["ver", h, v] => match C03.parseHandle h with
    | some h => if v == "0" then .ver h Ver.v0 else if v == "1" then .ver h Ver.v1 else .bad
    | none => .bad
  | ["hash", h] => match C03.parseHandle h with | some h => .hash h | none => .bad
  | ["wd", h] => match C03.parseHandle h with | some h => .wd h | none => .bad
  | ["load", h] => match C03.parseHandle h with | some h => .load h | none => .bad
  | ["lput", h, k, v] => match C03.parseHandle h, ofHex? k, ofHex? v with
    | some h, some k, some v => .lput h k v
    | _, _, _ => .bad
  | ["gfd", h, k] => match C03.parseHandle h, ofHex? k with
    | some h, some k => .gfd h k
    | _, _ => .bad
  | ["store", h] => match C03.parseHandle h with | some h => .store h | none => .bad
  | ["evict", h] => match C03.parseHandle h with | some h => .evict h | none => .bad
  | ["tstate", h] => match C03.parseHandle h with | some h => .tstate h | none => .bad
  | ["gs", h, k] => match C03.parseHandle h, ofHex? k with
    | some h, some k => .gs h k
    | _, _ => .bad
  | ["ents", h] => match C03.parseHandle h with | some h => .ents h | none => .bad
  | _ => .bad

def parseLine (line : String) : List Op := (line.splitOn ";").map parseOp

end Gossamer.C04
