/-
Model of the GRANDPA commit-message path of lib/grandpa (after the two `fix:` commits recorded in
harness/C18/findings.json):

  Service.handleCommitMessage            lib/grandpa/grandpa.go
  Service.updateAuthorities / initiateRound (the part that installs a new authority set)
  verifyCommitMessageJustification       lib/grandpa/grandpa.go
  verifyJustification                    lib/grandpa/grandpa.go
  verifyBlockHashAgainstBlockNumber      lib/grandpa/message_handler.go
  State.threshold                        lib/grandpa/types.go

Blocks are indices into a parent table (block 0 is the root, an index past the table is a block
nobody knows); header number = depth.  Keys are numbers; the authorities are the list `auths` of
the set the Service is in (`State.voters`), replaced by `updateAuthorities` on a set change.
A signature is the description of how it was made (`Sig`); it verifies for a message exactly when
it is the untouched signature of that key over that message (ed25519 is the trusted oracle).
Core Lean only.
-/
namespace Gossamer.C18

/-! ### signatures -/

/-- how a 64-byte signature was produced -/
structure Sig where
  zero : Bool      -- 64 zero bytes (all other fields 0)
  key : Nat        -- signing key
  stage : Nat      -- 0 prevote, 1 precommit
  blk : Nat        -- signed vote: block
  num : Nat        -- signed vote: number
  round : Nat
  set : Nat
  tamper : Nat     -- 0 untouched, t+1 = one bit flipped (variant t)
deriving DecidableEq, Repr

/-- the signature `key` makes over `FullVote{precommit, (blk,num), round, set}` -/
def Sig.honest (key blk num round set : Nat) : Sig := ⟨false, key, 1, blk, num, round, set, 0⟩

/-! ### block tree behind the BlockState -/

structure Tree where
  parents : List Nat     -- block k+1 has parent parents[k]
deriving Repr

def Tree.size (t : Tree) : Nat := t.parents.length + 1
def Tree.known (t : Tree) (b : Nat) : Bool := decide (b < t.size)

def Tree.parent? (t : Tree) : Nat → Option Nat
  | 0 => none
  | k + 1 => t.parents[k]?

/-- parents[k] ≤ k for every k: the table describes a tree rooted at block 0 -/
def Tree.wfFrom : Nat → List Nat → Bool
  | _, [] => true
  | k, p :: ps => decide (p ≤ k) && Tree.wfFrom (k + 1) ps

def Tree.wf (t : Tree) : Bool := Tree.wfFrom 0 t.parents

def Tree.depthF (t : Tree) : Nat → Nat → Nat
  | 0, _ => 0
  | f + 1, b => match t.parent? b with
    | none => 0
    | some p => t.depthF f p + 1

/-- `Header.Number` of a known block -/
def Tree.depth (t : Tree) (b : Nat) : Nat := t.depthF t.size b

/-- walk from `d` to the root looking for `a` among the proper ancestors -/
def Tree.walkF (t : Tree) : Nat → Nat → Nat → Bool
  | 0, _, _ => false
  | f + 1, a, d => match t.parent? d with
    | none => false
    | some p => if p = a then true else t.walkF f a p

inductive DescErr | start | stop
deriving DecidableEq, Repr

/-- `BlockState.IsDescendantOf(a, d)` with the semantics of lib/blocktree: equal hashes are related
    even when unknown; unknown `a` = ErrStartNodeNotFound, unknown `d` = ErrEndNodeNotFound -/
def Tree.isDescendantOf (t : Tree) (a d : Nat) : Except DescErr Bool :=
  if a = d then .ok true
  else if !t.known a then .error .start
  else if !t.known d then .error .stop
  else .ok (t.walkF t.size a d)

/-! ### messages and environment -/

structure Entry where
  id : Nat         -- AuthData[i].AuthorityID (a key)
  blk : Nat        -- Precommits[i].Hash
  num : Nat        -- Precommits[i].Number
  sig : Sig        -- AuthData[i].Signature
deriving DecidableEq, Repr

structure Commit where
  round : Nat
  set : Nat
  tblk : Nat
  tnum : Nat
  entries : List Entry
  lm : Nat         -- 0: len(Precommits) = len(AuthData); 1 / 2: one more precommit / AuthData
deriving Repr

structure Env where
  auths : List Nat -- state.voters (keys) at the moment the commit is handled
  set : Nat        -- state.setID at that moment
  tree : Tree
  fin : Nat        -- GetHighestFinalisedHeader
  has : Bool       -- HasFinalisedBlock(round, set)
  fault : Nat      -- injected failure (see the harness)
deriving Repr

/-- `State.threshold()` -/
def thr (n : Nat) : Nat := 2 * n / 3

/-- `len(state.voters)` -/
def Env.n (env : Env) : Nat := env.auths.length

/-- `verifyJustification(.., commit.Round, setID, precommit, authorityKeySet) == nil`:
    the signature is the key's own untouched signature over exactly this vote, round and set, and
    the key is a current authority -/
def entryValid (env : Env) (c : Commit) (e : Entry) : Bool :=
  decide (e.sig = Sig.honest e.id e.blk e.num c.round env.set) && env.auths.contains e.id

/-! ### verifyCommitMessageJustification -/

inductive VErr
  | len | set | finHdr | anc (e : DescErr) | notDesc | hdr | num | min (need got : Nat)
deriving DecidableEq, Repr

/-- the three maps of the loop, as duplicate-free association lists -/
structure Acc where
  first : List (Nat × (Nat × Nat))   -- precommitOf
  eqv : List Nat                     -- eqvVoters
  sup : List Nat                     -- validPrecommitters
deriving Repr

def Acc.empty : Acc := ⟨[], [], []⟩

/-- one iteration of the loop over the precommits; `.error` = the function returns that error -/
def stepEntry (env : Env) (c : Commit) (acc : Acc) (e : Entry) : Except VErr Acc :=
  if !entryValid env c e then .ok acc                         -- `continue`
  else match env.tree.isDescendantOf c.tblk e.blk with
    | .error _ => .ok acc                                      -- `continue`
    | .ok isDesc =>
      if !env.tree.known e.blk then .error .hdr                -- GetHeader fails
      else if env.tree.depth e.blk ≠ e.num then .error .num    -- ErrBlockNumbersMismatch
      else match acc.first.lookup e.id with
        | some v =>
          if v ≠ (e.blk, e.num) then
            .ok { acc with eqv := acc.eqv.insert e.id, sup := acc.sup.erase e.id }
          else .ok acc
        | none =>
          .ok { first := (e.id, (e.blk, e.num)) :: acc.first
                eqv := acc.eqv
                sup := if isDesc then acc.sup.insert e.id else acc.sup }

def loop (env : Env) (c : Commit) : List Entry → Acc → Except VErr Acc
  | [], acc => .ok acc
  | e :: es, acc => match stepEntry env c acc e with
    | .ok a => loop env c es a
    | .error x => .error x

/-- everything before the final comparison; the result is the state of the maps -/
def verifyAcc (env : Env) (c : Commit) : Except VErr Acc :=
  if c.lm ≠ 0 then .error .len
  else if c.set ≠ env.set then .error .set
  else if env.fault = 1 then .error .finHdr
  else match (if env.fault = 2 then .error .start else env.tree.isDescendantOf env.fin c.tblk) with
    | .error x => .error (.anc x)
    | .ok false => .error .notDesc
    | .ok true => loop env c c.entries Acc.empty

/-- `validAndEqv` -/
def Acc.count (a : Acc) : Nat := a.sup.length + a.eqv.length

/-- `verifyCommitMessageJustification(commit, state.setID, state.threshold(), authorityKeySet, blockState)` -/
def verifyCommit (env : Env) (c : Commit) : Except VErr Unit :=
  match verifyAcc env c with
  | .error x => .error x
  | .ok acc => if acc.count < thr env.n then .error (.min (thr env.n) acc.count) else .ok ()

/-! ### handleCommitMessage -/

inductive Res
  | ok | errHdr | errHashNum | errHas | verr (e : VErr) | errSetFin | errSetPc
deriving DecidableEq, Repr

structure Out where
  res : Res
  fin : Option (Nat × Nat × Nat)    -- SetFinalisedHash(block, round, set) was called
  pc : Option (Nat × Nat × Nat)     -- SetPrecommits(round, set, len) was called
  trk : Bool                        -- the commit was put into the tracker
deriving DecidableEq, Repr

/-- `strict = false` is the code; `strict = true` is the same function with the decision the
    property demands (more than two thirds of the authority set, counted by `specCount`) -/
def handleCommitG (strict : Bool) (shortfall : Nat) (env : Env) (c : Commit) : Out :=
  if !env.tree.known c.tblk then ⟨.errHdr, none, none, true⟩
  else if env.tree.depth c.tblk ≠ c.tnum then ⟨.errHashNum, none, none, false⟩
  else if env.fault = 5 then ⟨.errHas, none, none, false⟩
  else if env.has then ⟨.ok, none, none, false⟩
  else match verifyCommit env c with
    | .error x => ⟨.verr x, none, none, decide (x = .anc .start)⟩
    | .ok () =>
      if strict then ⟨.verr (.min (thr env.n + 1) shortfall), none, none, false⟩ else
      let fin := some (c.tblk, c.round, env.set)
      if env.fault = 3 then ⟨.errSetFin, fin, none, false⟩
      else
        let pc := some (c.round, c.set, c.entries.length)
        if env.fault = 4 then ⟨.errSetPc, fin, pc, false⟩
        else ⟨.ok, fin, pc, false⟩

def handleCommit (env : Env) (c : Commit) : Out := handleCommitG false 0 env c

/-! ### what the property demands -/

/-- vote of an entry -/
def Entry.vote (e : Entry) : Nat × Nat := (e.blk, e.num)

/-- the entry's block is the target or one of its descendants -/
def onChain (env : Env) (c : Commit) (e : Entry) : Bool :=
  match env.tree.isDescendantOf c.tblk e.blk with
  | .ok true => true
  | _ => false

/-- key `id` has a valid precommit on the target's chain in the commit -/
def hasValidOnChain (env : Env) (c : Commit) (id : Nat) : Bool :=
  c.entries.any fun e => e.id == id && entryValid env c e && onChain env c e

/-- key `id` has two valid precommits for different votes in the commit -/
def hasTwoValid (env : Env) (c : Commit) (id : Nat) : Bool :=
  c.entries.any fun e₁ => c.entries.any fun e₂ =>
    e₁.id == id && e₂.id == id && entryValid env c e₁ && entryValid env c e₂ && e₁.vote != e₂.vote

def supports (env : Env) (c : Commit) (id : Nat) : Bool :=
  hasValidOnChain env c id || hasTwoValid env c id

/-- number of DISTINCT current authorities that support the commit -/
def specCount (env : Env) (c : Commit) : Nat := env.auths.countP (supports env c)

/-- more than two thirds of the authority set -/
def supermajority (w n : Nat) : Bool := decide (3 * w > 2 * n)

/-- `handleCommitMessage` with the decision the property demands -/
def handleCommitSpec (env : Env) (c : Commit) : Out :=
  handleCommitG (!supermajority (specCount env c) env.n) (specCount env c) env c

/-! ### histories on one Service: commits and authority-set changes -/

/-- the part of the Service (and of the BlockState behind it) that commit handling reads -/
structure Svc where
  auths : List Nat            -- state.voters
  set : Nat                   -- state.setID
  fin : Nat                   -- highest finalised block
  done : List (Nat × Nat)     -- (round, set id) pairs that have a finalised block
deriving Repr

inductive Op
  | commit (fault : Nat) (c : Commit)
  | setchange (newSet : Nat) (voters : List Nat)
deriving Repr

/-- the environment a commit is verified in: the authority set and set id the Service has NOW -/
def envOf (t : Tree) (s : Svc) (fault : Nat) (c : Commit) : Env :=
  ⟨s.auths, s.set, t, s.fin, s.done.contains (c.round, s.set), fault⟩

/-- a successful SetFinalisedHash moves the highest finalised block and marks (round, set) -/
def Svc.record (s : Svc) (fault : Nat) (o : Out) : Svc :=
  match o.fin with
  | some (b, r, st) => if fault = 3 then s else { s with fin := b, done := (r, st) :: s.done }
  | none => s

/-- `updateAuthorities` (through `initiateRound`): a different current set id installs its voters -/
def Svc.setchange (s : Svc) (newSet : Nat) (voters : List Nat) : Svc :=
  if newSet = s.set then s else { s with auths := voters, set := newSet }

inductive OpOut
  | commit (o : Out)
  | set (set : Nat) (voters : List Nat)
deriving Repr

def stepOpG (h : Env → Commit → Out) (t : Tree) (s : Svc) : Op → Svc × OpOut
  | .commit f c => let o := h (envOf t s f c) c; (s.record f o, .commit o)
  | .setchange ns vs => let s' := s.setchange ns vs; (s', .set s'.set s'.auths)

def runG (h : Env → Commit → Out) (t : Tree) : List Op → Svc → List OpOut
  | [], _ => []
  | op :: ops, s => let r := stepOpG h t s op; r.2 :: runG h t ops r.1

def stepOp := stepOpG handleCommit
def run := runG handleCommit
def runSpec := runG handleCommitSpec

/-- Service state after a history -/
def stateAfter (t : Tree) (s : Svc) (ops : List Op) : Svc := ops.foldl (fun s op => (stepOp t s op).1) s

end Gossamer.C18
