/-
C14 model: how gossamer encodes / decodes the chain data structures.

* SCALE types: `scale.Marshal` / `scale.Unmarshal` are the Go codec of C11/C12 (`C11.marshal`,
  `C11.unmarshal`) applied to the Go type DECLARATIONS.  These coincide with the specification's
  descriptors (`Gossamer.Chain`) except:
    - `types.DigestItem` has no `Other` variant (index 0): `goDigestItem = digestItemCore`;
    - the header of a finality-grandpa justification (`generic.Header`) holds a digest of `any`
      items, which pkg/scale can neither write nor read unless the list is empty: `goFgHeader`.
* `Header.Hash()`: BLAKE2b-256 of the encoding, cached in an unexported field with the all-zero
  hash as "not yet computed"; field mutation does not reset the cache.
* `BlockRequestMessage` / `BlockResponseMessage`: the mapping to and from the protobuf messages of
  `Gossamer.Proto` (block.go `Encode`, `Decode`, `blockDataToProtobuf`, `protobufToBlockData`,
  `FromBlock.Encode`), protobuf-go's field order.
Core Lean only.
-/
import Gossamer.Lib.ChainTypes
import Gossamer.Lib.ChainProto
import Gossamer.Model.C11
namespace Gossamer.C14
open Gossamer Gossamer.Scale Gossamer.Chain

/-! ## Go declarations -/

/-- dot/types/digest.go `DigestItem`: indices 4, 5, 6, 8 (`IndexValue` / `ValueAt`) -/
def goDigestItem : CTy := digestItemCore
def goDigest : CTy := digestOf goDigestItem
/-- dot/types/header.go `Header` (the unexported `hash` field is not encoded) -/
def goHeader : CTy := headerOf goDigestItem
/-- internal/primitives/runtime/generic `Header`: `Digest{Logs []DigestItem}` with `DigestItem = any` -/
def goFgHeader : CTy := headerOf .enumNil
/-- internal/primitives/consensus/grandpa `GrandpaJustification[H, N]` (decoded through
    internal/client/consensus/grandpa `DecodeJustification` with `generic.Header`) -/
def goFgJustification (n : CTy) : CTy :=
  st [("Round", u64), ("Commit", fgCommit n), ("VoteAncestries", .seq goFgHeader)]

/-- `scale.Marshal` of a value of the described Go type -/
def marshal (c : CTy) (v : Val) : Bytes := C11.marshal c.toTy v
/-- `scale.Unmarshal` into the described Go type (value and unread rest) -/
def unmarshal (c : CTy) (bs : Bytes) : Option (Val × Bytes) := C11.unmarshal c.toTy bs

/-! ## decoding a finality-grandpa justification (`DecodeJustification`) -/

inductive Outcome (α : Type)
  | ok (a : α)
  | err
  | panic
deriving Repr

/-- the fields of a `generic.Header` before its digest -/
def fgHeaderFixed : CTy :=
  st [("ParentHash", h256), ("Number", compact), ("StateRoot", h256), ("ExtrinsicsRoot", h256)]
def fgJustHead (n : CTy) : CTy := st [("Round", u64), ("Commit", fgCommit n)]

/-- put a value at the end of a field chain -/
def snocField : Val → Val → Val
  | .pair a b, x => .pair a (snocField b x)
  | _, x => .pair x .unit

/-- the ancestry headers are read one after the other: four fields, then the length of the digest
    `[]any`; a non-zero length makes pkg/scale decode into a nil interface element:
    `ErrUnsupportedType` (a nil dereference / Go panic before repository commit 19f7355b9; the
    `panic` outcome is kept for the driver's output vocabulary) -/
def decAncestries : Nat → Bytes → Outcome (List Val × Bytes)
  | 0, bs => .ok ([], bs)
  | k + 1, bs =>
    match unmarshal fgHeaderFixed bs with
    | none => .err
    | some (h, r) =>
      match C11.decLen r with
      | none => .err
      | some (0, r') =>
        match decAncestries k r' with
        | .ok (hs, r'') => .ok (snocField h (.list []) :: hs, r'')
        | .err => .err
        | .panic => .panic
      | some (_ + 1, _) => .err

def decodeFgJust (n : CTy) (bs : Bytes) : Outcome Val :=
  match unmarshal (fgJustHead n) bs with
  | none => .err
  | some (hd, r) =>
    match C11.decLen r with
    | none => .err
    | some (k, r') =>
      match decAncestries k r' with
      | .ok (hs, _) => .ok (snocField hd (.list hs))
      | .err => .err
      | .panic => .panic

/-! ## Header.Hash -/

def zero32 : Bytes := List.replicate 32 0

/-- a `types.Header`: the exported fields and the unexported hash cache -/
structure HeaderM where
  fields : Val
  cache : Bytes

/-- a header literal, a decoded header, a `DeepCopy`: the cache is empty -/
def HeaderM.fresh (v : Val) : HeaderM := ⟨v, zero32⟩

/-- `Hash()`: compute and remember unless a non-zero hash is remembered -/
def HeaderM.hash (H : Bytes → Bytes) (h : HeaderM) : Bytes × HeaderM :=
  if h.cache = zero32 then
    let d := H (marshal goHeader h.fields)
    (d, { h with cache := d })
  else (h.cache, h)

/-- `NewHeader`: sets the fields and calls `Hash()` -/
def HeaderM.new (H : Bytes → Bytes) (v : Val) : HeaderM := ((HeaderM.fresh v).hash H).2

/-- assignment to exported fields (`h.Number = n`): the cache is left alone -/
def HeaderM.setFields (h : HeaderM) (v : Val) : HeaderM := { h with fields := v }

/-! ## BlockRequestMessage -/

inductive StartingBlock
  | number (n : Nat)     -- Go `uint`
  | hash (b : Bytes)     -- common.Hash
deriving DecidableEq, Repr

structure BlockRequestMessage where
  requestedData : Nat        -- byte
  startingBlock : StartingBlock
  direction : Nat            -- SyncDirection (byte)
  max : Option Nat           -- *uint32
deriving DecidableEq, Repr

/-- `FromBlock.Encode`: a number is clamped to 2^32-1 and written as 4 little-endian bytes -/
def fromBlockEncode : StartingBlock → Proto.FromBlock
  | .number n => .number (leBytes 4 (if 4294967295 < n then 4294967295 else n))
  | .hash b => .hash b

/-- `Encode`: `Fields = RequestedData << 24`, `MaxBlocks = 0` for a nil `Max` -/
def BlockRequestMessage.toPb (m : BlockRequestMessage) : Proto.BlockRequest :=
  ⟨16777216 * m.requestedData, fromBlockEncode m.startingBlock, m.direction, m.max.getD 0⟩

def BlockRequestMessage.encode (m : BlockRequestMessage) : Bytes := m.toPb.encodeGo

/-- common.BytesToHash: right-aligned in 32 bytes; longer input keeps its last 32 bytes -/
def bytesToHash (b : Bytes) : Bytes :=
  if 32 ≤ b.length then b.drop (b.length - 32) else List.replicate (32 - b.length) 0 ++ b

/-- `Decode` after `proto.Unmarshal` -/
def BlockRequestMessage.ofPb (p : Proto.BlockRequest) : Option BlockRequestMessage :=
  let mx := if p.maxBlocks = 0 then none else some p.maxBlocks
  let rd := p.fields / 16777216 % 256
  match p.fromBlock with
  | .unset => none
  | .hash b => some ⟨rd, .hash (bytesToHash b), p.direction % 256, mx⟩
  | .number b => if b.length = 4 then some ⟨rd, .number (natOfLE b), p.direction % 256, mx⟩ else none

def BlockRequestMessage.decode (bs : Bytes) : Option BlockRequestMessage :=
  (Proto.BlockRequest.decode bs).bind BlockRequestMessage.ofPb

/-- what survives the wire: numbers above 2^32-1 are clamped, `Max = &0` reads back as nil -/
def BlockRequestMessage.norm (m : BlockRequestMessage) : BlockRequestMessage :=
  { m with
    startingBlock := (match m.startingBlock with
      | .number n => .number (if 4294967295 < n then 4294967295 else n)
      | .hash b => .hash b)
    max := if m.max = some 0 then none else m.max }

/-- values a Go `BlockRequestMessage` can hold -/
def BlockRequestMessage.wf (m : BlockRequestMessage) : Prop :=
  m.requestedData < 256 ∧ m.direction < 256 ∧ (∀ k, m.max = some k → k < 4294967296) ∧
  (∀ b, m.startingBlock = .hash b → b.length = 32)

/-! ## BlockResponseMessage -/

/-- `types.BlockData` as the response carries it -/
structure BlockDataM where
  hash : Bytes                      -- common.Hash
  header : Option Val               -- *Header
  body : Option (List Bytes)        -- *Body
  receipt : Option Bytes
  messageQueue : Option Bytes
  justification : Option Bytes
deriving Repr

def headerToPb : Option Val → Bytes
  | some h => marshal goHeader h
  | none => []

/-- `AsEncodedExtrinsics`: every extrinsic SCALE-encoded as a byte string -/
def bodyToPb : Option (List Bytes) → List Bytes
  | some exts => exts.map (fun e => C11.encP .bytes (.bytes e))
  | none => []

/-- `blockDataToProtobuf` -/
def BlockDataM.toPb (d : BlockDataM) : Proto.BlockData where
  hash := d.hash
  header := headerToPb d.header
  body := bodyToPb d.body
  receipt := d.receipt.getD []
  messageQueue := d.messageQueue.getD []
  justification := d.justification.getD []
  isEmptyJustification := d.justification == some []

def bytesOfVal : Val → Bytes
  | .bytes b => b
  | _ => []

/-- `NewBodyFromEncodedBytes`: compact count (written as a big integer) followed by the already
    encoded extrinsics, decoded as `[][]byte` (unread input is ignored) -/
def bodyOfEncoded (exts : List Bytes) : Option (List Bytes) :=
  match C11.unmarshal (.seq (.prim .bytes)) (C11.encodeBigInt exts.length ++ exts.flatten) with
  | some (.list vs, _) => some (vs.map bytesOfVal)
  | _ => none

def optOfBytes (b : Bytes) : Option Bytes := if b = [] then none else some b

/-- header field: absent, or a SCALE header (outer `none` = decoding error) -/
def headerOfPb (b : Bytes) : Option (Option Val) :=
  if b = [] then some none
  else match unmarshal goHeader b with
    | some (v, _) => some (some v)
    | none => none

def bodyOfPb (bs : List Bytes) : Option (Option (List Bytes)) :=
  if bs = [] then some none
  else match bodyOfEncoded bs with
    | some b => some (some b)
    | none => none

/-- justification with the `is_empty_justification` escape -/
def justOfPb (j : Bytes) (isEmpty : Bool) : Option Bytes :=
  if j = [] then (if isEmpty then some [] else none) else some j

/-- `protobufToBlockData` (a field that is absent and a field that is present but empty are the
    same abstract message; Go tells them apart only for inputs no encoder of this message emits) -/
def BlockDataM.ofPb (p : Proto.BlockData) : Option BlockDataM :=
  match headerOfPb p.header, bodyOfPb p.body with
  | some h, some b =>
    some { hash := bytesToHash p.hash, header := h, body := b, receipt := optOfBytes p.receipt,
           messageQueue := optOfBytes p.messageQueue,
           justification := justOfPb p.justification p.isEmptyJustification }
  | _, _ => none

def optMapM {α β : Type} (f : α → Option β) : List α → Option (List β)
  | [] => some []
  | a :: as =>
    match f a, optMapM f as with
    | some b, some bs => some (b :: bs)
    | _, _ => none

def responseEncode (ds : List BlockDataM) : Bytes := (Proto.BlockResponse.mk (ds.map BlockDataM.toPb)).encode

def responseDecode (bs : Bytes) : Option (List BlockDataM) :=
  match Proto.BlockResponse.decode bs with
  | none => none
  | some r => optMapM BlockDataM.ofPb r.blocks

/-- what survives the wire: an empty body, receipt or message queue reads back as nil -/
def BlockDataM.norm (d : BlockDataM) : BlockDataM :=
  { d with
    body := if d.body = some [] then none else d.body
    receipt := if d.receipt = some [] then none else d.receipt
    messageQueue := if d.messageQueue = some [] then none else d.messageQueue }

/-! ## constants of block.go -/

def maxBlocksInResponse : Nat := 128
def requestedDataHeader : Nat := 1
def requestedDataBody : Nat := 2
def requestedDataReceipt : Nat := 4
def requestedDataMessageQueue : Nat := 8
def requestedDataJustification : Nat := 16
def bootstrapRequestData : Nat := requestedDataHeader + requestedDataBody + requestedDataJustification

end Gossamer.C14
