/-
Model of BABE block verification: lib/babe/verify.go (getVerifierInfo, verifyAuthorshipRight,
verifyPreRuntimeDigest, verifyPrimarySlotWinner), lib/babe/secondary.go (verifySecondarySlotPlain/VRF)
and the claim side lib/babe/epoch.go (claimSlot), lib/babe/crypto.go (claimPrimarySlot,
claimSecondarySlotPlain/VRF).  Core Lean only.

Cryptography is not modelled; it enters as the truth values of the four library calls the code makes
(`Oracles`).  `getSecondarySlotAuthor` is C25's model, with the hash `H` as a parameter.
The equivocation check at the end of verifyAuthorshipRight is property C27's; here the slot state
reports no equivocation.
-/
import Gossamer.Base.Bytes
import Gossamer.Model.C25
namespace Gossamer.C24
open Gossamer.C25 (secondaryAuthor Author)

/-- result of a crypto call `(bool, error)`: `(false, nil)`, `(true, nil)`, `(_, err)` -/
inductive Tri where
  | no | yes | err
deriving Repr, DecidableEq

/-- truth about the crypto of one header, for the authority the pre-digest names -/
structure Oracles where
  /-- `sr25519.AttachInput(output, pk, transcript)` succeeds -/
  attach : Bool
  /-- the 16 bytes made from the VRF in/out are below the epoch threshold (checkPrimaryThreshold, C25) -/
  below : Bool
  /-- `pk.VrfVerify(transcript, output, proof)` -/
  vrf : Tri
  /-- `pk.Verify(blake2b(encode(header without seal)), seal.Data)` -/
  sig : Tri
deriving Repr, DecidableEq

/-- a decoded BABE pre-digest (types.DecodeBabePreDigest): variant index 1, 2, 3 -/
inductive PreDigest where
  | primary (idx slot : Nat)
  | secPlain (idx slot : Nat)
  | secVRF (idx slot : Nat)
deriving Repr, DecidableEq

def PreDigest.idx : PreDigest → Nat
  | .primary i _ => i | .secPlain i _ => i | .secVRF i _ => i

def PreDigest.slot : PreDigest → Nat
  | .primary _ s => s | .secPlain _ s => s | .secVRF _ s => s

/-- a digest item as verifyAuthorshipRight sees it: a PreRuntimeDigest whose data decodes to `d`
    (`none`: DecodeBabePreDigest fails), a SealDigest, or any other item.
    (The code does not look at the consensus engine id of either.) -/
inductive Item where
  | pre (d : Option PreDigest)
  | sealItem
  | other
deriving Repr, DecidableEq

inductive Verdict where
  | ok
  | missingDigest        -- errMissingDigestItems
  | firstNotPre          -- types.ErrNoFirstPreDigest
  | lastNotSeal          -- errLastDigestItemNotSeal
  | index                -- ErrInvalidBlockProducerIndex
  | overThreshold        -- ErrVRFOutputOverThreshold
  | badSecondaryClaim    -- ErrBadSecondarySlotClaim
  | badSlotClaim         -- ErrBadSlotClaim
  | badSignature         -- ErrBadSignature
  | claimOther           -- any other error inside verifyPreRuntimeDigest (decode, VRF decode)
  | sealOther            -- signature length / decode error
  | verifierInfo         -- getVerifierInfo failed (CalculateThreshold error)
deriving Repr, DecidableEq

/-- `verifierInfo`: number of authorities and `secondarySlots: configData.SecondarySlots > 0` -/
structure Info where
  n : Nat
  secondarySlots : Bool
deriving Repr, DecidableEq

/-- `VerificationManager.getVerifierInfo`: fails only when CalculateThreshold does
    (C1, C2 below 2^53 here, so the guard is `C1 = 0 ∨ C2 = 0 ∨ C1 > C2`, see C25_errors) -/
def getVerifierInfo (ss c1 c2 n : Nat) : Option Info :=
  if c1 = 0 ∨ c2 = 0 ∨ c1 > c2 then none else some ⟨n, decide (ss > 0)⟩

def vrfVerdict : Tri → Verdict
  | .err => .claimOther
  | .no => .badSlotClaim
  | .yes => .ok

/-- `verifier.verifyPreRuntimeDigest` (ok = the pre-digest is returned) -/
def verifyPreRuntimeDigest (H : Bytes → Bytes) (info : Info) (rand : Bytes)
    (d : Option PreDigest) (o : Oracles) : Verdict :=
  match d with
  | none => .claimOther
  | some pd =>
    if info.n ≤ pd.idx then .index
    else match pd with
      | .primary _ _ =>
        -- verifyPrimarySlotWinner: checkPrimaryThreshold, then VrfVerify
        if !o.attach then .claimOther
        else if !o.below then .overThreshold
        else vrfVerdict o.vrf
      | .secVRF idx slot =>
        if !info.secondarySlots then .badSlotClaim
        else if secondaryAuthor H rand slot info.n ≠ .idx idx then .badSecondaryClaim
        else vrfVerdict o.vrf
      | .secPlain idx slot =>
        if !info.secondarySlots then .badSlotClaim
        else if secondaryAuthor H rand slot info.n ≠ .idx idx then .badSecondaryClaim
        else .ok

def sealVerdict : Tri → Verdict
  | .err => .sealOther
  | .no => .badSignature
  | .yes => .ok

/-- `verifier.verifyAuthorshipRight` on the digest of the header -/
def verifyAuthorshipRight (H : Bytes → Bytes) (info : Info) (rand : Bytes)
    (digest : List Item) (o : Oracles) : Verdict :=
  if digest.length < 2 then .missingDigest
  else match digest.head?, digest.getLast? with
    | some (.pre d), some .sealItem =>
      match verifyPreRuntimeDigest H info rand d o with
      | .ok => sealVerdict o.sig      -- then the equivocation check (C27): none reported
      | e => e
    | some (.pre _), _ => .lastNotSeal
    | _, _ => .firstNotPre

/-- getVerifierInfo + newVerifier + verifyAuthorshipRight -/
def verify (H : Bytes → Bytes) (ss c1 c2 n : Nat) (rand : Bytes) (digest : List Item) (o : Oracles) :
    Verdict :=
  match getVerifierInfo ss c1 c2 n with
  | none => .verifierInfo
  | some info => verifyAuthorshipRight H info rand digest o

/-! ### specification: who is authorised -/

/-- the kind of claim the epoch configuration allows (types.AllowedSlots: 0 primary only,
    1 primary + secondary plain, 2 primary + secondary VRF) -/
def kindAllowed (ss : Nat) : PreDigest → Bool
  | .primary _ _ => true
  | .secPlain _ _ => ss = 1
  | .secVRF _ _ => ss = 2

/-- the claim itself is right: primary = VRF output below the threshold with a valid proof;
    secondary = by the authority assigned to the slot (with a valid VRF proof where required) -/
def claimRight (H : Bytes → Bytes) (n : Nat) (rand : Bytes) (o : Oracles) : PreDigest → Bool
  | .primary _ _ => o.attach && o.below && o.vrf == .yes
  | .secPlain idx slot => secondaryAuthor H rand slot n == .idx idx
  | .secVRF idx slot => secondaryAuthor H rand slot n == .idx idx && o.vrf == .yes

/-- A header is authorised: valid configuration, at least two digest items of which the first is a
    decodable BABE pre-digest and the last a seal, a valid authority index, a claim of an allowed kind
    that is right, and a seal by that authority over the header without the seal. -/
def authorised (H : Bytes → Bytes) (ss c1 c2 n : Nat) (rand : Bytes) (digest : List Item)
    (o : Oracles) : Bool :=
  decide (c1 ≠ 0 ∧ c2 ≠ 0 ∧ c1 ≤ c2) && decide (2 ≤ digest.length) &&
  match digest.head?, digest.getLast? with
  | some (.pre (some pd)), some .sealItem =>
    decide (pd.idx < n) && kindAllowed ss pd && claimRight H n rand o pd && o.sig == .yes
  | _, _ => false

/-- what the code accepts instead: any non-zero `SecondarySlots` admits both secondary kinds -/
def kindAllowedLax (ss : Nat) : PreDigest → Bool
  | .primary _ _ => true
  | _ => decide (ss > 0)

def authorisedLax (H : Bytes → Bytes) (ss c1 c2 n : Nat) (rand : Bytes) (digest : List Item)
    (o : Oracles) : Bool :=
  decide (c1 ≠ 0 ∧ c2 ≠ 0 ∧ c1 ≤ c2) && decide (2 ≤ digest.length) &&
  match digest.head?, digest.getLast? with
  | some (.pre (some pd)), some .sealItem =>
    decide (pd.idx < n) && kindAllowedLax ss pd && claimRight H n rand o pd && o.sig == .yes
  | _, _ => false

/-! ### the node's own lottery -/

/-- `claimSlot`: `belowMe` = the node's VRF output for the slot is under the threshold
    (claimPrimarySlot); otherwise the secondary claim the configuration asks for, if it is our turn -/
def claimSlot (H : Bytes → Bytes) (ss n me : Nat) (rand : Bytes) (slot : Nat) (belowMe : Bool) :
    Option PreDigest :=
  if belowMe then some (.primary me slot)
  else if ss = 0 then none                                   -- errNotOurTurnToPropose
  else if ss = 2 then
    if secondaryAuthor H rand slot n = .idx me then some (.secVRF me slot) else none
  else if ss = 1 then
    if secondaryAuthor H rand slot n = .idx me then some (.secPlain me slot) else none
  else none                                                  -- errInvalidSlotTechnique

end Gossamer.C24
