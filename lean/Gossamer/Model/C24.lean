/-
Model of BABE block verification: lib/babe/verify.go (getVerifierInfo, verifyAuthorshipRight,
verifyPreRuntimeDigest, verifyPrimarySlotWinner), lib/babe/secondary.go (verifySecondarySlotPlain/VRF)
and the claim side lib/babe/epoch.go (claimSlot), lib/babe/crypto.go (claimPrimarySlot,
claimSecondarySlotPlain/VRF).  Core Lean only.

Cryptography is not modelled; it enters as the truth values of the four library calls the code makes
(`Oracles`).  `getSecondarySlotAuthor` is C25's model, with the hash `H` as a parameter.
The equivocation check at the end of verifyAuthorshipRight is property C27's; here the slot state
reports no equivocation.
-/
import Gossamer.Base.Bytes
import Gossamer.Model.C25
namespace Gossamer.C24
open Gossamer.C25 (secondaryAuthor Author)

/-- result of a crypto call `(bool, error)`: `(false, nil)`, `(true, nil)`, `(_, err)` -/
inductive Tri where
  | no | yes | err
deriving Repr, DecidableEq

/-- truth about the crypto of one header, for the authority the pre-digest names -/
structure Oracles where
  /-- `sr25519.AttachInput(output, pk, transcript)` succeeds -/
  attach : Bool
  /-- the 16 bytes made from the VRF in/out are below the epoch threshold (checkPrimaryThreshold, C25) -/
  below : Bool
  /-- `pk.VrfVerify(transcript, output, proof)` -/
  vrf : Tri
  /-- `pk.Verify(blake2b(encode(header without seal)), seal.Data)` -/
  sig : Tri
deriving Repr, DecidableEq

/-- a decoded BABE pre-digest (types.DecodeBabePreDigest): variant index 1, 2, 3 -/
inductive PreDigest where
  | primary (idx slot : Nat)
  | secPlain (idx slot : Nat)
  | secVRF (idx slot : Nat)
deriving Repr, DecidableEq

def PreDigest.idx : PreDigest → Nat
  | .primary i _ => i | .secPlain i _ => i | .secVRF i _ => i

def PreDigest.slot : PreDigest → Nat
  | .primary _ s => s | .secPlain _ s => s | .secVRF _ s => s

/-- a digest item as verifyAuthorshipRight sees it: a PreRuntimeDigest whose data decodes to `d`
    (`none`: DecodeBabePreDigest fails), a SealDigest, or any other item.
    (The code does not look at the consensus engine id of either.) -/
inductive Item where
  | pre (d : Option PreDigest)
  | sealItem
  | other
deriving Repr, DecidableEq

inductive Verdict where
  | ok
  | missingDigest        -- errMissingDigestItems
  | firstNotPre          -- types.ErrNoFirstPreDigest
  | lastNotSeal          -- errLastDigestItemNotSeal
  | index                -- ErrInvalidBlockProducerIndex
  | overThreshold        -- ErrVRFOutputOverThreshold
  | badSecondaryClaim    -- ErrBadSecondarySlotClaim
  | badSlotClaim         -- ErrBadSlotClaim
  | badSignature         -- ErrBadSignature
  | claimOther           -- any other error inside verifyPreRuntimeDigest (decode, VRF decode)
  | sealOther            -- signature length / decode error
  | verifierInfo         -- getVerifierInfo failed (CalculateThreshold error)
  | parentUnknown        -- VerifyBlock: blockState.GetHeader(parent) failed
  | epochLower           -- VerifyBlock: errEpochLowerThanExpected
deriving Repr, DecidableEq

/-- `verifierInfo`: number of authorities and `secondarySlots: configData.SecondarySlots > 0` -/
structure Info where
  n : Nat
  secondarySlots : Bool
deriving Repr, DecidableEq

/-- `VerificationManager.getVerifierInfo`: fails only when CalculateThreshold does
    (C1, C2 below 2^53 here, so the guard is `C1 = 0 ∨ C2 = 0 ∨ C1 > C2`, see C25_errors) -/
def getVerifierInfo (ss c1 c2 n : Nat) : Option Info :=
  if c1 = 0 ∨ c2 = 0 ∨ c1 > c2 then none else some ⟨n, decide (ss > 0)⟩

def vrfVerdict : Tri → Verdict
  | .err => .claimOther
  | .no => .badSlotClaim
  | .yes => .ok

/-- `verifier.verifyPreRuntimeDigest` (ok = the pre-digest is returned) -/
def verifyPreRuntimeDigest (H : Bytes → Bytes) (info : Info) (rand : Bytes)
    (d : Option PreDigest) (o : Oracles) : Verdict :=
  match d with
  | none => .claimOther
  | some pd =>
    if info.n ≤ pd.idx then .index
    else match pd with
      | .primary _ _ =>
        -- verifyPrimarySlotWinner: checkPrimaryThreshold, then VrfVerify
        if !o.attach then .claimOther
        else if !o.below then .overThreshold
        else vrfVerdict o.vrf
      | .secVRF idx slot =>
        if !info.secondarySlots then .badSlotClaim
        else if secondaryAuthor H rand slot info.n ≠ .idx idx then .badSecondaryClaim
        else vrfVerdict o.vrf
      | .secPlain idx slot =>
        if !info.secondarySlots then .badSlotClaim
        else if secondaryAuthor H rand slot info.n ≠ .idx idx then .badSecondaryClaim
        else .ok

def sealVerdict : Tri → Verdict
  | .err => .sealOther
  | .no => .badSignature
  | .yes => .ok

/-- `verifier.verifyAuthorshipRight` on the digest of the header -/
def verifyAuthorshipRight (H : Bytes → Bytes) (info : Info) (rand : Bytes)
    (digest : List Item) (o : Oracles) : Verdict :=
  if digest.length < 2 then .missingDigest
  else match digest.head?, digest.getLast? with
    | some (.pre d), some .sealItem =>
      match verifyPreRuntimeDigest H info rand d o with
      | .ok => sealVerdict o.sig      -- then the equivocation check (C27): none reported
      | e => e
    | some (.pre _), _ => .lastNotSeal
    | _, _ => .firstNotPre

/-- getVerifierInfo + newVerifier + verifyAuthorshipRight -/
def verify (H : Bytes → Bytes) (ss c1 c2 n : Nat) (rand : Bytes) (digest : List Item) (o : Oracles) :
    Verdict :=
  match getVerifierInfo ss c1 c2 n with
  | none => .verifierInfo
  | some info => verifyAuthorshipRight H info rand digest o

/-! ### specification: who is authorised -/

/-- the kind of claim the epoch configuration allows (types.AllowedSlots: 0 primary only,
    1 primary + secondary plain, 2 primary + secondary VRF) -/
def kindAllowed (ss : Nat) : PreDigest → Bool
  | .primary _ _ => true
  | .secPlain _ _ => ss = 1
  | .secVRF _ _ => ss = 2

/-- the claim itself is right: primary = VRF output below the threshold with a valid proof;
    secondary = by the authority assigned to the slot (with a valid VRF proof where required) -/
def claimRight (H : Bytes → Bytes) (n : Nat) (rand : Bytes) (o : Oracles) : PreDigest → Bool
  | .primary _ _ => o.attach && o.below && o.vrf == .yes
  | .secPlain idx slot => secondaryAuthor H rand slot n == .idx idx
  | .secVRF idx slot => secondaryAuthor H rand slot n == .idx idx && o.vrf == .yes

/-- A header is authorised: valid configuration, at least two digest items of which the first is a
    decodable BABE pre-digest and the last a seal, a valid authority index, a claim of an allowed kind
    that is right, and a seal by that authority over the header without the seal. -/
def authorised (H : Bytes → Bytes) (ss c1 c2 n : Nat) (rand : Bytes) (digest : List Item)
    (o : Oracles) : Bool :=
  decide (c1 ≠ 0 ∧ c2 ≠ 0 ∧ c1 ≤ c2) && decide (2 ≤ digest.length) &&
  match digest.head?, digest.getLast? with
  | some (.pre (some pd)), some .sealItem =>
    decide (pd.idx < n) && kindAllowed ss pd && claimRight H n rand o pd && o.sig == .yes
  | _, _ => false

/-- what the code accepts instead: any non-zero `SecondarySlots` admits both secondary kinds -/
def kindAllowedLax (ss : Nat) : PreDigest → Bool
  | .primary _ _ => true
  | _ => decide (ss > 0)

def authorisedLax (H : Bytes → Bytes) (ss c1 c2 n : Nat) (rand : Bytes) (digest : List Item)
    (o : Oracles) : Bool :=
  decide (c1 ≠ 0 ∧ c2 ≠ 0 ∧ c1 ≤ c2) && decide (2 ≤ digest.length) &&
  match digest.head?, digest.getLast? with
  | some (.pre (some pd)), some .sealItem =>
    decide (pd.idx < n) && kindAllowedLax ss pd && claimRight H n rand o pd && o.sig == .yes
  | _, _ => false


/-! ### VerificationManager: VerifyBlock and SetOnDisabled on one manager

The world of the manager cases: two branches A, B under genesis; block `X k` (k = 1, 2, 3) has number `k`
and epoch 0, 1, 1.  Epoch data and configuration are resolved by the BRANCH of the header asked about
(C26): epoch 0 = descriptor `g`; epoch e ≥ 1 on branch X = descriptor X with randomness byte `rb + e - 1`.
`VerifyBlock` reads no manager state at all (`epochInfo`/`onDisabled` are only touched by `SetOnDisabled`). -/

/-- an epoch descriptor: authority count, randomness byte, c1/c2, SecondarySlots -/
structure Desc where
  n : Nat
  rb : Nat
  c1 : Nat
  c2 : Nat
  ss : Nat
deriving Repr, DecidableEq

structure Env where
  g : Desc
  a : Desc
  b : Desc
deriving Repr

inductive Branch where
  | A | B
deriving Repr, DecidableEq

/-- the descriptor in force on a branch for an epoch -/
def Env.at (env : Env) (br : Branch) (epoch : Nat) : Desc :=
  if epoch = 0 then env.g
  else
    let d := match br with | .A => env.a | .B => env.b
    { d with rb := (d.rb + (epoch - 1)) % 256 }

def randOf (rb : Nat) : Bytes := List.replicate 32 (UInt8.ofNat rb)

inductive Parent where
  | genesis
  | blk (k : Nat)
  | unknown
deriving Repr, DecidableEq

def epochOfK (k : Nat) : Nat := if k ≤ 1 then 0 else 1

/-- a header handed to VerifyBlock: its branch, parent, epoch (GetEpochForBlock), digest, and the
    truth about its crypto w.r.t. the descriptor of ITS OWN branch -/
structure VB where
  branch : Branch
  parent : Parent
  epoch : Nat
  digest : List Item
  o : Oracles
deriving Repr

/-- verification with a given descriptor (getVerifierInfo + newVerifier + verifyAuthorshipRight) -/
def verifyWith (H : Bytes → Bytes) (d : Desc) (digest : List Item) (o : Oracles) : Verdict :=
  verify H d.ss d.c1 d.c2 d.n (randOf d.rb) digest o

/-- the epoch whose descriptor VerifyBlock uses (`epochWhereDataDescriptorIs`) -/
def whereEpoch (parentEpoch epoch : Nat) : Nat :=
  if epoch > parentEpoch + 1 then parentEpoch + 1 else epoch

/-- `VerificationManager.VerifyBlock` -/
def verifyBlock (H : Bytes → Bytes) (env : Env) (b : VB) : Verdict :=
  match b.parent with
  | .unknown => .parentUnknown
  | .genesis => verifyWith H (env.at b.branch b.epoch) b.digest b.o
  | .blk k =>
    if epochOfK k > b.epoch then .epochLower
    else verifyWith H (env.at b.branch (whereEpoch (epochOfK k) b.epoch)) b.digest b.o

structure Blk where
  branch : Branch
  k : Nat
deriving Repr, DecidableEq

/-- `onDisabledInfo` under its map keys (epoch, producer index) -/
structure DisEntry where
  epoch : Nat
  idx : Nat
  number : Nat
  blk : Blk
deriving Repr, DecidableEq

/-- the manager state the code keeps: `epochInfo` (here: the cached authority count per epoch NUMBER)
    and `onDisabled` -/
structure MState where
  cache : List (Nat × Nat)
  disabled : List DisEntry
deriving Repr

def MState.init : MState := ⟨[], []⟩

inductive DisResult where
  | ok | index | already | verifierInfo
deriving Repr, DecidableEq

/-- stub BlockState.IsDescendantOf on the fixed tree: ancestor-or-self on one branch -/
def isDescendantOf (p c : Blk) : Bool := p.branch == c.branch && decide (p.k ≤ c.k)

/-- `VerificationManager.SetOnDisabled(idx, header of X k)`.  The authority count the index is checked
    against comes from `epochInfo[epoch]`, filled by the FIRST header seen for that epoch number. -/
def setOnDisabled (env : Env) (st : MState) (br : Branch) (k idx : Nat) : MState × DisResult :=
  let epoch := epochOfK k
  let cached : Option (MState × Nat) :=
    match st.cache.lookup epoch with
    | some n => some (st, n)
    | none =>
      let d := env.at br epoch
      match getVerifierInfo d.ss d.c1 d.c2 d.n with
      | none => none
      | some info => some ({ st with cache := (epoch, info.n) :: st.cache }, info.n)
  match cached with
  | none => (st, .verifierInfo)
  | some (st1, n) =>
    if idx ≥ n then (st1, .index)
    else if (st1.disabled.filter fun e => e.epoch = epoch ∧ e.idx = idx).any
        (fun e => isDescendantOf e.blk ⟨br, k⟩ && decide (k ≥ e.number)) then (st1, .already)
    else ({ st1 with disabled := st1.disabled ++ [⟨epoch, idx, k, ⟨br, k⟩⟩] }, .ok)

inductive Op where
  | vb (b : VB)
  | dis (br : Branch) (k idx : Nat)
deriving Repr

inductive Out where
  | verdict (v : Verdict)
  | dis (r : DisResult)
deriving Repr, DecidableEq

def stepOp (H : Bytes → Bytes) (env : Env) (st : MState) : Op → MState × Out
  | .vb b => (st, .verdict (verifyBlock H env b))
  | .dis br k idx => let r := setOnDisabled env st br k idx; (r.1, .dis r.2)

/-- a sequence of calls on one manager -/
def runOps (H : Bytes → Bytes) (env : Env) : MState → List Op → List Out
  | _, [] => []
  | st, op :: ops => (stepOp H env st op).2 :: runOps H env (stepOp H env st op).1 ops

/-- specification: the header is authorised with the epoch data of its own branch -/
def blockAuthorised (H : Bytes → Bytes) (env : Env) (b : VB) : Bool :=
  match b.parent with
  | .unknown => false
  | .genesis =>
    let d := env.at b.branch b.epoch
    authorised H d.ss d.c1 d.c2 d.n (randOf d.rb) b.digest b.o
  | .blk k =>
    decide (epochOfK k ≤ b.epoch) &&
    (let d := env.at b.branch (whereEpoch (epochOfK k) b.epoch)
     authorised H d.ss d.c1 d.c2 d.n (randOf d.rb) b.digest b.o)

/-! ### the node's own lottery -/

/-- `claimSlot`: `belowMe` = the node's VRF output for the slot is under the threshold
    (claimPrimarySlot); otherwise the secondary claim the configuration asks for, if it is our turn -/
def claimSlot (H : Bytes → Bytes) (ss n me : Nat) (rand : Bytes) (slot : Nat) (belowMe : Bool) :
    Option PreDigest :=
  if belowMe then some (.primary me slot)
  else if ss = 0 then none                                   -- errNotOurTurnToPropose
  else if ss = 2 then
    if secondaryAuthor H rand slot n = .idx me then some (.secVRF me slot) else none
  else if ss = 1 then
    if secondaryAuthor H rand slot n = .idx me then some (.secPlain me slot) else none
  else none                                                  -- errInvalidSlotTechnique

end Gossamer.C24
