/-
Model of pkg/scale/uint128.go (after the `fix:` commits recorded in known_findings.json).
Every definition mirrors one Go function; loops are structural recursion.
-/
import Gossamer.Base.Bytes
import Gossamer.Base.Dec
namespace Gossamer.C13

structure U128 where
  upper : UInt64
  lower : UInt64
deriving DecidableEq, Repr

def U128.toNat (u : U128) : Nat := u.upper.toNat * 2 ^ 64 + u.lower.toNat

/-- Go `binary.LittleEndian.Uint64(b[:8])` on a slice of at least 8 bytes -/
def le64 (b : Bytes) : UInt64 := UInt64.ofNat (natOfLE (b.take 8))
def be64 (b : Bytes) : UInt64 := UInt64.ofNat (natOfBE (b.take 8))

/-- `padBytes(b, LittleEndian)`: append zeros up to 16 -/
def padLE (b : Bytes) : Bytes := b ++ List.replicate (16 - b.length) 0
/-- `padBytes(b, BigEndian)`: prepend zeros up to 16 -/
def padBE (b : Bytes) : Bytes := List.replicate (16 - b.length) 0 ++ b

/-- `trimBytes(b, BigEndian)`: drop leading zeros -/
def trimBE (b : Bytes) : Bytes := b.dropWhile (· == 0)
/-- `trimBytes(b, LittleEndian)`: drop trailing zeros -/
def trimLE (b : Bytes) : Bytes := (b.reverse.dropWhile (· == 0)).reverse

/-- minimal big-endian magnitude bytes: Go `big.Int.Bytes()` -/
def bigBytes (n : Nat) : Bytes := (leMin n).reverse

/-- `NewUint128(*big.Int)` on a non-negative integer (inputs of more than 16 bytes keep the
    leading 16 bytes, as the Go code does) -/
def ofBig (n : Nat) : U128 :=
  let bytes := bigBytes n
  let bytes := if bytes.length < 16 then padBE bytes else bytes
  { upper := be64 bytes, lower := be64 (bytes.drop 8) }

/-- `NewUint128([]byte)` / `NewUint128([]byte, LittleEndian)` -/
def ofBytesLE (b : Bytes) : U128 :=
  let b := if b.length < 16 then padLE b else b
  { upper := le64 (b.drop 8), lower := le64 b }

/-- `NewUint128([]byte, BigEndian)` (repaired: most significant half first) -/
def ofBytesBE (b : Bytes) : U128 :=
  let b := if b.length < 16 then padBE b else b
  { upper := be64 b, lower := be64 (b.drop 8) }

/-- `u.Bytes()` / `u.Bytes(LittleEndian)` -/
def bytesLE (u : U128) : Bytes := trimLE (leBytes 8 u.lower.toNat ++ leBytes 8 u.upper.toNat)
/-- `u.Bytes(BigEndian)` -/
def bytesBE (u : U128) : Bytes := trimBE (beBytes 8 u.upper.toNat ++ beBytes 8 u.lower.toNat)

/-- `u.String()` (repaired: big-endian bytes into `SetBytes`) and `MarshalJSON` -/
def toDec (u : U128) : List Char := decChars (natOfBE (bytesBE u))

/-- `UnmarshalJSON` restricted to unsigned decimal input (Go also accepts a sign) -/
def unmarshal? (cs : List Char) : Option U128 := (parseDec? cs).map ofBig

/-- `u.Compare(v)` -/
def compare (u v : U128) : Int :=
  if u.upper > v.upper then 1
  else if u.upper < v.upper then -1
  else if u.lower > v.lower then 1
  else if u.lower < v.lower then -1
  else 0

/-- `encodeState.encodeUint128`: 16 little-endian bytes (`padBytes(i.Bytes(), LittleEndian)`) -/
def scaleEnc (u : U128) : Bytes := padLE (bytesLE u)

/-- `decodeState.decodeUint128` on exactly 16 bytes: `NewUint128(buf)` -/
def scaleDec (b : Bytes) : U128 := ofBytesLE b

/-- SCALE encoding of `types.AccountInfo` (dot/types/account.go): four `uint32` counters followed by
    the four 128-bit balances of `AccountData` -/
def accountInfoEnc (nonce consumers producers sufficients : Nat) (free reserved misc frozen : U128) : Bytes :=
  leBytes 4 nonce ++ leBytes 4 consumers ++ leBytes 4 producers ++ leBytes 4 sufficients ++
    scaleEnc free ++ scaleEnc reserved ++ scaleEnc misc ++ scaleEnc frozen

end Gossamer.C13
