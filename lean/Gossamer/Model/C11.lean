/-
Model of pkg/scale (encode.go, decode.go, scale.go, result.go, varying_data_type.go) over the
type universe of `Gossamer.Lib.Scale`, AFTER the `fix:` commits listed in harness/C11/findings.json.

Primitive layer: one Lean function per Go function, with Go's integer conversions written out as
`% 2^k` and Go's reader semantics made explicit:
  * `readFull k`  = `io.ReadFull(ds.Reader, buf)` / `ds.ReadByte()` (all integer paths);
  * `decBytes`    = `decodeBytes`, which keeps ONE `ds.Read(b)` on the `bytes.Buffer`: an empty
    buffer is `EOF`, otherwise whatever is there is copied and the REST OF `b` STAYS ZERO (known
    finding `bytes-short-read`), after `make([]byte, L)` for the declared `L` (known finding
    `bytes-alloc`).
Every primitive decode reports `req`, the largest buffer it allocated for reading, and `zf`,
whether a short read was zero-filled.  Value (`…V`) and buffer size (`…Req`) of the compact
decoders are separate functions of the input (the size depends on the prefix byte only).

Structural layer: the reflect-driven walk of `marshal`/`unmarshal` (struct fields in
`fieldScaleIndices` order, pointers as options, `Result`, varying data types, arrays, slices) is
`Scale.encode`/`Scale.decode` instantiated with these primitives (`codec`).
-/
import Gossamer.Lib.Scale
namespace Gossamer.C11
open Gossamer Gossamer.Scale

/-! ## encoder primitives (encode.go) -/

/-- `for numBytes = 0; numBytes < 256 && m != 0; numBytes++ { m = m >> 8 }` (fuel = 256 rounds) -/
def numBytesLoop : Nat → Nat → Nat → Nat
  | 0, _, nb => nb
  | fuel + 1, m, nb => if nb < 256 ∧ m ≠ 0 then numBytesLoop fuel (m / 256) (nb + 1) else nb

/-- `lengthByte := uint8(numBytes-4)<<2 + 3` in uint8 arithmetic -/
def lengthByte (numBytes : Nat) : UInt8 := UInt8.ofNat (((numBytes - 4) % 256 * 4 % 256 + 3) % 256)

/-- `encodeUint(i uint)` on a 64-bit platform (`i < 2^64`) -/
def encodeUint (i : Nat) : Bytes :=
  if i < 64 then [UInt8.ofNat (i % 256 * 4 % 256)]                                  -- byte(i)<<2
  else if i < 16384 then leBytes 2 ((i * 4 % 2 ^ 64 % 65536 + 1) % 65536)            -- uint16(i<<2)+1
  else if i < 1073741824 then leBytes 4 ((i * 4 % 2 ^ 64 % 4294967296 + 2) % 4294967296) -- uint32(i<<2)+2
  else
    let numBytes := numBytesLoop 256 i 0
    lengthByte numBytes :: (leBytes 8 i).take numBytes                                -- o[0:numBytes]

/-- `encodeBigInt(i)` for a non-negative `i`; `len(i.Bytes())` is the number of minimal digits and
    `reverseBytes(i.Bytes())` the minimal little-endian digits -/
def encodeBigInt (n : Nat) : Bytes :=
  if n < 64 then [UInt8.ofNat (n * 4 % 256)]                                        -- uint8(i.Int64()<<2)
  else if n < 16384 then leBytes 2 ((n * 4 % 65536 + 1) % 65536)
  else if n < 1073741824 then leBytes 4 ((n * 4 % 4294967296 + 2) % 4294967296)
  else lengthByte (leMin n).length :: leMin n

/-- `uintN(i)` of a signed Go integer: two's complement residue -/
def goUnsigned (w : Nat) (i : Int) : Nat := (i % ((256 ^ w : Nat) : Int)).toNat

/-- `encodeFixedWidthInt`, `encodeUint128` (`padBytes(i.Bytes(), LittleEndian)`, see C13),
    `encodeBool`, `encodeBytes` -/
def encP : Prim → Val → Bytes
  | .u8, .nat n => leBytes 1 n
  | .u16, .nat n => leBytes 2 n
  | .u32, .nat n => leBytes 4 n
  | .u64, .nat n => leBytes 8 n
  | .u128, .nat n => leBytes 16 n
  | .i8, .int i => leBytes 1 (goUnsigned 1 i)
  | .i16, .int i => leBytes 2 (goUnsigned 2 i)
  | .i32, .int i => leBytes 4 (goUnsigned 4 i)
  | .i64, .int i => leBytes 8 (goUnsigned 8 i)
  | .compact, .nat n => encodeUint n
  | .big, .nat n => encodeBigInt n
  | .bool, .bool b => [if b then 1 else 0]
  | .bytes, .bytes b => encodeUint b.length ++ b
  | .str, .bytes b => encodeUint b.length ++ b
  | _, _ => []

/-! ## decoder primitives (decode.go) -/

/-- outcome of one primitive decode -/
structure PRes where
  res : Option (Val × Bytes)
  req : Nat := 0        -- largest buffer allocated for reading
  zf : Bool := false    -- a short read was zero-filled
deriving Inhabited

def PRes.fail (req : Nat) : PRes := { res := none, req := req }
def PRes.ok (v : Val) (r : Bytes) (req : Nat) (zf : Bool := false) : PRes :=
  { res := some (v, r), req := req, zf := zf }

/-- `io.ReadFull(ds.Reader, buf)` with `len(buf) = k` -/
def readFull (k : Nat) (bs : Bytes) : Option (Bytes × Bytes) :=
  if bs.length < k then none else some (bs.take k, bs.drop k)

/-- Go conversion `intN(x)` of an unsigned `w`-byte value -/
def goSigned (w : Nat) (n : Nat) : Int :=
  if n < 256 ^ w / 2 then (n : Int) else (n : Int) - ((256 ^ w : Nat) : Int)

/-- `decodeFixedWidthInt` / `decodeUint128` (`binary.Read` = `io.ReadFull`, `NewUint128`, see C13) -/
def decFixed (w : Nat) (signed : Bool) (bs : Bytes) : PRes :=
  match readFull w bs with
  | none => .fail w
  | some (buf, r) =>
    let n := natOfLE buf
    .ok (if signed then .int (goSigned w n) else .nat n) r w

/-- `decodeBool` -/
def decBool (bs : Bytes) : PRes :=
  match bs with
  | [] => .fail 1
  | b :: r => if b = 0 then .ok (.bool false) r 1 else if b = 1 then .ok (.bool true) r 1 else .fail 1

/-- `decodeUint` (destination `uint`, 64-bit platform): the value and the rest.
    Big-integer mode is accepted with 4 or 8 payload bytes only (known finding `uint-5to7`:
    `encodeUint` writes 5..7 bytes for values in [2^32, 2^56)). -/
def decodeUintV (bs : Bytes) : Option (Nat × Bytes) :=
  match bs with
  | [] => none
  | pfx :: r =>
    if pfx.toNat % 4 = 0 then some (pfx.toNat / 4, r)
    else if pfx.toNat % 4 = 1 then
      match r with
      | [] => none
      | buf :: r' =>
        let value := (pfx.toNat + 256 * buf.toNat) / 4          -- LE16([prefix, buf]) >> 2
        if value ≤ 63 ∨ value > 32767 then none else some (value, r')
    else if pfx.toNat % 4 = 2 then
      match readFull 3 r with
      | none => none
      | some (buf, r') =>
        let value := natOfLE (pfx :: buf) / 4                    -- LE32(prefix ++ buf) >> 2
        if value ≤ 16383 ∨ value > 1073741823 then none else some (value, r')
    else
      let byteLen := pfx.toNat / 4 + 4
      if byteLen ≠ 4 ∧ byteLen ≠ 8 then none                     -- ErrCompactUintPrefixUnknown
      else
        match readFull byteLen r with
        | none => none
        | some (buf, r') =>
          let value := natOfLE buf                                -- LE32(buf) / LE64(buf)
          if byteLen = 4 then
            if value ≤ 1073741823 then none else some (value, r')
          else
            if value ≤ 72057594037927935 then none               -- maxUint64>>8
            else some (value, r')

/-- the largest buffer `decodeUint` allocates on this input (it depends on the prefix only) -/
def decodeUintReq (bs : Bytes) : Nat :=
  match bs with
  | [] => 1
  | pfx :: _ =>
    if pfx.toNat % 4 = 2 then 3
    else if pfx.toNat % 4 = 3 then
      (if pfx.toNat / 4 + 4 ≠ 4 ∧ pfx.toNat / 4 + 4 ≠ 8 then 1 else pfx.toNat / 4 + 4)
    else 1

def decodeUint (bs : Bytes) : Option (Nat × Bytes) × Nat := (decodeUintV bs, decodeUintReq bs)

def decCompact (bs : Bytes) : PRes :=
  match decodeUintV bs with
  | none => .fail (decodeUintReq bs)
  | some (n, r) => .ok (.nat n) r (decodeUintReq bs)

/-- `decodeBigInt` with `decodeSmallInt`: the value and the rest -/
def decBigV (bs : Bytes) : Option (Nat × Bytes) :=
  match bs with
  | [] => none
  | b :: r =>
    if b.toNat % 4 = 0 then some (b.toNat / 4, r)
    else if b.toNat % 4 = 1 then
      match r with
      | [] => none
      | buf :: r' =>
        let out := (b.toNat + 256 * buf.toNat) / 4
        if out ≤ 63 then none else some (out, r')                 -- ErrU16OutOfRange
    else if b.toNat % 4 = 2 then
      match readFull 3 r with
      | none => none
      | some (buf, r') =>
        let out := natOfLE (b :: buf) / 4
        if out ≤ 16383 then none else some (out, r')              -- ErrU32OutOfRange
    else
      let byteLen := b.toNat / 4 + 4
      match readFull byteLen r with
      | none => none
      | some (buf, r') =>
        -- `buf[byteLen-1] == 0`: most significant byte must be non-zero; 4 bytes only from 2^30 on
        if buf.getLast? = some 0 then none
        else if byteLen = 4 ∧ natOfLE buf < 1073741824 then none
        else some (natOfLE buf, r')

def decBigReq (bs : Bytes) : Nat :=
  match bs with
  | [] => 1
  | b :: _ =>
    if b.toNat % 4 = 2 then 3 else if b.toNat % 4 = 3 then b.toNat / 4 + 4 else 1

def decBig (bs : Bytes) : PRes :=
  match decBigV bs with
  | none => .fail (decBigReq bs)
  | some (n, r) => .ok (.nat n) r (decBigReq bs)

/-- padding of the zero-filled tail is not materialised beyond this many zeros (driver guard:
    such results are only ever shown as `ok-huge`) -/
def padCap : Nat := 2 ^ 21

/-- `decodeBytes`: `decodeLength`, the `math.MaxUint32` guard, `make([]byte, length)`, then ONE
    `ds.Read(b)` on the `bytes.Buffer` (not `io.ReadFull`: an existing test pins this behaviour) -/
def decBytes (bs : Bytes) : PRes :=
  let q := decodeUintReq bs
  match decodeUintV bs with
  | none => .fail q
  | some (len, r) =>
    if len > 4294967295 then .fail q
    else if len = 0 then .ok (.bytes []) r q
    else if r.isEmpty then .fail (max q len)                       -- EOF
    else
      .ok (.bytes (r.take len ++ List.replicate (min (len - r.length) padCap) 0)) (r.drop len)
        (max q len) (decide (r.length < len))

/-- `unmarshal` dispatch on the primitive -/
def decPA : Prim → Bytes → PRes
  | .u8, bs => decFixed 1 false bs
  | .u16, bs => decFixed 2 false bs
  | .u32, bs => decFixed 4 false bs
  | .u64, bs => decFixed 8 false bs
  | .u128, bs => decFixed 16 false bs
  | .i8, bs => decFixed 1 true bs
  | .i16, bs => decFixed 2 true bs
  | .i32, bs => decFixed 4 true bs
  | .i64, bs => decFixed 8 true bs
  | .compact, bs => decCompact bs
  | .big, bs => decBig bs
  | .bool, bs => decBool bs
  | .bytes, bs => decBytes bs
  | .str, bs => decBytes bs

/-- `encodeLength` / `decodeLength` -/
def decLen (bs : Bytes) : Option (Nat × Bytes) := decodeUintV bs

/-- the Go codec as a primitive codec for the structural layer -/
def codec : Codec where
  encP := encP
  decP p bs := (decPA p bs).res
  encLen := encodeUint
  decLen := decLen

/-- is the type a varying data type -/
def isVdt : Ty → Bool
  | .enumCons _ _ _ => true
  | .enumNil => true
  | _ => false

def optJoin : List (Option Bytes) → Option Bytes
  | [] => some []
  | none :: _ => none
  | some b :: rest => (optJoin rest).map (b ++ ·)

/-- `scale.Marshal` as `encodeState.marshal` walks a value; `none` is a Go panic.
    It is `encode codec` except at a pointer to a varying data type: the
    `in.(EncodeVaryingDataType)` assertion comes before the pointer case and a pointer has the
    value-receiver methods of its element, so `Some(v)` is written WITHOUT the option byte and a
    nil pointer is dereferenced (known finding `opt-vdt`). -/
def marshalGo : Ty → Val → Option Bytes
  | .prim p, v => some (encP p v)
  | .unit, _ => some []
  | .pair a b, .pair x y =>
    match marshalGo a x, marshalGo b y with
    | some p, some q => some (p ++ q)
    | _, _ => none
  | .option t, .none => if isVdt t then none else some [0]
  | .option t, .some v => if isVdt t then marshalGo t v else (marshalGo t v).map (1 :: ·)
  | .result a _, .ok v => (marshalGo a v).map (0 :: ·)
  | .result _ b, .err v => (marshalGo b v).map (1 :: ·)
  | .array _ t, .list vs => optJoin (vs.map (marshalGo t))
  | .seq t, .list vs => (optJoin (vs.map (marshalGo t))).map (encodeUint vs.length ++ ·)
  | .enumCons i t rest, .variant j v =>
    if j = i then (marshalGo t v).map (UInt8.ofNat i :: ·) else marshalGo rest (.variant j v)
  | _, _ => some []

/-- the pointer-free reading of `Marshal` -/
def marshal (t : Ty) (v : Val) : Bytes := encode codec t v
/-- `scale.Unmarshal` (result and remaining input) -/
def unmarshal (t : Ty) (bs : Bytes) : Option (Val × Bytes) := decode codec t bs

/-! ## struct field order (scale.go `fieldScaleIndices`) -/

/-- a Go struct field as the cache sees it: `none` = no tag, `some none` = `scale:"-"`,
    `some (some k)` = `scale:"k"` -/
abbrev FieldTag := Option (Option Int)

/-- insertion into a list sorted by tag value (ties keep declaration order: `x` is declared before
    everything already in the list) -/
def insertTagged (x : Nat × Int) : List (Nat × Int) → List (Nat × Int)
  | [] => [x]
  | y :: ys => if x.2 ≤ y.2 then x :: y :: ys else y :: insertTagged x ys

def sortTagged : List (Nat × Int) → List (Nat × Int)
  | [] => []
  | x :: xs => insertTagged x (sortTagged xs)

/-- indices of the fields in encoding order: tagged fields by ascending tag, then the untagged
    ones in declaration order; `scale:"-"` fields are skipped -/
def fieldOrder (tags : List FieldTag) : List Nat :=
  let idx := tags.zipIdx
  let tagged := idx.filterMap (fun (t, i) => match t with | some (some k) => some (i, k) | _ => none)
  let untagged := idx.filterMap (fun (t, i) => match t with | none => some i | _ => none)
  (sortTagged tagged).map (·.1) ++ untagged

end Gossamer.C11
