/-
C22 model, part 1: the ABSTRACT GRANDPA voting protocol (the object of the safety theorems) and the
thresholds of the two Go implementations.

This is a protocol model, not a transcription of Go code:

* voters carry weights (`Nat`); `supermajority total w ⇔ 3·w > 2·total`; the Byzantine voters hold less
  than one third of the weight (`Voters.minority`);
* blocks carry an ancestry order in which the ancestors of any block form a chain (`BlockOrder`, the tree
  axiom is the field `chain`); a concrete instance over parent tables is `parentOrder` (Lib/C22Tree);
* a vote is `(voter, block)`; an equivocator (two votes for different blocks in one set) counts towards
  EVERY block (`supports`);
* the asynchronous system `Step`: state = votes ever cast (`sent`, history variable), the network multiset
  (`net`: deliver / drop / duplicate / reorder), and per voter the received set, the current round, the
  estimates it recorded and the blocks it finalised.  Byzantine voters cast anything at any time.
  Honest rules (each is at least as permissive as the GRANDPA paper's rule, so the paper's protocol and
  every protocol whose honest decisions satisfy these guards are covered):
    prevote   in round r: once per round; for r > 0 only a descendant of the estimate recorded for r-1;
    precommit in round r: once per round; only a block with a supermajority of the prevotes RECEIVED
              (the paper: the prevote-GHOST g(V)), for r > 0 only a descendant of the estimate of r-1;
    advance   from round r with estimate e: only when the round is `closable`: some block g has a
              supermajority of received prevotes, e ≤ g, and every block comparable with g for which a
              precommit supermajority is still `possible` is ≤ e   (the paper: g = g(V), e = E_{r,v} = the
              last block on the chain of g(V) that can still get a precommit supermajority, and the round
              is completable: E < g(V) or no child of g(V) can get one);
    finalise  b: some round has a supermajority of RECEIVED precommits for b.
  Message timing is unconstrained: any sent message may be delivered to anybody any number of times, in
  any order, or never.  Liveness is out of scope.

The thresholds as the Go code computes and compares them are the first definitions below; the executable
decision functions used for trace validation are in Lib/C22Sim.lean.
-/
namespace Gossamer.C22

/-! ## supermajority and the implementation thresholds -/

/-- more than two thirds of the total weight -/
def supermajority (total w : Nat) : Prop := 2 * total < 3 * w

instance (t w : Nat) : Decidable (supermajority t w) := by unfold supermajority; infer_instance

/-- lib/grandpa `State.threshold()`: `uint64(2 * len(voters) / 3)` -/
def thrLib (n : Nat) : Nat := 2 * n / 3

/-- `getPossibleSelectedBlocks` / `getPossibleSelectedAncestors`: `if total > threshold` -/
def libSelects (n c : Nat) : Bool := decide (thrLib n < c)

/-- `finalisationEngine.defineRoundVotes`: `if total <= threshold { wait }` else precommit -/
def libGate (n c : Nat) : Bool := !decide (c ≤ thrLib n)

/-- `attemptToFinalize`: `if … || precommitCount <= s.state.threshold() { return false }` -/
def libFinalises (n c : Nat) : Bool := !decide (c ≤ thrLib n)

/-- `verifyCommitMessageJustification`: `if validAndEqv < threshold { return ErrMinVotesNotMet }` -/
def libCommitAccepts (n c : Nat) : Bool := !decide (c < thrLib n)

/-- pkg/finality-grandpa `threshold(total) = total - (total-1)/3` over the natural numbers (total ≥ 1) -/
def thrFG (total : Nat) : Nat := total - (total - 1) / 3

/-- the same function as Go evaluates it on `uint64` (wrapping subtraction) -/
def thrFG64 (total : Nat) : Nat :=
  let t := total % 18446744073709551616
  let faulty := ((18446744073709551616 + t - 1) % 18446744073709551616) / 3
  (18446744073709551616 + t - faulty) % 18446744073709551616

/-- finality-grandpa compares `weight >= threshold` -/
def fgSuper (total w : Nat) : Bool := decide (thrFG total ≤ w)

/-! ## voters and weights -/

/-- weight of the listed voters that satisfy `p` -/
def wsum (w : Nat → Nat) (p : Nat → Bool) : List Nat → Nat
  | [] => 0
  | v :: vs => (if p v then w v else 0) + wsum w p vs

structure Voters where
  ids : List Nat
  w : Nat → Nat
  byz : Nat → Bool

def Voters.weight (vs : Voters) (p : Nat → Bool) : Nat := wsum vs.w p vs.ids
def Voters.total (vs : Voters) : Nat := vs.weight (fun _ => true)
/-- the Byzantine voters hold less than a third of the weight -/
def Voters.minority (vs : Voters) : Prop := 3 * vs.weight vs.byz < vs.total
def Voters.honest (vs : Voters) (v : Nat) : Prop := v ∈ vs.ids ∧ vs.byz v = false

instance (vs : Voters) : Decidable vs.minority := by unfold Voters.minority; infer_instance

/-! ## blocks -/

/-- ancestry (`le a b`: a is b or an ancestor of b); `chain` is the tree axiom -/
structure BlockOrder (B : Type) where
  le : B → B → Bool
  refl : ∀ a, le a a = true
  trans : ∀ a b c, le a b = true → le b c = true → le a c = true
  chain : ∀ a b c, le a c = true → le b c = true → le a b = true ∨ le b a = true

def BlockOrder.comparable {B : Type} (O : BlockOrder B) (a b : B) : Prop :=
  O.le a b = true ∨ O.le b a = true

instance {B : Type} (O : BlockOrder B) (a b : B) : Decidable (O.comparable a b) := by
  unfold BlockOrder.comparable; infer_instance

/-- parent of block `b` in the table `ps = [p₁, p₂, …]` (block 0 is the root, block i ≥ 1 has parent pᵢ;
    the `min` makes every table a tree: a parent index is always below the block) -/
def par (ps : List Nat) : Nat → Nat
  | 0 => 0
  | k + 1 => min (ps.getD k 0) k

/-- the k-th ancestor -/
def up (ps : List Nat) : Nat → Nat → Nat
  | 0, b => b
  | k + 1, b => up ps k (par ps b)

/-- `a` is `b` or an ancestor of `b` -/
def anc (ps : List Nat) (a b : Nat) : Bool := (List.range (b + 1)).any (fun k => up ps k b == a)

/-- number of parent steps to the root -/
def depthF (ps : List Nat) : Nat → Nat → Nat
  | 0, _ => 0
  | f + 1, b => if b = 0 then 0 else 1 + depthF ps f (par ps b)

def depth (ps : List Nat) (b : Nat) : Nat := depthF ps b b

/-! ## votes -/

abbrev Votes (B : Type) := List (Nat × B)

section votes
variable {B : Type} [DecidableEq B]

/-- two votes for different blocks -/
def equivocates (S : Votes B) (v : Nat) : Bool :=
  S.any (fun x => S.any (fun y => x.1 == v && y.1 == v && decide (x.2 ≠ y.2)))

/-- `v` counts towards `x`: it voted for `x` or a descendant, or it equivocated -/
def supports (O : BlockOrder B) (S : Votes B) (x : B) (v : Nat) : Bool :=
  S.any (fun y => y.1 == v && O.le x y.2) || equivocates S v

def voted (S : Votes B) (v : Nat) : Bool := S.any (fun y => y.1 == v)

def tally (vs : Voters) (O : BlockOrder B) (S : Votes B) (x : B) : Nat := vs.weight (supports O S x)

def hasSuper (vs : Voters) (O : BlockOrder B) (S : Votes B) (x : B) : Prop :=
  supermajority vs.total (tally vs O S x)

instance (vs : Voters) (O : BlockOrder B) (S : Votes B) (x : B) : Decidable (hasSuper vs O S x) := by
  unfold hasSuper; infer_instance

/-- at most one block per voter -/
def single (S : Votes B) (v : Nat) : Prop := ∀ b b', (v, b) ∈ S → (v, b') ∈ S → b = b'

/-- a supermajority for `x` is still possible for a vote set that extends `S` and in which the
    equivocators hold less than a third of the weight (semantic form of the paper's definition) -/
def possible (vs : Voters) (O : BlockOrder B) (S : Votes B) (x : B) : Prop :=
  ∃ T : Votes B, (∀ p, p ∈ S → p ∈ T) ∧ 3 * vs.weight (equivocates T) < vs.total ∧ hasSuper vs O T x

/-- the same, as voters compute it (finality-grandpa `Round.estimate`): weight already for `x`, plus everybody
    who has not voted yet, plus as many voters against `x` as may still turn out to be equivocators -/
def possibleW (vs : Voters) (O : BlockOrder B) (S : Votes B) (x : B) : Bool :=
  let forW := tally vs O S x
  let votedW := vs.weight (voted S)
  let eqW := vs.weight (equivocates S)
  let tol := (vs.total - 1) / 3
  decide (supermajority vs.total (forW + (vs.total - votedW) + min (votedW - forW) (tol - eqW)))

end votes

/-! ## the asynchronous protocol -/

inductive Stage where
  | prevote | precommit
  deriving DecidableEq, Repr

structure Msg (B : Type) where
  round : Nat
  stage : Stage
  voter : Nat
  block : B
  deriving DecidableEq

section protocol
variable {B : Type} [DecidableEq B]

/-- the votes of one round and stage in a set of messages -/
def votesOf (ms : List (Msg B)) (r : Nat) (st : Stage) : Votes B :=
  ms.filterMap (fun m => if m.round = r ∧ m.stage = st then some (m.voter, m.block) else none)

structure State (B : Type) where
  sent : List (Msg B)                 -- every vote ever cast (history)
  net : List (Msg B)                  -- messages in flight (a multiset)
  view : Nat → List (Msg B)           -- received by voter v
  round : Nat → Nat                   -- current round of voter v
  est : Nat → Nat → Option B         -- estimate recorded by voter v when it left round r
  fin : Nat → List B                  -- blocks finalised by voter v

def State.init : State B :=
  { sent := [], net := [], view := fun _ => [], round := fun _ => 0, est := fun _ _ => none,
    fin := fun _ => [] }

def upd {α : Type} (f : Nat → α) (v : Nat) (a : α) : Nat → α := fun u => if u = v then a else f u

/-- what a voter must see to leave round `r` with estimate `e` -/
def closable (vs : Voters) (O : BlockOrder B) (view : List (Msg B)) (r : Nat) (g e : B) : Prop :=
  hasSuper vs O (votesOf view r .prevote) g ∧ O.le e g = true ∧
  ∀ x : B, O.comparable x g → possible vs O (votesOf view r .precommit) x → O.le x e = true

/-- the vote of round `r` must extend the estimate of round `r-1` (nothing to extend in round 0) -/
def extendsEst (O : BlockOrder B) (s : State B) (v r : Nat) (b : B) : Prop :=
  ∀ q, q + 1 = r → ∃ e, s.est v q = some e ∧ O.le e b = true

def cast (s : State B) (m : Msg B) : State B :=
  { s with sent := m :: s.sent, net := m :: s.net, view := upd s.view m.voter (m :: s.view m.voter) }

inductive Step (vs : Voters) (O : BlockOrder B) : State B → State B → Prop
  /-- a Byzantine voter casts any vote (any round, any stage, any block, as often as it likes) -/
  | byzCast (s : State B) (m : Msg B) : vs.byz m.voter = true →
      Step vs O s { s with sent := m :: s.sent, net := m :: s.net }
  | drop (s : State B) (i : Nat) : Step vs O s { s with net := s.net.eraseIdx i }
  | dup (s : State B) (m : Msg B) : m ∈ s.net → Step vs O s { s with net := m :: s.net }
  | reorder (s : State B) (net' : List (Msg B)) : net'.Perm s.net → Step vs O s { s with net := net' }
  /-- anybody receives a message that is in flight (it stays in flight: a broadcast) -/
  | deliver (s : State B) (m : Msg B) (v : Nat) : m ∈ s.net →
      Step vs O s { s with view := upd s.view v (m :: s.view v) }
  | prevote (s : State B) (v : Nat) (b : B) : vs.honest v →
      (∀ m ∈ s.sent, ¬ (m.voter = v ∧ m.round = s.round v ∧ m.stage = .prevote)) →
      extendsEst O s v (s.round v) b →
      Step vs O s (cast s ⟨s.round v, .prevote, v, b⟩)
  | precommit (s : State B) (v : Nat) (b : B) : vs.honest v →
      (∀ m ∈ s.sent, ¬ (m.voter = v ∧ m.round = s.round v ∧ m.stage = .precommit)) →
      hasSuper vs O (votesOf (s.view v) (s.round v) .prevote) b →
      extendsEst O s v (s.round v) b →
      Step vs O s (cast s ⟨s.round v, .precommit, v, b⟩)
  | advance (s : State B) (v : Nat) (g e : B) : vs.honest v →
      closable vs O (s.view v) (s.round v) g e →
      Step vs O s { s with est := upd s.est v (upd (s.est v) (s.round v) (some e)),
                           round := upd s.round v (s.round v + 1) }
  | finalise (s : State B) (v r : Nat) (b : B) : vs.honest v →
      hasSuper vs O (votesOf (s.view v) r .precommit) b →
      Step vs O s { s with fin := upd s.fin v (b :: s.fin v) }

inductive Reachable (vs : Voters) (O : BlockOrder B) : State B → Prop
  | init : Reachable vs O State.init
  | step (s t : State B) : Reachable vs O s → Step vs O s t → Reachable vs O t

end protocol

end Gossamer.C22
