/-
C01: the state root.  Model root = root hash of the model trie (`TrieMem` run, encoded as
`pkg/trie/node` does); spec root = `specRoot` of the ordered-map state (canonical trie `build`).
-/
import Gossamer.Model.C02
namespace Gossamer.C01
open Gossamer Gossamer.Trie Gossamer.C02

/-- model trie after each op -/
def statesModel (t : Trie) : List Op → List Trie
  | [] => []
  | op :: r => let t' := (stepModel t op).1; t' :: statesModel t' r

/-- specification map after each op -/
def statesSpec (es : Entries) : List Op → List Entries
  | [] => []
  | op :: r => let es' := (stepSpec es op).1; es' :: statesSpec es' r

/-- `Hash()` after every op of the history -/
def rootsModel (ver : Ver) (H : Bytes → Bytes) (ops : List Op) : List Bytes :=
  (statesModel Trie.nil ops).map (hashTrie ver H)

def rootsSpec (ver : Ver) (H : Bytes → Bytes) (ops : List Op) : List Bytes :=
  (statesSpec [] ops).map (specRoot ver H)

/-- `TrieLayout.Root(NewEmptyTrie(), entries)`: puts into an empty trie, then `Hash()` -/
def layoutRoot (ver : Ver) (H : Bytes → Bytes) (es : List (Bytes × Bytes)) : Bytes :=
  hashTrie ver H (es.foldl (fun t e => Trie.put t e.1 e.2) Trie.nil)

def verOf (s : String) : Ver := if s == "1" then Ver.v1 else Ver.v0

end Gossamer.C01
