/-
C36 — chain state survives a crash at any write.   Core Lean only.

The database is a record of typed key spaces (one field per key class of dot/state) together with an
append-only WRITE LOG whose entries are single puts or atomic batches (assumption: the store keeps write
order and applies a batch atomically).  Every state operation of the node appends its writes to the log in
the order in which the Go code issues them:

  dot/state/inmemory_storage.go  StoreTrie → InMemoryTrie.WriteDirty        one batch of storage nodes
  dot/state/block.go             AddBlock                                   (memory only)
  dot/state/block_finalisation.go SetFinalisedHash / handleFinalisedBlock    hdr, [fsn], blb, arr per block,
                                                                            batch of hsh, fin, hrs
  dot/state/grandpa.go           ApplyScheduledChanges / ApplyForcedChanges → startNextAuthoritySet
                                 (auth, change, setID — `Cfg.incrementFirst` gives the order the code had
                                 before the repair: setID, auth, change; the activation block is the finalised
                                 block's number resp. the forced change's best finalized number), SetLatestRound
  dot/state/grandpa_changes.go   the pending-change trackers (memory only; they decide WHETHER a change is
                                 applied)
  lib/blocktree                  AddBlock / RangeInMemory / IsDescendantOf / Prune on a flat list of nodes

`restart` is the reload path of dot/state Service.Start (NewBlockState → GetHighestFinalisedHeader →
LoadFromDB → NewEpochState) followed by the reads lib/grandpa makes when it starts (finalised header of
round 0 / set 0, current set id, its authorities, its activation block, latest round) and the body of the
finalised head.

Abstractions: a block is a small id (its header hash), a state trie is the number `v0 v1 v2` of its three
variable storage values (its root hash); "the storage batch of root r has been applied" stands for "the trie
of root r can be loaded" (WriteDirty writes every dirty node, clean nodes were written with the parent state).
-/
namespace Gossamer.C36

/-! ### database -/

structure Hdr where
  id : Nat
  parent : Nat
  number : Nat
  root : Nat
deriving DecidableEq, Repr, Inhabited

/-- one put, named by its key class -/
inductive W where
  | hdr (h : Hdr)            -- block/hdr+hash      → header
  | blb (id : Nat)           -- block/blb+hash      → body
  | arr (id : Nat)           -- block/arr+hash      → arrival time
  | hsh (n id : Nat)         -- block/hsh+number    → hash
  | fsn                      -- block/fsn           → first non-origin slot
  | fin (r s id : Nat)       -- block/finalised_head+round+setID → hash
  | hrs (r s : Nat)          -- block/hrs           → highest round and set id
  | node (st : Nat)          -- storage/<root hash> (and the other dirty nodes of that trie)
  | curSet (s : Nat)         -- grandpa/setID
  | auth (s tag : Nat)       -- grandpa/auth+setID
  | change (s n : Nat)       -- grandpa/change+setID → block number
  | lfr (r : Nat)            -- grandpa/latest_finalised_round
  | epoch                    -- epoch/current
  | skipto                   -- skipto
  | ned (e h : Nat)          -- epoch/nextepochdata<epoch>:<hash>   (announced NextEpochData)
  | ncd (e h : Nat)          -- epoch/nextconfigdata<epoch>:<hash>  (announced NextConfigData)
  | delNed (e h : Nat)       -- deletion of a nextepochdata key (only in the batches of the finalisation)
  | delNcd (e h : Nat)       -- deletion of a nextconfigdata key
  | einfo (e : Nat)          -- epoch/epochinfo+epoch   (finalised epoch data)
  | cinfo (e : Nat)          -- epoch/configinfo+epoch  (finalised config data)
  | jcp (h : Nat)            -- block/jcp+hash          (justification)
  | pv (r s : Nat)           -- grandpa/pv+round+setID  (prevotes)
  | pc (r s : Nat)           -- grandpa/pc+round+setID  (precommits)
deriving DecidableEq, Repr

inductive Entry where
  | put (w : W)
  | batch (ws : List W)
deriving DecidableEq, Repr

structure DB where
  hdr : Nat → Option Hdr := fun _ => none
  blb : Nat → Bool := fun _ => false
  arr : Nat → Bool := fun _ => false
  hsh : Nat → Option Nat := fun _ => none
  fsn : Bool := false
  fin : Nat → Nat → Option Nat := fun _ _ => none
  hrs : Option (Nat × Nat) := none
  node : Nat → Bool := fun _ => false
  curSet : Option Nat := none
  auth : Nat → Option Nat := fun _ => none
  change : Nat → Option Nat := fun _ => none
  lfr : Option Nat := none
  epoch : Bool := false
  skipto : Bool := false
  ned : Nat → Nat → Bool := fun _ _ => false
  ncd : Nat → Nat → Bool := fun _ _ => false
  einfo : Nat → Bool := fun _ => false
  cinfo : Nat → Bool := fun _ => false
  jcp : Nat → Bool := fun _ => false
  pv : Nat → Nat → Bool := fun _ _ => false
  pc : Nat → Nat → Bool := fun _ _ => false

def DB.write (db : DB) : W → DB
  | .hdr h => { db with hdr := fun i => if i = h.id then some h else db.hdr i }
  | .blb id => { db with blb := fun i => if i = id then true else db.blb i }
  | .arr id => { db with arr := fun i => if i = id then true else db.arr i }
  | .hsh n id => { db with hsh := fun i => if i = n then some id else db.hsh i }
  | .fsn => { db with fsn := true }
  | .fin r s id => { db with fin := fun r' s' => if r' = r ∧ s' = s then some id else db.fin r' s' }
  | .hrs r s => { db with hrs := some (r, s) }
  | .node st => { db with node := fun i => if i = st then true else db.node i }
  | .curSet s => { db with curSet := some s }
  | .auth s t => { db with auth := fun i => if i = s then some t else db.auth i }
  | .change s n => { db with change := fun i => if i = s then some n else db.change i }
  | .lfr r => { db with lfr := some r }
  | .epoch => { db with epoch := true }
  | .skipto => { db with skipto := true }
  | .ned e h => { db with ned := fun e' h' => if e' = e ∧ h' = h then true else db.ned e' h' }
  | .ncd e h => { db with ncd := fun e' h' => if e' = e ∧ h' = h then true else db.ncd e' h' }
  | .delNed e h => { db with ned := fun e' h' => if e' = e ∧ h' = h then false else db.ned e' h' }
  | .delNcd e h => { db with ncd := fun e' h' => if e' = e ∧ h' = h then false else db.ncd e' h' }
  | .einfo e => { db with einfo := fun i => if i = e then true else db.einfo i }
  | .cinfo e => { db with cinfo := fun i => if i = e then true else db.cinfo i }
  | .jcp h => { db with jcp := fun i => if i = h then true else db.jcp i }
  | .pv r s => { db with pv := fun r' s' => if r' = r ∧ s' = s then true else db.pv r' s' }
  | .pc r s => { db with pc := fun r' s' => if r' = r ∧ s' = s then true else db.pc r' s' }

def DB.apply (db : DB) : Entry → DB
  | .put w => db.write w
  | .batch ws => ws.foldl DB.write db

def replay (db : DB) (l : List Entry) : DB := l.foldl DB.apply db

/-! ### restart -/

inductive Outcome where
  | eBlock | eTrie | eEpoch
  | ok (head : Hdr) (round set : Nat) (body f00 : Bool) (cur auth chg lr : Option Nat)
deriving DecidableEq, Repr

/-- Service.Start on the database, then the reads of lib/grandpa's start and the head's body -/
def restart (db : DB) : Outcome :=
  match db.hsh 0, db.hrs with
  | some _, some (r, s) =>
    match db.fin r s with
    | none => .eBlock
    | some h =>
      match db.hdr h with
      | none => .eBlock
      | some hd =>
        if db.node hd.root = false then .eTrie
        else if db.skipto = false then .eEpoch
        else
          let f00 := match db.fin 0 0 with
            | some h0 => (db.hdr h0).isSome
            | none => false
          .ok hd r s (db.blb h) f00 db.curSet (db.curSet.bind db.auth) (db.curSet.bind db.change) db.lfr
  | _, _ => .eBlock

/-! ### the node -/

/-- a pending authority change (dot/state/grandpa_changes.go `pendingChange`) -/
structure Change where
  ann : Hdr
  delay : Nat
  tag : Nat
  bestFin : Nat
deriving DecidableEq, Repr, Inhabited

def Change.eff (c : Change) : Nat := c.ann.number + c.delay

/-- `pendingChangeNode` -/
inductive PNode where
  | mk (c : Change) (kids : List PNode)
deriving Repr, Inhabited

def PNode.change : PNode → Change
  | .mk c _ => c
def PNode.kids : PNode → List PNode
  | .mk _ ks => ks

structure Cfg where
  /-- the write order of the code before the repair: IncrementSetID first -/
  incrementFirst : Bool := false

structure Node where
  db : DB
  log : List Entry := []
  /-- block tree as a flat list of nodes, the root included -/
  tree : List Hdr
  /-- bs.lastFinalised = bt.root.hash -/
  last : Nat
  /-- unfinalisedBlocks -/
  unfin : List Hdr := []
  forced : List Change := []
  sched : List PNode := []
  /-- every block the scenario has named so far (the harness's header table) -/
  defs : List Hdr
  /-- EpochState.nextEpochData / nextConfigData: (epoch, announcing block) -/
  memNed : List (Nat × Nat) := []
  memNcd : List (Nat × Nat) := []
  /-- the finalisation handler had two or more epochs to delete: their order is Go's map order -/
  nondet : Bool := false

def genesisId : Nat := 0
def genesisHdr : Hdr := ⟨0, 1000, 0, 0⟩

def Node.emit (n : Node) (e : Entry) : Node := { n with db := n.db.apply e, log := n.log ++ [e] }
def Node.put (n : Node) (w : W) : Node := n.emit (.put w)

/-! #### lib/blocktree on the flat list -/

def getNode (tree : List Hdr) (h : Nat) : Option Hdr := tree.find? (fun b => b.id = h)

/-- `child.isDescendantOf(parent)` for two nodes of the tree: follow parent links from the child -/
def walkUp (tree : List Hdr) (anc : Nat) : Nat → Nat → Bool
  | 0, _ => false
  | f + 1, cur =>
    if cur = anc then true
    else match getNode tree cur with
      | none => false
      | some b => walkUp tree anc f b.parent

/-- `bt.IsDescendantOf(parent, child)`; `none` = error (a node is not in the tree) -/
def btIsDesc (tree : List Hdr) (anc d : Nat) : Option Bool :=
  if anc = d then some true
  else match getNode tree anc, getNode tree d with
    | some _, some _ => some (walkUp tree anc (tree.length + 1) d)
    | _, _ => none

/-- `accumulateHashesInDescedingOrder`: `count` parent steps up from the end node, which must then be the
    start node -/
def accumulate (tree : List Hdr) (start : Nat) : Nat → Hdr → List Nat → Option (List Nat)
  | 0, cur, acc => if cur.id = start then some (start :: acc) else none
  | c + 1, cur, acc =>
    match getNode tree cur.parent with
    | none => none
    | some p => accumulate tree start c p (cur.id :: acc)

/-- `bt.RangeInMemory(start, end)` -/
def rangeInMemory (tree : List Hdr) (start end_ : Nat) : Option (List Nat) :=
  match getNode tree end_, getNode tree start with
  | some e, some s =>
    if s.number > e.number then none else accumulate tree start (e.number - s.number) e []
  | _, _ => none

/-! #### BlockState -/

/-- `bs.GetHeader`: the unfinalised map, then the database -/
def Node.getHeader (n : Node) (h : Nat) : Option Hdr :=
  match n.unfin.find? (fun b => b.id = h) with
  | some b => some b
  | none => n.db.hdr h

def fallbackLoop (n : Node) (anc : Nat) (ancNumber : Nat) : Nat → Hdr → Option Bool
  | 0, _ => some false
  | f + 1, cur =>
    if cur.number > ancNumber then
      if cur.parent = anc then some true
      else match n.getHeader cur.parent with
        | none => none
        | some p => fallbackLoop n anc ancNumber f p
    else some false

/-- `bs.IsDescendantOf(ancestor, descendant)`; `none` = error -/
def Node.isDesc (n : Node) (anc d : Nat) : Option Bool :=
  match btIsDesc n.tree anc d with
  | some b => some b
  | none =>
    match n.getHeader d, n.getHeader anc with
    | some dh, some ah => fallbackLoop n anc ah.number (dh.number + 1) dh
    | _, _ => none

/-- `GrandpaState.isDescendantOf`: `bs.IsDescendantOf`, but a block the block state does not know any more
    (ErrNotFound — a fork dropped by a finalisation) is "not a descendant" instead of an error -/
def Node.gIsDesc (n : Node) (anc d : Nat) : Option Bool :=
  match n.isDesc anc d with
  | some b => some b
  | none => some false

/-- `bt.AddBlock` -/
inductive AddRes where
  | ok | parentNotFound | exists_ | badNumber
deriving DecidableEq, Repr

def addBlock (tree : List Hdr) (b : Hdr) : AddRes × List Hdr :=
  match getNode tree b.parent with
  | none => (.parentNotFound, tree)
  | some p =>
    match getNode tree b.id with
    | some _ => (.exists_, tree)
    | none => if p.number + 1 ≠ b.number then (.badNumber, tree) else (.ok, tree ++ [b])

/-- the loop of `handleFinalisedBlock` over `subchain[1:]`; `none` batch = the loop returned an error
    (the writes made so far stay) -/
def finLoop (n : Node) (acc : List W) : List Nat → Node × Option (List W)
  | [] => (n, some acc)
  | c :: rest =>
    if c = genesisId then finLoop n acc rest
    else match n.unfin.find? (fun b => b.id = c) with
      | none => (n, none)
      | some b =>
        let n := n.put (.hdr b)
        let n := if b.number = 1 then n.put .fsn else n
        let n := n.put (.blb c)
        let n := n.put (.arr c)
        let n := { n with unfin := n.unfin.filter (fun x => x.id ≠ c) }
        finLoop n (acc ++ [.hsh b.number c]) rest

/-- `handleFinalisedBlock`; the Bool is "no error" -/
def handleFinalised (n : Node) (h : Nat) : Node × Bool :=
  if h = n.last then (n, true)
  else match rangeInMemory n.tree n.last h with
    | none => (n, false)
    | some chain =>
      match finLoop n [] chain.tail with
      | (n, none) => (n, false)
      | (n, some batch) => (n.emit (.batch batch), true)

/-- `bt.Prune(finalised)` and the deletion of the pruned blocks from the unfinalised map -/
def prune (n : Node) (h : Nat) : Node :=
  if h = n.last then n
  else match getNode n.tree h with
    | none => n
    | some _ =>
      let fuel := n.tree.length + 1
      let keep := n.tree.filter (fun b => walkUp n.tree h fuel b.id)
      let pruned := n.tree.filter (fun b => !walkUp n.tree h fuel b.id && !walkUp n.tree b.id fuel h)
      { n with tree := keep, unfin := n.unfin.filter (fun x => !pruned.any (fun p => p.id = x.id)) }

/-- the early check of SetFinalisedHash: GetHighestRoundAndSetID fails or `setID < highestSetID` -/
def staleSet (db : DB) (s : Nat) : Bool :=
  match db.hrs with
  | none => true
  | some (_, hs) => decide (s < hs)

/-- `bs.SetFinalisedHash(hash, round, setID)`; the Bool is "no error" -/
def setFinalisedHash (n : Node) (h r s : Nat) : Node × Bool :=
  if !(n.unfin.any (fun b => b.id = h) || (n.db.hdr h).isSome) then (n, false)
  else if staleSet n.db s then (n, false)   -- stale set id: rejected before any write
  else match handleFinalised n h with
    | (n, false) => (n, false)
    | (n, true) =>
      let n := n.put (.fin r s h)
      match n.db.hrs with
      | none => (n, false)
      | some (_, hs) =>
        if s < hs then (n, false)
        else
          let n := n.put (.hrs r s)
          let n := prune n h
          ({ n with last := h }, true)

/-! #### GrandpaState -/

/-- `startNextAuthoritySet` (after the repair: authorities, activation block, then the set id; before it:
    IncrementSetID, setAuthorities, setChangeSetIDAtBlock); `none` = error -/
def startNext (cfg : Cfg) (n : Node) (tag eff : Nat) : Node × Bool :=
  match n.db.curSet with
  | none => (n, false)
  | some cur =>
    if cfg.incrementFirst then
      let n := n.put (.curSet (cur + 1))
      let n := n.put (.auth (cur + 1) tag)
      (n.put (.change (cur + 1) eff), true)
    else
      let n := n.put (.auth (cur + 1) tag)
      let n := n.put (.change (cur + 1) eff)
      match n.db.curSet with
      | none => (n, false)
      | some cur' => (n.put (.curSet (cur' + 1)), true)

/-- first element satisfying a condition that may fail: `lookupChangeWhere`; outer `none` = error -/
def lookupWhere {α : Type} (cond : α → Option Bool) : List α → Option (Option α)
  | [] => some none
  | x :: xs =>
    match cond x with
    | none => none
    | some true => some (some x)
    | some false => lookupWhere cond xs

/-- filter with a condition that may fail: `pruneChanges`; `none` = error -/
def filterWhere {α : Type} (cond : α → Option Bool) : List α → Option (List α)
  | [] => some []
  | x :: xs =>
    match cond x with
    | none => none
    | some b =>
      match filterWhere cond xs with
      | none => none
      | some r => some (if b then x :: r else r)

/-- `sort.Search(n, f)` -/
def sortSearch (f : Nat → Bool) : Nat → Nat → Nat → Nat
  | 0, i, _ => i
  | fuel + 1, i, j =>
    if i < j then
      let h := (i + j) / 2
      if !f h then sortSearch f fuel (h + 1) j else sortSearch f fuel i h
    else i

/-- `orderedPendingChanges.importChange`; `none` = error -/
def forcedImport (n : Node) (c : Change) : Option (List Change) :=
  let check := lookupWhere (fun (x : Change) =>
    if x.ann.id = c.ann.id then none
    else match n.gIsDesc x.ann.id c.ann.id with
      | none => none
      | some true => none
      | some false => some false) n.forced
  match check with
  | none => none
  | some _ =>
    let l := n.forced
    let idx := sortSearch (fun i => match l[i]? with
      | some x => decide (x.eff ≥ c.eff) && decide (x.ann.number ≥ c.ann.number)
      | none => true) (l.length + 1) 0 l.length
    some (l.take idx ++ [c] ++ l.drop idx)

mutual
/-- `pendingChangeNode.importNode`: outer `none` = error, inner `none` = not imported -/
def importNode (n : Node) (c : Change) : PNode → Option (Option PNode)
  | .mk x kids =>
    if c.ann.id = x.ann.id then none
    else match n.gIsDesc x.ann.id c.ann.id with
      | none => none
      | some false => some none
      | some true =>
        if c.ann.number ≤ x.ann.number then some none
        else match importKids n c kids with
          | none => none
          | some (some kids') => some (some (.mk x kids'))
          | some none => some (some (.mk x (kids ++ [.mk c []])))
def importKids (n : Node) (c : Change) : List PNode → Option (Option (List PNode))
  | [] => some none
  | k :: ks =>
    match importNode n c k with
    | none => none
    | some (some k') => some (some (k' :: ks))
    | some none =>
      match importKids n c ks with
      | none => none
      | some (some ks') => some (some (k :: ks'))
      | some none => some none
end

/-- `changeTree.importChange` -/
def schedImport (n : Node) (c : Change) : Option (List PNode) :=
  match importKids n c n.sched with
  | none => none
  | some (some roots) => some roots
  | some none => some (n.sched ++ [.mk c []])

/-- `HandleGRANDPADigest` for a scheduled / forced change; Bool = no error -/
inductive ChangeSpec where
  | sc (delay tag : Nat)
  | fc (delay bestFin tag : Nat)
deriving DecidableEq, Repr

def handleDigest (n : Node) (b : Hdr) : ChangeSpec → Node × Bool
  | .sc delay tag =>
    match schedImport n ⟨b, delay, tag, 0⟩ with
    | none => (n, false)
    | some roots => ({ n with sched := roots }, true)
  | .fc delay bestFin tag =>
    match forcedImport n ⟨b, delay, tag, bestFin⟩ with
    | none => (n, false)
    | some l => ({ n with forced := l }, true)

/-- `ApplyForcedChanges(importedBlockHeader)`; Bool = no error -/
def applyForced (cfg : Cfg) (n : Node) (b : Hdr) : Node × Bool :=
  let found := lookupWhere (fun (c : Change) =>
    if b.id = c.ann.id ∧ c.eff = b.number then some true
    else match n.gIsDesc c.ann.id b.id with
      | none => none
      | some d => some (d && decide (c.eff = b.number))) n.forced
  match found with
  | none => (n, false)
  | some none => (n, true)
  | some (some fc) =>
    let dependant := lookupWhere (fun (p : PNode) =>
      if p.change.eff > fc.bestFin then some false
      else n.gIsDesc p.change.ann.id fc.ann.id) n.sched
    match dependant with
    | none => (n, false)
    | some (some _) => (n, false)
    | some none =>
      match startNext cfg n fc.tag fc.bestFin with
      | (n, false) => (n, false)
      | (n, true) => ({ n with forced := [], sched := [] }, true)

/-- the condition of `findApplicableChange` -/
def schedCond (n : Node) (hash number : Nat) (p : PNode) : Option Bool :=
  if p.change.eff > number then some false
  else
    let onChain : Option Bool :=
      if hash ≠ p.change.ann.id then n.gIsDesc p.change.ann.id hash else some true
    match onChain with
    | none => none
    | some false => some false
    | some true =>
      let rec kidsLoop : List PNode → Option Bool
        | [] => some true
        | k :: ks =>
          match n.gIsDesc k.change.ann.id hash with
          | none => none
          | some d => if k.change.ann.number ≤ number ∧ d then none else kidsLoop ks
      kidsLoop p.kids

/-- `ApplyScheduledChanges(finalizedHeader)`; Bool = no error -/
def applyScheduled (cfg : Cfg) (n : Node) (b : Hdr) : Node × Bool :=
  match filterWhere (fun (c : Change) => n.gIsDesc b.id c.ann.id) n.forced with
  | none => (n, false)
  | some forced =>
    let n := { n with forced := forced }
    if n.sched.length = 0 then (n, true)
    else match lookupWhere (schedCond n b.id b.number) n.sched with
      | none => (n, false)
      | some none =>
        match filterWhere (fun (p : PNode) =>
            match n.gIsDesc b.id p.change.ann.id with
            | none => none
            | some true => some true
            | some false => n.gIsDesc p.change.ann.id b.id) n.sched with
        | none => (n, false)
        | some roots => ({ n with sched := roots }, true)
      | some (some p) =>
        let n := { n with sched := p.kids }
        startNext cfg n p.change.tag b.number

/-! #### EpochState (dot/state/epoch.go) -/

/-- `GetEpochForBlock` when the slot of a block is 1000 + its number and the epoch length is 2 slots (the
    harness's headers): blocks 0 and 1 are in epoch 0, block n ≥ 2 in epoch (slot n − slot 1) / 2.  The
    first-slot lookup (`fsn` key, else the block-1 ancestor in the tree) cannot fail for a block that is in the
    block tree or finalised. -/
def epochOf (number : Nat) : Nat := if number ≤ 1 then 0 else (number - 1) / 2

def insertSorted (x : Nat) : List Nat → List Nat
  | [] => [x]
  | y :: ys => if x < y then x :: y :: ys else if x = y then y :: ys else y :: insertSorted x ys

/-- ascending, without duplicates -/
def sortDedup (l : List Nat) : List Nat := l.foldr insertSorted []

/-- `HandleBABEDigest` for NextEpochData / NextConfigDataV1 announced by block `b`: memory map, then one put -/
def handleNextEpoch (n : Node) (b : Hdr) : Node :=
  let e := epochOf b.number + 1
  let n := { n with memNed := if n.memNed.contains (e, b.id) then n.memNed else n.memNed ++ [(e, b.id)] }
  n.put (.ned e b.id)

def handleNextConfig (n : Node) (b : Hdr) : Node :=
  let e := epochOf b.number + 1
  let n := { n with memNcd := if n.memNcd.contains (e, b.id) then n.memNcd else n.memNcd ++ [(e, b.id)] }
  n.put (.ncd e b.id)

/-- the deletion loop of FinalizeBABENext*: one batch per epoch (ascending here; Go's map order in the code,
    see `Node.nondet`), each batch deletes the keys of that epoch -/
def deleteLoop (mk : Nat → Nat → W) (mem : List (Nat × Nat)) (n : Node) : List Nat → Node
  | [] => n
  | e :: es =>
    let hs := sortDedup ((mem.filter (fun p => p.1 = e)).map (·.2))
    deleteLoop mk mem (n.emit (.batch (hs.map (mk e)))) es

/-- `FinalizeBABENextEpochData(finalizedHeader)`; Bool = no error -/
def finalizeNed (n : Node) (b : Hdr) : Node × Bool :=
  if b.number = 0 then (n, true)
  else
    let ne := epochOf b.number + 1
    if n.db.einfo ne then (n, true)
    else
      let cands := n.memNed.filter (fun p => p.1 = ne)
      if cands.isEmpty then (n, false)                                   -- ErrEpochNotInMemory
      else if !(cands.any (fun p => (n.db.hdr p.2).isSome)) then (n, false)  -- errHashNotPersisted
      else
        let n := n.put (.einfo ne)
        let epochs := sortDedup ((n.memNed.filter (fun p => p.1 ≤ ne)).map (·.1))
        let n := deleteLoop .delNed n.memNed n epochs
        ({ n with memNed := n.memNed.filter (fun p => ¬ p.1 ≤ ne) }, true)

/-- `FinalizeBABENextConfigData(finalizedHeader)` (after the repair of its "already defined" check, which
    now reads the configinfo key); Bool = no error -/
def finalizeNcd (n : Node) (b : Hdr) : Node × Bool :=
  if b.number = 0 then (n, true)
  else
    let ne := epochOf b.number + 1
    if n.db.cinfo ne then (n, true)
    else
      let cands := n.memNcd.filter (fun p => p.1 = ne)
      if cands.isEmpty then (n, true)                                    -- not every epoch has config data
      else if !(cands.any (fun p => (n.db.hdr p.2).isSome)) then (n, false)
      else
        let n := n.put (.cinfo ne)
        let epochs := sortDedup ((n.memNcd.filter (fun p => p.1 ≤ ne)).map (·.1))
        let n := deleteLoop .delNcd n.memNcd n epochs
        ({ n with memNcd := n.memNcd.filter (fun p => ¬ p.1 ≤ ne) }, true)

/-- two or more epochs ≤ nextEpoch pending in a next-epoch map -/
def pendingMany (mem : List (Nat × Nat)) (ne : Nat) : Bool :=
  decide ((sortDedup ((mem.filter (fun p => p.1 ≤ ne)).map (·.1))).length > 1)

/-! ### scenario operations (what the harness re-enacts) -/

inductive Op where
  | imp (id parent k v : Nat) (chg : Option ChangeSpec) (ne nc : Bool)
  | fin (id r s : Nat)
  | gfin (id r s : Nat)
  | just (id : Nat)
  | pv (r s : Nat)
  | pc (r s : Nat)
  | lr (r : Nat)
deriving DecidableEq, Repr

/-- the state id with storage key `k` set to `v` (states are the decimal numbers `v0 v1 v2`) -/
def setKey (st k v : Nat) : Nat :=
  let p := 10 ^ (2 - k)
  st - ((st / p) % 10) * p + v * p

/-- `define` of the harness: the header of block `id`, the state root of its parent and whether the block
    changes the state; `none` = the line is malformed (unknown parent, or the id already names a different
    block) -/
def define (n : Node) (id parent k v : Nat) : Option (Hdr × Nat × Bool) :=
  match n.defs.find? (fun b => b.id = parent) with
  | none => none
  | some p =>
    let st := setKey p.root k v
    let dirty := decide (st ≠ p.root)
    match n.defs.find? (fun b => b.id = id) with
    | some b => if b.parent = parent ∧ b.root = st ∧ id ≠ 0 then some (b, p.root, dirty) else none
    | none => some (⟨id, parent, p.number + 1, st⟩, p.root, dirty)

/-- dot/core `handleBlock` as the harness re-enacts it: TrieState(parent root), StoreTrie, AddBlock,
    HandleGRANDPADigest, ApplyForcedChanges -/
def doImport (cfg : Cfg) (n : Node) (b : Hdr) (parentRoot : Nat) (dirty : Bool) (chg : Option ChangeSpec)
    (ne nc : Bool) : Node × String :=
  if n.db.node parentRoot = false then (n, "e-state")
  else
    let n := n.emit (.batch (if dirty then [.node b.root] else []))
    match addBlock n.tree b with
    | (.parentNotFound, _) => (n, "e-parent")
    | (.badNumber, _) => (n, "e-add")
    | (res, tree) =>
      let n := if res = .ok then
          { n with tree := tree, unfin := b :: n.unfin.filter (fun x => x.id ≠ b.id) } else n
      let (n, okDigest) := match chg with
        | none => (n, true)
        | some spec => handleDigest n b spec
      if !okDigest then (n, "e-digest")
      else
        let n := if ne then handleNextEpoch n b else n
        let n := if nc then handleNextConfig n b else n
        match applyForced cfg n b with
        | (n, false) => (n, "e-forced")
        | (n, true) => (n, "ok")

/-- dot/digest `handleBlockFinalisation` for the finalised header `b`: FinalizeBABENextEpochData,
    FinalizeBABENextConfigData, ApplyScheduledChanges (an error of one is logged, the next still runs) -/
def finHandlers (cfg : Cfg) (n : Node) (b : Hdr) : Node × String :=
  let ne := epochOf b.number + 1
  let n0 : Node := if b.number ≠ 0 ∧ (pendingMany n.memNed ne ∨ pendingMany n.memNcd ne)
    then { n with nondet := true } else n
  let r1 := finalizeNed n0 b
  let r2 := finalizeNcd r1.1 b
  let r3 := applyScheduled cfg r2.1 b
  (r3.1, "ok" ++ (if r1.2 then "" else "+e-ned") ++ (if r2.2 then "" else "+e-ncd") ++
    (if r3.2 then "" else "+e-sched"))

/-- SetFinalisedHash, then — on the finalisation notification, sent for round > 0 only — the handlers;
    Bool = SetFinalisedHash succeeded -/
def doFin (cfg : Cfg) (n : Node) (id r s : Nat) : Node × Bool × String :=
  match setFinalisedHash n id r s with
  | (n, false) => (n, false, "e-fin")
  | (n, true) =>
    if r > 0 then
      match n.defs.find? (fun b => b.id = id) with
      | none => (n, true, "ok")
      | some b => ((finHandlers cfg n b).1, true, (finHandlers cfg n b).2)
    else (n, true, "ok")

/-- lib/grandpa `Service.finalise` of an own round: SetJustification, SetPrevotes, SetPrecommits, GetHeader,
    SetFinalisedHash (+ handlers), SetLatestRound -/
def doGfin (cfg : Cfg) (n : Node) (id r s : Nat) : Node × String :=
  let n := n.put (.jcp id)
  let n := n.put (.pv r s)
  let n := n.put (.pc r s)
  match n.getHeader id with
  | none => (n, "e-hdr")
  | some _ =>
    match doFin cfg n id r s with
    | (n, false, res) => (n, res)
    | (n, true, res) => (n.put (.lfr r), res)

/-- one operation; `none` = malformed line -/
def step? (cfg : Cfg) (n : Node) : Op → Option (Node × String)
  | .imp id parent k v chg ne nc =>
    match define n id parent k v with
    | none => none
    | some (b, parentRoot, dirty) =>
      let n := if n.defs.any (fun x => x.id = id) then n else { n with defs := n.defs ++ [b] }
      some (doImport cfg n b parentRoot dirty chg ne nc)
  | .fin id r s => match doFin cfg n id r s with
    | (n, _, res) => some (n, res)
  | .gfin id r s => some (doGfin cfg n id r s)
  | .just id => some (n.put (.jcp id), "ok")
  | .pv r s => some (n.put (.pv r s), "ok")
  | .pc r s => some (n.put (.pc r s), "ok")
  | .lr r => some (n.put (.lfr r), "ok")

/-- total version used by the theorems: a malformed operation changes nothing -/
def step (cfg : Cfg) (n : Node) (op : Op) : Node :=
  match step? cfg n op with
  | some (n', _) => n'
  | none => n

/-! ### genesis -/

/-- the writes of the genesis initialisation (Service.Initialise without the runtime), in order -/
def genesisLog : List Entry :=
  [.batch [.node 0], .put (.arr 0), .put (.hdr genesisHdr), .put (.hsh 0 0), .put (.blb 0), .put (.hrs 0 0),
   .put (.fin 0 0 0), .put (.hrs 0 0), .put .epoch, .put .skipto, .put (.curSet 0), .put (.lfr 0),
   .put (.auth 0 0), .put (.change 0 0)]

def base : DB := replay {} genesisLog

def init : Node :=
  { db := base, tree := [genesisHdr], last := 0, defs := [genesisHdr] }

def run (cfg : Cfg) (ops : List Op) : Node := ops.foldl (step cfg) init

/-- what the driver runs: the operations one after the other with their results; `none` = malformed line -/
def runOps (cfg : Cfg) : Node → List String → List Op → Option (Node × List String)
  | n, acc, [] => some (n, acc.reverse)
  | n, acc, op :: ops =>
    match step? cfg n op with
    | none => none
    | some (n', r) => runOps cfg n' (r :: acc) ops

/-- the databases of all crash points of a log: `db`, `db` + 1 entry, …, `db` + the whole log -/
def prefixes (db : DB) : List Entry → List DB
  | [] => [db]
  | e :: es => db :: prefixes (db.apply e) es

end Gossamer.C36
