/-
Model of lib/utils/lru-cache/lru_cache.go  (`LRUCache[K,V]` with K = V = int in the harness).

The Go object is a `map[K]*list.Element` plus a `container/list` of `*Entry{key,value}`.
Pointer identity of a list element is modelled by an allocation number `id`; the map is an
association list key ↦ element id; the list is a Lean list, front first.
The spec (`SCache`) is the capacity-bounded recency list the property talks about.
Core Lean only.
-/
namespace Gossamer.C35

/-- `DefaultLRUCapacity` -/
def defaultCapacity : Nat := 20

/-- a `*list.Element` whose `Value` is `*Entry{key, value}`; `id` = pointer identity -/
structure Elem where
  id : Nat
  key : Nat
  val : Nat
deriving DecidableEq, Repr

/-- `LRUCache` (the embedded RWMutex is treated in `lockTable` / Lib.Monitor) -/
structure Cache where
  capacity : Nat               -- `uint`
  cache : List (Nat × Nat)     -- `map[K]*list.Element`: key ↦ element id
  lruList : List Elem          -- `*list.List`, front first
  nextId : Nat                 -- allocator of element identities
deriving Repr

/-- `NewLRUCache(capacity)` : capacity `< 1` becomes the default -/
def new (capacity : Nat) : Cache :=
  { capacity := if capacity < 1 then defaultCapacity else capacity,
    cache := [], lruList := [], nextId := 0 }

/-- Go `int(c.capacity)` on a 64-bit platform (two's complement reinterpretation) -/
def capInt (capacity : Nat) : Int :=
  if capacity < 2 ^ 63 then (capacity : Int) else (capacity : Int) - (2 : Int) ^ 64

/-- `l.MoveToFront(e)`: no-op when `e` is not an element of `l` (or already in front) -/
def moveToFront (l : List Elem) (id : Nat) : List Elem :=
  match l.find? (·.id == id) with
  | some e => e :: l.eraseP (·.id == id)
  | none => l

/-- `l.Remove(e)` -/
def listRemove (l : List Elem) (id : Nat) : List Elem := l.eraseP (·.id == id)

/-- `elem.Value.(*Entry).value = v` -/
def setVal (l : List Elem) (id v : Nat) : List Elem :=
  l.map (fun e => if e.id = id then { e with val := v } else e)

/-- `delete(m, key)` -/
def mapDelete (m : List (Nat × Nat)) (key : Nat) : List (Nat × Nat) := m.filter (·.1 != key)

/-- `m[key] = id` -/
def mapSet (m : List (Nat × Nat)) (key id : Nat) : List (Nat × Nat) := (key, id) :: mapDelete m key

/-- `c.Get(key)`; the zero value of V is `0` -/
def get (c : Cache) (key : Nat) : Nat × Cache :=
  match c.cache.lookup key with
  | some id =>
    let l := moveToFront c.lruList id
    -- `elem.Value.(*Entry).value` is read through the element pointer
    match c.lruList.find? (·.id == id) with
    | some e => (e.val, { c with lruList := l })
    | none => (0, { c with lruList := l })
  | none => (0, c)

/-- `c.Put(key, value)` -/
def put (c : Cache) (key value : Nat) : Cache :=
  match c.cache.lookup key with
  | some id => { c with lruList := moveToFront (setVal c.lruList id value) id }
  | none =>
    let c1 :=
      if (c.cache.length : Int) ≥ capInt c.capacity then
        match c.lruList.getLast? with
        | some last => { c with cache := mapDelete c.cache last.key,
                                lruList := listRemove c.lruList last.id }
        | none => c
      else c
    let e : Elem := { id := c1.nextId, key := key, val := value }
    { c1 with lruList := e :: c1.lruList, cache := mapSet c1.cache key e.id,
              nextId := c1.nextId + 1 }

inductive Op where
  | get (k : Nat)
  | put (k v : Nat)
deriving DecidableEq, Repr

/-- one operation: the observable result (`Get` value; `Put` returns nothing, shown as 0) -/
def step (c : Cache) : Op → Nat × Cache
  | .get k => get c k
  | .put k v => (0, put c k v)

/-- run a sequence, collecting results -/
def run (c : Cache) : List Op → List Nat × Cache
  | [] => ([], c)
  | op :: ops =>
    let (r, c1) := step c op
    let (rs, c2) := run c1 ops
    (r :: rs, c2)

/-! ### Spec: capacity-bounded recency list (most recently used first) -/

structure SCache where
  cap : Nat
  items : List (Nat × Nat)
deriving DecidableEq, Repr

def SCache.keys (s : SCache) : List Nat := s.items.map (·.1)

def snew (capacity : Nat) : SCache := { cap := if capacity < 1 then defaultCapacity else capacity, items := [] }

/-- a hit returns the value and makes the key the most recent; a miss returns the zero value -/
def sget (s : SCache) (k : Nat) : Nat × SCache :=
  match s.items.lookup k with
  | some v => (v, { s with items := (k, v) :: s.items.filter (·.1 != k) })
  | none => (0, s)

/-- update in place (and refresh) or insert, evicting the least recently used when full -/
def sput (s : SCache) (k v : Nat) : SCache :=
  if k ∈ s.keys then { s with items := (k, v) :: s.items.filter (·.1 != k) }
  else
    let l := if s.items.length ≥ s.cap then s.items.dropLast else s.items
    { s with items := (k, v) :: l }

def sstep (s : SCache) : Op → Nat × SCache
  | .get k => sget s k
  | .put k v => (0, sput s k v)

def srun (s : SCache) : List Op → List Nat × SCache
  | [] => ([], s)
  | op :: ops =>
    let (r, s1) := sstep s op
    let (rs, s2) := srun s1 ops
    (r :: rs, s2)

/-- abstraction function: the recency list of (key, value) pairs -/
def abs (c : Cache) : SCache := { cap := c.capacity, items := c.lruList.map (fun e => (e.key, e.val)) }

/-! ### Lock table of the Go methods (regenerated from the source by the harness and compared) -/

/-- (method, lock mode taken, access to the guarded fields `cache`/`lruList`) as the harness
    extracts it from lru_cache.go with go/ast: mode ∈ none|RLock|Lock, access ∈ pure|reads|writes -/
def lockTable : List (String × String × String) :=
  [("Get", "Lock", "writes"), ("Put", "Lock", "writes")]

end Gossamer.C35
