/-
Model of lib/utils/lru-cache/lru_cache.go  (`LRUCache[K,V]` with K = V = int in the harness).

The Go object is a `map[K]*list.Element` plus a `container/list` of `*Entry{key,value}`.
Pointer identity of a list element is modelled by an allocation number `id`; the map is an
association list key ↦ element id; the list is a Lean list, front first.
The spec (`SCache`) is the capacity-bounded recency list the property talks about.
Core Lean only.
-/
import Gossamer.Base.Bytes
namespace Gossamer.C35

/-- `DefaultLRUCapacity` -/
def defaultCapacity : Nat := 20

/-- a `*list.Element` whose `Value` is `*Entry{key, value}`; `id` = pointer identity -/
structure Elem where
  id : Nat
  key : Nat
  val : Nat
deriving DecidableEq, Repr

/-- `LRUCache` (the embedded RWMutex is treated in `lockTable` / Lib.Monitor) -/
structure Cache where
  capacity : Nat               -- `uint`
  cache : List (Nat × Nat)     -- `map[K]*list.Element`: key ↦ element id
  lruList : List Elem          -- `*list.List`, front first
  nextId : Nat                 -- allocator of element identities
deriving Repr

/-- `NewLRUCache(capacity)` : capacity `< 1` becomes the default -/
def new (capacity : Nat) : Cache :=
  { capacity := if capacity < 1 then defaultCapacity else capacity,
    cache := [], lruList := [], nextId := 0 }

/-- Go `int(c.capacity)` on a 64-bit platform (two's complement reinterpretation) -/
def capInt (capacity : Nat) : Int :=
  if capacity < 2 ^ 63 then (capacity : Int) else (capacity : Int) - (2 : Int) ^ 64

/-- `l.MoveToFront(e)`: no-op when `e` is not an element of `l` (or already in front) -/
def moveToFront (l : List Elem) (id : Nat) : List Elem :=
  match l.find? (·.id == id) with
  | some e => e :: l.eraseP (·.id == id)
  | none => l

/-- `l.Remove(e)` -/
def listRemove (l : List Elem) (id : Nat) : List Elem := l.eraseP (·.id == id)

/-- `elem.Value.(*Entry).value = v` -/
def setVal (l : List Elem) (id v : Nat) : List Elem :=
  l.map (fun e => if e.id = id then { e with val := v } else e)

/-- `delete(m, key)` -/
def mapDelete (m : List (Nat × Nat)) (key : Nat) : List (Nat × Nat) := m.filter (·.1 != key)

/-- `m[key] = id` -/
def mapSet (m : List (Nat × Nat)) (key id : Nat) : List (Nat × Nat) := (key, id) :: mapDelete m key

/-- `c.Get(key)`; the zero value of V is `0` -/
def get (c : Cache) (key : Nat) : Nat × Cache :=
  match c.cache.lookup key with
  | some id =>
    let l := moveToFront c.lruList id
    -- `elem.Value.(*Entry).value` is read through the element pointer
    match c.lruList.find? (·.id == id) with
    | some e => (e.val, { c with lruList := l })
    | none => (0, { c with lruList := l })
  | none => (0, c)

/-- `c.Put(key, value)` -/
def put (c : Cache) (key value : Nat) : Cache :=
  match c.cache.lookup key with
  | some id => { c with lruList := moveToFront (setVal c.lruList id value) id }
  | none =>
    let c1 :=
      if (c.cache.length : Int) ≥ capInt c.capacity then
        match c.lruList.getLast? with
        | some last => { c with cache := mapDelete c.cache last.key,
                                lruList := listRemove c.lruList last.id }
        | none => c
      else c
    let e : Elem := { id := c1.nextId, key := key, val := value }
    { c1 with lruList := e :: c1.lruList, cache := mapSet c1.cache key e.id,
              nextId := c1.nextId + 1 }

inductive Op where
  | get (k : Nat)
  | put (k v : Nat)
deriving DecidableEq, Repr

/-- one operation: the observable result (`Get` value; `Put` returns nothing, shown as 0) -/
def step (c : Cache) : Op → Nat × Cache
  | .get k => get c k
  | .put k v => (0, put c k v)

/-- run a sequence, collecting results -/
def run (c : Cache) : List Op → List Nat × Cache
  | [] => ([], c)
  | op :: ops =>
    let (r, c1) := step c op
    let (rs, c2) := run c1 ops
    (r :: rs, c2)

/-! ### Spec: capacity-bounded recency list (most recently used first) -/

structure SCache where
  cap : Nat
  items : List (Nat × Nat)
deriving DecidableEq, Repr

def SCache.keys (s : SCache) : List Nat := s.items.map (·.1)

def snew (capacity : Nat) : SCache := { cap := if capacity < 1 then defaultCapacity else capacity, items := [] }

/-- a hit returns the value and makes the key the most recent; a miss returns the zero value -/
def sget (s : SCache) (k : Nat) : Nat × SCache :=
  match s.items.lookup k with
  | some v => (v, { s with items := (k, v) :: s.items.filter (·.1 != k) })
  | none => (0, s)

/-- update in place (and refresh) or insert, evicting the least recently used when full -/
def sput (s : SCache) (k v : Nat) : SCache :=
  if k ∈ s.keys then { s with items := (k, v) :: s.items.filter (·.1 != k) }
  else
    let l := if s.items.length ≥ s.cap then s.items.dropLast else s.items
    { s with items := (k, v) :: l }

def sstep (s : SCache) : Op → Nat × SCache
  | .get k => sget s k
  | .put k v => (0, sput s k v)

def srun (s : SCache) : List Op → List Nat × SCache
  | [] => ([], s)
  | op :: ops =>
    let (r, s1) := sstep s op
    let (rs, s2) := srun s1 ops
    (r :: rs, s2)

/-- abstraction function: the recency list of (key, value) pairs -/
def abs (c : Cache) : SCache := { cap := c.capacity, items := c.lruList.map (fun e => (e.key, e.val)) }

/-! ### pkg/trie/cache/inmemory/trie_cache.go: the wrapper keyed by byte slices

`TrieInMemoryCache` converts every `[]byte` key with `string(key)` — a COPY, strings are
immutable — and hands it to an `LRUCache[string, []byte]` (nodes) and to a ccache byte-budget
cache (values).  So the caches are keyed by the key's bytes at call time; what the caller does to
its buffer afterwards cannot matter.  Byte strings are embedded into the `Nat` keys/values of the
LRU model by `encBytes` (injective, never 0, so 0 stays the zero value `nil`).
The value cache is modelled as a plain map: the harness stays far below its 2 MB budget, where
ccache evicts nothing (its eviction is asynchronous and not modelled). -/

/-- `defaultNodeCacheMaxElements` -/
def defaultNodeCacheMaxElements : Nat := 10000

/-- injective embedding of byte strings into positive naturals -/
def encBytes (b : Bytes) : Nat := natOfBE (1 :: b)

/-- inverse of `encBytes` on its range (0 and other non-codes give `none` = Go `nil`) -/
def decBytes (n : Nat) : Option Bytes :=
  match (leMin n).reverse with
  | 1 :: b => some b
  | _ => none

structure TrieCache where
  node : Cache
  value : List (Nat × Nat)

/-- a TrieInMemoryCache whose node cache has the given capacity (`NewTrieInMemoryCache` uses
    `defaultNodeCacheMaxElements`) -/
def tnew (capacity : Nat) : TrieCache := { node := new capacity, value := [] }

inductive TOp where
  | setn (k v : Bytes) | getn (k : Bytes) | setv (k v : Bytes) | getv (k : Bytes)
deriving DecidableEq, Repr

/-- one wrapper call; the result is the returned slice encoded by `encBytes`, 0 for `nil` -/
def tstep (t : TrieCache) : TOp → Nat × TrieCache
  | .setn k v => (0, { t with node := put t.node (encBytes k) (encBytes v) })
  | .getn k => let r := get t.node (encBytes k); (r.1, { t with node := r.2 })
  | .setv k v => (0, { t with value := mapSet t.value (encBytes k) (encBytes v) })
  | .getv k => ((t.value.lookup (encBytes k)).getD 0, t)

def trun (t : TrieCache) : List TOp → List Nat × TrieCache
  | [] => ([], t)
  | op :: ops =>
    let r := tstep t op
    let rs := trun r.2 ops
    (r.1 :: rs.1, rs.2)

/-- spec of the wrapper: a capacity-bounded recency list and a map, both keyed by the BYTES the
    caller passed -/
structure TSpec where
  node : SCache
  value : List (Nat × Nat)

def tsnew (capacity : Nat) : TSpec := { node := snew capacity, value := [] }

def tsstep (t : TSpec) : TOp → Nat × TSpec
  | .setn k v => (0, { t with node := sput t.node (encBytes k) (encBytes v) })
  | .getn k => let r := sget t.node (encBytes k); (r.1, { t with node := r.2 })
  | .setv k v => (0, { t with value := mapSet t.value (encBytes k) (encBytes v) })
  | .getv k => ((t.value.lookup (encBytes k)).getD 0, t)

def tsrun (t : TSpec) : List TOp → List Nat × TSpec
  | [] => ([], t)
  | op :: ops =>
    let r := tsstep t op
    let rs := tsrun r.2 ops
    (r.1 :: rs.1, rs.2)

/-! ### dot/network/ratelimiters/sliding_window.go (requests inside the window)

`AddRequest` / `IsLimitExceeded` are read-modify-write sequences `limits.Get … limits.Put` on one
cache entry, done under the limiter's own mutex.  With every request inside the window (the
harness uses an hour) pruning removes nothing, so an entry is its number of recorded requests.
Fewer than `DefaultMaxCachedRequestSize` (500) ids are used, so the LRU evicts nothing. -/

inductive LOp where
  | add (id : Nat)        -- AddRequest
  | exc (id : Nat)        -- IsLimitExceeded
deriving DecidableEq, Repr

/-- limiter state: id ↦ number of recorded requests -/
abbrev Limiter := List (Nat × Nat)

def lcount (l : Limiter) (id : Nat) : Nat := (l.lookup id).getD 0

/-- one call; result 1 = `true` (only IsLimitExceeded returns something) -/
def lstep (max : Nat) (l : Limiter) : LOp → Nat × Limiter
  | .add id => (0, mapSet l id (lcount l id + 1))
  | .exc id => (if lcount l id > max then 1 else 0, mapSet l id (lcount l id))

def lrun (max : Nat) (l : Limiter) : List LOp → List Nat × Limiter
  | [] => ([], l)
  | op :: ops =>
    let r := lstep max l op
    let rs := lrun max r.2 ops
    (r.1 :: rs.1, rs.2)

/-! ### Lock table of the Go methods (regenerated from the source by the harness and compared) -/

/-- (method, lock mode taken, access to the guarded fields `cache`/`lruList`) as the harness
    extracts it from lru_cache.go with go/ast: mode ∈ none|RLock|Lock, access ∈ pure|reads|writes -/
def lockTable : List (String × String × String) :=
  [("Get", "Lock", "writes"), ("Put", "Lock", "writes")]

end Gossamer.C35
