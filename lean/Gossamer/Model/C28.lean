/-
Model of lib/runtime/allocator/freeing_bump.go (the Wasm freeing-bump heap allocator).

Every definition mirrors one Go function.  `uint32` arithmetic that can wrap is written with an
explicit `% U32`; `uint64` arithmetic is `Nat` (the quantities stay far below 2^64).
Large literals are written as the LEFT operand of `+`/`*` (`PAGE * pages`, `OCC + o`): `Nat.add`
and `Nat.mul` recurse on the right operand, and the Lean kernel would otherwise peel a literal
like 65536 one successor at a time whenever it evaluates such a term.
The linear memory (`runtime.Memory`) is a page count, a growth limit of the environment and a
byte map; a `uint64` access is little endian, exactly as wazero and the test memory do it.
The byte contents live in a `Store` (any type with `get`/`set`): the compiled driver plugs in a hash
map, the theorems hold for every store in which a `get` after a `set` returns the value set
(`Store.Lawful`, Props).  Core Lean only.
-/
namespace Gossamer.C28

abbrev U32 : Nat := 4294967296
/-- `NilMarker = math.MaxUint32`: raw link meaning "no next element" -/
abbrev NIL : Nat := 4294967295
abbrev PAGE : Nat := 65536
/-- `MaxWasmPages = 4 GiB / PageSize` -/
abbrev MAX_PAGES : Nat := 65536
/-- `NumOrders` -/
abbrev NUM_ORDERS : Nat := 23
/-- `MaxPossibleAllocations` (1 << 25) -/
abbrev MAX_ALLOC : Nat := 33554432
/-- `MinPossibleAllocations` -/
abbrev MIN_ALLOC : Nat := 8
/-- `HeaderSize` -/
abbrev HDR : Nat := 8
/-- occupied bit of a raw header: `0x00000001_00000000` -/
abbrev OCC : Nat := 4294967296

/-! ## linear memory -/

/-- a byte map: address ↦ value < 256 -/
structure Store where
  σ : Type
  empty : σ
  get : σ → Nat → Nat
  set : σ → Nat → Nat → σ

/-- the obvious store (used for worked examples; the driver uses a hash map) -/
def funStore : Store :=
  { σ := Nat → Nat, empty := fun _ => 0, get := fun b a => b a,
    set := fun b a v => fun x => if x = a then v else b x }

structure Mem (S : Store) where
  /-- current size in pages -/
  pages : Nat
  /-- `Grow` fails when the page count would exceed this (property of the environment) -/
  maxPages : Nat
  /-- contents -/
  bytes : S.σ

variable {S : Store}

/-- `mem.Size()` -/
def Mem.size (m : Mem S) : Nat := PAGE * m.pages

def byteAt (b : S.σ) (a : Nat) : Nat := S.get b a

/-- little-endian `uint64` at address `a` -/
def le64 (b : S.σ) (a : Nat) : Nat :=
  byteAt b a + 256 * byteAt b (a + 1) + 65536 * byteAt b (a + 2) + 16777216 * byteAt b (a + 3)
    + 4294967296 * byteAt b (a + 4) + 1099511627776 * byteAt b (a + 5)
    + 281474976710656 * byteAt b (a + 6) + 72057594037927936 * byteAt b (a + 7)

/-- store the little-endian `uint64` `v` at address `a` -/
def put64 (b : S.σ) (a v : Nat) : S.σ :=
  let b := S.set b a (v % 256)
  let b := S.set b (a + 1) (v / 256 % 256)
  let b := S.set b (a + 2) (v / 65536 % 256)
  let b := S.set b (a + 3) (v / 16777216 % 256)
  let b := S.set b (a + 4) (v / 4294967296 % 256)
  let b := S.set b (a + 5) (v / 1099511627776 % 256)
  let b := S.set b (a + 6) (v / 281474976710656 % 256)
  S.set b (a + 7) (v / 72057594037927936 % 256)

/-- `mem.ReadUint64Le(a)`: fails when the 8 bytes are not inside the memory -/
def Mem.read64 (m : Mem S) (a : Nat) : Option Nat :=
  if a + 8 ≤ m.size then some (le64 m.bytes a) else none

/-- `mem.WriteUint64Le(a, v)` -/
def Mem.write64 (m : Mem S) (a v : Nat) : Option (Mem S) :=
  if a + 8 ≤ m.size then some { m with bytes := put64 m.bytes a v } else none

/-- `mem.Grow(delta)` -/
def Mem.grow (m : Mem S) (d : Nat) : Option (Mem S) :=
  if m.pages + d ≤ m.maxPages then some { m with pages := m.pages + d } else none

/-! ## orders -/

/-- `nextPowerOf2GT8` on a `uint32` -/
def nextPow2GT8 (v : Nat) : Nat :=
  if v < 8 then 8 else
  let v := v - 1
  let v := v ||| (v >>> 1)
  let v := v ||| (v >>> 2)
  let v := v ||| (v >>> 4)
  let v := v ||| (v >>> 8)
  let v := v ||| (v >>> 16)
  (v + 1) % U32

def tzAux : Nat → Nat → Nat
  | 0, _ => 0
  | f + 1, x => if x % 2 = 1 then 0 else 1 + tzAux f (x / 2)

/-- `bits.TrailingZeros32` -/
def tz32 (x : Nat) : Nat := if x = 0 then 32 else tzAux 32 x

/-- `orderFromSize`; `none` is `ErrRequestedAllocationTooLarge` -/
def orderFromSize (size : Nat) : Option Nat :=
  if size > MAX_ALLOC then none else
  let size := if size < MIN_ALLOC then MIN_ALLOC else size
  let p := nextPow2GT8 size
  some (tz32 p - tz32 MIN_ALLOC)

/-- `Order.size()`: `MinPossibleAllocations << order` (no wrap for order < 23) -/
def osize (o : Nat) : Nat := MIN_ALLOC <<< o

/-! ## headers -/

inductive Err
  | poisoned | shrunk | tooLarge | badHead | cannotRead | invalidOrder | headOccupied
  | outOfSpace | cannotGrow | cannotWrite | badPtr | emptyHeader | underflow | panic
deriving DecidableEq, Repr

inductive Header
  /-- free header: the raw link (`NIL` = `Nil{}`, else `Ptr{raw}`) -/
  | free (link : Nat)
  | occupied (order : Nat)
deriving DecidableEq, Repr

/-- `readHeaderFromMemory` -/
def readHeader (m : Mem S) (hp : Nat) : Except Err Header :=
  match m.read64 hp with
  | none => .error .cannotRead
  | some raw =>
    let data := raw % U32
    if (raw / OCC) % 2 = 1 then
      (if data < NUM_ORDERS then .ok (.occupied data) else .error .invalidOrder)
    else .ok (.free data)

/-- raw encoding written by `writeHeaderInto` -/
def rawHeader : Header → Nat
  | .free link => link
  | .occupied o => OCC + o

/-! ## allocator state -/

structure St where
  /-- `originalHeapBase` -/
  base : Nat
  bumper : Nat
  /-- `freeLists.heads`, raw links -/
  heads : Nat → Nat
  poisoned : Bool
  /-- `lastObservedMemorySize` -/
  lastSize : Nat
  bytesAllocated : Nat
  peak : Nat
  sum : Nat
  addrUsed : Nat

def setHead (h : Nat → Nat) (o v : Nat) : Nat → Nat := fun i => if i = o then v else h i

/-- `NewFreeingBumpHeapAllocator(heapBase)` -/
def newAlloc (heapBase : Nat) : St :=
  let aligned := 8 * (((heapBase + HDR - 1) % U32) / 8)
  { base := aligned, bumper := aligned, heads := fun _ => NIL, poisoned := false, lastSize := 0,
    bytesAllocated := 0, peak := 0, sum := 0, addrUsed := 0 }

/-- `pagesFromSize` (`none`: does not fit `uint32`) -/
def pagesFromSize (size : Nat) : Option Nat :=
  let v := (PAGE - 1 + size) / PAGE
  if v > 4294967295 then none else some v

/-- `bump(&bumper, size, mem)`: result pointer, new bumper, memory (possibly grown) -/
def bump (bumper size : Nat) (m : Mem S) : Except Err (Nat × Nat × Mem S) :=
  let required := bumper + size
  if required > 4294967295 then .error .outOfSpace else
  if required > m.size then
    match pagesFromSize required with
    | none => .error .outOfSpace
    | some requiredPages =>
      match pagesFromSize m.size with
      | none => .error .panic
      | some currentPages =>
        if currentPages ≥ MAX_PAGES then .error .outOfSpace
        else if requiredPages > MAX_PAGES then .error .outOfSpace
        else
          let nextPages := min (2 * currentPages % U32) MAX_PAGES
          let nextPages := max nextPages requiredPages
          match m.grow ((U32 + nextPages - currentPages) % U32) with
          | none => .error .cannotGrow
          | some m' => .ok (bumper, (bumper + size) % U32, m')
  else .ok (bumper, (bumper + size) % U32, m)

/-- tail of `Allocate`: write the occupied header, update the statistics -/
def allocFinish (s : St) (m : Mem S) (o hp : Nat) : St × Mem S × Except Err Nat :=
  match m.write64 hp (rawHeader (.occupied o)) with
  | none => (s, m, .error .cannotWrite)
  | some m' =>
    let ba := (s.bytesAllocated + (osize o + HDR)) % U32
    let s' := { s with bytesAllocated := ba, sum := s.sum + (osize o + HDR), peak := max s.peak ba,
                       addrUsed := (U32 + s.bumper - s.base) % U32 }
    (s', m', .ok ((hp + HDR) % U32))

/-- body of `Allocate` after the poisoned check (state changes made before an error persist) -/
def allocCore (s : St) (m : Mem S) (size : Nat) : St × Mem S × Except Err Nat :=
  if m.size < s.lastSize then (s, m, .error .shrunk) else
  let s := { s with lastSize := m.size }
  match orderFromSize size with
  | none => (s, m, .error .tooLarge)
  | some o =>
    let link := s.heads o
    if link ≠ NIL then
      if link + osize o + HDR > m.size then (s, m, .error .badHead) else
      match readHeader m link with
      | .error e => (s, m, .error e)
      | .ok (.occupied _) => (s, m, .error .headOccupied)
      | .ok (.free next) => allocFinish { s with heads := setHead s.heads o next } m o link
    else
      match bump s.bumper ((osize o + HDR) % U32) m with
      | .error e => (s, m, .error e)
      | .ok (res, bumper', m') => allocFinish { s with bumper := bumper' } m' o res

def poisonOnErr {α : Type} (r : St × Mem S × Except Err α) : St × Mem S × Except Err α :=
  match r with
  | (s, m, .error e) => ({ s with poisoned := true }, m, .error e)
  | (s, m, .ok v) => (s, m, .ok v)

/-- `Allocate(mem, size)` -/
def allocate (s : St) (m : Mem S) (size : Nat) : St × Mem S × Except Err Nat :=
  if s.poisoned then (s, m, .error .poisoned) else poisonOnErr (allocCore s m size)

/-- body of `Deallocate` after the poisoned check -/
def deallocCore (s : St) (m : Mem S) (ptr : Nat) : St × Mem S × Except Err Unit :=
  if m.size < s.lastSize then (s, m, .error .shrunk) else
  let s := { s with lastSize := m.size }
  if ptr < HDR then (s, m, .error .badPtr) else
  let hp := ptr - HDR
  match readHeader m hp with
  | .error e => (s, m, .error e)
  | .ok (.free _) => (s, m, .error .emptyHeader)
  | .ok (.occupied o) =>
    let prev := s.heads o
    let s := { s with heads := setHead s.heads o hp }
    match m.write64 hp (rawHeader (.free prev)) with
    | none => (s, m, .error .cannotWrite)
    | some m' =>
      if s.bytesAllocated < osize o + HDR then (s, m', .error .underflow)
      else ({ s with bytesAllocated := s.bytesAllocated - (osize o + HDR) }, m', .ok ())

/-- `Deallocate(mem, ptr)` -/
def deallocate (s : St) (m : Mem S) (ptr : Nat) : St × Mem S × Except Err Unit :=
  if s.poisoned then (s, m, .error .poisoned) else poisonOnErr (deallocCore s m ptr)

/-! ## histories: the guest's view -/

/-- what the guest (and the environment) can do -/
inductive Op
  | alloc (size : Nat)
  | free (ptr : Nat)
  /-- the guest stores a `uint64` somewhere in its linear memory -/
  | poke (addr val : Nat)
  /-- the guest executes `memory.grow` -/
  | grow (delta : Nat)

inductive Out
  | ptr (p : Nat) | ok | err (e : Err) | wrote (ok : Bool) | grew (ok : Bool)
deriving DecidableEq, Repr

/-- allocator, memory and the guest's book-keeping: `live` = (pointer, order) of every
    allocation handed out and not yet given back; `freed` = pointers given back and not handed
    out again since -/
structure Run (S : Store) where
  s : St
  m : Mem S
  live : List (Nat × Nat)
  freed : List Nat

def eraseLive (p : Nat) : List (Nat × Nat) → List (Nat × Nat)
  | [] => []
  | x :: xs => if x.1 = p then xs else x :: eraseLive p xs

def Run.step (r : Run S) : Op → Run S × Out
  | .alloc n =>
    match allocate r.s r.m n with
    | (s', m', .ok p) =>
      ({ s := s', m := m', live := (p, (orderFromSize n).getD 0) :: r.live,
         freed := r.freed.filter (· ≠ p) }, .ptr p)
    | (s', m', .error e) => ({ r with s := s', m := m' }, .err e)
  | .free p =>
    match deallocate r.s r.m p with
    | (s', m', .ok ()) =>
      ({ s := s', m := m', live := eraseLive p r.live, freed := p :: r.freed }, .ok)
    | (s', m', .error e) => ({ r with s := s', m := m' }, .err e)
  | .poke a v =>
    match r.m.write64 a v with
    | some m' => ({ r with m := m' }, .wrote true)
    | none => (r, .wrote false)
  | .grow d =>
    match r.m.grow d with
    | some m' => ({ r with m := m' }, .grew true)
    | none => (r, .grew false)

/-! ## the host-function layer (lib/runtime/wazero/imports.go) -/

/-- what the guest sees of a host call: a value, nothing, or a trap (the Go function panics with
    the allocator's error, wazero turns the panic into a trap) -/
inductive HostOut
  | val (p : Nat) | unit | panic (e : Err)
deriving DecidableEq, Repr

/-- `ext_allocator_malloc_version_1`: `Allocate` on the module's memory; an error is a panic -/
def hostMalloc (r : Run S) (size : Nat) : Run S × HostOut :=
  match r.step (.alloc size) with
  | (r', .ptr p) => (r', .val p)
  | (r', .err e) => (r', .panic e)
  | (r', _) => (r', .panic .panic)

/-- `ext_allocator_free_version_1`: `Deallocate`; an error is a panic -/
def hostFree (r : Run S) (ptr : Nat) : Run S × HostOut :=
  match r.step (.free ptr) with
  | (r', .ok) => (r', .unit)
  | (r', .err e) => (r', .panic e)
  | (r', _) => (r', .panic .panic)

def Run.init (S : Store) (heapBase pages maxPages : Nat) : Run S :=
  { s := newAlloc heapBase, m := { pages := pages, maxPages := maxPages, bytes := S.empty },
    live := [], freed := [] }

def Run.exec (r : Run S) (ops : List Op) : Run S := ops.foldl (fun r op => (r.step op).1) r

end Gossamer.C28
