/-
C03: snapshot isolation of the in-memory trie.
A state is ONE heap of trie nodes plus the trie handles created so far (handle 0 = `NewEmptyTrie()`,
every `snap h` appends `h.Snapshot()`).  The run of the model shares nodes between handles exactly as
the Go code does (`TrieHeap`); the run of the specification differs in one place only: `snap` makes a
deep copy (Go `DeepCopy()`), so that the handles are a forest of independent tries.
-/
import Gossamer.Base.Proto
import Gossamer.Lib.TrieHeap
import Gossamer.Model.C02
namespace Gossamer.C03
open Gossamer Gossamer.Trie Gossamer.TrieHeap

inductive Op where
  | put (h : Nat) (k v : Bytes)
  | del (h : Nat) (k : Bytes)
  | clr (h : Nat) (p : Bytes)
  | clrl (h : Nat) (p : Bytes) (n : Nat)
  | snap (h : Nat)
  | ver (h : Nat) (v : Ver)
  | hash (h : Nat)
  | hashall
  | wd (h : Nat)
  | drop (h : Nat)
  | bad

/-- a trie handle with its (ghost) position in the tree of snapshots -/
structure HInfo where
  t : Handle
  parent : Option Nat
  live : Bool

structure St where
  hp : Heap
  hs : List HInfo

def St.init : St :=
  { hp := Heap.empty, hs := [{ t := { root := none, gen := 0, ver := Ver.v0 }, parent := none, live := true }] }

def setAt {α : Type} : List α → Nat → α → List α
  | [], _, _ => []
  | _ :: r, 0, x => x :: r
  | a :: r, n + 1, x => a :: setAt r n x

/-- the live handle number `h` -/
def St.handle? (s : St) (h : Nat) : Option HInfo :=
  match s.hs[h]? with
  | some x => if x.live then some x else none
  | none => none

def St.setHandle (s : St) (hp : Heap) (h : Nat) (x : HInfo) (t : Handle) : St :=
  { hp := hp, hs := setAt s.hs h { x with t := t } }

/-- `DeepCopy` of the structure below `a` into fresh cells (specification run only) -/
def deepCopyF : Nat → Heap → Option Nat → Heap × Option Nat
  | _, hp, none => (hp, none)
  | 0, hp, some _ => (hp, none)
  | f + 1, hp, some a =>
    let n := hp.get a
    let r := (List.finRange 16).foldl (fun (acc : Heap × (Nib → Option Nat)) i =>
      let c := deepCopyF f acc.1 (n.kids i)
      (c.1, setKid acc.2 i c.2)) (hp, noKids)
    let x := r.1.alloc { n with kids := r.2 }
    (x.1, some x.2)

/-! ### observables -/

instance : BEq (Bytes × Option Bytes) := ⟨fun a b => a.1 == b.1 && a.2 == b.2⟩

def showEntries (hp : Heap) (t : Handle) : String :=
  let es := C02.sortEntries (entries hp t.root)
  C02.showEntries es.eraseDups

/-- `Entries()` of every live handle, in handle order -/
def views (s : St) : String :=
  let rec go (i : Nat) : List HInfo → List String
    | [] => []
    | x :: r => (if x.live then ["h" ++ toString i ++ ":" ++ showEntries s.hp x.t] else []) ++ go (i + 1) r
  C02.joinWith " " (go 0 s.hs)

/-- `Hash()` of every live handle, in handle order (each call may write Merkle value caches) -/
def hashAll (H : Bytes → Bytes) (s : St) : St × String :=
  let rec go (i : Nat) (hp : Heap) : List HInfo → Heap × List String
    | [] => (hp, [])
    | x :: r =>
      if x.live then
        let h := hash H hp x.t
        let rest := go (i + 1) h.1 r
        (rest.1, ("H" ++ toString i ++ "=" ++ showHash h.2) :: rest.2)
      else go (i + 1) hp r
  let r := go 0 s.hp s.hs
  ({ s with hp := r.1 }, C02.joinWith " " r.2)

def verLt (a b : Ver) : Bool := a == Ver.v0 && b == Ver.v1

/-! ### the panic of `recordAllDeleted` (reachable only after a parent write: known-finding region) -/

/-- `recordAllDeleted(n, …)` panics: some node it visits has no Merkle value -/
def radPanics (hp : Heap) : Nat → Nat → Bool
  | 0, _ => false
  | f + 1, a =>
    let n := hp.get a
    let l := (n.mv.getD []).length
    if l == 0 then true
    else if l < 32 then false
    else if !n.isBranch then false
    else (List.finRange 16).any (fun i =>
      match n.kids i with
      | some c => radPanics hp f c
      | none => false)

/-- the node at which `clearPrefixAtNode` calls `recordAllDeleted` (its partial key has the prefix) -/
def clrTarget (hp : Heap) : Nat → Option Nat → Nibs → Option Nat
  | _, none, _ => none
  | 0, some _, _ => none
  | f + 1, some a, pre =>
    let n := hp.get a
    if pre.isPrefixOf n.pk then some a
    else if !n.isBranch then none
    else if pre.length = n.pk.length + 1 && pre.dropLast == n.pk then none
    else if pre.length ≤ n.pk.length || lcpLen n.pk pre < n.pk.length then none
    else
      match pre.drop n.pk.length with
      | i :: rest => clrTarget hp f (n.kids i) rest
      | [] => none

/-- `t.ClearPrefix(p)` panics in `recordAllDeleted` -/
def clrPanics (H : Bytes → Bytes) (hp : Heap) (t : Handle) (p : Bytes) : Bool :=
  let target :=
    if p.length = 0 then t.root
    else
      let pre := trimZero (keyLEToNibbles p)
      clrTarget hp (pre.length + 1) t.root pre
  match target with
  | none => false
  | some a => radPanics (ensureMV (t.ctx H) hp (some a)) 64 a

/-- one operation: new state, the result token of the op, and whether the Go code panicked.
    `deep` selects the specification (`snap` = deep copy). -/
def stepOp (H : Bytes → Bytes) (deep : Bool) (s : St) : Op → St × String × Bool
  | .put h k v =>
    match s.handle? h with
    | none => (s, "bad-op", false)
    | some x => let r := put H s.hp x.t k v; (s.setHandle r.1 h x r.2, "ok", false)
  | .del h k =>
    match s.handle? h with
    | none => (s, "bad-op", false)
    | some x => let r := delete H s.hp x.t k; (s.setHandle r.1 h x r.2, "ok", false)
  | .clr h p =>
    match s.handle? h with
    | none => (s, "bad-op", false)
    | some x =>
      if clrPanics H s.hp x.t p then (s, "panic", true)
      else let r := clearPrefix H s.hp x.t p; (s.setHandle r.1 h x r.2, "ok", false)
  | .clrl h p n =>
    match s.handle? h with
    | none => (s, "bad-op", false)
    | some x =>
      let r := clearPrefixLimit H s.hp x.t p n
      if r.2.2.1 ≥ panicMark then (s, "panic", true)
      else (s.setHandle r.1 h x r.2.1, toString r.2.2.1 ++ "," ++ C02.showBool r.2.2.2, false)
  | .snap h =>
    match s.handle? h with
    | none => (s, "bad-op", false)
    | some x =>
      let t' := snapshot x.t
      if deep then
        let c := deepCopyF bigFuel s.hp x.t.root
        ({ hp := c.1, hs := s.hs ++ [{ t := { t' with root := c.2 }, parent := some h, live := true }] },
          "h" ++ toString s.hs.length, false)
      else
        ({ s with hs := s.hs ++ [{ t := t', parent := some h, live := true }] },
          "h" ++ toString s.hs.length, false)
  | .ver h v =>
    match s.handle? h with
    | none => (s, "bad-op", false)
    | some x =>
      if verLt v x.t.ver then (s, "panic", true)
      else (s.setHandle s.hp h x { x.t with ver := v }, "ok", false)
  | .hash h =>
    match s.handle? h with
    | none => (s, "bad-op", false)
    | some x => let r := hash H s.hp x.t; ({ s with hp := r.1 }, showHash r.2, false)
  | .hashall => let r := hashAll H s; (r.1, r.2, false)
  | .wd h =>
    match s.handle? h with
    | none => (s, "bad-op", false)
    | some x => let r := writeDirty H s.hp [] x.t; ({ s with hp := r.1 }, "ok", false)
  | .drop h =>
    match s.handle? h with
    | none => (s, "bad-op", false)
    | some x => ({ s with hs := setAt s.hs h { x with live := false } }, "ok", false)
  | .bad => (s, "bad-op", false)

/-- observable of one op: its result token, then `Entries()` of every live handle -/
def runFrom (H : Bytes → Bytes) (deep : Bool) (s : St) : List Op → List String
  | [] => []
  | op :: r =>
    let x := stepOp H deep s op
    if x.2.2 then [x.2.1]
    else (x.2.1 ++ " " ++ views x.1) :: runFrom H deep x.1 r

def run (H : Bytes → Bytes) (deep : Bool) (ops : List Op) : List String := runFrom H deep St.init ops

/-! ### the region of the known finding `parent-write-after-snapshot` -/

/-- `a` is a proper ancestor of handle `i` in the tree of snapshots (fuel = number of handles) -/
def isAncestor (hs : List HInfo) (a : Nat) : Nat → Nat → Bool
  | 0, _ => false
  | f + 1, i =>
    match hs[i]? with
    | none => false
    | some x =>
      match x.parent with
      | none => false
      | some p => p == a || isAncestor hs a f p

/-- handle `h` has a live snapshot below it -/
def hasLiveDesc (s : St) (h : Nat) : Bool :=
  (List.range s.hs.length).any (fun i =>
    match s.hs[i]? with
    | some x => x.live && isAncestor s.hs h s.hs.length i
    | none => false)

/-- the handle an op writes through (`none` for ops that do not change the contents) -/
def Op.target : Op → Option Nat
  | .put h _ _ => some h
  | .del h _ => some h
  | .clr h _ => some h
  | .clrl h _ _ => some h
  | _ => none

/-- the guard of `C03_isolated`: the op does not write through a handle that has a live snapshot -/
def guardOp (s : St) (op : Op) : Bool :=
  match op.target with
  | some h => !hasLiveDesc s h
  | none => true

/-- some op of the sequence (run on the model) writes through a handle that has a live snapshot -/
def violatesGuard (H : Bytes → Bytes) (s : St) : List Op → Bool
  | [] => false
  | op :: r =>
    if !guardOp s op then true
    else
      let x := stepOp H false s op
      if x.2.2 then false else violatesGuard H x.1 r

/-! ### the side condition of the hash clause of `C03_isolated`, checked on every guarded run -/

/-- `target` is reachable from `a` (fuel-bounded search) -/
def reachF (hp : Heap) (target : Nat) : Nat → Nat → Bool
  | 0, _ => false
  | f + 1, a =>
    a == target || (List.finRange 16).any (fun i =>
      match (hp.get a).kids i with
      | some c => reachF hp target f c
      | none => false)

/-- the root node of some live trie lies strictly below the root node of another live trie -/
def rootBelowRoot (s : St) : Bool :=
  s.hs.any (fun x => s.hs.any (fun y =>
    x.live && y.live &&
      match x.t.root, y.t.root with
      | some rx, some ry =>
        (List.finRange 16).any (fun i =>
          match (s.hp.get ry).kids i with
          | some c => reachF s.hp rx 64 c
          | none => false)
      | _, _ => false))

/-- some state of the run (on the model) has a live root strictly below another live root -/
def rootsNested (H : Bytes → Bytes) (s : St) : List Op → Bool
  | [] => rootBelowRoot s
  | op :: r =>
    rootBelowRoot s ||
      (let x := stepOp H false s op
       if x.2.2 then false else rootsNested H x.1 r)

/-! ### parsing: `op;op;…` -/

def parseHandle (s : String) : Option Nat :=
  match s.toList with
  | 'h' :: r => C02.parseNat? (String.ofList r)
  | _ => none

def parseOp (s : String) : Op :=
  match words s with
  | ["put", h, k, v] => match parseHandle h, ofHex? k, ofHex? v with
    | some h, some k, some v => .put h k v
    | _, _, _ => .bad
  | ["del", h, k] => match parseHandle h, ofHex? k with
    | some h, some k => .del h k
    | _, _ => .bad
  | ["clr", h, p] => match parseHandle h, ofHex? p with
    | some h, some p => .clr h p
    | _, _ => .bad
  | ["clrl", h, p, n] => match parseHandle h, ofHex? p, C02.parseNat? n with
    | some h, some p, some n => .clrl h p n
    | _, _, _ => .bad
  | ["snap", h] => match parseHandle h with | some h => .snap h | none => .bad
  | ["ver", h, v] => match parseHandle h with
    | some h => if v == "0" then .ver h Ver.v0 else if v == "1" then .ver h Ver.v1 else .bad
    | none => .bad
  | ["hash", h] => match parseHandle h with | some h => .hash h | none => .bad
  | ["hashall"] => .hashall
  | ["wd", h] => match parseHandle h with | some h => .wd h | none => .bad
  | ["drop", h] => match parseHandle h with | some h => .drop h | none => .bad
  | _ => .bad

def parseLine (line : String) : List Op := (line.splitOn ";").map parseOp

end Gossamer.C03
