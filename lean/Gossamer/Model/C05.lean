/-
C05 — storage read proofs.  Executable model of

  pkg/trie/inmemory/proof/generate.go   Generate / walkRoot / walk / lenCommonPrefix
  pkg/trie/inmemory/proof/verify.go     Verify / buildTrie / loadProof
  pkg/trie/db/db.go                     NewMemoryDBFromProof / MemoryDB.Get
  pkg/trie/inmemory/in_memory.go        Get / retrieve on the proof trie (with the proof database)

as the code is after the `fix:` commits of C05 (empty-node panic, empty inlined leaf, hashed value
added by Generate, hashed branch value resolved by `retrieveFromBranch`).  Core Lean only.

* the state is a `Trie` of `TrieSpec` (what `Load` rebuilds from the database), encoded by
  `encodeNode ver H`;
* the verifier works on `TrieCodec.Node`s, the result of `TrieCodec.decode` (the model of
  `node.Decode` that C07 ties to the code, malformed input included);
* `H` (BLAKE2b-256) is a parameter.  Both hash-keyed Go maps (`MemoryDB.data`,
  `digestToEncoding`) are the list of `(H e, e)` pairs with the LAST pair winning.

Quirks kept: `len(fullKey) == 0` short cuts of walkRoot/walk and of retrieveFromBranch, the child
index taken at `lenCommonPrefix` although the partial key is not a prefix of the key (walk), the
value compared only when the claimed value is non-empty.
-/
import Gossamer.Lib.TrieCodec
import Gossamer.Lib.TrieMem
namespace Gossamer.C05
open Gossamer Gossamer.TrieCodec

/-! ### hash-keyed maps -/

/-- `(digest, encoding)` pairs of the proof nodes, in proof order -/
abbrev Pairs := List (Bytes × Bytes)

def pairsOf (H : Bytes → Bytes) (nodes : List Bytes) : Pairs := nodes.map fun e => (H e, e)

/-- lookup in a Go map filled in list order: the last pair with the key wins -/
def mapGet (m : Pairs) (d : Bytes) : Option Bytes :=
  (m.reverse.find? fun p => p.1 == d).map (·.2)

/-! ### Verify -/

/-- error classes of `Verify` (`errors.Is`), plus the model-only `fuel` (a hash cycle: the Go
    recursion would not end) -/
inductive VOut where
  | ok | notFound | mismatch | emptyProof | noRoot | decodeErr | childEmpty | panic | fuel
  deriving DecidableEq, Repr

def VOut.str : VOut → String
  | .ok => "ok" | .notFound => "notfound" | .mismatch => "mismatch" | .emptyProof => "emptyproof"
  | .noRoot => "noroot" | .decodeErr => "decode" | .childEmpty => "childempty" | .panic => "panic"
  | .fuel => "fuel"

/-- result of the first loop of `buildTrie` -/
inductive Scan where
  | noRoot
  | emptyTrie                       -- the root node is the empty node
  | found (root : Node) (m : Pairs) -- decoded root, `digestToEncoding`
  | bad (e : VOut)

/-- the first loop of `buildTrie`: the first node whose digest is the root hash is decoded as the
    root, every other node (later copies of the root included) goes to `digestToEncoding` -/
def scan (strict : Bool) (rootHash : Bytes) : Pairs → Pairs → Scan
  | [], _ => .noRoot
  | p :: rest, acc =>
    if p.1 == rootHash then
      match decode strict p.2 with
      | .ok .empty => .emptyTrie
      | .ok n => .found n (acc.reverse ++ rest)
      | .err _ => .bad .decodeErr
      | .panic => .bad .panic
      | .fuel => .bad .fuel
    else scan strict rootHash rest (p :: acc)

def allEmpty : List Node → Bool
  | [] => true
  | c :: cs => c.isEmpty && allEmpty cs

/-- the node `loadProof` leaves behind for a branch whose children became `kids'`:
    "convert branch to a leaf if all its children are nil" (only a pruning step does that, so a
    branch decoded without any child stays a branch) -/
def rebuild (pk : Bytes) (v : Option Bytes) (hashed : Bool) (kids kids' : List Node) : Node :=
  if allEmpty kids' && !(allEmpty kids) then .leaf pk v hashed else .branch pk v hashed kids'

/-- the loop over `branch.Children` of `loadProof`; `rec` = the recursive `loadProof` call on a
    child found by its hash -/
def loadKids (strict : Bool) (m : Pairs) (rec : Node → Except VOut Node) :
    List Node → Except VOut (List Node)
  | [] => .ok []
  | c :: cs =>
    let r : Except VOut Node :=
      match c with
      | .stub mv =>
        match mapGet m mv with
        | none => .ok .empty                -- hash not found, not inlined: child cleared
        | some enc =>
          match decode strict enc with
          | .ok .empty => .error .childEmpty
          | .ok n => rec n
          | .err _ => .error .decodeErr
          | .panic => .error .panic
          | .fuel => .error .fuel
      | other => .ok other                  -- nil, or inlined (no Merkle value): kept as decoded
    match r with
    | .error e => .error e
    | .ok c' =>
      match loadKids strict m rec cs with
      | .ok cs' => .ok (c' :: cs')
      | .error e => .error e

/-- `loadProof(digestToEncoding, n)`; the fuel bounds the depth of the chain of hash references -/
def loadF (strict : Bool) (m : Pairs) : Nat → Node → Except VOut Node
  | 0, _ => .error .fuel
  | f + 1, .branch pk v hashed kids =>
    match loadKids strict m (loadF strict m f) kids with
    | .ok kids' => .ok (rebuild pk v hashed kids kids')
    | .error e => .error e
  | _ + 1, n => .ok n

/-- a stored value as `Get` returns it: a hashed value is resolved through the proof database
    (`db.Get`: `nil` when absent) -/
def leafValue (db : Pairs) (v : Option Bytes) (hashed : Bool) : Option Bytes :=
  if hashed then (match v with | some h => mapGet db h | none => none) else v

mutual
/-- `retrieve` on the proof trie (nibble key) -/
def pget (db : Pairs) : Node → Bytes → Option Bytes
  | .empty, _ => none
  | .stub _, _ => none       -- a leaf without key and without value
  | .leaf pk v hashed, key => if pk = key then leafValue db v hashed else none
  | .branch pk v hashed kids, key =>
    if key.length = 0 || pk == key then leafValue db v hashed
    else if !(pk.isPrefixOf key) then none
    else
      match key.drop pk.length with
      | i :: rest => pgetKid db kids i.toNat rest
      | [] => none
def pgetKid (db : Pairs) : List Node → Nat → Bytes → Option Bytes
  | [], _, _ => none
  | c :: _, 0, key => pget db c key
  | _ :: cs, i + 1, key => pgetKid db cs i key
end

/-- `Verify` on the digest/encoding pairs of the proof -/
def verifyP (strict : Bool) (pairs : Pairs) (rootHash key value : Bytes) : VOut :=
  if pairs.isEmpty then .emptyProof
  else
    match scan strict rootHash pairs [] with
    | .noRoot => .noRoot
    | .bad e => e
    | .emptyTrie => .notFound
    | .found root m =>
      match loadF strict m (pairs.length + 1) root with
      | .error e => e
      | .ok p =>
        match pget pairs p (keyLEToNibbles key) with
        | none => .notFound
        | some pv => if value.length > 0 && !(value == pv) then .mismatch else .ok

/-- `proof.Verify(encodedProofNodes, rootHash, key, value)` -/
def verify (H : Bytes → Bytes) (strict : Bool) (nodes : List Bytes) (rootHash key value : Bytes) : VOut :=
  verifyP strict (pairsOf H nodes) rootHash key value

/-! ### Generate -/

/-- the storage value a found node contributes: added when the node holds it by hash
    (`MustBeHashed`, set by `Load` for exactly the values the encoding stores hashed) -/
def valueNode (ver : Ver) : Option Bytes → List Bytes
  | some x => if mustBeHashed ver x then [x] else []
  | none => []

/-- `walkRoot` (`isRoot`) / `walk`: `none` = `ErrKeyNotFound`.  The root encoding is always part of
    the proof, another node only when its encoding has 32 bytes or more. -/
def walk (ver : Ver) (H : Bytes → Bytes) : Bool → Trie → Nibs → Option (List Bytes)
  | _, .nil, key => if key.length = 0 then some [] else none
  | isRoot, .leaf pk v, key =>
    let enc := encodeNode ver H (.leaf pk v)
    let me := if isRoot || decide (enc.length ≥ 32) then [enc] else []
    if key.length = 0 || pk == key then some (me ++ valueNode ver (some v)) else none
  | isRoot, .branch pk v cs, key =>
    let enc := encodeNode ver H (.branch pk v cs)
    let me := if isRoot || decide (enc.length ≥ 32) then [enc] else []
    if key.length = 0 || pk == key then some (me ++ valueNode ver v)
    else if !(decide (key.length > pk.length)) then none
    else
      match key.drop (Trie.lcpLen pk key) with
      | i :: rest =>
        match walk ver H false (cs i) rest with
        | some deeper => some (me ++ deeper)
        | none => none
      | [] => none   -- unreachable: lcpLen ≤ pk.length < key.length

/-- the deduplication of `Generate`: a node is appended unless the Merkle value of its encoding was
    seen before (a short root encoding is its own Merkle value) -/
def dedupInto (H : Bytes → Bytes) : List Bytes × List Bytes → List Bytes → List Bytes × List Bytes
  | st, [] => st
  | (seen, out), e :: r =>
    let mv := Gossamer.merkleValue H e
    if seen.contains mv then dedupInto H (seen, out) r
    else dedupInto H (mv :: seen, out ++ [e]) r

/-- the loop of `Generate` over the keys -/
def generateFrom (ver : Ver) (H : Bytes → Bytes) (t : Trie) :
    List Bytes × List Bytes → List Bytes → Option (List Bytes)
  | st, [] => some st.2
  | st, k :: ks =>
    match walk ver H true t (Trie.keyLEToNibbles k) with
    | none => none
    | some ns => generateFrom ver H t (dedupInto H st ns) ks

/-- `proof.Generate(rootHash, fullKeys, database)` where the database holds the trie `t` under
    `rootHash`: `none` = `ErrKeyNotFound` -/
def generate (ver : Ver) (H : Bytes → Bytes) (t : Trie) (keys : List Bytes) : Option (List Bytes) :=
  generateFrom ver H t ([], []) keys

/-! ### the same walk on a trie whose node encodings are computed once (used by the driver; the Go
nodes carry their Merkle value in the same way after `Load`) -/

inductive ETrie where
  | nil
  | leaf (enc : Bytes) (pk : Nibs) (v : Bytes)
  | branch (enc : Bytes) (pk : Nibs) (v : Option Bytes) (kids : List ETrie)

def ETrie.enc : ETrie → Bytes
  | .nil => [0]
  | .leaf e _ _ => e
  | .branch e _ _ _ => e

def ETrie.isNil : ETrie → Bool
  | .nil => true
  | _ => false

/-- the encoding of a branch from the encodings of its children (`encodeNode`, branch case);
    `bm` = the children bitmap -/
def encBranch (ver : Ver) (H : Bytes → Bytes) (pk : Nibs) (v : Option Bytes) (bm : Nat)
    (kids : List ETrie) : Bytes :=
  (match v with
    | none => header 0x80 0x3f pk.length
    | some x => if mustBeHashed ver x then header 0x10 0x0f pk.length
                else header 0xc0 0x3f pk.length)
    ++ packNibs pk
    ++ leBytes 2 bm
    ++ (match v with | none => [] | some x => encodeValue ver H x)
    ++ kids.flatMap (fun k => if k.isNil then [] else Gossamer.scaleBytes (Gossamer.merkleValue H k.enc))

def annot (ver : Ver) (H : Bytes → Bytes) : Trie → ETrie
  | .nil => .nil
  | .leaf pk v => .leaf (encodeNode ver H (.leaf pk v)) pk v
  | .branch pk v cs =>
    let kids := (List.finRange 16).map fun i => annot ver H (cs i)
    .branch (encBranch ver H pk v (bitmap cs) kids) pk v kids

mutual
def walkE (ver : Ver) : Bool → ETrie → Nibs → Option (List Bytes)
  | _, .nil, key => if key.length = 0 then some [] else none
  | isRoot, .leaf enc pk v, key =>
    let me := if isRoot || decide (enc.length ≥ 32) then [enc] else []
    if key.length = 0 || pk == key then some (me ++ valueNode ver (some v)) else none
  | isRoot, .branch enc pk v kids, key =>
    let me := if isRoot || decide (enc.length ≥ 32) then [enc] else []
    if key.length = 0 || pk == key then some (me ++ valueNode ver v)
    else if !(decide (key.length > pk.length)) then none
    else
      match key.drop (Trie.lcpLen pk key) with
      | i :: rest =>
        match walkKid ver kids i.val rest with
        | some deeper => some (me ++ deeper)
        | none => none
      | [] => none
def walkKid (ver : Ver) : List ETrie → Nat → Nibs → Option (List Bytes)
  | [], _, key => if key.length = 0 then some [] else none
  | c :: _, 0, key => walkE ver false c key
  | _ :: cs, i + 1, key => walkKid ver cs i key
end

def generateFromE (ver : Ver) (H : Bytes → Bytes) (t : ETrie) :
    List Bytes × List Bytes → List Bytes → Option (List Bytes)
  | st, [] => some st.2
  | st, k :: ks =>
    match walkE ver true t (Trie.keyLEToNibbles k) with
    | none => none
    | some ns => generateFromE ver H t (dedupInto H st ns) ks

def generateE (ver : Ver) (H : Bytes → Bytes) (t : ETrie) (keys : List Bytes) : Option (List Bytes) :=
  generateFromE ver H t ([], []) keys

end Gossamer.C05
