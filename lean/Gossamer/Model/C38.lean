/-
C38: paginated key listing (`state_getKeysPaged`) and key/value listing (`state_getPairs`).

Model of `StateModule.GetKeysPaged` / `StateModule.GetPairs` (dot/rpc/modules/state.go) over a
storage API (`InmemoryStorageState.GetKeysWithPrefix / Entries / GetStorage`, which delegate to the
in-memory trie of `Lib/TrieMem.lean`), the client loop "request the page after the last key
returned", and the specification over the ordered map (`OMap`).  Core Lean only.

Request strings are `List Char`; `strings.Compare` is the lexicographic order of the characters
(`klt` with the code point as rank — for the UTF-8 strings of Go this is the byte order).
-/
import Gossamer.Base.Proto
import Gossamer.Lib.TrieMem
namespace Gossamer.C38
open Gossamer Gossamer.Trie

instance : Rank Char := ⟨fun c => c.toNat, fun h => Char.ext (UInt32.toNat_inj.mp h)⟩

abbrev Str := List Char

/-! ### text forms -/

/-- lower-case hex digits of a byte string (`%x`, `hex.EncodeToString`) -/
def hexChars (b : Bytes) : Str := b.flatMap hexOfByte

/-- `fmt.Sprintf("0x%x", k)` = `common.BytesToHex(k)` -/
def fKey (k : Bytes) : Str := '0' :: 'x' :: hexChars k

/-- `common.BytesToHex` of a possibly nil value -/
def optHex : Option Bytes → Str
  | none => ['0', 'x']
  | some v => fKey v

/-- `strings.Compare(a, b) == 1` -/
def sgt (a b : Str) : Bool := klt b a

/-- `common.HexToBytes`: needs the `0x` prefix, then `hex.DecodeString` (either case, even length) -/
def hexToBytes? : Str → Option Bytes
  | '0' :: 'x' :: rest => ofHexChars? rest
  | _ => none

/-! ### the storage API the module talks to -/

structure Store where
  keysWithPrefix : Bytes → List Bytes
  entries : List (Bytes × Option Bytes)
  getStorage : Bytes → Option Bytes

/-- `InmemoryStorageState` over the Go trie -/
def trieStore (t : Trie) : Store :=
  { keysWithPrefix := fun p => Trie.keysWithPrefix t p
    entries := Trie.entries t
    getStorage := fun k => Trie.get t k }

/-- the ordered map the property speaks about -/
def mapStore (es : Entries) : Store :=
  { keysWithPrefix := fun p => OMap.keysWithPrefix p es
    entries := es.map (fun e => (e.1, some e.2))
    getStorage := fun k => OMap.get k es }

/-! ### StateModule.GetKeysPaged -/

/-- the `for _, k := range keys` loop with its counter and `break` -/
def pageLoop (after : Str) (qty : Nat) : List Bytes → Nat → List Str
  | [], _ => []
  | k :: r, cnt =>
    if sgt (fKey k) after then
      if cnt ≥ qty then [] else fKey k :: pageLoop after qty r (cnt + 1)
    else pageLoop after qty r cnt

/-- `GetKeysPaged`; `none` = error.  `rootKnown`: the storage state has a trie for the hash the
    request's block field holds (the field is passed on as a state root, unconverted). -/
def getKeysPaged (S : Store) (rootKnown : Bool) (pfx : Str) (qty : Nat) (after : Str) :
    Option (List Str) :=
  let pfx := if pfx.isEmpty then ['0', 'x'] else pfx
  match hexToBytes? pfx with
  | none => none
  | some hp => if rootKnown then some (pageLoop after qty (S.keysWithPrefix hp) 0) else none

/-! ### the client loop -/

inductive LoopEnd where
  | done      -- an empty page came back
  | failed    -- a call returned an error
  | nonterm   -- still receiving keys after `fuel` calls
deriving DecidableEq, Repr

/-- request the page after the last key returned until a page is empty -/
def paginate (page : Str → Option (List Str)) : Nat → Str → List (List Str) × LoopEnd
  | 0, _ => ([], .nonterm)
  | fuel + 1, after =>
    match page after with
    | none => ([], .failed)
    | some pg =>
      match pg.getLast? with
      | none => ([], .done)
      | some last => let r := paginate page fuel last; (pg :: r.1, r.2)

/-- consecutive chunks of `q` elements (`q ≥ 1`); `fuel ≥ l.length` suffices -/
def chunkF {α : Type} (q : Nat) : Nat → List α → List (List α)
  | 0, _ => []
  | _ + 1, [] => []
  | fuel + 1, x :: r => (x :: r).take q :: chunkF q fuel ((x :: r).drop q)

def chunk {α : Type} (q : Nat) (l : List α) : List (List α) := chunkF q l.length l

/-! ### StateModule.GetPairs -/

/-- the harness sorts the listing that comes from the Go map of `Entries()` by key text -/
def sortPairs (l : List (Str × Str)) : List (Str × Str) :=
  l.mergeSort (fun a b => !(klt b.1 a.1))

/-- `GetPairs`; `none` = error.  `blockKnown`: `GetStateRootFromBlock` finds the block. -/
def getPairs (S : Store) (blockKnown : Bool) (pfx : Option Str) : Option (List (Str × Str)) :=
  if !blockKnown then none
  else if pfx = none ∨ pfx = some [] ∨ pfx = some ['0', 'x'] then
    some (sortPairs (S.entries.map (fun e => (fKey e.1, optHex e.2))))
  else
    match hexToBytes? (pfx.getD []) with
    | none => none
    | some p => some ((S.keysWithPrefix p).map (fun k => (fKey k, optHex (S.getStorage k))))

/-- what the property demands of the key/value listing for the byte prefix `p` -/
def specPairs (p : Bytes) (es : Entries) : List (Str × Str) :=
  (es.filter (fun e => p.isPrefixOf e.1)).map (fun e => (fKey e.1, fKey e.2))

/-! ### harness language -/

inductive Addr where
  | nil | root | blk
deriving DecidableEq, Repr

inductive Op where
  | put (k v : Bytes)
  | del (k : Bytes)
  | page (p : Str) (q : Nat) (a : Str)
  | loop (p : Str) (q : Nat)
  | pairs (p : Option Str)
  | at (i : Nat) (q : Op)       -- a query against the `i`-th committed state (0 = genesis)
  | bad
deriving Repr

/-- a request (as opposed to a state change, an `at`, a malformed op) -/
def Op.isQuery : Op → Bool
  | .page _ _ _ => true
  | .loop _ _ => true
  | .pairs _ => true
  | _ => false

/-- state of a run: the working state (Go trie and ordered map), the number of `put`s so far (cap
    of the loop), whether it changed since the last commit, and the committed states in order —
    one per block of the chain, the genesis (empty) state first.  The storage serves the LAST one
    for a request without a block (`nil` root = best block). -/
structure St where
  t : Trie
  es : Entries
  puts : Nat
  dirty : Bool
  hist : List (Trie × Entries)

def St.init : St := { t := Trie.nil, es := [], puts := 0, dirty := false, hist := [(Trie.nil, [])] }

/-- a request that follows state changes first commits them as a new best block -/
def St.commit (s : St) : St :=
  if s.dirty then { s with dirty := false, hist := s.hist ++ [(s.t, s.es)] } else s

/-- `del` of a key that is not stored is a no-op of the harness; `at` does not commit -/
def St.apply (s : St) : Op → St
  | .put k v => { s with t := Trie.put s.t k v, es := OMap.upsert k v s.es, puts := s.puts + 1,
                         dirty := true }
  | .del k =>
    if (OMap.get k s.es).isSome then
      { s with t := Trie.delete s.t k, es := OMap.erase k s.es, dirty := true }
    else s
  | .page _ _ _ => s.commit
  | .loop _ _ => s.commit
  | .pairs _ => s.commit
  | _ => s

/-- the state the storage serves for a request without a block: the one of the best block, i.e.
    the last committed one once the pending changes are committed -/
def St.best (s : St) : Trie × Entries := (s.commit.hist.getLast?).getD (s.t, s.es)

/-! ### observables -/

def joinWith (sep : String) : List String → String
  | [] => ""
  | [a] => a
  | a :: r => a ++ sep ++ joinWith sep r

def showKeys (ks : List Str) : String :=
  if ks.isEmpty then "none" else joinWith "," (ks.map String.ofList)

def showPage : Option (List Str) → String
  | none => "err"
  | some ks => showKeys ks

def showLoop (r : List (List Str) × LoopEnd) : String :=
  let pages := r.1.map (fun pg => joinWith "," (pg.map String.ofList))
  let all := pages ++ (match r.2 with | .done => [] | .failed => ["err"] | .nonterm => ["nonterm"])
  if all.isEmpty then "none" else joinWith "/" all

def showPairs : Option (List (Str × Str)) → String
  | none => "err"
  | some l =>
    if l.isEmpty then "none"
    else joinWith "," (l.map (fun e => String.ofList e.1 ++ "=" ++ String.ofList e.2))

/-- the observable of one op against a store; `paged` / `pairs` say whether the block field of the
    request resolves for the two calls -/
def observe (S : Store) (paged pairs : Bool) (fuel : Nat) : Op → String
  | .put _ _ => "ok"
  | .del _ => "ok"
  | .page p q a => showPage (getKeysPaged S paged p q a)
  | .loop p q => showLoop (paginate (getKeysPaged S paged p q) fuel [])
  | .pairs p => showPairs (getPairs S pairs p)
  | .at _ _ => "bad-op"
  | .bad => "bad-op"

/-- the Go code: the trie of the best block (`St.best`: the storage resolves a missing block to the
    best block's state on every call, nothing is remembered between calls), and a block field that
    is used as a state root by `GetKeysPaged` and as a block hash by `GetPairs`; `at i` addresses
    the `i`-th committed state by its root / block hash, which both resolve -/
def stepModel (addr : Addr) (s : St) : Op → String
  | .at i q =>
    if q.isQuery then
      match s.hist[i]? with
      | none => "bad-ix"
      | some st => observe (trieStore st.1) true true (s.puts + 2) q
    else "bad-op"
  | op => observe (trieStore s.best.1) (addr != .blk) (addr != .root) (s.puts + 2) op

/-- the property: the ordered map of the addressed state; the block hash (or nothing) selects the
    state in both calls; a state root in the block field works for `GetKeysPaged` as in the code -/
def stepSpec (addr : Addr) (s : St) : Op → String
  | .at i q =>
    if q.isQuery then
      match s.hist[i]? with
      | none => "bad-ix"
      | some st => observe (mapStore st.2) true true (s.puts + 2) q
    else "bad-op"
  | op => observe (mapStore s.best.2) true (addr != .root) (s.puts + 2) op

def runFrom (step : St → Op → String) (s : St) : List Op → List String
  | [] => []
  | op :: r => step s op :: runFrom step (s.apply op) r

/-! ### known-finding regions -/

/-- the byte prefix a request string denotes (after the `""` → `"0x"` default), if it is valid -/
def prefixOf (p : Str) : Option Bytes := hexToBytes? (if p.isEmpty then ['0', 'x'] else p)

/-- the prefix bytes of a request whose listing goes through `GetKeysWithPrefix` -/
def listedPrefix : Op → Option Bytes
  | .page p _ _ => prefixOf p
  | .loop p _ => prefixOf p
  | .pairs (some p) => hexToBytes? p
  | _ => none

/-- `GetKeysPaged` (not `GetPairs`) -/
def Op.isPaged : Op → Bool
  | .page _ _ _ => true
  | .loop _ _ => true
  | _ => false

def kfTag (addr : Addr) (s : St) : Op → String
  | .at i q =>
    match s.hist[i]?, listedPrefix q with
    | some st, some hp => if trimRegion hp st.2 then "prefix-zero-nibble" else ""
    | _, _ => ""
  | op =>
    match listedPrefix op with
    | none => ""
    | some hp => if op.isPaged && addr == .blk then "paged-block-as-root"
                 else if trimRegion hp s.best.2 then "prefix-zero-nibble" else ""

/-- tag of the first op whose model and spec observables differ -/
def firstTag (addr : Addr) (s : St) : List Op → String
  | [] => ""
  | op :: r =>
    if stepModel addr s op == stepSpec addr s op then firstTag addr (s.apply op) r
    else kfTag addr s op

/-! ### parsing -/

def parseNat? (s : String) : Option Nat :=
  if s.isEmpty then none
  else s.toList.foldl (fun acc c => acc.bind (fun n =>
    if '0' ≤ c ∧ c ≤ '9' then some (n * 10 + (c.toNat - 48)) else none)) (some 0)

/-- a request string token: `-` is the empty string -/
def strTok (s : String) : Str := if s = "-" then [] else s.toList

def parseQty? (s : String) : Option Nat :=
  match parseNat? s with
  | some n => if n < 4294967296 then some n else none
  | none => none

def parseQuery (s : String) : Op :=
  match words s with
  | ["put", k, v] => match ofHex? k, ofHex? v with
    | some k, some v => .put k v
    | _, _ => .bad
  | ["del", k] => match ofHex? k with | some k => .del k | none => .bad
  | ["page", p, q, a] => match parseQty? q with
    | some q => .page (strTok p) q (strTok a)
    | none => .bad
  | ["loop", p, q] => match parseQty? q with
    | some q => .loop (strTok p) q
    | none => .bad
  | ["pairs", p] => if p = "nil" then .pairs none else .pairs (some (strTok p))
  | _ => .bad

def parseOp (s : String) : Op :=
  match words s with
  | "at" :: i :: rest =>
    match parseNat? i, parseQuery (" ".intercalate rest) with
    | some i, q => if q.isQuery ∧ i < 2147483648 then .at i q else .bad
    | none, _ => .bad
  | _ => parseQuery s

def parseAddr? (s : String) : Option Addr :=
  if s = "nil" then some .nil else if s = "root" then some .root
  else if s = "blk" then some .blk else none

/-- `<ver> <mode> <addr>|op;op;…` -/
def parseLine (line : String) : Option (Addr × List Op) :=
  match line.splitOn "|" with
  | [hdr, body] =>
    match words hdr with
    | [ver, mode, addr] =>
      if (ver == "0" || ver == "1") && (mode == "mem" || mode == "db") then
        (parseAddr? addr).map (fun a => (a, (body.splitOn ";").map parseOp))
      else none
    | _ => none
  | _ => none

end Gossamer.C38
