/-
C33  Network message decoders withstand arbitrary peer input.

Every decoder a peer's bytes reach, as the composition of
  * the model of `scale.Unmarshal` (`C11.unmarshal` = `Scale.decode C11.codec`, AFTER the C11/C12
    fixes: exact reads, canonical compacts; `decodeBytes` still zero-fills a short read and allocates
    the declared length first — known findings bytes-short-read / bytes-alloc of C12), or
  * the model of protobuf-go's wire parser (`Lib/C33Wire.lean`) with the field folds of
    `Lib/ChainProto.lean`,
with the Go glue around it.  Outcomes are `ok m | err | panic`; `panic` marks every partial Go
operation of the glue (nil dereference, `binary.LittleEndian.Uint32` on a short slice, failed type
switch) so that `C33_no_panic` is a statement about guards actually present in the code.

dot/network:           decodeBlockAnnounceMessage, decodeBlockAnnounceHandshake,
                       decodeTransactionMessage, decodeTransactionHandshake, ConsensusMessage.Decode,
                       newLightRequestFromBytes, newLightResponseFromBytes, decodeWarpSyncMessage,
                       decodeSyncMessage
dot/network/messages:  BlockRequestMessage.Decode, BlockResponseMessage.Decode, protobufToBlockData,
                       WarpProofRequest.Decode
dot/types:             NewBodyFromBytes, NewBodyFromEncodedBytes
lib/grandpa:           Service.decodeMessage + decodeMessage, Service.decodeHandshake
-/
import Gossamer.Model.C11
import Gossamer.Lib.C33Wire
namespace Gossamer.C33
open Gossamer Gossamer.Scale Gossamer.Proto

/-! ## SCALE shapes of the Go message types (exported fields in declaration order) -/

def struct (fs : List Ty) : Ty := fs.foldr Ty.pair Ty.unit
def u8 : Ty := .prim .u8
def u32 : Ty := .prim .u32
def u64 : Ty := .prim .u64
def bytesT : Ty := .prim .bytes
def bytesN (n : Nat) : Ty := .array n u8
/-- `common.Hash` = `[32]byte` -/
def hashT : Ty := bytesN 32

/-- `digestItem{ConsensusEngineID [4]byte; Data []byte}` -/
def enginePayload : Ty := struct [bytesN 4, bytesT]
/-- `types.DigestItem.ValueAt`: 4 Consensus, 5 Seal, 6 PreRuntime, 8 RuntimeEnvironmentUpdated -/
def digestItem : Ty :=
  .enumCons 6 enginePayload (.enumCons 4 enginePayload (.enumCons 5 enginePayload (.enumCons 8 .unit .enumNil)))
/-- `types.Header` (the cached `hash` field is unexported: skipped by `decodeStruct`) -/
def headerTy : Ty := struct [hashT, .prim .compact, hashT, hashT, .seq digestItem]
def blockAnnounceTy : Ty := struct [hashT, .prim .compact, hashT, hashT, .seq digestItem, .prim .bool]
def baHandshakeTy : Ty := struct [u8, u32, hashT, hashT]
/-- `[]types.Extrinsic`: `Extrinsic` is a NAMED byte slice, so `unmarshal` takes the generic slice
    path (element by element), not `decodeBytes` -/
def transactionsTy : Ty := .seq (.seq u8)
def warpTy : Ty := struct [hashT]
/-- `[][]byte` of `NewBodyFromBytes`: unnamed `[]byte` elements go through `decodeBytes` -/
def bodyTy : Ty := .seq bytesT

def lightRequestTy : Ty :=
  struct [struct [bytesT, .prim .str, bytesT],                       -- RemoteCallRequest
          struct [bytesT, .seq bytesT],                               -- RemoteReadRequest
          struct [bytesT],                                            -- RemoteHeaderRequest
          struct [bytesT, bytesT, .seq bytesT],                       -- RemoteReadChildRequest
          struct [.option hashT, .option hashT, bytesT, bytesT, .option bytesT]]  -- RemoteChangesRequest
def lightResponseTy : Ty :=
  struct [struct [bytesT], struct [bytesT],
          struct [.seq (.option headerTy)],                           -- RemoteHeaderResponse
          struct [bytesT, .seq bytesT, .seq (.seq (struct [bytesT, bytesT])), bytesT]]

def voteTy : Ty := struct [hashT, u32]
def signedVoteTy : Ty := struct [voteTy, bytesN 64, bytesN 32]
def signedMessageTy : Ty := struct [u8, hashT, u32, bytesN 64, bytesN 32]
def voteMessageTy : Ty := struct [u64, u64, signedMessageTy]
def authDataTy : Ty := struct [bytesN 64, bytesN 32]
def commitMessageTy : Ty := struct [u64, u64, voteTy, .seq voteTy, .seq authDataTy]
def neighbourV1Ty : Ty := struct [u64, u64, u32]
def versionedNeighbourTy : Ty := .enumCons 1 neighbourV1Ty .enumNil
def catchUpRequestTy : Ty := struct [u64, u64]
def catchUpResponseTy : Ty := struct [u64, u64, .seq signedVoteTy, .seq signedVoteTy, hashT, u32]
/-- `grandpaMessage.ValueAt` -/
def grandpaMessageTy : Ty :=
  .enumCons 0 voteMessageTy (.enumCons 1 commitMessageTy (.enumCons 2 versionedNeighbourTy
    (.enumCons 3 catchUpRequestTy (.enumCons 4 catchUpResponseTy .enumNil))))
def grandpaHandshakeTy : Ty := struct [u8]

/-- an element of `[]runtime.Header` (a Go INTERFACE type): `unmarshal` has no concrete type to
    decode into and returns `ErrUnsupportedType` without reading (after the C33 fix to pkg/scale;
    before it, a nil pointer dereference) — the variant-less enum decodes nothing and always fails -/
def ifaceTy : Ty := .enumNil
/-- `finality-grandpa SignedPrecommit[H256, uint64, Signature, Public]` -/
def signedPrecommitTy : Ty := struct [struct [hashT, u64], bytesN 64, bytesN 32]
/-- `primitives.GrandpaJustification{Round; Commit{TargetHash; TargetNumber; Precommits}; VoteAncestries}`
    wrapped in `consensus_grandpa.GrandpaJustification{Justification}` (`hash.H256` has a custom
    `UnmarshalSCALE` that reads `[32]byte`) -/
def clientJustificationTy : Ty :=
  struct [struct [u64, struct [hashT, u64, .seq signedPrecommitTy], .seq ifaceTy]]
/-- lib/grandpa `WarpSyncFragment{Header types.Header; Justification}` -/
def warpFragmentTy : Ty := struct [headerTy, clientJustificationTy]
/-- lib/grandpa `WarpSyncProof{Proofs; IsFinished}` (`proofsLength` is unexported) -/
def warpProofTy : Ty := struct [.seq warpFragmentTy, .prim .bool]

/-! ## outcomes and messages -/

inductive Out (α : Type)
  | ok (m : α)
  | err
  | panic
deriving Repr, BEq, Inhabited

def Out.isOk {α : Type} : Out α → Bool
  | .ok _ => true
  | _ => false

/-- `messages.FromBlock` -/
inductive Start
  | number (n : Nat)        -- `uint`
  | hash (h : Bytes)        -- `common.Hash`
deriving Repr, BEq, DecidableEq, Inhabited

/-- `messages.BlockRequestMessage` -/
structure BlockReqMsg where
  requestedData : Nat
  start : Start
  direction : Nat
  max : Option Nat
deriving Repr, BEq, DecidableEq, Inhabited

/-- `types.BlockData` -/
structure BlockDataMsg where
  hash : Bytes
  header : Option Val
  body : Option Val             -- `.list` of `.bytes`
  receipt : Option Bytes
  messageQueue : Option Bytes
  justification : Option Bytes
deriving Repr, BEq, Inhabited

/-- `messages.KeyValueStateEntry` -/
structure KVEntry where
  root : Bytes
  entries : List (Bytes × Bytes)
  complete : Bool
deriving Repr, BEq, DecidableEq, Inhabited

inductive Msg
  | scale (v : Val)
  | raw (b : Bytes)
  | unit
  | blockReq (m : BlockReqMsg)
  | blockResp (ds : List BlockDataMsg)
  | stateReq (block : Bytes) (start : List Bytes) (noProof : Bool)
  | stateResp (entries : List KVEntry) (proof : Bytes)
deriving Repr, BEq, Inhabited

inductive Kind
  | ba | bah | tx | txh | cons | lreq | lresp | warp | breq | bresp | body | gmsg | ghs
  | sreq | sresp | wproof
deriving Repr, DecidableEq, Inhabited

/-- the SCALE destination type of the kinds that are a plain `scale.Unmarshal` -/
def Kind.ty : Kind → Option Ty
  | .ba => some blockAnnounceTy
  | .bah => some baHandshakeTy
  | .tx => some transactionsTy
  | .lreq => some lightRequestTy
  | .lresp => some lightResponseTy
  | .warp => some warpTy
  | .ghs => some grandpaHandshakeTy
  | .gmsg => some grandpaMessageTy
  | .body => some bodyTy
  | .wproof => some warpProofTy
  | _ => none

/-! ## decoders -/

/-- `scale.Unmarshal(in, &dst)`: trailing bytes are ignored -/
def unmarshalTop (t : Ty) (bs : Bytes) : Out Val :=
  match C11.unmarshal t bs with
  | some (v, _) => .ok v
  | none => .err

/-- lib/grandpa `decodeMessage`: the type switches after `Unmarshal` -/
def grandpaGlue (v : Val) : Out Msg :=
  match v with
  | .variant 2 inner =>                       -- VersionedNeighbourPacket: `val.Value()` then switch
    match inner with
    | .variant 1 _ => .ok (.scale v)          -- NeighbourPacketV1
    | _ => .err                               -- ErrInvalidMessageType / unset value
  | .variant 0 _ => .ok (.scale v)
  | .variant 1 _ => .ok (.scale v)
  | .variant 3 _ => .ok (.scale v)
  | .variant 4 _ => .ok (.scale v)
  | _ => .err                                 -- `default: ErrInvalidMessageType`

/-- `common.BytesToHash` / `Hash.SetBytes`: the last 32 bytes, left-padded with zeros -/
def bytesToHash (b : Bytes) : Bytes :=
  let b' := if b.length > 32 then b.drop (b.length - 32) else b
  List.replicate (32 - b'.length) 0 ++ b'

/-- `binary.LittleEndian.Uint32(b)`: panics on a slice shorter than 4 -/
def le32? (b : Bytes) : Option Nat := if b.length < 4 then none else some (natOfLE (b.take 4))

/-- `BlockRequestMessage.Decode` after `proto.Unmarshal` -/
def blockRequestGlue (msg : Proto.BlockRequest) : Out Msg :=
  -- `switch from := msg.FromBlock.(type)`: the starting block pointer and the `err` variable
  let sw : Out (Option Start × Bool) :=
    match msg.fromBlock with
    | .hash b => .ok (some (.hash (bytesToHash b)), false)
    | .number b =>
      if b.length ≠ 4 then .err
      else match le32? b with
        | none => .panic
        | some n => .ok (some (.number n), false)
    | .unset => .ok (none, true)
  match sw with
  | .err => .err
  | .panic => .panic
  | .ok (startingBlock, e) =>
    if e then .err
    else match startingBlock with
      | none => .panic                       -- `*startingBlock` with a nil pointer
      | some s =>
        .ok (.blockReq ⟨msg.fields / 16777216 % 256, s, msg.direction % 256,
          if msg.maxBlocks ≠ 0 then some msg.maxBlocks else none⟩)

/-- `BlockRequestMessage.Decode` -/
def decodeBlockRequest (bs : Bytes) : Out Msg :=
  match goParse bs with
  | none => .err
  | some fs => blockRequestGlue (BlockRequest.ofFields fs)

/-- `types.NewBodyFromBytes` (`none` = error) -/
def newBodyFromBytes (b : Bytes) : Option Val :=
  if b = [] then some (.list [])
  else match C11.unmarshal bodyTy b with
    | some (v, _) => some v
    | none => none

/-- `types.NewBodyFromEncodedBytes`: compact count, then the entries CONCATENATED, parsed again -/
def newBodyFromEncodedBytes (exts : List Bytes) : Option Val :=
  newBodyFromBytes (C11.encodeBigInt exts.length ++ exts.flatten)

def optBytesOf (b : Bytes) : Option Bytes := if b = [] then none else some b

/-- `if pbd.Header != nil { scale.Unmarshal(pbd.Header, header) }` (proto3: an empty `bytes` field is nil) -/
def headerOf (b : Bytes) : Out (Option Val) :=
  if b = [] then .ok none
  else match C11.unmarshal headerTy b with
    | some (v, _) => .ok (some v)
    | none => .err

/-- `if pbd.Body != nil { types.NewBodyFromEncodedBytes(pbd.Body) }` -/
def bodyOf (exts : List Bytes) : Out (Option Val) :=
  if exts = [] then .ok none
  else match newBodyFromEncodedBytes exts with
    | some v => .ok (some v)
    | none => .err

/-- justification and the `is_empty_justification` flag -/
def justOf (j : Bytes) (isEmpty : Bool) : Option Bytes :=
  if j ≠ [] then some j else if isEmpty then some [] else none

/-- `protobufToBlockData` -/
def protobufToBlockData (d : Proto.BlockData) : Out BlockDataMsg :=
  match headerOf d.header with
  | .err => .err
  | .panic => .panic
  | .ok h =>
    match bodyOf d.body with
    | .err => .err
    | .panic => .panic
    | .ok b =>
      .ok ⟨bytesToHash d.hash, h, b, optBytesOf d.receipt, optBytesOf d.messageQueue,
        justOf d.justification d.isEmptyJustification⟩

/-- the `repeated BlockData blocks = 1` fold: nested messages parsed by the same library -/
def blocksOf : List WField → Option (List Proto.BlockData)
  | [] => some []
  | f :: fs =>
    match f.num, f.val with
    | 1, .len b =>
      match goParse b with
      | none => none
      | some gs => (blocksOf fs).map (fun ds => Proto.BlockData.ofFields gs :: ds)
    | _, _ => blocksOf fs

/-- the loop of `BlockResponseMessage.Decode` -/
def blockDatas : List Proto.BlockData → Out (List BlockDataMsg)
  | [] => .ok []
  | d :: ds =>
    match protobufToBlockData d with
    | .err => .err
    | .panic => .panic
    | .ok m =>
      match blockDatas ds with
      | .err => .err
      | .panic => .panic
      | .ok ms => .ok (m :: ms)

def decodeBlockResponse (bs : Bytes) : Out Msg :=
  match goParse bs with
  | none => .err
  | some fs =>
    match blocksOf fs with
    | none => .err
    | some ds =>
      match blockDatas ds with
      | .err => .err
      | .panic => .panic
      | .ok ms => .ok (.blockResp ms)

/-! ### state request / response (dot/network/messages/state.go) -/

/-- `message StateRequest { bytes block = 1; repeated bytes start = 2; bool no_proof = 3; }` -/
structure StateReqP where
  block : Bytes
  start : List Bytes
  noProof : Bool
deriving Repr, DecidableEq, Inhabited

def StateReqP.step (m : StateReqP) (f : WField) : StateReqP :=
  match f.num, f.val with
  | 1, .len b => { m with block := b }
  | 2, .len b => { m with start := m.start ++ [b] }
  | 3, .varint n => { m with noProof := n != 0 }
  | _, _ => m

def StateReqP.ofFields (fs : List WField) : StateReqP := fs.foldl StateReqP.step ⟨[], [], false⟩

def StateReqP.toFields (m : StateReqP) : List WField :=
  optBytes 1 m.block ++ (m.start.map (fun b => (⟨2, .len b⟩ : WField)) ++ flag 3 m.noProof)

/-- `StateRequest.Decode` -/
def decodeStateRequest (bs : Bytes) : Out Msg :=
  match goParse bs with
  | none => .err
  | some fs =>
    let p := StateReqP.ofFields fs
    .ok (.stateReq (bytesToHash p.block) p.start p.noProof)

/-- `message StateEntry { bytes key = 1; bytes value = 2; }` -/
def stateEntryStep (p : Bytes × Bytes) (f : WField) : Bytes × Bytes :=
  match f.num, f.val with
  | 1, .len b => (b, p.2)
  | 2, .len b => (p.1, b)
  | _, _ => p

/-- last occurrence of a singular `bytes` field -/
def lastLen (k : Nat) (fs : List WField) : Bytes :=
  fs.foldl (fun acc f => match f.val with | .len b => if f.num = k then b else acc | .varint _ => acc) []

/-- last occurrence of a singular `bool` field -/
def lastBool (k : Nat) (fs : List WField) : Bool :=
  fs.foldl (fun acc f => match f.val with | .varint n => if f.num = k then n != 0 else acc | .len _ => acc) false

/-- `repeated StateEntry entries = 2` of a `KeyValueStateEntry` -/
def stateEntriesOf : List WField → Option (List (Bytes × Bytes))
  | [] => some []
  | f :: fs =>
    match f.num, f.val with
    | 2, .len b =>
      match goParse b with
      | none => none
      | some gs => (stateEntriesOf fs).map (fun es => gs.foldl stateEntryStep ([], []) :: es)
    | _, _ => stateEntriesOf fs

/-- `message KeyValueStateEntry { bytes state_root = 1; repeated StateEntry entries = 2; bool complete = 3; }`
    and the copy loop of `StateResponse.Decode` -/
def kvEntryOf (gs : List WField) : Option KVEntry :=
  match stateEntriesOf gs with
  | none => none
  | some es => some ⟨bytesToHash (lastLen 1 gs), es, lastBool 3 gs⟩

/-- `repeated KeyValueStateEntry entries = 1` of a `StateResponse` -/
def kvEntriesOf : List WField → Option (List KVEntry)
  | [] => some []
  | f :: fs =>
    match f.num, f.val with
    | 1, .len b =>
      match goParse b with
      | none => none
      | some gs =>
        match kvEntryOf gs with
        | none => none
        | some e => (kvEntriesOf fs).map (fun es => e :: es)
    | _, _ => kvEntriesOf fs

/-- `StateResponse.Decode` (`message StateResponse { repeated KeyValueStateEntry entries = 1; bytes proof = 2; }`) -/
def decodeStateResponse (bs : Bytes) : Out Msg :=
  match goParse bs with
  | none => .err
  | some fs =>
    match kvEntriesOf fs with
    | none => .err
    | some es => .ok (.stateResp es (lastLen 2 fs))

def scaleMsg (o : Out Val) : Out Msg :=
  match o with
  | .ok v => .ok (.scale v)
  | .err => .err
  | .panic => .panic

/-- every decoder -/
def decode (k : Kind) (bs : Bytes) : Out Msg :=
  match k with
  | .txh => .ok .unit                                  -- decodeTransactionHandshake
  | .cons => .ok (.raw bs)                             -- ConsensusMessage.Decode
  | .breq => decodeBlockRequest bs
  | .bresp => decodeBlockResponse bs
  | .body => match newBodyFromBytes bs with | some v => .ok (.scale v) | none => .err
  | .gmsg =>
    match unmarshalTop grandpaMessageTy bs with
    | .ok v => grandpaGlue v
    | .err => .err
    | .panic => .panic
  | .ba => scaleMsg (unmarshalTop blockAnnounceTy bs)
  | .bah => scaleMsg (unmarshalTop baHandshakeTy bs)
  | .tx => scaleMsg (unmarshalTop transactionsTy bs)
  | .lreq => scaleMsg (unmarshalTop lightRequestTy bs)
  | .lresp => scaleMsg (unmarshalTop lightResponseTy bs)
  | .warp => scaleMsg (unmarshalTop warpTy bs)
  | .ghs => scaleMsg (unmarshalTop grandpaHandshakeTy bs)
  | .sreq => decodeStateRequest bs
  | .sresp => decodeStateResponse bs
  | .wproof => scaleMsg (unmarshalTop warpProofTy bs)         -- first statement of WarpSyncProofProvider.Verify

/-! ## encoders (`Encode()` / `ToConsensusMessage()` of the decoded message) -/

def optToBytes (o : Option Bytes) : Bytes := o.getD []

/-- `FromBlock.Encode` + `BlockRequestMessage.Encode` up to `proto.Marshal` -/
def blockReqToProto (m : BlockReqMsg) : Proto.BlockRequest :=
  { fields := 16777216 * m.requestedData,
    fromBlock := match m.start with
      | .number n => .number (leBytes 4 (if n > 4294967295 then 4294967295 else n))
      | .hash h => .hash h,
    direction := m.direction,
    maxBlocks := m.max.getD 0 }

def entriesOf : Val → List Bytes
  | .list vs => vs.map (C11.marshal bytesT)
  | _ => []

def headerBytes : Option Val → Bytes
  | some v => C11.marshal headerTy v
  | none => []

def bodyEntries : Option Val → List Bytes
  | some v => entriesOf v
  | none => []

/-- `blockDataToProtobuf` -/
def blockDataToProto (m : BlockDataMsg) : Proto.BlockData :=
  { hash := m.hash,
    header := headerBytes m.header,
    body := bodyEntries m.body,
    receipt := optToBytes m.receipt,
    messageQueue := optToBytes m.messageQueue,
    justification := optToBytes m.justification,
    isEmptyJustification := m.justification == some [] }

def encode (k : Kind) (m : Msg) : Bytes :=
  match k, m with
  | .cons, .raw b => b
  | .breq, .blockReq r => (blockReqToProto r).encodeGo
  | .bresp, .blockResp ds => (Proto.BlockResponse.mk (ds.map blockDataToProto)).encode
  | .sreq, .stateReq b st np => encFields (StateReqP.toFields ⟨b, st, np⟩)   -- `StateRequest.Encode`
  | k, .scale v => match k.ty with | some t => C11.marshal t v | none => []
  | _, _ => []

/-! ## cost counters: `steps` = calls of `decodeState.unmarshal` (one per node of the walk, failed
ones included) plus iterations of the glue loops; `alloc` = bytes of read buffers the walk makes
(`make([]byte, n)` sizes: 1 for a tag byte, the width of an integer, the DECLARED length of a byte
string) -/

structure Cost where
  steps : Nat
  alloc : Nat
deriving Repr, DecidableEq, Inhabited

def Cost.add (a b : Cost) : Cost := ⟨a.steps + b.steps, a.alloc + b.alloc⟩

/-- cost of decoding up to `n` items in a row (the loop stops at the first failure) -/
def costN (d : Bytes → Option (Val × Bytes)) (c : Bytes → Cost) : Nat → Bytes → Cost
  | 0, _ => ⟨0, 0⟩
  | n + 1, bs =>
    match d bs with
    | none => c bs
    | some (_, r) => (c bs).add (costN d c n r)

/-- cost of `unmarshal` at type `t` on input `bs` -/
def cost : Ty → Bytes → Cost
  | .prim p, bs => ⟨1, (C11.decPA p bs).req⟩
  | .unit, _ => ⟨1, 0⟩
  | .pair a b, bs =>
    match Scale.decode C11.codec a bs with
    | none => (cost a bs).add ⟨1, 0⟩
    | some (_, r) => ((cost a bs).add (cost b r)).add ⟨1, 0⟩
  | .option t, bs =>
    match bs with
    | [] => ⟨1, 1⟩
    | tag :: r => if tag = 1 then (cost t r).add ⟨1, 1⟩ else ⟨1, 1⟩
  | .result a b, bs =>
    match bs with
    | [] => ⟨1, 1⟩
    | tag :: r =>
      if tag = 0 then (cost a r).add ⟨1, 1⟩ else if tag = 1 then (cost b r).add ⟨1, 1⟩ else ⟨1, 1⟩
  | .array n t, bs => (costN (Scale.decode C11.codec t) (cost t) n bs).add ⟨1, 0⟩
  | .seq t, bs =>
    match C11.decodeUintV bs with
    | none => ⟨1, C11.decodeUintReq bs⟩
    | some (n, r) => (costN (Scale.decode C11.codec t) (cost t) n r).add ⟨1, C11.decodeUintReq bs⟩
  | .enumNil, _ => ⟨1, 1⟩
  | .enumCons i t rest, bs =>
    match bs with
    | [] => ⟨1, 1⟩
    | tag :: r => if tag.toNat = i then (cost t r).add ⟨1, 1⟩ else cost rest bs

/-- SCALE work of one `protobufToBlockData` -/
def blockCost (d : Proto.BlockData) : Cost :=
  ((if d.header = [] then ⟨0, 0⟩ else cost headerTy d.header).add
    (if d.body = [] then ⟨0, 0⟩ else cost bodyTy (C11.encodeBigInt d.body.length ++ d.body.flatten))).add ⟨1, 0⟩

def blocksCost : List Proto.BlockData → Cost
  | [] => ⟨0, 0⟩
  | d :: ds => (blockCost d).add (blocksCost ds)

/-- cost of a decoder: the SCALE walk and the glue loops (the protobuf library's own parsing is
    trusted and not counted) -/
def msgCost (k : Kind) (bs : Bytes) : Cost :=
  match k with
  | .txh => ⟨1, 0⟩
  | .cons => ⟨1, 0⟩
  | .breq => ⟨1, 0⟩
  | .bresp =>
    match goParse bs with
    | none => ⟨1, 0⟩
    | some fs => match blocksOf fs with
      | none => ⟨1, 0⟩
      | some ds => (blocksCost ds).add ⟨1, 0⟩
  | .body => if bs = [] then ⟨1, 0⟩ else cost bodyTy bs
  | .sreq => ⟨1, 0⟩
  | .sresp =>
    match goParse bs with
    | none => ⟨1, 0⟩
    | some fs => match kvEntriesOf fs with
      | none => ⟨1, 0⟩
      | some es => ⟨1 + (es.map (fun e => 1 + e.entries.length)).sum, 0⟩
  | k => match k.ty with | some t => cost t bs | none => ⟨1, 0⟩

/-- the linear allocation budget the harness measures against: `2*(64KiB + 256*len)` -/
def allocBudget (len : Nat) : Nat := 2 * (65536 + 256 * len)

end Gossamer.C33
