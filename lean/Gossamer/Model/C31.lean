/-
Model of
  * `NewAscendingBlockRequests` (dot/network/messages/block.go) — request planning, with Go's
    64-bit `uint` wrap-around made explicit (`% W`);
  * `CreateBlockResponse`, `handleAscendingRequest`, `handleDescendingRequest`,
    `checkOrGetDescendantHash`, `handleAscendingByNumber`, `handleDescendingByNumber`,
    `handleChainByHash`, `getBlockDataByNumber`, `getBlockData` (dot/sync/message.go, after the
    `fix:` commit recorded in harness/C31/findings.json)
over a block state that holds a tree of blocks rooted at genesis, possibly after one finalisation
(blocks up to the finalised head live in the database, forks that do not contain it are pruned);
the queries of `state.BlockState` the serving code uses are modelled by what they return on such
a state.  The per-peer same-request limiter (`seenBlockSyncRequests`) is modelled as an LRU list.
Every definition mirrors one Go function; loops are structural recursion.  Core Lean only.
-/
namespace Gossamer.C31

/-- `messages.MaxBlocksInResponse` -/
def maxBlocks : Nat := 128

/-- Go `uint` is 64 bits wide -/
def W : Nat := 2 ^ 64

/-! ## Planning: `NewAscendingBlockRequests` -/

/-- one planned request: by number `start`, `Max = some max`, ascending, the given fields -/
structure PReq where
  start : Nat
  max : Nat
deriving DecidableEq, Repr

/-- the `for i := uint(0); i < numRequests; i++` loop; `cnt` = iterations left -/
def planLoop (numRequests missing : Nat) : (cnt i start : Nat) → List PReq
  | 0, _, _ => []
  | cnt + 1, i, start =>
    let mx := if i = numRequests - 1 ∧ missing ≠ 0 then missing else maxBlocks
    ⟨start, mx⟩ :: planLoop numRequests missing cnt (i + 1) ((start + mx) % W)

/-- `NewAscendingBlockRequests(startNumber, targetNumber, _)` for `startNumber, targetNumber < W` -/
def plan (a b : Nat) : List PReq :=
  if a > b then []
  else
    -- diff := targetNumber - (startNumber - 1)     (both subtractions wrap)
    let diff := (b + W - ((a + W - 1) % W)) % W
    if diff = 1 then [⟨a, 1⟩]
    else
      let numRequests := diff / maxBlocks
      let missing := diff % maxBlocks
      let numRequests := if missing ≠ 0 then numRequests + 1 else numRequests
      planLoop numRequests missing numRequests 0 a

/-! ## The block state: a tree of blocks, ids in insertion order, genesis = 0 -/

/-- a block; `dead` = pruned by a finalisation (its header is gone, its hash is unknown) -/
structure Blk where
  parent : Nat
  num : Nat
  dead : Bool := false
deriving DecidableEq, Repr

/-- the block state: all blocks ever added (ids = positions) and the number of the finalised
    head (blocks up to it live in the database, the block tree is rooted there) -/
structure Tree where
  blocks : Array Blk
  fin : Nat := 0
deriving Repr

def Tree.size (t : Tree) : Nat := t.blocks.size

def genesisTree : Tree := ⟨#[⟨0, 0, false⟩], 0⟩

/-- the hash is known to the block state (`GetHeader` succeeds) -/
def known (t : Tree) (h : Nat) : Bool := (t.blocks[h]?.map (fun b => !b.dead)).getD false
def parentOf (t : Tree) (h : Nat) : Nat := (t.blocks[h]?.map (·.parent)).getD 0
def numOf (t : Tree) (h : Nat) : Nat := (t.blocks[h]?.map (·.num)).getD 0

/-- the harness' segment `p:k`: `k` blocks chained below block `p` -/
def addSeg (t : Tree) : (k p : Nat) → Tree
  | 0, _ => t
  | k + 1, p => addSeg ⟨t.blocks.push ⟨p, numOf t p + 1, false⟩, t.fin⟩ k t.size

/-- greatest number of a block that is still there -/
def maxNum (t : Tree) : Nat :=
  t.blocks.toList.foldl (fun m b => if b.dead then m else max m b.num) 0

/-- number of (not pruned) blocks with that number -/
def countNum (t : Tree) (n : Nat) : Nat :=
  t.blocks.toList.foldl (fun c b => if !b.dead && b.num = n then c + 1 else c) 0

/-- position (counted from `i`) of the first not pruned block with number `n`; 0 if none -/
def firstIdx (n : Nat) : List Blk → Nat → Nat
  | [], _ => 0
  | b :: rest, i => if !b.dead && b.num = n then i else firstIdx n rest (i + 1)

/-- id of the first block with number `n` (0 if none) -/
def firstWithNum (t : Tree) (n : Nat) : Nat := firstIdx n t.blocks.toList 0

/-- The best block of `blocktree.leaves.bestBlock()` when no block is a BABE primary block and
    exactly one leaf is deepest (the harness builds only such trees): the deepest block. -/
def best (t : Tree) : Nat := firstWithNum t (maxNum t)

/-- `BestBlockNumber()` -/
def bestNum (t : Tree) : Nat := numOf t (best t)

/-- the `k`-th ancestor of `h` -/
def upN (t : Tree) (h : Nat) : Nat → Nat
  | 0 => h
  | k + 1 => parentOf t (upN t h k)

/-- `GetHashByNumber(n)`: the block with number `n` on the chain of the best block (from the
    block tree, or from the database below the finalised head: the same block) -/
def hashByNumber (t : Tree) (n : Nat) : Option Nat :=
  if n > bestNum t then none else some (upN t (best t) (bestNum t - n))

/-- `SetFinalisedHash` of the block with number `fin` of the best chain: that block becomes the
    root of the block tree, its ancestors live in the database only, and `blocktree.Prune` drops
    every block that is neither an ancestor nor a descendant of it -/
def finalise (t : Tree) (fin : Nat) : Tree :=
  let f := upN t (best t) (bestNum t - fin)
  let keep (i : Nat) (b : Blk) : Bool :=
    (b.num ≤ fin && upN t f (fin - b.num) = i) || (fin ≤ b.num && upN t i (b.num - fin) = f)
  ⟨(t.blocks.toList.zipIdx.map (fun (b, i) => if keep i b then b else { b with dead := true })).toArray,
   fin⟩

/-- children of `h` in insertion order (`node.children`) -/
def children (t : Tree) (h : Nat) : List Nat :=
  (List.range t.size).filter (fun i => i ≠ 0 ∧ known t i ∧ parentOf t i = h)

/-- blocks with number `n` in depth-first order, children in insertion order -/
def levelAt (t : Tree) : Nat → List Nat
  | 0 => [0]
  | n + 1 => (levelAt t n).flatMap (children t)

/-- `GetAllBlocksAtNumber(n)`: `node.hashesAtNumber` from the root of the block tree (nothing
    below the finalised head, nothing above the deepest leaf) -/
def hashesAtNumber (t : Tree) (n : Nat) : List Nat :=
  if n > bestNum t then [] else if n < t.fin then [] else levelAt t n

/-- `IsDescendantOf(a, d)`; `none` = error (a hash that is not known) -/
def isDescendantOf (t : Tree) (a d : Nat) : Option Bool :=
  if a = d then some true
  else if !known t a || !known t d then none
  else some (numOf t a ≤ numOf t d && upN t d (numOf t d - numOf t a) = a)

/-- `[upN d (k-1), …, upN d 0]` -/
def pathUp (t : Tree) (d : Nat) : Nat → List Nat
  | 0 => []
  | k + 1 => upN t d k :: pathUp t d k

/-- `BlockState.Range(a, d)`; `none` = error.  Whether the blocks come from the database
    (`retrieveRangeFromDatabase`), the block tree (`blocktree.Range`) or both (`retrieveRange`),
    the walk goes up from `d` for `num d - num a` steps and fails unless it ends on `a`
    (`ErrStartHashMismatch` / `ErrStartNotAncestorOfEnd`, the latter since the `fix:` commit in
    lib/blocktree) -/
def range (t : Tree) (a d : Nat) : Option (List Nat) :=
  if a = d then some [a]
  else if d = 0 then none            -- genesis is in the database, `a` is not below it
  else if !known t d then none
  else if !known t a then none
  else if numOf t a > numOf t d then none
  else if upN t d (numOf t d - numOf t a) ≠ a then none
  else some (a :: pathUp t d (numOf t d - numOf t a))

/-! ## Stored block data (which optional fields exist is decided by the harness per block id) -/

/-- the harness deletes the stored body of every finalised block with `id % 7 = 3` -/
def hasBody (t : Tree) (id : Nat) : Bool := !(numOf t id ≤ t.fin && id % 7 = 3)
def hasReceipt (id : Nat) : Bool := id % 3 ≠ 0
def hasMessageQueue (id : Nat) : Bool := id % 4 ≠ 1
def hasJustification (id : Nat) : Bool := id % 5 ≠ 2

/-- one `types.BlockData` of a response: the block and the bit mask of its non-nil fields -/
structure BData where
  id : Nat
  present : Nat
deriving DecidableEq, Repr

def bit (c : Bool) (v : Nat) : Nat := if c then v else 0

/-- `getBlockData(hash, requestedData)` -/
def getBlockData (t : Tree) (h mask : Nat) : BData :=
  let k := known t h
  ⟨h, bit (mask &&& 1 = 1 && k) 1
    + bit ((mask &&& 2) >>> 1 = 1 && k && hasBody t h) 2
    + bit ((mask &&& 4) >>> 2 = 1 && k && hasReceipt h) 4
    + bit ((mask &&& 8) >>> 3 = 1 && k && hasMessageQueue h) 8
    + bit ((mask &&& 16) >>> 4 = 1 && k && hasJustification h) 16⟩

/-! ## Serving -/

inductive Err
  | invalid | dir | tooHigh | noStart | noEnd | noDesc | range | other
deriving DecidableEq, Repr

inductive From
  | num (n : Nat)
  | hash (h : Nat)
deriving DecidableEq, Repr

structure Request where
  from_ : From
  dir : Nat            -- 0 ascending, 1 descending, anything else is invalid
  max : Option Nat
  mask : Nat
deriving DecidableEq, Repr

/-- `max` after "determine maximum response size" -/
def effMax (m : Option Nat) : Nat :=
  match m with
  | some x => if x < maxBlocks then x else maxBlocks
  | none => maxBlocks

/-- `getBlockDataByNumber` -/
def getBlockDataByNumber (t : Tree) (n mask : Nat) : Except Err BData :=
  match hashByNumber t n with
  | none => .error .other
  | some h => .ok (getBlockData t h mask)

/-- `handleAscendingByNumber`: numbers `start, start+1, …` (`cnt` of them) -/
def ascByNumber (t : Tree) (mask : Nat) : (cnt start : Nat) → Except Err (List BData)
  | 0, _ => .ok []
  | cnt + 1, start =>
    match getBlockDataByNumber t start mask with
    | .error e => .error e
    | .ok b =>
      match ascByNumber t mask cnt (start + 1) with
      | .error e => .error e
      | .ok bs => .ok (b :: bs)

/-- `handleDescendingByNumber`: numbers `start, start-1, …` (`cnt` of them) -/
def descByNumber (t : Tree) (mask : Nat) : (cnt start : Nat) → Except Err (List BData)
  | 0, _ => .ok []
  | cnt + 1, start =>
    match getBlockDataByNumber t start mask with
    | .error e => .error e
    | .ok b =>
      match descByNumber t mask cnt (start - 1) with
      | .error e => .error e
      | .ok bs => .ok (b :: bs)

/-- `checkOrGetDescendantHash(ancestor, nil, n)` -/
def checkOrGetDescendantHash (t : Tree) (ancestor n : Nat) : Except Err Nat :=
  match hashByNumber t n with
  | none => .error .other
  | some hash =>
    match isDescendantOf t ancestor hash with
    | none => .error .other
    | some true => .ok hash
    | some false =>
      match (hashesAtNumber t n).find? (fun h => isDescendantOf t ancestor h = some true) with
      | some h => .ok h
      | none => .error .noDesc

/-- `handleChainByHash(ancestor, descendant, max, requestedData, direction)` -/
def chainByHash (t : Tree) (ancestor descendant max mask : Nat) (descending : Bool) :
    Except Err (List BData) :=
  match range t ancestor descendant with
  | none => .error .range
  | some sub =>
    let sub := if sub.length > max then
        (if descending then sub.drop (sub.length - max) else sub.take max) else sub
    let data := sub.map (fun h => getBlockData t h mask)
    .ok (if descending then data.reverse else data)

/-- `handleAscendingRequest` -/
def handleAscending (t : Tree) (r : Request) : Except Err (List BData) :=
  let max := effMax r.max
  let bestN := bestNum t
  match r.from_ with
  | .hash h =>
    if !known t h then .error .noStart
    else
      let startNumber := numOf t h
      let endNumber := (startNumber + max + W - 1) % W
      let endNumber := if endNumber > bestN then bestN else endNumber
      match checkOrGetDescendantHash t h endNumber with
      | .error e => .error e
      | .ok eh => chainByHash t h eh max r.mask false
  | .num n =>
    let startBlock := if n = 0 then 1 else n
    if bestN < startBlock then .error .tooHigh
    else
      let endNumber := (startBlock + max + W - 1) % W
      let endNumber := if endNumber > bestN then bestN else endNumber
      -- make([]*types.BlockData, (end-start)+1); for i := 0; start+i <= end; i++
      ascByNumber t r.mask (endNumber + 1 - startBlock) startBlock

/-- `handleDescendingRequest` -/
def handleDescending (t : Tree) (r : Request) : Except Err (List BData) :=
  let max := effMax r.max
  match r.from_ with
  | .hash h =>
    if !known t h then .error .noStart
    else
      let startNumber := numOf t h
      let endNumber := if startNumber > max then startNumber - max + 1 else 1
      match hashByNumber t endNumber with
      | none => .error .noEnd
      | some eh => chainByHash t eh h max r.mask true
  | .num n =>
    let bestN := bestNum t
    let startNumber := if bestN < n then bestN else n
    let endNumber := if startNumber > max then startNumber - max + 1 else 1
    -- make(.., (start-end)+1); for i := 0; start-i >= end; i++
    descByNumber t r.mask (startNumber + 1 - endNumber) startNumber

/-- the `switch req.Direction` of `CreateBlockResponse` -/
def dispatch (t : Tree) (r : Request) : Except Err (List BData) :=
  if r.dir = 0 then handleAscending t r
  else if r.dir = 1 then handleDescending t r
  else .error .dir

/-- `CreateBlockResponse` on a fresh service (the same-request counter is at 0) -/
def serve (t : Tree) (r : Request) : Except Err (List BData) :=
  if r.mask = 0 then .error .invalid else dispatch t r

/-! ## The same-request limiter of `CreateBlockResponse` -/

/-- `maxNumberOfSameRequestPerPeer` -/
def maxSame : Nat := 2

/-- capacity of `seenBlockSyncRequests` (`lrucache.NewLRUCache(100)` in `NewSyncService`) -/
def seenCap : Nat := 100

/-- what `common.Blake2bHash(peer ‖ req.Encode())` depends on: the peer and the protobuf
    fields (a number above 2^32-1 is clamped by `FromBlock.Encode`, a nil `Max` is sent as 0) -/
structure ReqKey where
  peer : Nat
  mask : Nat
  byHash : Bool
  start : Nat
  dir : Nat
  max : Nat
deriving DecidableEq, Repr

def reqKey (peer : Nat) (r : Request) : ReqKey :=
  match r.from_ with
  | .num n => ⟨peer, r.mask, false, if n > 4294967295 then 4294967295 else n, r.dir, r.max.getD 0⟩
  | .hash h => ⟨peer, r.mask, true, h, r.dir, r.max.getD 0⟩

/-- `lrucache.LRUCache`: entries, most recently used first -/
abbrev Cache := List (ReqKey × Nat)

/-- `LRUCache.Get`: the value (0 if absent); a hit moves the entry to the front -/
def lruGet (c : Cache) (k : ReqKey) : Nat × Cache :=
  match c.find? (fun e => e.1 = k) with
  | some e => (e.2, e :: c.filter (fun e => e.1 ≠ k))
  | none => (0, c)

/-- `LRUCache.Put` -/
def lruPut (cap : Nat) (c : Cache) (k : ReqKey) (v : Nat) : Cache :=
  if c.any (fun e => e.1 = k) then (k, v) :: c.filter (fun e => e.1 ≠ k)
  else
    -- full: drop the least recently used entry (the back of the list)
    let c := if c.length ≥ cap then c.dropLast else c
    (k, v) :: c

inductive Outcome
  | refused                                   -- errMaxNumberOfSameRequest, the peer is reported
  | answered (r : Except Err (List BData))

/-- one call of `CreateBlockResponse(peer, r)` on a service whose cache is `c` -/
def request (t : Tree) (c : Cache) (peer : Nat) (r : Request) : Cache × Outcome :=
  if r.mask = 0 then (c, .answered (.error .invalid))
  else
    let k := reqKey peer r
    let (n, c) := lruGet c k
    if n ≥ maxSame then (c, .refused)
    else (lruPut seenCap c k (n + 1), .answered (dispatch t r))

end Gossamer.C31
