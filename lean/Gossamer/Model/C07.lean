/-
C07 — trie node encoding round-trips and decoding is robust.
The codecs themselves are in `Gossamer.Lib.TrieCodec` (shared with the other trie properties); this
file adds what is specific to C07: the canonical printing of outcomes (the observable compared with
the Go harness), the expected decoded form `view` of an encoded node, and well-formedness.
Core Lean only.
-/
import Gossamer.Lib.TrieCodec
namespace Gossamer.C07
open Gossamer Gossamer.TrieCodec

/-! ### observables -/

def errStr : Err → String
  | .eof => "err-eof"
  | .variantUnknown => "err-variant"
  | .keyTooBig => "err-keybig"
  | .mismatch => "err-mismatch"
  | .value => "err-value"
  | .hashShort => "err-hashshort"
  | .bitmap => "err-bitmap"
  | .child => "err-child"
  | .unsupported => "err-unsupported"
  | .emptyChild => "err-emptychild"
  | .other => "err-other"

def outStr {α : Type} (f : α → String) : Out α → String
  | .ok a => f a
  | .err e => errStr e
  | .panic => "panic"
  | .fuel => "fuel"

def optHex : Option Bytes → String
  | none => "nil"
  | some b => hex b

def b01 (b : Bool) : String := if b then "1" else "0"

def byteHex (b : UInt8) : String := String.ofList (hexOfByte b)

def variantStr (v : Variant) : String := byteHex v.bits ++ "/" ++ byteHex v.mask

mutual
def dumpNode : Node → String
  | .empty => "E"
  | .stub mv => "S" ++ hex mv
  | .leaf pk v h => "L:" ++ hex pk ++ ":" ++ optHex v ++ ":" ++ b01 h
  | .branch pk v h kids =>
    "B:" ++ hex pk ++ ":" ++ optHex v ++ ":" ++ b01 h ++ ":" ++ toString (descendants.descKids kids)
      ++ ":(" ++ dumpKids kids ++ ")"
def dumpKids : List Node → String
  | [] => ""
  | [c] => dumpNode c
  | c :: cs => dumpNode c ++ "," ++ dumpKids cs
end

def tvalueStr : TValue → String
  | .inline b => "I" ++ hex b
  | .hashed h => "H" ++ hex h

def tchildStr : TChild → String
  | .none => "_"
  | .inline b => "I" ++ hex b
  | .hashed h => "H" ++ hex h

def dumpTNode : TNode → String
  | .empty => "E"
  | .leaf d o v => "L:" ++ hex d ++ "/" ++ toString o ++ ":" ++ tvalueStr v
  | .branch d o v kids =>
    "B:" ++ hex d ++ "/" ++ toString o ++ ":" ++ (match v with | none => "nil" | some x => tvalueStr x)
      ++ ":(" ++ ",".intercalate (kids.map tchildStr) ++ ")"

/-! ### what an encoded node must decode to -/

def viewValue (H : Bytes → Bytes) (v : Option Bytes) (hashed : Bool) : Option Bytes :=
  v.map fun x => if hashed then H x else x

mutual
/-- the decoded form of a node: a hashed value is replaced by its hash, a child whose encoding has
    32 bytes or more by a stub carrying the hash of that encoding, other children recursively -/
def view (H : Bytes → Bytes) : Node → Node
  | .empty => .empty
  | .stub mv => .stub mv
  | .leaf pk v hashed => .leaf pk (viewValue H v hashed) hashed
  | .branch pk v hashed kids => .branch pk (viewValue H v hashed) (hashed && v.isSome) (viewKids H kids)
def viewKids (H : Bytes → Bytes) : List Node → List Node
  | [] => []
  | c :: cs =>
    (match c with
     | .empty => .empty
     | .stub mv => .stub mv
     | _ => if (encode H c).length < 32 then view H c else .stub (H (encode H c))) :: viewKids H cs
end

def Nibbles (pk : Bytes) : Prop := ∀ x ∈ pk, x < 16

def ValueOK (v : Option Bytes) : Prop := ∀ x, v = some x → x.length < 1073741824

mutual
/-- well-formed node: nibble partial key of at most 65535 nibbles, leaves carry a value, values
    shorter than 2^30 bytes, branches have 16 child slots, a child known only by its Merkle value
    carries a 32-byte hash -/
def WF : Node → Prop
  | .empty => True
  | .stub _ => False
  | .leaf pk v _ => Nibbles pk ∧ pk.length ≤ 65535 ∧ v.isSome ∧ ValueOK v
  | .branch pk v _ kids => Nibbles pk ∧ pk.length ≤ 65535 ∧ ValueOK v ∧ kids.length = 16 ∧ WFKids kids
def WFKids : List Node → Prop
  | [] => True
  | c :: cs =>
    (match c with
     | .empty => True
     | .stub mv => mv.length = 32
     | _ => WF c) ∧ WFKids cs
end

/-- a triedb hash: 32 bytes; with `quirk` (the code as it is, see finding `triedb-zero-hash`) also
    not all zero -/
def HashOK (quirk : Bool) (h : Bytes) : Prop := h.length = 32 ∧ (quirk = true → h.all (· == 0) = false)

def TValueOK (quirk : Bool) : TValue → Prop
  | .inline b => b.length < 1073741824
  | .hashed h => HashOK quirk h

def TChildOK (quirk : Bool) : TChild → Prop
  | .none => True
  | .inline b => b.length < 32
  | .hashed h => HashOK quirk h

/-- well-formed triedb node: packed key with offset 0/1 and at most 65535 nibbles, 16 child slots,
    inlined children shorter than 32 bytes, hashes of 32 bytes -/
def TWF (quirk : Bool) : TNode → Prop
  | .empty => True
  | .leaf d o v => o < 2 ∧ (d = [] → o = 0) ∧ 2 * d.length - o ≤ 65535 ∧ TValueOK quirk v
  | .branch d o v kids =>
    o < 2 ∧ (d = [] → o = 0) ∧ 2 * d.length - o ≤ 65535 ∧ (∀ x, v = some x → TValueOK quirk x) ∧
      kids.length = 16 ∧ ∀ c ∈ kids, TChildOK quirk c

end Gossamer.C07
