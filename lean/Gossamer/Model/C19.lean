/-
Model of GRANDPA justification verification (after the `fix:` commits recorded in
harness/C19/findings.json: cmp.Compare comparator in ValidateCommit, summed duplicate weights in
NewVoterSet, unsigned bounds check in the vote graph):

  pkg/finality-grandpa/voter_set.go   NewVoterSet, threshold, Get/Contains
  pkg/finality-grandpa/lib.go         ValidateCommit
  pkg/finality-grandpa/round.go       voteTracker.addVote, importPrecommit, PrecommitGHOST
  pkg/finality-grandpa/context.go     roundContext.Weight / weight
  pkg/finality-grandpa/vote_graph.go  FindGHOST(nil, cond)   (abstracted, see below)
  internal/client/consensus/grandpa/justification.go
                                      ancestryChain.Ancestry, verifyWithVoterSet,
                                      DecodeGrandpaJustificationVerifyFinalizes, Verify

Blocks, voter ids and signatures are natural-number tokens (the harness maps them to hash strings,
ed25519 keys and signature bytes).  Block numbers are naturals already reduced modulo 2^w by the
driver (w = 32 or 64, the instantiating integer type); the only arithmetic on them is the number
of the GHOST block, computed modulo 2^w.

Abstraction (stated as an assumption in config.json): the vote graph is replaced by cumulative
weights over the ancestry relation.  `FindGHOST` walks from the round base to a child block whose
cumulative weight reaches the threshold, as long as there is one.  When two children qualify (only
possible when equivocators weigh more than total - threshold) the Go code takes the first in the
vote graph's internal child order; the model takes the one chosen by the parameter `pick`, and all
theorems quantify over every `pick`.  The vote graph indexes ancestor edges by block number, so
the model is faithful only when the numbers of the set members' precommits agree with the chain
(`consistent`), which holds for votes over a real block tree.
-/
namespace Gossamer.C19

/-! ## voter set -/

abbrev IdW := Nat × Nat

def U64 : Nat := 2 ^ 64

/-- btree `Get`/`Set` in `NewVoterSet` (repaired): insert, or ADD to the stored weight.
    The list is kept sorted by id like the btree scan. -/
def addWeight : List IdW → Nat → Nat → List IdW
  | [], id, w => [(id, w)]
  | (i, x) :: rest, id, w =>
    if id = i then (i, x + w) :: rest
    else if id < i then (id, w) :: (i, x) :: rest
    else (i, x) :: addWeight rest id w

/-- `threshold(totalWeight)`: `total - (total-1)/3` in uint64 (total ≥ 1 at the call) -/
def threshold (total : Nat) : Nat := total - (total - 1) / 3

structure VoterSet where
  voters : List IdW
  total : Nat
  threshold : Nat
deriving DecidableEq, Repr

/-- the loop of `NewVoterSet`: zero weights skipped, `checkedAdd` overflow ⇒ nil -/
def nvsLoop : List IdW → Nat → List IdW → Option (Nat × List IdW)
  | [], tot, m => some (tot, m)
  | (id, w) :: rest, tot, m =>
    if w = 0 then nvsLoop rest tot m
    else if tot + w ≥ U64 then none
    else nvsLoop rest (tot + w) (addWeight m id w)

def newVoterSet (ws : List IdW) : Option VoterSet :=
  match nvsLoop ws 0 [] with
  | none => none
  | some (tot, m) => if m.isEmpty then none else some ⟨m, tot, threshold tot⟩

def lookupW : List IdW → Nat → Option Nat
  | [], _ => none
  | (i, x) :: rest, id => if i = id then some x else lookupW rest id

def VoterSet.weight? (vs : VoterSet) (id : Nat) : Option Nat := lookupW vs.voters id
def VoterSet.contains (vs : VoterSet) (id : Nat) : Bool := (vs.weight? id).isSome

/-! ## chain: `Chain.Ancestry` / `IsEqualOrDescendantOf` -/

/-- `par[i]` is the parent of block `i` (a root when `par[i] ≥ i`); the parent of a root is the
    pseudo block `par.length` (zero hash), which never has a header.  `has` lists the blocks whose
    header is available (`ancestryChain.ancestry` keys); a step from `b` to its parent needs `b ∈ has`. -/
structure Chain where
  par : List Nat
  has : List Nat
deriving Repr

def Chain.step (c : Chain) (b : Nat) : Option Nat :=
  if b < c.par.length ∧ b ∈ c.has then
    let p := c.par.getD b b
    some (if p < b then p else c.par.length)
  else none

/-- blocks from `cur` (inclusive) up to `base` (exclusive); `none` when `base` is not reached -/
def pathAux (c : Chain) (base : Nat) : Nat → Nat → Option (List Nat)
  | 0, cur => if cur = base then some [] else none
  | f + 1, cur =>
    if cur = base then some []
    else match c.step cur with
      | none => none
      | some p => (pathAux c base f p).map (cur :: ·)

def pathTo (c : Chain) (base blk : Nat) : Option (List Nat) := pathAux c base (c.par.length + 1) blk

/-- `IsEqualOrDescendantOf(base, blk)` -/
def desc (c : Chain) (base blk : Nat) : Bool := (pathTo c base blk).isSome

/-! ## precommits, vote tracker -/

structure Pre where
  blk : Nat
  num : Nat
  id : Nat
  sig : Nat
  sigok : Bool
deriving DecidableEq, Repr

structure Tracked where
  id : Nat
  first : Pre
  second : Option Pre
deriving DecidableEq, Repr

inductive AddRes | fresh | dup | equiv | ignored
deriving DecidableEq, Repr

/-- `voteMultiplicity.Contains`: vote (hash, number) and signature equal -/
def sameVS (a b : Pre) : Bool := a.blk == b.blk && a.num == b.num && a.sig == b.sig

/-- `voteTracker.addVote` -/
def addVote : List Tracked → Pre → List Tracked × AddRes
  | [], p => ([⟨p.id, p, none⟩], .fresh)
  | t :: ts, p =>
    if t.id = p.id then
      match t.second with
      | none => if sameVS t.first p then (t :: ts, .dup) else (⟨t.id, t.first, some p⟩ :: ts, .equiv)
      | some s => if sameVS t.first p || sameVS s p then (t :: ts, .dup) else (t :: ts, .ignored)
    else
      let r := addVote ts p
      (t :: r.1, r.2)

/-- state of the import loop of `ValidateCommit` -/
structure Imp where
  tr : List Tracked
  curW : Nat
  nDup : Nat
  nEq : Nat
  eqd : List Nat
  stop : Bool
deriving Repr

def Imp.init : Imp := ⟨[], 0, 0, 0, [], false⟩

/-- one iteration: `round.importPrecommit` + the switch on the import result -/
def importStep (vs : VoterSet) (s : Imp) (p : Pre) : Imp :=
  if s.stop then s else
  match addVote s.tr p with
  | (tr, .fresh) => { s with tr := tr, curW := s.curW + (vs.weight? p.id).getD 0 }
  | (tr, .dup) => { s with tr := tr, nDup := s.nDup + 1 }
  | (tr, .equiv) =>
    if p.id ∈ s.eqd then { s with tr := tr, nEq := s.nEq + 1, stop := true }
    else { s with tr := tr, nEq := s.nEq + 1, eqd := p.id :: s.eqd }
  | (tr, .ignored) => { s with tr := tr }

/-! ## weights and GHOST -/

def findT : List Tracked → Nat → Option Tracked
  | [], _ => none
  | t :: ts, id => if t.id = id then some t else findT ts id

/-- is voter `id`'s precommit bit set in the cumulative vote of block `b` (merged with the
    equivocation bitfield): equivocators count everywhere, others where their vote descends `b` -/
def bit (c : Chain) (tr : List Tracked) (id b : Nat) : Bool :=
  match findT tr id with
  | none => false
  | some t => t.second.isSome || desc c b t.first.blk

/-- `roundContext.Weight(node, PrecommitPhase)` -/
def weightOn (vs : VoterSet) (c : Chain) (tr : List Tracked) (b : Nat) : Nat :=
  (vs.voters.map (fun iw => if bit c tr iw.1 b then iw.2 else 0)).sum

/-- the child of `cur` on the way to `t` -/
def childToward (c : Chain) (cur t : Nat) : Option Nat :=
  match pathTo c cur t with
  | some p => p.getLast?
  | none => none

def dedup : List Nat → List Nat
  | [] => []
  | x :: xs => if x ∈ xs then dedup xs else x :: dedup xs

/-- child blocks of `cur` that lie on the way to some vote in the graph -/
def children (c : Chain) (tr : List Tracked) (cur : Nat) : List Nat :=
  dedup (tr.filterMap (fun t => childToward c cur t.first.blk))

def condChildren (vs : VoterSet) (c : Chain) (tr : List Tracked) (cur : Nat) : List Nat :=
  (children c tr cur).filter (fun x => decide (vs.threshold ≤ weightOn vs c tr x))

/-- `FindGHOST` from `cur`: follow qualifying children while there is one -/
def walk (pick : List Nat → Nat) (vs : VoterSet) (c : Chain) (tr : List Tracked) : Nat → Nat → Nat
  | 0, cur => cur
  | f + 1, cur =>
    match condChildren vs c tr cur with
    | [] => cur
    | x :: xs => walk pick vs c tr f (pick (x :: xs))

/-- first precommit with the lowest number (stable sort, element 0) -/
def minPre : List Pre → Option Pre
  | [] => none
  | p :: ps => match minPre ps with
    | none => some p
    | some q => if q.num < p.num then some q else some p

structure VCRes where
  valid : Bool
  nPre : Nat
  nDup : Nat
  nEq : Nat
  nInv : Nat
deriving DecidableEq, Repr

def dist (c : Chain) (base b : Nat) : Nat := ((pathTo c base b).getD []).length

/-- `PrecommitGHOST() == commit target` -/
def ghostIsTarget (pick : List Nat → Nat) (w : Nat) (vs : VoterSet) (c : Chain) (s : Imp)
    (base : Pre) (tBlk tNum : Nat) : Bool :=
  if vs.threshold ≤ s.curW ∧ vs.threshold ≤ weightOn vs c s.tr base.blk then
    let g := walk pick vs c s.tr (c.par.length + 1) base.blk
    g == tBlk && (base.num + dist c base.blk g) % 2 ^ w == tNum
  else false

/-- `ValidateCommit` -/
def validateCommit (pick : List Nat → Nat) (w : Nat) (vs : VoterSet) (c : Chain)
    (tBlk tNum : Nat) (pcs : List Pre) : VCRes :=
  let vp := pcs.filter (fun p => vs.contains p.id)
  let nInv := pcs.length - vp.length
  match minPre vp with
  | none => ⟨false, pcs.length, 0, 0, nInv⟩
  | some base =>
    if !(vp.all (fun p => desc c base.blk p.blk)) then ⟨false, pcs.length, 0, 0, nInv⟩
    else
      let s := vp.foldl (importStep vs) Imp.init
      if s.stop then ⟨false, pcs.length, s.nDup, s.nEq, nInv⟩
      else ⟨ghostIsTarget pick w vs c s base tBlk tNum, pcs.length, s.nDup, s.nEq, nInv⟩

/-- the modelling assumption on numbers.  The vote graph only ever sees the round base and the FIRST
    precommit of every voter (a second, different precommit only marks the voter as an equivocator,
    later ones are ignored), so exactly these must carry the number of their block counted from the
    base.  The numbers of the other precommits matter through the choice of the base and through the
    identity of a vote (hash, number), both of which the model follows literally. -/
def consistent (w : Nat) (vs : VoterSet) (c : Chain) (pcs : List Pre) : Bool :=
  let vp := pcs.filter (fun p => vs.contains p.id)
  match minPre vp with
  | none => true
  | some base =>
    !(vp.all (fun p => desc c base.blk p.blk)) ||
    ((vp.foldl (fun tr p => (addVote tr p).1) []).all
      (fun t => t.first.num == (base.num + dist c base.blk t.first.blk) % 2 ^ w))

/-! ## verifyWithVoterSet -/

inductive JRes | ok | errTarget | errCommit | errSig | errAncestry | errUnused
deriving DecidableEq, Repr

/-- `minPrecommit`: the LAST precommit with the lowest number (`<=` replaces) -/
def lastMin : Option Pre → List Pre → Option Pre
  | m, [] => m
  | none, p :: ps => lastMin (some p) ps
  | some m, p :: ps => if p.num ≤ m.num then lastMin (some p) ps else lastMin (some m) ps

/-- the loop over all precommits: signature, route to the base, visited hashes -/
def visitLoop (c : Chain) (base : Nat) : List Pre → List Nat → Except JRes (List Nat)
  | [], vis => .ok vis
  | p :: ps, vis =>
    if !p.sigok then .error .errSig
    else if base = p.blk then visitLoop c base ps vis
    else match pathTo c base p.blk with
      | none => .error .errAncestry
      | some path => visitLoop c base ps (path ++ vis)

def sameSet (a b : List Nat) : Bool := a.all (· ∈ b) && b.all (· ∈ a)

/-- `verifyWithVoterSet` -/
def verifyWithVoterSet (pick : List Nat → Nat) (w : Nat) (vs : VoterSet) (c : Chain)
    (tBlk tNum : Nat) (pcs : List Pre) : JRes :=
  if !(validateCommit pick w vs c tBlk tNum pcs).valid then .errCommit
  else match lastMin none pcs with
    | none => .errCommit  -- unreachable: a valid commit has precommits (Go panics here)
    | some mp =>
      match visitLoop c mp.blk pcs [] with
      | .error e => e
      | .ok vis => if sameSet vis c.has then .ok else .errUnused

/-- `DecodeGrandpaJustificationVerifyFinalizes` after a successful decode -/
def verifyFinalizes (pick : List Nat → Nat) (w : Nat) (vs : VoterSet) (c : Chain)
    (tBlk tNum ftBlk ftNum : Nat) (pcs : List Pre) : JRes :=
  if tBlk ≠ ftBlk ∨ tNum ≠ ftNum then .errTarget
  else verifyWithVoterSet pick w vs c tBlk tNum pcs

/-- the verdict the property talks about -/
def accept (pick : List Nat → Nat) (w : Nat) (vs : VoterSet) (c : Chain)
    (tBlk tNum : Nat) (pcs : List Pre) : Bool :=
  verifyWithVoterSet pick w vs c tBlk tNum pcs == .ok

/-! ## the two extreme resolutions of an ambiguous GHOST step (used by the driver) -/

/-- prefer the child on the way to `t` -/
def pickToward (c : Chain) (t : Nat) (cs : List Nat) : Nat :=
  match cs.find? (fun x => desc c x t) with
  | some x => x
  | none => cs.headD 0

/-- avoid the child on the way to `t` whenever another one qualifies -/
def pickAway (c : Chain) (t : Nat) (cs : List Nat) : Nat :=
  match cs.find? (fun x => !desc c x t) with
  | some x => x
  | none => cs.headD 0

/-! ## call sites: lib/grandpa `Service.VerifyBlockJustification`, dot/sync `processBlockData` -/

/-- what `VerifyBlockJustification` reads of GrandpaState: the change block of every set id (list
    index = set id), the current set id, and the stored authorities (key, stored weight) of every set
    id (`none`: nothing stored) -/
structure GState where
  change : List Nat
  cur : Nat
  auths : List (Option (List IdW))
deriving Repr

def GState.changeAt (g : GState) (i : Nat) : Option Nat := g.change[i]?

def GState.authsAt (g : GState) (i : Nat) : Option (List IdW) :=
  match g.auths[i]? with
  | some (some a) => some a
  | _ => none

/-- the loop of `GrandpaState.GetSetIDByBlockNumber` (`curr` counts down; `none` = error) -/
def setIdLoop (g : GState) (n : Nat) : Nat → Nat → Option Nat
  | 0, _ => some 0
  | fuel + 1, curr =>
    match g.changeAt (curr + 1) with
    | none => if curr = 0 then some 0 else setIdLoop g n fuel (curr - 1)
    | some upper =>
      match g.changeAt curr with
      | none => none
      | some lower =>
        if n ≤ upper ∧ lower < n then some curr
        else if upper < n then some (curr + 1)
        else if curr = 0 then some 0
        else setIdLoop g n fuel (curr - 1)

def setIdAt (g : GState) (n : Nat) : Option Nat := setIdLoop g n (g.cur + 2) g.cur

/-- the voter list `VerifyBlockJustification` builds: every stored authority with weight 1 -/
def unitWs (a : List IdW) : List IdW := a.map (fun iw => (iw.1, 1))

inductive WRes
  | errSetId | errAuths | errVoters
  | inner (j : JRes)
  | ok (set : Nat)
deriving DecidableEq, Repr

/-- a signature made for set `sset` verifies only under that set id -/
def resign (sset sid : Nat) (pcs : List Pre) : List Pre :=
  pcs.map (fun p => { p with sigok := p.sigok && sset == sid })

/-- `Service.VerifyBlockJustification(hash, number, encoded)` after a successful decode.
    `weights = false`: as the code does, unit weights; `true`: the stored weights (specification). -/
def wrapper (pick : List Nat → Nat) (weights : Bool) (g : GState) (ibBlk ibNum sset : Nat) (c : Chain)
    (tBlk tNum : Nat) (pcs : List Pre) : WRes :=
  match setIdAt g ibNum with
  | none => .errSetId
  | some sid =>
    match g.authsAt sid with
    | none => .errAuths
    | some a =>
      match newVoterSet (if weights then a else unitWs a) with
      | none => .errVoters
      | some vs =>
        match verifyFinalizes pick 32 vs c tBlk tNum ibBlk (ibNum % 2 ^ 32) (resign sset sid pcs) with
        | .ok => .ok sid
        | e => .inner e

/-- `blockImporter.processBlockData` for block data with a header and no body: what reaches the block
    state.  `gadget` is the result of `VerifyBlockJustification` (round, set id) or an error. -/
inductive ImpRes
  | errVerify | errFinalise | errJustification
  | finalised (round set : Nat)
  | stored
deriving DecidableEq, Repr

def importData (hasJust : Bool) (gadget : Option (Nat × Nat)) (finFails justFails : Bool) : ImpRes :=
  if hasJust then
    match gadget with
    | none => .errVerify
    | some (r, s) =>
      if finFails then .errFinalise
      else if justFails then .errJustification
      else .finalised r s
  else .stored

end Gossamer.C19
