/-
Model of dot/peerset/peerstate.go and dot/peerset/peerset.go (one set, index 0), after the `fix:`
commits recorded in harness/C30/findings.json.  Every definition mirrors one Go function; the
actor loop of handler.go is not modelled: an `Op` is one call of the synchronous method the actor
would call.

Peers are `Fin n` (the correspondence run uses n = 5).

Two things of the Go code are not functions of the state and are therefore explicit inputs:

* Go map iteration order (`for p := range ps.reservedNode` in allocSlots, the `>=` tie-break of
  `highestNotConnectedPeer` over `ps.nodes`).  Every operation carries a `hint`, the list of
  messages the implementation emitted; at each order-dependent choice the model follows the hint
  when the hinted choice is one the code could have taken, otherwise it takes the lowest peer.
  The theorems quantify over ALL hints, i.e. over every resolution of the iteration order.
* the wall clock.  `updateTime` only looks at whole elapsed seconds (`pending`, set by `adv`) and
  at `lastConnected.Add(1h).Second() >= now.Second()`, a comparison of seconds-of-the-minute; its
  outcome for nodes that existed before the current operation is the oracle `fmask` (set by
  `adv`); a node whose `lastConnected` was written during the current operation (`fresh`) is
  never forgettable.
-/
namespace Gossamer.C30

/-! ### Reputation arithmetic (peerset.go) -/

def minI32 : Int := -2147483648
def maxI32 : Int := 2147483647

/-- `BannedThresholdValue Reputation = 82 * (math.MinInt32 / 100)` (Go constant arithmetic truncates) -/
def bannedThreshold : Int := 82 * (Int.tdiv minI32 100)
/-- `disconnectReputationChange` -/
def disconnectChange : Int := -256

/-- `Reputation.add` exactly as written, on wrapping 32-bit integers -/
def add32 (r num : Int32) : Int32 :=
  if num > 0 then
    if r > Int32.maxValue - num then Int32.maxValue else r + num
  else if r < Int32.minValue - num then Int32.minValue
  else r + num

/-- `Reputation.sub` exactly as written, on wrapping 32-bit integers -/
def sub32 (r num : Int32) : Int32 :=
  if num < 0 then
    if r > Int32.maxValue + num then Int32.maxValue else r - num
  else if r < Int32.minValue + num then Int32.minValue
  else r - num

/-- `reputationTick` on wrapping 32-bit integers (`/` is Go's truncated division) -/
def tick32 (r : Int32) : Int32 :=
  let d := r / 50
  let d := if d = 0 ∧ r < 0 then -1 else if d = 0 ∧ r > 0 then 1 else d
  sub32 r d

/-- `Reputation.add` on mathematical integers (same branches, no wrap-around) -/
def addI (r num : Int) : Int :=
  if num > 0 then
    if r > maxI32 - num then maxI32 else r + num
  else if r < minI32 - num then minI32
  else r + num

def subI (r num : Int) : Int :=
  if num < 0 then
    if r > maxI32 + num then maxI32 else r - num
  else if r < minI32 + num then minI32
  else r - num

/-- Go `r / 50` on integers (truncation toward zero) -/
def goDiv50 (r : Int) : Int := if 0 ≤ r then r / 50 else -((-r) / 50)

def tickI (r : Int) : Int :=
  let d := goDiv50 r
  let d := if d = 0 ∧ r < 0 then -1 else if d = 0 ∧ r > 0 then 1 else d
  subI r d

/-! ### PeersState (peerstate.go) -/

inductive MS where
  | notMember | ingoing | outgoing | notConnected
deriving DecidableEq, Repr

structure Node where
  st : MS
  rep : Int
  /-- `lastConnected` was written during the current operation -/
  fresh : Bool
deriving DecidableEq, Repr

inductive Msg (n : Nat) where
  | connect (p : Fin n) | drop (p : Fin n) | accept (p : Fin n) | reject (p : Fin n)
deriving DecidableEq, Repr

/-- `PeerSet` + `PeersState` + `Info` of set 0 -/
structure PS (n : Nat) where
  nodes : Fin n → Option Node
  numIn : Nat
  numOut : Nat
  maxIn : Nat
  maxOut : Nat
  noSlot : Fin n → Bool
  reserved : Fin n → Bool
  ro : Bool
  /-- whole seconds elapsed since `latestTimeUpdate` -/
  pending : Nat
  /-- clock oracle: `lastConnected.Add(1h).Second() < now.Second()` for nodes not written in this op -/
  fmask : Fin n → Bool

variable {n : Nat}

def upd {α : Type} (f : Fin n → α) (p : Fin n) (v : α) : Fin n → α := fun q => if q = p then v else f q

/-- uint32 `x--` / `x++` -/
def dec32 (x : Nat) : Nat := if x = 0 then 4294967295 else x - 1
def inc32 (x : Nat) : Nat := if x = 4294967295 then 0 else x + 1

def newPS (maxIn maxOut : Nat) (ro : Bool) : PS n :=
  { nodes := fun _ => none, numIn := 0, numOut := 0, maxIn := maxIn, maxOut := maxOut,
    noSlot := fun _ => false, reserved := fun _ => false, ro := ro, pending := 0,
    fmask := fun _ => false }

def MS.connected : MS → Bool
  | .ingoing => true
  | .outgoing => true
  | _ => false

inductive Status where
  | connected | notConn | unknown
deriving DecidableEq, Repr

/-- `peerStatus` -/
def status (s : PS n) (p : Fin n) : Status :=
  match s.nodes p with
  | none => .unknown
  | some nd =>
    match nd.st with
    | .ingoing => .connected
    | .outgoing => .connected
    | .notConnected => .notConn
    | .notMember => .unknown

def setNode (s : PS n) (p : Fin n) (v : Option Node) : PS n := { s with nodes := upd s.nodes p v }

/-- `insertPeer` (no effect on a node that exists, whatever its state) -/
def insertPeer (s : PS n) (p : Fin n) : PS n :=
  match s.nodes p with
  | some _ => s
  | none => setNode s p (some ⟨.notConnected, 0, true⟩)

/-- `forgetPeer`; `true` = error -/
def forgetPeer (s : PS n) (p : Fin n) : PS n × Bool :=
  match s.nodes p with
  | none => (s, true)
  | some nd =>
    if nd.rep ≠ 0 then (setNode s p (some { nd with st := .notMember }), false)
    else (setNode s p none, false)

/-- `PeersState.addReputation` (repaired: inserts the unknown peer in place); returns the new reputation -/
def addReputation (s : PS n) (p : Fin n) (v : Int) : PS n × Int :=
  let nd : Node := match s.nodes p with
    | some nd => nd
    | none => ⟨.notConnected, 0, true⟩
  (setNode s p (some { nd with rep := addI nd.rep v }), addI nd.rep v)

/-- `addNoSlotNode` -/
def addNoSlotNode (s : PS n) (p : Fin n) : PS n × Bool :=
  if s.noSlot p then (s, false)
  else
    let s1 := { s with noSlot := upd s.noSlot p true }
    match s.nodes p with
    | none => (s1, true)
    | some nd =>
      match nd.st with
      | .ingoing => ({ s1 with numIn := dec32 s1.numIn }, false)
      | .outgoing => ({ s1 with numOut := dec32 s1.numOut }, false)
      | _ => (s1, false)

/-- `removeNoSlotNode` -/
def removeNoSlotNode (s : PS n) (p : Fin n) : PS n × Bool :=
  if !s.noSlot p then (s, false)
  else
    let s1 := { s with noSlot := upd s.noSlot p false }
    match s.nodes p with
    | none => (s1, true)
    | some nd =>
      match nd.st with
      | .ingoing => ({ s1 with numIn := inc32 s1.numIn }, false)
      | .outgoing => ({ s1 with numOut := inc32 s1.numOut }, false)
      | _ => (s1, false)

/-- `PeersState.disconnect` -/
def psDisconnect (s : PS n) (p : Fin n) : PS n × Bool :=
  match s.nodes p with
  | none => (s, true)
  | some nd =>
    let nd' : Node := { nd with st := .notConnected, fresh := true }
    if s.noSlot p then (setNode s p (some nd'), false)
    else
      match nd.st with
      | .ingoing => (setNode { s with numIn := dec32 s.numIn } p (some nd'), false)
      | .outgoing => (setNode { s with numOut := dec32 s.numOut } p (some nd'), false)
      | _ => (s, true)

/-- `tryOutgoing` -/
def tryOutgoing (s : PS n) (p : Fin n) : PS n × Bool :=
  if !(decide (s.numOut < s.maxOut)) && !s.noSlot p then (s, true)
  else
    match s.nodes p with
    | none => (s, true)
    | some nd =>
      let s1 := setNode s p (some { nd with st := .outgoing })
      if s.noSlot p then (s1, false) else ({ s1 with numOut := inc32 s1.numOut }, false)

/-- `tryAcceptIncoming` -/
def tryAcceptIncoming (s : PS n) (p : Fin n) : PS n × Bool :=
  if !(decide (s.numIn < s.maxIn)) && !s.noSlot p then (s, true)
  else
    match s.nodes p with
    | none => (s, true)
    | some nd =>
      let s1 := setNode s p (some { nd with st := .ingoing })
      if s.noSlot p then (s1, false) else ({ s1 with numIn := inc32 s1.numIn }, false)

/-! ### updateTime -/

/-- one elapsed second for one node: `updateReputationByTick`, then, when the reputation reached 0
    and the node is not connected, `forgetPeer` if the clock comparison allows it -/
def tickOpt (fm : Bool) : Option Node → Option Node
  | none => none
  | some nd =>
    let r := tickI nd.rep
    if r = 0 ∧ nd.st = .notConnected ∧ fm = true ∧ nd.fresh = false then none
    else some { nd with rep := r }

def tickAll (s : PS n) : PS n := { s with nodes := fun p => tickOpt (s.fmask p) (s.nodes p) }

def tickN : Nat → PS n → PS n
  | 0, s => s
  | k + 1, s => tickN k (tickAll s)

/-- `updateTime`: `pending` whole seconds have elapsed since the last call -/
def updateTime (s : PS n) : PS n := { tickN s.pending s with pending := 0 }

/-! ### PeerSet (peerset.go): operations emit messages -/

structure Ctx (n : Nat) where
  s : PS n
  out : List (Msg n)
  hint : List (Msg n)

def emit (c : Ctx n) (s : PS n) (m : Msg n) : Ctx n :=
  { s := s, out := c.out ++ [m], hint := c.hint.tail }

def withS (c : Ctx n) (s : PS n) : Ctx n := { c with s := s }

def allPeers (n : Nat) : List (Fin n) := List.finRange n

def repOf (s : PS n) (p : Fin n) : Int :=
  match s.nodes p with
  | some nd => nd.rep
  | none => 0

def isNotConn (s : PS n) (p : Fin n) : Bool :=
  match s.nodes p with
  | some nd => nd.st == .notConnected
  | none => false

/-- nodes `highestNotConnectedPeer` looks at -/
def cands (s : PS n) : List (Fin n) := (allPeers n).filter (isNotConn s)

def maxRep (s : PS n) : List (Fin n) → Int
  | [] => minI32
  | p :: l => if repOf s p ≥ maxRep s l then repOf s p else maxRep s l

/-- candidates with the highest reputation: any of them can be the last one in map order -/
def tied (s : PS n) : List (Fin n) := (cands s).filter (fun p => repOf s p == maxRep s (cands s))

def hintConnect (h : List (Msg n)) : Option (Fin n) :=
  match h with
  | .connect q :: _ => some q
  | _ => none

/-- resolution of a map-order-dependent choice among `l` -/
def pick (l : List (Fin n)) (h : List (Msg n)) : Option (Fin n) :=
  match hintConnect h with
  | some q => if q ∈ l then some q else l.head?
  | none => l.head?

/-- second loop of `allocSlots` -/
def whileLoop : Nat → Ctx n → Ctx n
  | 0, c => c
  | fuel + 1, c =>
    if !(decide (c.s.numOut < c.s.maxOut)) then c
    else
      match pick (tied c.s) c.hint with
      | none => c
      | some p =>
        if repOf c.s p < bannedThreshold then c
        else
          let r := tryOutgoing c.s p
          if r.2 then c else whileLoop fuel (emit c r.1 (.connect p))

/-- reserved peers the first loop of `allocSlots` does something with -/
def resActive (s : PS n) : List (Fin n) :=
  (allPeers n).filter (fun p => s.reserved p && (status s p != .connected))

def isBannedNode (s : PS n) (p : Fin n) : Bool :=
  match s.nodes p with
  | some nd => decide (nd.rep < bannedThreshold)
  | none => false

def resGood (s : PS n) : List (Fin n) := (resActive s).filter (fun p => !isBannedNode s p)
def resBanned (s : PS n) : List (Fin n) := (resActive s).filter (fun p => isBannedNode s p)

/-- first loop of `allocSlots` (`for reservePeer := range ps.reservedNode`): visiting a connected peer
    does nothing, visiting a banned one ends the loop (`break`), any other one is inserted if unknown
    and connected.  `true` = error return of allocSlots -/
def reservedLoop : Nat → Ctx n → Ctx n × Bool
  | 0, c => (c, false)
  | fuel + 1, c =>
    let good := resGood c.s
    let choice : Option (Fin n) :=
      match hintConnect c.hint with
      | some q => if q ∈ good then some q else none
      | none => none
    let choice : Option (Fin n) :=
      match choice with
      | some q => some q
      | none => if (resBanned c.s).isEmpty then good.head? else none
    match choice with
    | none => (c, false)
    | some p =>
      let s1 := if status c.s p = .unknown then insertPeer c.s p else c.s
      let r := tryOutgoing s1 p
      if r.2 then (withS c s1, true) else reservedLoop fuel (emit c r.1 (.connect p))

/-- `allocSlots` -/
def allocSlots (c : Ctx n) : Ctx n × Bool :=
  let c1 := withS c (updateTime c.s)
  let r := reservedLoop (n + 1) c1
  if r.2 then (r.1, true)
  else if r.1.s.ro then (r.1, false)
  else (whileLoop (n + 1) r.1, false)

/-- `addReservedPeers` -/
def addReservedPeers : List (Fin n) → Ctx n → Ctx n × Bool
  | [], c => (c, false)
  | p :: rest, c =>
    if c.s.reserved p then (c, false)
    else
      let s1 := insertPeer c.s p
      let s2 := { s1 with reserved := upd s1.reserved p true }
      let r := addNoSlotNode s2 p
      if r.2 then (withS c r.1, true)
      else
        let a := allocSlots (withS c r.1)
        if a.2 then a else addReservedPeers rest a.1

/-- `removeReservedPeers` -/
def removeReservedPeers : List (Fin n) → Ctx n → Ctx n × Bool
  | [], c => (c, false)
  | p :: rest, c =>
    if !c.s.reserved p then (c, false)
    else
      let s1 := { c.s with reserved := upd c.s.reserved p false }
      let r := removeNoSlotNode s1 p
      if r.2 then (withS c r.1, true)
      else if !r.1.ro then (withS c r.1, false)
      else if status r.1 p = .connected then
        let d := psDisconnect r.1 p
        if d.2 then (withS c d.1, true)
        else removeReservedPeers rest (emit c d.1 (.drop p))
      else removeReservedPeers rest (withS c r.1)

/-- `addPeer` -/
def addPeer : List (Fin n) → Ctx n → Ctx n × Bool
  | [], c => (c, false)
  | p :: rest, c =>
    if status c.s p ≠ .unknown then (c, false)
    else
      let a := allocSlots (withS c (insertPeer c.s p))
      if a.2 then a else addPeer rest a.1

/-- `removePeer` -/
def removePeer : List (Fin n) → Ctx n → Ctx n × Bool
  | [], c => (c, false)
  | p :: rest, c =>
    if c.s.reserved p then (c, false)
    else
      match status c.s p with
      | .connected =>
        let c1 := emit c c.s (.drop p)
        let d := psDisconnect c.s p
        if d.2 then (withS c1 d.1, true)
        else
          let f := forgetPeer d.1 p
          if f.2 then (withS c1 f.1, true) else removePeer rest (withS c1 f.1)
      | .notConn =>
        let f := forgetPeer c.s p
        if f.2 then (withS c f.1, true) else removePeer rest (withS c f.1)
      | .unknown => removePeer rest c

/-- loop of `reportPeer` (repaired: `continue` instead of `return nil`) -/
def reportLoop (v : Int) : List (Fin n) → Ctx n → Ctx n × Bool
  | [], c => (c, false)
  | p :: rest, c =>
    let a := addReputation c.s p v
    if a.2 ≥ bannedThreshold then reportLoop v rest (withS c a.1)
    else if status a.1 p ≠ .connected then reportLoop v rest (withS c a.1)
    else
      let d := psDisconnect a.1 p
      if d.2 then (withS c d.1, true)
      else
        let al := allocSlots (emit c d.1 (.drop p))
        if al.2 then al else reportLoop v rest al.1

def reportPeer (v : Int) (ps : List (Fin n)) (c : Ctx n) : Ctx n × Bool :=
  reportLoop v ps (withS c (updateTime c.s))

/-- `lastConnected[setID] = time.Now()` in `incoming` -/
def touch (s : PS n) (p : Fin n) : PS n :=
  match s.nodes p with
  | some nd => setNode s p (some { nd with fresh := true })
  | none => s

/-- loop of `incoming` -/
def incomingLoop : List (Fin n) → Ctx n → Ctx n
  | [], c => c
  | p :: rest, c =>
    if c.s.ro && !c.s.reserved p then incomingLoop rest (emit c c.s (.reject p))
    else
      match status c.s p with
      | .connected => incomingLoop rest c
      | st =>
        let s1 := if st = .notConn then touch c.s p else insertPeer c.s p
        if repOf s1 p < bannedThreshold then incomingLoop rest (emit c s1 (.reject p))
        else
          let r := tryAcceptIncoming s1 p
          if r.2 then incomingLoop rest (emit c r.1 (.reject p))
          else incomingLoop rest (emit c r.1 (.accept p))

def incoming (ps : List (Fin n)) (c : Ctx n) : Ctx n × Bool :=
  (incomingLoop ps (withS c (updateTime c.s)), false)

/-- `n.addReputation(disconnectReputationChange)` on an existing node -/
def nodeAddRep (s : PS n) (p : Fin n) (v : Int) : PS n :=
  match s.nodes p with
  | some nd => setNode s p (some { nd with rep := addI nd.rep v })
  | none => s

/-- loop of `PeerSet.disconnect`; `refused` = reason RefusedDrop (the actor only uses UnknownDrop):
    the peer is then also removed with `removePeer` -/
def disconnectLoop (refused : Bool) : List (Fin n) → Ctx n → Ctx n × Bool
  | [], c => allocSlots c
  | p :: rest, c =>
    if status c.s p ≠ .connected then (c, true)
    else
      let s1 := nodeAddRep c.s p disconnectChange
      let d := psDisconnect s1 p
      if d.2 then (withS c d.1, true)
      else
        let c1 := emit c d.1 (.drop p)
        if refused then
          let r := removePeer [p] c1
          if r.2 then r else disconnectLoop refused rest r.1
        else disconnectLoop refused rest c1

def disconnect (refused : Bool) (ps : List (Fin n)) (c : Ctx n) : Ctx n × Bool :=
  disconnectLoop refused ps (withS c (updateTime c.s))

/-- `toInsert` of `setReservedPeer`: the listed peers that are not reserved, in list order -/
def toInsert (s : PS n) (ps : List (Fin n)) : List (Fin n) := ps.filter (fun p => !s.reserved p)

/-- `toRemove` of `setReservedPeer`: the reserved peers that are not listed.  Go collects them with
    `for pid := range ps.reservedNode`, i.e. in map order: `ord` is that order (peers of `ord` first,
    the others after them). -/
def toRemove (s : PS n) (ps ord : List (Fin n)) : List (Fin n) :=
  let want := fun p => s.reserved p && !(decide (p ∈ ps))
  (ord.eraseDups.filter want) ++ ((allPeers n).filter (fun p => want p && !(decide (p ∈ ord))))

/-- `setReservedPeer` -/
def setReservedPeer (ps ord : List (Fin n)) (c : Ctx n) : Ctx n × Bool :=
  let ins := toInsert c.s ps
  let rem := toRemove c.s ps ord
  let a := addReservedPeers ins c
  if a.2 then a else removeReservedPeers rem a.1

/-- `Reputation`-descending insertion (a peer goes before the peers that are not better) -/
def insertDesc (s : PS n) (p : Fin n) : List (Fin n) → List (Fin n)
  | [] => [p]
  | q :: l => if repOf s p ≥ repOf s q then p :: q :: l else q :: insertDesc s p l

/-- connected (ingoing or outgoing) -/
def conn (s : PS n) (p : Fin n) : Bool :=
  match s.nodes p with
  | some nd => nd.st.connected
  | none => false

/-- `PeersState.sortedPeers`: the connected peers by descending reputation (Go's `sort.Slice` leaves the
    order of equal reputations to the map order; here ties are in ascending peer order) -/
def sortedPeers (s : PS n) : List (Fin n) :=
  ((allPeers n).filter (conn s)).foldr (insertDesc s) []

/-! ### Operations of the actor -/

inductive Op (n : Nat) where
  | addReserved (ps : List (Fin n))
  | removeReserved (ps : List (Fin n))
  | addPeer (ps : List (Fin n))
  | removePeer (ps : List (Fin n))
  | report (v : Int) (ps : List (Fin n))
  | incoming (ps : List (Fin n))
  | disconnect (ps : List (Fin n))
  /-- `PeerSet.disconnect` with RefusedDrop (not reachable through the actor) -/
  | disconnectRefused (ps : List (Fin n))
  /-- `setReservedPeer`; `ord` is the map order in which the peers to remove are collected -/
  | setReserved (ps : List (Fin n)) (ord : List (Fin n))
  /-- the `sortedPeers` query: no effect on the state -/
  | sortedPeers
  /-- the `setReservedOnly` action: "not implemented yet", an error and no effect -/
  | setReservedOnly
  /-- the periodic ticker: `allocSlots(0)` -/
  | tick
  /-- `k` more seconds pass; `mask` lists the nodes whose forget comparison is true -/
  | adv (k : Nat) (mask : List (Fin n))

/-- at the start of an operation no `lastConnected` has been written by it -/
def clearFresh (s : PS n) : PS n :=
  { s with nodes := fun p => (s.nodes p).map (fun nd => { nd with fresh := false }) }

def applyOp (op : Op n) (c : Ctx n) : Ctx n × Bool :=
  match op with
  | .addReserved ps => addReservedPeers ps c
  | .removeReserved ps => removeReservedPeers ps c
  | .addPeer ps => addPeer ps c
  | .removePeer ps => removePeer ps c
  | .report v ps => reportPeer v ps c
  | .incoming ps => incoming ps c
  | .disconnect ps => disconnect false ps c
  | .disconnectRefused ps => disconnect true ps c
  | .setReserved ps ord => setReservedPeer ps ord c
  | .sortedPeers => (c, false)
  | .setReservedOnly => (c, true)
  | .tick => allocSlots c
  | .adv k mask => (withS c { c.s with pending := c.s.pending + k, fmask := fun p => decide (p ∈ mask) }, false)

/-- one operation with its hint: new state, emitted messages, error flag -/
def step (s : PS n) (op : Op n) (hint : List (Msg n)) : PS n × List (Msg n) × Bool :=
  let r := applyOp op { s := clearFresh s, out := [], hint := hint }
  (r.1.s, r.1.out, r.2)

/-- a history: operations with the hints that resolve map order -/
def run (s : PS n) : List (Op n × List (Msg n)) → PS n
  | [] => s
  | (op, h) :: rest => run (step s op h).1 rest

/-! ### The actor of handler.go

`Handler.AddReservedPeer` … only append an `action` to `actionQueue`; the goroutine
`listenActionAllocSlots` takes the actions one at a time and calls the synchronous method, or, when
the ticker fires, `allocSlots` for every set.  Events are the API calls, the actor serving the head
of the queue, and the ticker firing, in any interleaving. -/

inductive Action (n : Nat) where
  | addReservedPeer (ps : List (Fin n))
  | removeReservedPeer (ps : List (Fin n))
  | setReservedPeers (ps : List (Fin n))
  | setReservedOnly
  | reportPeer (v : Int) (ps : List (Fin n))
  | addToPeerSet (ps : List (Fin n))
  | removeFromPeerSet (ps : List (Fin n))
  | incoming (ps : List (Fin n))
  | sortedPeers
  | disconnect (ps : List (Fin n))

/-- the `switch act.actionCall` of `listenActionAllocSlots` (`ord`: map order used by setReservedPeer) -/
def Action.toOp (ord : List (Fin n)) : Action n → Op n
  | .addReservedPeer ps => .addReserved ps
  | .removeReservedPeer ps => .removeReserved ps
  | .setReservedPeers ps => .setReserved ps ord
  | .setReservedOnly => .setReservedOnly
  | .reportPeer v ps => .report v ps
  | .addToPeerSet ps => .addPeer ps
  | .removeFromPeerSet ps => .removePeer ps
  | .incoming ps => .incoming ps
  | .sortedPeers => .sortedPeers
  | .disconnect ps => .disconnect ps

/-- a served action or a ticker firing, with the operation that was applied and its hint -/
structure LogEntry (n : Nat) where
  act : Option (Action n)
  op : Op n
  hint : List (Msg n)

structure HS (n : Nat) where
  ps : PS n
  /-- `actionQueue` -/
  queue : List (Action n)
  /-- everything sent on `resultMsgCh` -/
  out : List (Msg n)
  /-- replies sent on the `resultPeersCh` of the `sortedPeers` actions -/
  replies : List (List (Fin n))
  /-- ghost: what the actor did, in order -/
  log : List (LogEntry n)

inductive Ev (n : Nat) where
  /-- a public API method of `Handler` -/
  | call (a : Action n)
  /-- the actor receives from `actionQueue` -/
  | serve (hint : List (Msg n)) (ord : List (Fin n))
  /-- the ticker fires -/
  | fire (hint : List (Msg n))

def hstep (h : HS n) : Ev n → HS n
  | .call a => { h with queue := h.queue ++ [a] }
  | .serve hint ord =>
    match h.queue with
    | [] => h
    | a :: q =>
      let r := step h.ps (a.toOp ord) hint
      { ps := r.1, queue := q, out := h.out ++ r.2.1,
        replies := match a with
          | .sortedPeers => h.replies ++ [sortedPeers h.ps]
          | _ => h.replies,
        log := h.log ++ [⟨some a, a.toOp ord, hint⟩] }
  | .fire hint =>
    let r := step h.ps .tick hint
    { h with ps := r.1, out := h.out ++ r.2.1, log := h.log ++ [⟨none, .tick, hint⟩] }

def hrun (h : HS n) (evs : List (Ev n)) : HS n := evs.foldl hstep h

def newHS (maxIn maxOut : Nat) (ro : Bool) : HS n :=
  { ps := newPS maxIn maxOut ro, queue := [], out := [], replies := [], log := [] }

/-- the API calls of a schedule, in order -/
def callsOf : List (Ev n) → List (Action n)
  | [] => []
  | .call a :: rest => a :: callsOf rest
  | _ :: rest => callsOf rest

/-! ### Observables shared with the harness -/

def isInSlot (s : PS n) (p : Fin n) : Bool :=
  match s.nodes p with
  | some nd => nd.st == .ingoing && !s.noSlot p
  | none => false

def isOutSlot (s : PS n) (p : Fin n) : Bool :=
  match s.nodes p with
  | some nd => nd.st == .outgoing && !s.noSlot p
  | none => false

def cntIn (s : PS n) : Nat := (allPeers n).countP (isInSlot s)
def cntOut (s : PS n) : Nat := (allPeers n).countP (isOutSlot s)

def bannedConnected (s : PS n) (p : Fin n) : Bool :=
  match s.nodes p with
  | some nd => nd.st.connected && decide (nd.rep < bannedThreshold)
  | none => false

end Gossamer.C30
