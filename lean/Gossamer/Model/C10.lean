/-
C10: the host functions `ext_trie_blake2_256_root_version_1/2` and
`ext_trie_blake2_256_ordered_root_version_1/2` (lib/runtime/wazero/imports.go).

  version  →  `trie.ParseVersion(uint8(version))`
  data     →  `scale.Unmarshal` into `trie.Entries` (`[]struct{Key, Value []byte}`) / `[][]byte`
  entries  →  `TrieLayout.Root(NewEmptyTrie(), entries)`: Put one after the other, `Hash()`
  result   →  32 bytes written to freshly allocated guest memory, or the 0 pointer on any failure.

The SCALE decoder is the Go one (Model/C11: `decodeUintV` = `decodeUint`; `decodeBytes` keeps its
single `Read` on the `bytes.Buffer`, so a byte string with at least one but fewer bytes than
declared is zero-filled — C12 finding `bytes-short-read`; the flag `zf` records it).  Trailing
input after the decoded value is ignored, as `scale.Unmarshal` does.  The trie and its root are
`C01.layoutRoot` (Lib/TrieMem + TrieSpec.encodeNode); the hash function is a parameter.
The allocator (C28) is not modelled: the observable is the 32 bytes at the returned pointer.
Core Lean only.
-/
import Gossamer.Base.Proto
import Gossamer.Model.C01
import Gossamer.Model.C11
namespace Gossamer.C10
open Gossamer Gossamer.Trie

/-! ### version -/

/-- `trie.ParseVersion(uint8(version))` for the `uint32` argument of the host function:
    `"V%d"` of the low byte, compared case-insensitively with `v0` / `v1` -/
def parseVersion (version : Nat) : Option Ver :=
  if version % 256 = 0 then some Ver.v0
  else if version % 256 = 1 then some Ver.v1
  else none

/-! ### the Go SCALE decoder on the two types the host functions use -/

/-- decoder result: value, rest of the buffer, "some byte string was zero-filled" -/
abbrev Dec (α : Type) := Option (α × Bytes × Bool)

/-- `decodeBytes`: `decodeLength`, the `math.MaxUint32` guard, `make([]byte, length)`, ONE `Read` -/
def decBytesGo (bs : Bytes) : Dec Bytes :=
  match C11.decodeUintV bs with
  | none => none
  | some (len, r) =>
    if len > 4294967295 then none
    else if len = 0 then some ([], r, false)
    else if r.isEmpty then none                                   -- io.EOF
    else some (r.take len ++ List.replicate (len - r.length) 0, r.drop len, decide (r.length < len))

/-- `decodeStruct` of `trie.Entry{Key, Value []byte}`: the fields in declaration order -/
def decEntryGo (bs : Bytes) : Dec (Bytes × Bytes) :=
  match decBytesGo bs with
  | none => none
  | some (k, r, z1) =>
    match decBytesGo r with
    | none => none
    | some (v, r', z2) => some ((k, v), r', z1 || z2)

/-- the element loop of `decodeSlice` (`for i := uint(0); i < l; i++`) -/
def decSeqGo {α : Type} (dec : Bytes → Dec α) : Nat → Bytes → Dec (List α)
  | 0, bs => some ([], bs, false)
  | n + 1, bs =>
    match dec bs with
    | none => none
    | some (x, r, z1) =>
      match decSeqGo dec n r with
      | none => none
      | some (xs, r', z2) => some (x :: xs, r', z1 || z2)

/-- `decodeSlice`: `decodeLength` then the elements -/
def decSliceGo {α : Type} (dec : Bytes → Dec α) (bs : Bytes) : Dec (List α) :=
  match C11.decodeUintV bs with
  | none => none
  | some (l, r) => decSeqGo dec l r

/-- `scale.Unmarshal(data, &entries)` with `entries trie.Entries` -/
def unmarshalEntries (data : Bytes) : Option (List (Bytes × Bytes) × Bool) :=
  (decSliceGo decEntryGo data).map (fun r => (r.1, r.2.2))

/-- `scale.Unmarshal(data, &values)` with `values [][]byte` -/
def unmarshalValues (data : Bytes) : Option (List Bytes × Bool) :=
  (decSliceGo decBytesGo data).map (fun r => (r.1, r.2.2))

/-! ### the canonical (strict) decoder: what "decodable" means for the property -/

def decBytesStrict (bs : Bytes) : Option (Bytes × Bytes) :=
  match C11.decodeUintV bs with
  | none => none
  | some (len, r) =>
    if len > 4294967295 then none
    else if r.length < len then none
    else some (r.take len, r.drop len)

def decEntryStrict (bs : Bytes) : Option ((Bytes × Bytes) × Bytes) :=
  match decBytesStrict bs with
  | none => none
  | some (k, r) =>
    match decBytesStrict r with
    | none => none
    | some (v, r') => some ((k, v), r')

def decSeqStrict {α : Type} (dec : Bytes → Option (α × Bytes)) : Nat → Bytes → Option (List α × Bytes)
  | 0, bs => some ([], bs)
  | n + 1, bs =>
    match dec bs with
    | none => none
    | some (x, r) =>
      match decSeqStrict dec n r with
      | none => none
      | some (xs, r') => some (x :: xs, r')

def decSliceStrict {α : Type} (dec : Bytes → Option (α × Bytes)) (bs : Bytes) : Option (List α × Bytes) :=
  match C11.decodeUintV bs with
  | none => none
  | some (l, r) => decSeqStrict dec l r

def strictEntries (data : Bytes) : Option (List (Bytes × Bytes)) :=
  (decSliceStrict decEntryStrict data).map (·.1)

def strictValues (data : Bytes) : Option (List Bytes) :=
  (decSliceStrict decBytesStrict data).map (·.1)

/-! ### the encoder (the guest side: what a runtime writes before calling) -/

/-- SCALE of a byte slice / of a sequence length: `scaleBytes` of `TrieSpec` uses `compactNat` -/
def encEntries (es : List (Bytes × Bytes)) : Bytes :=
  compactNat es.length ++ es.flatMap (fun e => scaleBytes e.1 ++ scaleBytes e.2)

def encValues (vs : List Bytes) : Bytes :=
  compactNat vs.length ++ vs.flatMap scaleBytes

/-! ### the host functions -/

/-- `for i, value := range values { key := scale.Marshal(big.NewInt(int64(i))) … }` -/
def indexed : Nat → List Bytes → List (Bytes × Bytes)
  | _, [] => []
  | i, v :: r => (C11.encodeBigInt i, v) :: indexed (i + 1) r

/-- `ext_trie_blake2_256_root_version_2`: `none` = the 0 pointer -/
def hostRoot (H : Bytes → Bytes) (version : Nat) (data : Bytes) : Option Bytes :=
  match parseVersion version with
  | none => none
  | some ver =>
    match unmarshalEntries data with
    | none => none
    | some (entries, _) => some (C01.layoutRoot ver H entries)

/-- `ext_trie_blake2_256_ordered_root_version_2` -/
def hostOrderedRoot (H : Bytes → Bytes) (version : Nat) (data : Bytes) : Option Bytes :=
  match parseVersion version with
  | none => none
  | some ver =>
    match unmarshalValues data with
    | none => none
    | some (values, _) => some (C01.layoutRoot ver H (indexed 0 values))

/-- the `_version_1` functions call the `_version_2` ones with version 0 -/
def hostRoot1 (H : Bytes → Bytes) (data : Bytes) : Option Bytes := hostRoot H 0 data
def hostOrderedRoot1 (H : Bytes → Bytes) (data : Bytes) : Option Bytes := hostOrderedRoot H 0 data

/-! ### what the property demands -/

/-- later duplicates win: the map a list of entries denotes (`C01.upsertAll []` in Props) -/
def lastWins (kvs : List (Bytes × Bytes)) : Entries :=
  kvs.foldl (fun es e => OMap.upsert e.1 e.2 es) []

/-- entries `(compact(i), value_i)` -/
def indexedSpec : Nat → List Bytes → List (Bytes × Bytes)
  | _, [] => []
  | i, v :: r => (compactNat i, v) :: indexedSpec (i + 1) r

/-- failure for an unknown version (as a `u8`; the i32 argument is taken modulo 256 as the code
    does — values ≥ 256 are outside the property) or undecodable input; else the spec root -/
def specRootFn (H : Bytes → Bytes) (version : Nat) (data : Bytes) : Option Bytes :=
  match parseVersion version, strictEntries data with
  | some ver, some es => some (specRoot ver H (lastWins es))
  | _, _ => none

def specOrderedRootFn (H : Bytes → Bytes) (version : Nat) (data : Bytes) : Option Bytes :=
  match parseVersion version, strictValues data with
  | some ver, some vs => some (specRoot ver H (lastWins (indexedSpec 0 vs)))
  | _, _ => none

/-! ### harness language -/

inductive Fn where
  | root1 | root2 | oroot1 | oroot2
deriving DecidableEq, Repr

def parseNat? (s : String) : Option Nat :=
  if s.isEmpty then none
  else s.toList.foldl (fun acc c => acc.bind (fun n =>
    if '0' ≤ c ∧ c ≤ '9' then some (n * 10 + (c.toNat - 48)) else none)) (some 0)

def parseFn? (s : String) : Option Fn :=
  if s = "root1" then some .root1 else if s = "root2" then some .root2
  else if s = "oroot1" then some .oroot1 else if s = "oroot2" then some .oroot2 else none

/-- `<fn> <version> <data>` -/
def parseLine (line : String) : Option (Fn × Nat × Bytes) :=
  match words line with
  | [f, v, d] =>
    match parseFn? f, parseNat? v, ofHex? d with
    | some f, some v, some d => if v < 4294967296 then some (f, v, d) else none
    | _, _, _ => none
  | _ => none

def runModel (H : Bytes → Bytes) : Fn → Nat → Bytes → Option Bytes
  | .root1, _, d => hostRoot1 H d
  | .root2, v, d => hostRoot H v d
  | .oroot1, _, d => hostOrderedRoot1 H d
  | .oroot2, v, d => hostOrderedRoot H v d

def runSpec (H : Bytes → Bytes) : Fn → Nat → Bytes → Option Bytes
  | .root1, _, d => specRootFn H 0 d
  | .root2, v, d => specRootFn H v d
  | .oroot1, _, d => specOrderedRootFn H 0 d
  | .oroot2, v, d => specOrderedRootFn H v d

/-- the Go decoder zero-filled a truncated byte string (region of `bytes-short-read`) -/
def shortRead : Fn → Bytes → Bool
  | .root1, d => match unmarshalEntries d with | some (_, z) => z | none => false
  | .root2, d => match unmarshalEntries d with | some (_, z) => z | none => false
  | .oroot1, d => match unmarshalValues d with | some (_, z) => z | none => false
  | .oroot2, d => match unmarshalValues d with | some (_, z) => z | none => false

def showOut : Option Bytes → String
  | none => "fail"
  | some r => "ok " ++ hex r

end Gossamer.C10
