/-
C09  Storage append follows Substrate semantics.

Model of `storageAppend` (lib/runtime/wazero/imports.go) as the bytes it `Put`s for a given stored
value `cur` (`[]` = absent or empty: the code tests `len(currentValue) == 0`) and item.

  * empty                     : `scale.Marshal(big.NewInt(1)) ++ item`
  * `scale.Unmarshal(cur, &currentLength /* *big.Int */)` fails : `[4] ++ item`
    (`decodeBigInt` = `C11.decBigV`: after the C11/C12 `fix:` commits it reads with `io.ReadFull`
    and rejects every non-canonical form, so truncated and non-canonical prefixes land here)
  * the length does not fit `Compact<u32>` or is `u32::MAX` (guard added by the C09 `fix:` commit):
    `[4] ++ item`
  * otherwise `Marshal(len+1) ++ cur[len(Marshal(len)):] ++ item`  — the code RE-ENCODES the decoded
    length to learn how many prefix bytes to drop; it does not ask the decoder how much it consumed.

Spec: `substrateAppend`, Substrate's `StorageAppend::append` (sp-state-machine):
`Compact::<u32>::decode` on the value, `len.checked_add(1)`, else a fresh one-element vector.
-/
import Gossamer.Model.C11
namespace Gossamer.C09
open Gossamer Gossamer.Scale

/-- `math.MaxUint32` -/
def maxU32 : Nat := 4294967295

/-- the value `storageAppend` stores -/
def storageAppend (cur item : Bytes) : Bytes :=
  if cur.length = 0 then C11.encodeBigInt 1 ++ item
  else
    match C11.decBigV cur with
    | none => 4 :: item
    | some (currentLength, _) =>
      if maxU32 ≤ currentLength then 4 :: item
      else
        let lengthBytes := C11.encodeBigInt currentLength
        let nextLengthBytes := C11.encodeBigInt (currentLength + 1)
        nextLengthBytes ++ cur.drop lengthBytes.length ++ item

/-- `storageAppend` BEFORE the C09 fix (no u32 guard): kept for the counterexample theorems that
    document the repaired defect -/
def storageAppendUnguarded (cur item : Bytes) : Bytes :=
  if cur.length = 0 then C11.encodeBigInt 1 ++ item
  else
    match C11.decBigV cur with
    | none => 4 :: item
    | some (currentLength, _) =>
      C11.encodeBigInt (currentLength + 1) ++ cur.drop (C11.encodeBigInt currentLength).length ++ item

/-- Substrate `StorageAppend::append`: the value starts with a canonical `Compact<u32>` `n` and
    `n + 1` still fits `u32` ⇒ bump the prefix; anything else ⇒ a fresh vector of one item -/
def substrateAppend (cur item : Bytes) : Bytes :=
  match compactDec cur with
  | some (n, rest) =>
    if n + 1 ≤ maxU32 then compactEnc (n + 1) ++ rest ++ item else compactEnc 1 ++ item
  | none => compactEnc 1 ++ item

/-- a run of appends (the value after `ext_storage_append_version_1` was called for every item) -/
def appendAll (cur : Bytes) (items : List Bytes) : Bytes := items.foldl storageAppend cur

/-! ## storageAppend against the layered runtime storage (lib/runtime/storage `TrieState`)

`TrieState` = the state trie plus a stack of transaction layers; `StartTransaction` pushes a
snapshot of the current layer, `RollbackTransaction` drops the top layer, `CommitTransaction`
replaces the parent layer by the top one (the outermost commit writes it into the trie).  Values
are plain byte strings here: a layer never changes unless an operation is applied TO it — what
`storageAppend` must respect although `Get` hands out the layers' internal slices. -/

/-- one view of the storage: key ↦ value (absent = empty) -/
abbrev Store := List (Bytes × Bytes)

def Store.get (s : Store) (k : Bytes) : Bytes :=
  match s with
  | [] => []
  | (k', v) :: rest => if k' = k then v else Store.get rest k

def Store.set (s : Store) (k v : Bytes) : Store := (k, v) :: s

inductive Op
  | app (k item : Bytes)      -- storageAppend(ts, k, item)
  | put (k v : Bytes)         -- ts.Put(k, v)
  | get (k : Bytes)
  | tbegin                    -- StartTransaction
  | rollback                  -- RollbackTransaction
  | commit                    -- CommitTransaction
  | cap (k : Bytes)           -- keep the slice `ts.Get(k)` returned
  | snap                      -- continue on a snapshot of the trie, keep the old trie
deriving Repr, DecidableEq

/-- the stack of views, innermost transaction first, the trie last; `none` = Go panic
    ("no transactions to rollback/commit") -/
def stepS (st : List Store) : Op → Option (List Store)
  | .app k item =>
    match st with
    | top :: rest => some (top.set k (storageAppend (top.get k) item) :: rest)
    | [] => none
  | .put k v =>
    match st with
    | top :: rest => some (top.set k v :: rest)
    | [] => none
  | .tbegin =>
    match st with
    | top :: rest => some (top :: top :: rest)
    | [] => none
  | .rollback =>
    match st with
    | _ :: t2 :: rest => some (t2 :: rest)
    | _ => none
  | .commit =>
    match st with
    | top :: _ :: rest => some (top :: rest)
    | _ => none
  | _ => some st

def runS : List Op → List Store → Option (List Store)
  | [], st => some st
  | op :: ops, st =>
    match stepS st op with
    | none => none
    | some st' => runS ops st'

/-- full harness state: the stack, the values captured by `cap` (as they were), the old trie kept
    by `snap` -/
structure TS where
  stack : List Store
  caps : List (Bytes × Bytes)
  old : Option Store
deriving Repr

def TS.init : TS := ⟨[[]], [], none⟩

def TS.step (t : TS) (op : Op) : Option TS :=
  match stepS t.stack op with
  | none => none
  | some st' =>
    match op with
    | .cap k => some { t with stack := st', caps := (k, (t.stack.headD []).get k) :: t.caps.filter (·.1 ≠ k) }
    | .snap => if t.stack.length = 1 then some { t with stack := st', old := some (t.stack.headD []) } else some t
    | _ => some { t with stack := st' }

end Gossamer.C09
