/-
C09  Storage append follows Substrate semantics.

Model of `storageAppend` (lib/runtime/wazero/imports.go) as the bytes it `Put`s for a given stored
value `cur` (`[]` = absent or empty: the code tests `len(currentValue) == 0`) and item.

  * empty                     : `scale.Marshal(big.NewInt(1)) ++ item`
  * `scale.Unmarshal(cur, &currentLength /* *big.Int */)` fails : `[4] ++ item`
    (`decodeBigInt` = `C11.decBigV`: after the C11/C12 `fix:` commits it reads with `io.ReadFull`
    and rejects every non-canonical form, so truncated and non-canonical prefixes land here)
  * the length does not fit `Compact<u32>` or is `u32::MAX` (guard added by the C09 `fix:` commit):
    `[4] ++ item`
  * otherwise `Marshal(len+1) ++ cur[len(Marshal(len)):] ++ item`  — the code RE-ENCODES the decoded
    length to learn how many prefix bytes to drop; it does not ask the decoder how much it consumed.

Spec: `substrateAppend`, Substrate's `StorageAppend::append` (sp-state-machine):
`Compact::<u32>::decode` on the value, `len.checked_add(1)`, else a fresh one-element vector.
-/
import Gossamer.Model.C11
namespace Gossamer.C09
open Gossamer Gossamer.Scale

/-- `math.MaxUint32` -/
def maxU32 : Nat := 4294967295

/-- the value `storageAppend` stores -/
def storageAppend (cur item : Bytes) : Bytes :=
  if cur.length = 0 then C11.encodeBigInt 1 ++ item
  else
    match C11.decBigV cur with
    | none => 4 :: item
    | some (currentLength, _) =>
      if maxU32 ≤ currentLength then 4 :: item
      else
        let lengthBytes := C11.encodeBigInt currentLength
        let nextLengthBytes := C11.encodeBigInt (currentLength + 1)
        nextLengthBytes ++ cur.drop lengthBytes.length ++ item

/-- `storageAppend` BEFORE the C09 fix (no u32 guard): kept for the counterexample theorems that
    document the repaired defect -/
def storageAppendUnguarded (cur item : Bytes) : Bytes :=
  if cur.length = 0 then C11.encodeBigInt 1 ++ item
  else
    match C11.decBigV cur with
    | none => 4 :: item
    | some (currentLength, _) =>
      C11.encodeBigInt (currentLength + 1) ++ cur.drop (C11.encodeBigInt currentLength).length ++ item

/-- Substrate `StorageAppend::append`: the value starts with a canonical `Compact<u32>` `n` and
    `n + 1` still fits `u32` ⇒ bump the prefix; anything else ⇒ a fresh vector of one item -/
def substrateAppend (cur item : Bytes) : Bytes :=
  match compactDec cur with
  | some (n, rest) =>
    if n + 1 ≤ maxU32 then compactEnc (n + 1) ++ rest ++ item else compactEnc 1 ++ item
  | none => compactEnc 1 ++ item

/-- a run of appends (the value after `ext_storage_append_version_1` was called for every item) -/
def appendAll (cur : Bytes) (items : List Bytes) : Bytes := items.foldl storageAppend cur

end Gossamer.C09
