/-
Model of the BABE lottery arithmetic: lib/babe/crypto.go (CalculateThreshold, checkPrimaryThreshold)
and lib/babe/secondary.go (getSecondarySlotAuthor).  Core Lean only.

The float kernel `p = 1 - math.Pow(1 - float64(C1)/float64(C2), 1/float64(n))` is NOT modelled: the
float64 `p` enters as its IEEE-754 bit pattern.  Everything after it is exact and modelled:
`big.Rat.SetFloat64` (exact dyadic value; nil for Inf/NaN, so `.Num()` panics), `2^128 * num / den`
(big.Int.Div = Euclidean division), saturation, the 16-byte guard, `scale.NewUint128(*big.Int)`.
The guards in front of it are modelled exactly as well (`float64(C1)/float64(C2) > 1`).
The driver additionally checks `p` against the real-number formula by enclosure (`encloses`).
-/
import Gossamer.Base.Bytes
import Gossamer.Model.C13
namespace Gossamer.C25
open Gossamer.C13 (U128)

/-! ### float64 values that the exact part consumes -/

/-- a finite binary64 value: `(-1)^neg * m * 2^up / 2^down` -/
structure Dy where
  neg : Bool
  m : Nat
  up : Nat
  down : Nat
deriving Repr, DecidableEq

/-- decode an IEEE-754 binary64 bit pattern; `none` for Inf/NaN -/
def decodeF64 (bits : Nat) : Option Dy :=
  let neg := bits / 2 ^ 63 % 2 == 1
  let e := bits / 2 ^ 52 % 2 ^ 11
  let f := bits % 2 ^ 52
  if e = 2047 then none
  else if e = 0 then some ⟨neg, f, 0, 1074⟩
  else if e ≤ 1075 then some ⟨neg, 2 ^ 52 + f, 0, 1075 - e⟩
  else some ⟨neg, 2 ^ 52 + f, e - 1075, 0⟩

/-- Go `float64(x)` for an unsigned integer: round to 53 significant bits, ties to even.
    The result is returned as the integer it denotes (no overflow below 2^64). -/
def f64OfNat (x : Nat) : Nat :=
  if x < 2 ^ 53 then x
  else
    let sh := Nat.log2 x - 52
    let q := x / 2 ^ sh
    let r := x % 2 ^ sh
    let half := 2 ^ (sh - 1)
    let q' := if r > half ∨ (r = half ∧ q % 2 = 1) then q + 1 else q
    q' * 2 ^ sh

/-! ### CalculateThreshold -/

inductive Thr where
  | ok (t : U128)
  | errZero      -- ErrThresholdOneIsZero
  | errGt1       -- "invalid C1/C2: greater than 1"
  | err16        -- "threshold must be under or equal to 16 bytes"
  | panic        -- nil *big.Rat dereference when p is Inf/NaN
deriving Repr, DecidableEq

def maxU128 : Nat := 2 ^ 128 - 1

/-- the exact part for a non-negative dyadic `num / 2^k`:
    `thresholdBig = 2^128 * num / 2^k`; `== 2^128` saturates; more than 16 bytes is an error -/
def thresholdOf (num k : Nat) : Thr :=
  let t := 2 ^ 128 * num / 2 ^ k
  if t = 2 ^ 128 then .ok (C13.ofBig maxU128)
  else if t ≥ 2 ^ 128 then .err16
  else .ok (C13.ofBig t)

/-- the exact part on a decoded float (negative values: Euclidean `Div` rounds towards minus
    infinity, `Cmp(shift)` is false, and `Bytes()`/`NewUint128` see the magnitude) -/
def thresholdOfDy (d : Dy) : Thr :=
  if d.neg ∧ d.m ≠ 0 then
    let t := (2 ^ 128 * d.m * 2 ^ d.up + 2 ^ d.down - 1) / 2 ^ d.down
    if t ≥ 2 ^ 128 then .err16 else .ok (C13.ofBig t)
  else thresholdOf (d.m * 2 ^ d.up) d.down

def thresholdOfBits (pbits : Nat) : Thr :=
  match decodeF64 pbits with
  | none => .panic
  | some d => thresholdOfDy d

/-- `CalculateThreshold(C1, C2, numAuths)` given the bits of the float64 `p` it computed.
    `float64(C1)/float64(C2) > 1` holds exactly when `float64(C1) > float64(C2)` (a correctly
    rounded quotient of two doubles exceeds 1 iff the numerator exceeds the denominator). -/
def calcThreshold (c1 c2 pbits : Nat) : Thr :=
  if c1 = 0 ∨ c2 = 0 then .errZero
  else if f64OfNat c1 > f64OfNat c2 then .errGt1
  else thresholdOfBits pbits

/-! ### checkPrimaryThreshold (after the VRF in/out bytes were made) -/

/-- `scale.NewUint128(res)` (little endian) then `inoutUint.Compare(threshold) < 0` -/
def checkPrimary (res : Bytes) (threshold : U128) : Bool :=
  C13.compare (C13.ofBytesLE res) threshold < 0

/-! ### getSecondarySlotAuthor -/

inductive Author where
  | idx (i : Nat)
  | panic        -- big.Int.Mod by zero
deriving Repr, DecidableEq

/-- `rand = H(randomness ++ le64 slot)`, `idx = SetBytes(rand) mod n`, returned as `uint32(idx.Uint64())` -/
def secondaryAuthor (H : Bytes → Bytes) (randomness : Bytes) (slot n : Nat) : Author :=
  if n = 0 then .panic
  else .idx (natOfBE (H (randomness ++ leBytes 8 slot)) % n % 2 ^ 64 % 2 ^ 32)

/-! ### enclosure of the float kernel (executable check used by the driver; no theorem) -/

/-- fixed-point precision of the enclosure arithmetic -/
def FP : Nat := 256

def mulDown (a b : Nat) : Nat := a * b / 2 ^ FP
def mulUp (a b : Nat) : Nat := (a * b + 2 ^ FP - 1) / 2 ^ FP

/-- `x^n` in fixed point, rounded down / up at every step (square-and-multiply over the bits of `n`) -/
def powFix (mul : Nat → Nat → Nat) : Nat → Nat → Nat → Nat → Nat
  | 0, _, _, acc => acc
  | fuel + 1, x, n, acc =>
    if n = 0 then acc
    else powFix mul fuel (mul x x) (n / 2) (if n % 2 = 1 then mul acc x else acc)

def powDown (x n : Nat) : Nat := powFix mulDown 64 x n (2 ^ FP)
def powUp (x n : Nat) : Nat := powFix mulUp 64 x n (2 ^ FP)

/-- With `q = 1 - p`, `p = pm / 2^pk`: `(q - tol)^n ≤ (1 - c) + 2^-52` and `(1 - c) - 2^-52 ≤ (q + tol)^n`
    for `c = c1/c2`, `tol = units · 2^-52`, evaluated in 256-bit fixed point with outward rounding. -/
def enclosesT (c1 c2 n pm pk units : Nat) : Bool :=
  let one := 2 ^ FP
  let p := pm * one / 2 ^ pk          -- bits below 2^-256 are dropped
  let q := one - p
  let ppLo := (c2 - c1) * one / c2     -- 1 - c rounded down
  let ppHi := ((c2 - c1) * one + c2 - 1) / c2
  let eps := 2 ^ (FP - 52)
  let tol := units * eps
  let qLo := q - tol
  let qHi := min one (q + tol)
  decide (powDown qLo n ≤ ppHi + eps) && decide (ppLo - eps ≤ powUp qHi n)

/-- tolerance in units of 2^-52.  Error budget of the float kernel, all absolute: `math.Pow`
    (`exp(θ·log x)`, relative error ≈ (1 + |θ·ln x|)·2^-52 of a result `e^{-|θ·ln x|}` ≤ 1) < 1.4, rounding of
    `θ = 1/n` < 0.2, the final subtraction ≤ 0.25; observed maximum over the generated cases: 1. -/
def tolUnits : Nat := 4

/-- Does the float `p = pm / 2^pk ∈ [0,1]` enclose the real `1 - (1 - c)^(1/n)` for some real `c`
    within `2^-52` of `c1/c2`, up to the absolute tolerance `tolUnits · 2^-52`? -/
def encloses (c1 c2 n pm pk : Nat) : Bool := enclosesT c1 c2 n pm pk tolUnits

end Gossamer.C25
