/-
Model of lib/transaction/priority_queue.go: `priorityQueue` (heap.Interface over []*Item) driven by
Go's container/heap (`up`, `down`, `Push`, `Pop`, `Remove` transcribed), wrapped by
`PriorityQueue` (txs map, currOrder).

A transaction is identified by the hash of its extrinsic; the harness uses one-byte extrinsics,
so the model's `hash : Nat` is that byte (blake2b is assumed injective on them).
The slice `pq` is a function slot ↦ Item with a length; `*Item` pointers held by the `txs` map
are represented by the item's `order` (unique per item), dereferenced by searching the slots.
Core Lean only.
-/
namespace Gossamer.C34

/-- `Item` without the payload: hash of the transaction, priority, insertion order, heap index -/
structure Item where
  hash : Nat
  priority : Nat
  order : Nat
  index : Int
deriving DecidableEq, Repr

/-- `priorityQueue.Less(i, j)` on the two items -/
def less (a b : Item) : Bool :=
  if a.priority = b.priority then decide (a.order < b.order) else decide (a.priority > b.priority)

def dummy : Item := { hash := 0, priority := 0, order := 0, index := -1 }

/-- the backing array of the slice: slot ↦ item (only slots below the length are meaningful).
    A structure around the function so that compiled code reads slots once per `Swap`. -/
structure Arr where
  get : Nat → Item

/-- `pq.Swap(i, j)`: exchange the two slots and repair their `index` fields -/
def swapA (a : Arr) (i j : Nat) : Arr :=
  let x := a.get i
  let y := a.get j
  ⟨fun k => if k = j then { x with index := (j : Int) }
            else if k = i then { y with index := (i : Int) }
            else a.get k⟩

/-- parent index `(j - 1) / 2` (Go int division: `(0-1)/2 = 0`) -/
def par (j : Nat) : Nat := (j - 1) / 2

/-- container/heap `up(h, j)`; the loop runs at most `j` times (fuel) -/
def up (a : Arr) : Nat → Nat → Arr
  | 0, _ => a
  | fuel + 1, j =>
    let i := par j
    if i = j ∨ less (a.get j) (a.get i) = false then a
    else up (swapA a i j) fuel i

/-- container/heap `down(h, i0, n)`: returns the array and the final position `i`
    (`down` reports `i > i0`); the loop runs at most `n` times (fuel) -/
def down (a : Arr) (n : Nat) : Nat → Nat → Arr × Nat
  | 0, i => (a, i)
  | fuel + 1, i =>
    let j1 := 2 * i + 1
    if j1 ≥ n then (a, i)
    else
      let j := if j1 + 1 < n ∧ less (a.get (j1 + 1)) (a.get j1) = true then j1 + 1 else j1
      if less (a.get j) (a.get i) = false then (a, i)
      else down (swapA a i j) n fuel j

/-- the slice `pq` -/
structure PQ where
  arr : Arr
  len : Nat

/-- the inner `pq.Push(x)`: `item.index = n; append` -/
def setSlot (a : Arr) (n : Nat) (it : Item) : Arr :=
  ⟨fun k => if k = n then it else a.get k⟩

/-- `heap.Push(&pq, item)`: append with `index = n`, then `up(n)` -/
def heapPush (q : PQ) (it : Item) : PQ :=
  let n := q.len
  { arr := up (setSlot q.arr n { it with index := (n : Int) }) n n, len := n + 1 }

/-- `heap.Pop(&pq)` for `len > 0`: swap(0,n); down(0,n); remove the last slot -/
def heapPop (q : PQ) : Item × PQ :=
  let n := q.len - 1
  let a := (down (swapA q.arr 0 n) n n 0).1
  let it := a.get n
  ({ it with index := -1 }, { arr := a, len := n })

/-- `heap.Remove(&pq, i)` for `0 ≤ i < len` -/
def heapRemove (q : PQ) (i : Nat) : Item × PQ :=
  let n := q.len - 1
  let a :=
    if n ≠ i then
      let d := down (swapA q.arr i n) n n i
      if d.2 > i then d.1 else up d.1 i i
    else q.arr
  let it := a.get n
  ({ it with index := -1 }, { arr := a, len := n })

/-- `PriorityQueue` (the mutex is treated in `lockTable` / Lib.Monitor) -/
structure State where
  pq : PQ
  currOrder : Nat
  txs : List (Nat × Nat)      -- `map[common.Hash]*Item`: hash ↦ item pointer (= its order)

def State.init : State := { pq := { arr := ⟨fun _ => dummy⟩, len := 0 }, currOrder := 0, txs := [] }

/-- slots `0 … len-1` as a list -/
def PQ.toList (q : PQ) : List Item := (List.range q.len).map q.arr.get

/-- `item.index` read through the pointer stored in `txs` (`-1` if the item left the heap) -/
def derefIndex (q : PQ) (ord : Nat) : Int :=
  match q.toList.find? (·.order == ord) with
  | some it => it.index
  | none => -1

inductive Out where
  | ok | dup | none | tx (h : Nat) | bool (b : Bool) | num (n : Nat) | list (l : List Nat) | panic
deriving DecidableEq, Repr

inductive Op where
  | push (h p : Nat) | pop | peek | remove (h : Nat) | exist (h : Nat) | pending | len
deriving DecidableEq, Repr

/-- `spq.Push(txn)` -/
def push (s : State) (h p : Nat) : Out × State :=
  match s.txs.lookup h with
  | some _ => (.dup, s)
  | none =>
    let it : Item := { hash := h, priority := p, order := s.currOrder, index := 0 }
    (.ok, { pq := heapPush s.pq it, currOrder := s.currOrder + 1,
            txs := (h, it.order) :: s.txs })

/-- `spq.Pop()` -/
def pop (s : State) : Out × State :=
  if s.pq.len = 0 then (.none, s)
  else
    let (it, q) := heapPop s.pq
    (.tx it.hash, { s with pq := q, txs := s.txs.filter (·.1 != it.hash) })

/-- `spq.Peek()` -/
def peek (s : State) : Out := if s.pq.len = 0 then .none else .tx (s.pq.arr.get 0).hash

/-- `spq.RemoveExtrinsic(ext)`; a stale pointer would make heap.Remove index out of range -/
def removeExtrinsic (s : State) (h : Nat) : Out × State :=
  match s.txs.lookup h with
  | none => (.ok, s)
  | some ord =>
    let idx := derefIndex s.pq ord
    if idx < 0 ∨ idx ≥ (s.pq.len : Int) then (.panic, s)
    else
      let (_, q) := heapRemove s.pq idx.toNat
      (.ok, { s with pq := q, txs := s.txs.filter (·.1 != h) })

def step (s : State) : Op → Out × State
  | .push h p => push s h p
  | .pop => pop s
  | .peek => (peek s, s)
  | .remove h => removeExtrinsic s h
  | .exist h => (.bool (s.txs.lookup h).isSome, s)
  | .pending => (.list (s.pq.toList.map (·.hash)), s)
  | .len => (.num s.pq.len, s)

def run (s : State) : List Op → List Out × State
  | [] => ([], s)
  | op :: ops =>
    let r := step s op
    let rs := run r.2 ops
    (r.1 :: rs.1, rs.2)

/-! ### Spec: the list of queued transactions sorted by (priority desc, insertion order asc) -/

structure SItem where
  hash : Nat
  priority : Nat
  order : Nat
deriving DecidableEq, Repr

/-- `x` is served before `y` -/
def SItem.before (x y : SItem) : Bool :=
  if x.priority = y.priority then decide (x.order < y.order) else decide (x.priority > y.priority)

structure Spec where
  items : List SItem
  next : Nat
deriving DecidableEq, Repr

def Spec.init : Spec := { items := [], next := 0 }

/-- insert keeping the list sorted -/
def insertSorted (x : SItem) : List SItem → List SItem
  | [] => [x]
  | y :: ys => if x.before y then x :: y :: ys else y :: insertSorted x ys

def sstep (s : Spec) : Op → Out × Spec
  | .push h p =>
    if s.items.any (·.hash == h) then (.dup, s)
    else (.ok, { items := insertSorted { hash := h, priority := p, order := s.next } s.items,
                 next := s.next + 1 })
  | .pop => match s.items with
    | [] => (.none, s)
    | x :: r => (.tx x.hash, { s with items := r })
  | .peek => match s.items with
    | [] => (.none, s)
    | x :: _ => (.tx x.hash, s)
  | .remove h => (.ok, { s with items := s.items.filter (·.hash != h) })
  | .exist h => (.bool (s.items.any (·.hash == h)), s)
  | .pending => (.list (s.items.map (·.hash)), s)
  | .len => (.num s.items.length, s)

def srun (s : Spec) : List Op → List Out × Spec
  | [] => ([], s)
  | op :: ops =>
    let r := sstep s op
    let rs := srun r.2 ops
    (r.1 :: rs.1, rs.2)

/-! ### dot/state/transaction.go: TransactionState = the ready queue × the pool of future transactions

The pool is `map[common.Hash]*ValidTransaction`; the model keeps hash ↦ priority.  Status
notifications and telemetry are not modelled. -/

structure TS where
  q : State
  pool : List (Nat × Nat)

def TS.init : TS := { q := State.init, pool := [] }

inductive TSOp where
  | addPool (h p : Nat)   -- AddToPool
  | unpool (h : Nat)      -- RemoveExtrinsicFromPool
  | rm (h : Nat)          -- RemoveExtrinsic: pool AND queue
  | push (h p : Nat) | pop | peek
  | exist (h : Nat)       -- in the pool or in the queue
  | pending               -- queue (slice order) then pool (sorted by hash)
  | pendingPool
deriving DecidableEq, Repr

def poolDel (m : List (Nat × Nat)) (h : Nat) : List (Nat × Nat) := m.filter (·.1 != h)

def poolKeys (m : List (Nat × Nat)) : List Nat := (m.map (·.1)).mergeSort (· ≤ ·)

def tsStep (ts : TS) : TSOp → Out × TS
  | .addPool h p => (.ok, { ts with pool := (h, p) :: poolDel ts.pool h })
  | .unpool h => (.ok, { ts with pool := poolDel ts.pool h })
  | .rm h => let r := removeExtrinsic ts.q h; (r.1, { q := r.2, pool := poolDel ts.pool h })
  | .push h p => let r := push ts.q h p; (r.1, { ts with q := r.2 })
  | .pop => let r := pop ts.q; (r.1, { ts with q := r.2 })
  | .peek => (peek ts.q, ts)
  | .exist h => (.bool ((ts.pool.lookup h).isSome || (ts.q.txs.lookup h).isSome), ts)
  | .pending => (.list (ts.q.pq.toList.map (·.hash) ++ poolKeys ts.pool), ts)
  | .pendingPool => (.list (poolKeys ts.pool), ts)

def tsRun (ts : TS) : List TSOp → List Out × TS
  | [] => ([], ts)
  | op :: ops =>
    let r := tsStep ts op
    let rs := tsRun r.2 ops
    (r.1 :: rs.1, rs.2)

/-! ### Lock tables (regenerated from the sources by the harness and compared) -/

/-- lib/transaction/priority_queue.go, type PriorityQueue (embedded sync.Mutex; guarded: pq,
    currOrder, txs; `pollInterval` is set at construction only) -/
def lockTablePQ : List (String × String × String) :=
  [("Exists", "Lock", "reads"), ("Len", "Lock", "reads"), ("Peek", "Lock", "reads"),
   ("Pending", "Lock", "reads"), ("Pop", "Lock", "writes"), ("PopWithTimer", "none", "pure"),
   ("Push", "Lock", "writes"), ("RemoveExtrinsic", "Lock", "writes")]

/-- lib/transaction/pool.go, type Pool (mu sync.RWMutex; guarded: transactions) -/
def lockTablePool : List (String × String × String) :=
  [("Get", "RLock", "reads"), ("Insert", "Lock", "writes"), ("Len", "Lock", "reads"),
   ("Remove", "Lock", "writes"), ("Transactions", "RLock", "reads")]

/-- dot/state/transaction.go, type TransactionState (notifierLock sync.RWMutex; guarded:
    notifierChannels; queue/pool/telemetry are set at construction only and are themselves
    thread-safe objects, so the delegating methods touch no guarded field) -/
def lockTableTS : List (String × String × String) :=
  [("AddToPool", "none", "pure"), ("Exists", "none", "pure"),
   ("FreeStatusNotifierChannel", "Lock", "writes"), ("GetStatusNotifierChannel", "Lock", "writes"),
   ("Peek", "none", "pure"), ("Pending", "none", "pure"), ("PendingInPool", "none", "pure"),
   ("Pop", "none", "pure"), ("PopWithTimer", "none", "pure"), ("Push", "none", "pure"),
   ("RemoveExtrinsic", "none", "pure"), ("RemoveExtrinsicFromPool", "none", "pure"),
   ("notifyStatus", "Lock", "reads")]

end Gossamer.C34
