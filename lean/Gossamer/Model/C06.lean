/-
C06: the database-backed trie engine `pkg/trie/triedb` (`triedb.go`, `node.go`, `lookup.go`,
`node_storage.go`, `codec/node.go`), function by function.  Core Lean only.

Representation
* the Go `TrieDB` keeps its in-memory nodes in an index-addressed arena (`nodeStorage`: `alloc`,
  `destroy`, free list) and refers to them through `NodeHandle = inMemory idx | persisted hash`.
  The model is the tree those handles describe: `Hd` is a node handle together with the node it
  points to (`none` = the nil handle, `persisted h` = a node that is still only in the database,
  the other constructors = an `inMemory` handle and its stored node; `c = some hash` for a
  `CachedStoredNode`, `none` for a `NewStoredNode`).  The arena indices are not modelled.
* keys are plain nibble lists.  The packed representation of the code (`nibbles.Nibbles`
  data/offset, `NodeKey` offset/data, `NodeKeyRange`, `ShiftKey`, `combineKey`, `NibbleSlice`,
  `Prefix{Key,Padded}`) is tied by the correspondence run only.  `pre` is always the nibble path
  from the root to the node at hand (`keyNibbles.Left()`), `key` the remaining nibbles.
* the database is an association list; a batch is a list of writes applied by `Flush`.
  As the package's own `MemoryDB` does, the database answers `[0]` (the empty node) for every key
  that ends in the hash of the empty node.
* `H` (blake2b-256) and `dec` (`codec.Decode`) are parameters; the driver instantiates `dec` with
  `decodeNode` below.
The model follows the code after the `fix:` commits listed in harness/C06/findings.json.
-/
import Gossamer.Base.Proto
import Gossamer.Lib.TrieSpec
namespace Gossamer.C06
open Gossamer

/-! ### node values (`nodeValue`: `inline`, `valueRef`, `newValueRef`) -/

inductive DVal where
  | inl (v : Bytes)        -- `inline`
  | ref (h : Bytes)        -- `valueRef{hash}`: the value is in the database
  | fresh (data : Bytes)   -- `newValueRef{hash: zero, data}`: will be written by the next commit
deriving DecidableEq, Repr

/-- `trie.V1MaxInlineValueSize` -/
def v1MaxInline : Nat := 32

/-- `len(data) > t.version.MaxInlineValue()` (`NoMaxInlineValueSize = math.MaxInt` for V0) -/
def exceedsInline (ver : Ver) (n : Nat) : Bool :=
  match ver with
  | .v0 => false
  | .v1 => decide (n > v1MaxInline)

/-- `NewValue(data, threshold)` -/
def newValue (ver : Ver) (data : Bytes) : DVal :=
  if exceedsInline ver data.length then .fresh data else .inl data

/-- `nodeValue.equal`; the hash of a `newValueRef` is the zero hash until a commit, and a commit
    drops every in-memory node, so two `newValueRef`s always compare equal -/
def DVal.equal : DVal → DVal → Bool
  | .inl a, .inl b => a == b
  | .ref a, .ref b => a == b
  | .fresh _, .fresh _ => true
  | _, _ => false

/-- `unchanged` of the branch arm of `insertInspector`: a branch without value is always changed -/
def optEqual (bv : Option DVal) (nv : DVal) : Bool :=
  match bv with
  | some x => x.equal nv
  | none => false

/-! ### handles and nodes -/

inductive Hd where
  | none
  | persisted (h : Bytes)
  | empty (c : Option Bytes)
  | leaf (c : Option Bytes) (pk : Nibs) (v : DVal)
  | branch (c : Option Bytes) (pk : Nibs) (v : Option DVal) (cs : Nib → Hd)

namespace Hd
def isNone : Hd → Bool
  | none => true
  | _ => false

def noKids : Nib → Hd := fun _ => Hd.none

def setKid (cs : Nib → Hd) (i : Nib) (c : Hd) : Nib → Hd := fun j => if j = i then c else cs j

/-- the stored node as a `NewStoredNode` (hash forgotten) -/
def asNew : Hd → Hd
  | empty _ => empty Option.none
  | leaf _ pk v => leaf Option.none pk v
  | branch _ pk v cs => branch Option.none pk v cs
  | h => h

/-- hash of a `CachedStoredNode` -/
def cached : Hd → Option Bytes
  | empty c => c
  | leaf c _ _ => c
  | branch c _ _ _ => c
  | _ => Option.none
end Hd

/-! ### database -/

abbrev DB := List (Bytes × Bytes)

def DB.find (db : DB) (k : Bytes) : Option Bytes :=
  match db with
  | [] => none
  | e :: r => if e.1 = k then some e.2 else DB.find r k

def DB.del (db : DB) (k : Bytes) : DB := db.filter (fun e => !(e.1 == k))

def DB.put (db : DB) (k v : Bytes) : DB := (k, v) :: DB.del db k

/-- `bytes.HasSuffix` -/
def hasSuffix (k s : Bytes) : Bool := s.length ≤ k.length && k.drop (k.length - s.length) == s

/-- `db.Get`: `none` = not found (`nil, nil`) -/
def dbGet (H : Bytes → Bytes) (db : DB) (k : Bytes) : Option Bytes :=
  if hasSuffix k (H [0]) then some [0] else db.find k

inductive WOp where
  | put (k v : Bytes)
  | del (k : Bytes)

def applyW (db : DB) : List WOp → DB
  | [] => db
  | .put k v :: r => applyW (db.put k v) r
  | .del k :: r => applyW (db.del k) r

/-! ### database keys -/

/-- `Prefix.JoinedBytes()`: two nibbles per byte, an odd last nibble padded with a zero nibble -/
def prefixBytes : Nibs → Bytes
  | [] => []
  | [a] => [byteOf a 0]
  | a :: b :: r => byteOf a b :: prefixBytes r

/-- key of the row of a node (or value) with hash `h` below the nibble path `pre` -/
def rowKey (pre : Nibs) (h : Bytes) : Bytes := prefixBytes pre ++ h

/-! ### node encoding (`newEncodedNode`, `NewEncodedLeaf`, `NewEncodedBranch`, `EncodeHeader`) -/

/-- an encoded value: `true` = `HashedValue` (32 raw bytes), `false` = `InlineValue` (SCALE bytes) -/
def valueBytes (hashed : Bool) (b : Bytes) : Bytes := if hashed then b else scaleBytes b

def encLeaf (pk : Nibs) (hashed : Bool) (v : Bytes) : Bytes :=
  (if hashed then header 0x20 0x1f pk.length else header 0x40 0x3f pk.length)
    ++ packNibs pk ++ valueBytes hashed v

/-- header of a branch: without value, with hashed value, with inline value -/
def branchHeader (v : Option (Bool × Bytes)) (n : Nat) : Bytes :=
  match v with
  | none => header 0x80 0x3f n
  | some (true, _) => header 0x10 0x0f n
  | some (false, _) => header 0xc0 0x3f n

def optValueBytes : Option (Bool × Bytes) → Bytes
  | none => []
  | some (hd, b) => valueBytes hd b

/-- SCALE bytes of a child's node data; nothing for a nil child -/
def kidBytes : Option Bytes → Bytes
  | none => []
  | some d => scaleBytes d

/-- `kids i` = node data of child `i` (its hash or its inlined encoding) -/
def encBranch (pk : Nibs) (v : Option (Bool × Bytes)) (kids : Nib → Option Bytes) : Bytes :=
  branchHeader v pk.length
    ++ packNibs pk
    ++ leBytes 2 (((List.finRange 16).map (fun i => if (kids i).isSome then 2 ^ i.val else 0)).sum)
    ++ optValueBytes v
    ++ (List.finRange 16).flatMap (fun i => kidBytes (kids i))

/-- `H.Length()` -/
def hashLen : Nat := 32

/-! ### decoded nodes (`codec.EncodedNode`) and a decoder for what `commit` writes -/

inductive EVal where
  | inl (v : Bytes)
  | hashed (h : Bytes)
deriving DecidableEq, Repr

inductive EKid where
  | none
  | inl (enc : Bytes)
  | hashed (h : Bytes)
deriving DecidableEq, Repr

inductive ENode where
  | empty
  | leaf (pk : Nibs) (v : EVal)
  | branch (pk : Nibs) (v : Option EVal) (cs : Nib → EKid)

/-- the 255-runs of a partial key length -/
def decLenRun : Nat → Nat → Bytes → Option (Nat × Bytes)
  | 0, _, _ => none
  | _, _, [] => none
  | fuel + 1, acc, b :: r =>
    if b.toNat < 255 then some (acc + b.toNat, r) else decLenRun fuel (acc + 255) r

/-- `decodeHeader`: variant (0 leaf, 1 branch, 2 branch+value, 3 leaf hashed, 4 branch hashed,
    5 empty), partial key length, rest -/
def decHeader : Bytes → Option (Nat × Nat × Bytes)
  | [] => none
  | b :: r =>
    let n := b.toNat
    if n = 0 then some (5, 0, r)
    else if n = 1 then none
    else
      let (variant, mask) :=
        if n / 16 = 1 then (4, 0x0f)
        else if n / 32 = 1 then (3, 0x1f)
        else if n / 64 = 1 then (0, 0x3f)
        else if n / 64 = 2 then (1, 0x3f)
        else if n / 64 = 3 then (2, 0x3f)
        else (6, 0)
      if variant = 6 then none
      else
        let l := n % (mask + 1)
        if l < mask then some (variant, l, r)
        else match decLenRun (r.length + 1) l r with
          | none => none
          | some (len, r') => if len > 65535 then none else some (variant, len, r')

def takeN (n : Nat) (r : Bytes) : Option (Bytes × Bytes) :=
  if r.length < n then none else some (r.take n, r.drop n)

/-- `decodeKey`: `ceil(len/2)` bytes, an odd key starts with the low nibble of the first byte -/
def decKey (len : Nat) (r : Bytes) : Option (Nibs × Bytes) :=
  match takeN (len / 2 + len % 2) r with
  | none => none
  | some (kb, r') => some ((toNibs kb).drop (len % 2), r')

/-- SCALE compact length (modes 0, 1, 2) followed by that many bytes -/
def decScaleBytes : Bytes → Option (Bytes × Bytes)
  | [] => none
  | b :: r =>
    let mode := b.toNat % 4
    if mode = 0 then takeN (b.toNat / 4) r
    else if mode = 1 then
      match r with
      | b1 :: r1 => takeN ((b.toNat + 256 * b1.toNat) / 4) r1
      | _ => none
    else if mode = 2 then
      match r with
      | b1 :: b2 :: b3 :: r3 =>
        takeN ((b.toNat + 256 * b1.toNat + 65536 * b2.toNat + 16777216 * b3.toNat) / 4) r3
      | _ => none
    else none

/-- children of `decodeBranch`: one SCALE byte string per set bitmap bit; shorter than a hash =
    an inlined node -/
def decKids : List Nib → Nat → Bytes → Option (List (Nib × EKid))
  | [], _, _ => some []
  | i :: is, bm, r =>
    if bm / 2 ^ i.val % 2 = 1 then
      match decScaleBytes r with
      | none => none
      | some (d, r') =>
        match decKids is bm r' with
        | none => none
        | some l => some ((i, if d.length < hashLen then EKid.inl d else EKid.hashed d) :: l)
    else decKids is bm r

def kidsFn (l : List (Nib × EKid)) : Nib → EKid :=
  fun i => match l.find? (fun e => e.1 == i) with
    | some e => e.2
    | none => EKid.none

/-- `codec.Decode` -/
def decodeNode (bs : Bytes) : Option ENode :=
  match decHeader bs with
  | none => none
  | some (variant, len, r) =>
    if variant = 5 then some .empty
    else
      match decKey len r with
      | none => none
      | some (pk, r1) =>
        if variant = 0 then
          match decScaleBytes r1 with
          | none => none
          | some (v, _) => some (.leaf pk (.inl v))
        else if variant = 3 then
          match takeN hashLen r1 with
          | none => none
          | some (h, _) => some (.leaf pk (.hashed h))
        else
          match r1 with
          | b0 :: b1 :: r2 =>
            let bm := b0.toNat + 256 * b1.toNat
            let vr : Option (Option EVal × Bytes) :=
              if variant = 2 then (decScaleBytes r2).map (fun p => (some (EVal.inl p.1), p.2))
              else if variant = 4 then (takeN hashLen r2).map (fun p => (some (EVal.hashed p.1), p.2))
              else some (none, r2)
            match vr with
            | none => none
            | some (v, r3) =>
              match decKids (List.finRange 16) bm r3 with
              | none => none
              | some l => some (.branch pk v (kidsFn l))
          | _ => none

/-! ### loading a node from the database (`lookupNode`, `newNodeFromEncoded`,
`newFromEncodedMerkleValue`) -/

/-- results of the operations: a value, a Go `error`, or a Go panic -/
inductive Res (α : Type) where
  | ok (a : α)
  | err
  | panic

def NewValueFromEncoded : EVal → DVal
  | .inl v => .inl v
  | .hashed h => .ref h

/-- `newFromEncodedMerkleValue`: a hashed child stays `persisted`, an inlined child is decoded
    (`rec`) into a `NewStoredNode` -/
def kidHandle (rec : Bytes → Option Hd) : EKid → Option Hd
  | .none => some Hd.none
  | .hashed h => some (.persisted h)
  | .inl e => rec e

/-- `newNodeFromEncoded`: the decoded node with `c` as its stored-node kind; an inlined child is
    decoded in place into a `NewStoredNode`, a hashed child stays `persisted`.
    Fuel: an inlined child is strictly shorter than its parent's encoding. -/
def ofEncoded (dec : Bytes → Option ENode) : Nat → Option Bytes → Bytes → Option Hd
  | 0, _, _ => none
  | fuel + 1, c, bs =>
    match dec bs with
    | none => none
    | some .empty => some (.empty c)
    | some (.leaf pk v) => some (.leaf c pk (NewValueFromEncoded v))
    | some (.branch pk v cs) =>
      if (List.finRange 16).all (fun i => (kidHandle (ofEncoded dec fuel none) (cs i)).isSome) then
        some (.branch c pk (v.map NewValueFromEncoded)
          (fun i => (kidHandle (ofEncoded dec fuel none) (cs i)).getD Hd.none))
      else none

/-- environment of one `TrieDB` session: hash, decoder, version and the database as it is during
    the session (writes happen in `commit` only) -/
structure Env where
  H : Bytes → Bytes
  dec : Bytes → Option ENode
  ver : Ver
  db : DB

/-- `lookupNode(hash, prefix)`: the node as a `CachedStoredNode` -/
def Env.load (e : Env) (pre : Nibs) (h : Bytes) : Option Hd :=
  match dbGet e.H e.db (rowKey pre h) with
  | none => none      -- Get returns nil: Decode fails on the empty input
  | some bs => ofEncoded e.dec (bs.length + 1) (some h) bs

/-- the stored node behind a handle (`storage.destroy` / `lookupNode`); `none` for the nil handle -/
def Env.resolve (e : Env) (pre : Nibs) : Hd → Res Hd
  | .none => .panic
  | .persisted h => match e.load pre h with | some n => .ok n | none => .err
  | n => .ok n

/-! ### deathRow -/

abbrev Death := List Bytes

/-- `replaceOldValue`: the row of a stored hashed value is scheduled for deletion.  (The zero-hash
    test of the code is dropped: no stored value has the all-zero hash.) -/
def replaceOldValue (d : Death) (fullKey : Nibs) : Option DVal → Death
  | some (.ref h) => rowKey fullKey h :: d
  | _ => d

/-- what `inspect` does with the action of an inspector on the stored node `old` at path `pre`:
    `restore` keeps a cached node cached, `replace` makes it a new node and schedules the row of
    a cached node for deletion -/
def afterInspect (old : Hd) (pre : Nibs) (d : Death) (changed : Bool) (n : Hd) : Hd × Bool × Death :=
  match old.cached with
  | none => (n.asNew, changed, d)
  | some h =>
    if changed then (n.asNew, true, rowKey pre h :: d)
    else
      (match n with
        | .empty _ => .empty (some h)
        | .leaf _ pk v => .leaf (some h) pk v
        | .branch _ pk v cs => .branch (some h) pk v cs
        | x => x, false, d)

/-- `lenCommonPrefix` (`Nibbles.CommonPrefix`) -/
def lcpLen : Nibs → Nibs → Nat
  | a :: as, b :: bs => if a = b then lcpLen as bs + 1 else 0
  | _, _ => 0

/-! ### insert (`insertAt`, `inspect`, `insertInspector`) -/

/-- `insertInspector` on a leaf `(pk, lv)`: the two branch-building arms call the inspector again
    on the branch they have just built; that call is unfolded here (it always lands in the
    "same branch" or the "no child at that index" arm).
    Result: changed?, new node, deathRow. -/
def insertLeaf (ver : Ver) (pre pk : Nibs) (lv : DVal) (key : Nibs) (value : Bytes) (d : Death) :
    Bool × Hd × Death :=
  let common := lcpLen pk key
  if common = pk.length ∧ common = key.length then
    let nv := newValue ver value
    (!(lv.equal nv), .leaf none pk nv, replaceOldValue d (pre ++ pk) (some lv))
  else if common < pk.length then
    match pk.drop common with
    | idx :: prest =>
      let kids := Hd.setKid Hd.noKids idx (.leaf none prest lv)
      if key.length = common then
        (true, .branch none (key.take common) (some (newValue ver value)) kids, d)
      else
        (match key.drop common with
          | j :: krest =>
            (true, .branch none (key.take common) none
              (Hd.setKid kids j (.leaf none krest (newValue ver value))), d)
          | [] => (true, .none, d))  -- unreachable
    | [] => (true, .none, d)  -- unreachable: common < pk.length
  else
    match key.drop common with
    | j :: krest =>
      (true, .branch none pk (some lv)
        (Hd.setKid Hd.noKids j (.leaf none krest (newValue ver value))), d)
    | [] => (true, .none, d)  -- unreachable: common = pk.length < key.length

/-- `inspect` + `insertInspector` on the stored node `stored` at path `pre`; `rec` is `insertAt` for
    the child the key leads to.  Result: new in-memory handle, `changed`, deathRow. -/
def insertNode (e : Env) (rec : Hd → Nibs → Nibs → Bytes → Death → Res (Hd × Bool × Death))
    (stored : Hd) (pre key : Nibs) (value : Bytes) (d : Death) : Res (Hd × Bool × Death) :=
  match stored with
  | .empty _ =>
    .ok (afterInspect stored pre d true (.leaf none key (newValue e.ver value)))
  | .leaf _ pk lv =>
    let r := insertLeaf e.ver pre pk lv key value d
    .ok (afterInspect stored pre r.2.2 r.1 r.2.1)
  | .branch _ pk bv cs =>
    let common := lcpLen key pk
    if common = pk.length ∧ common = key.length then
      let nv := newValue e.ver value
      .ok (afterInspect stored pre (replaceOldValue d (pre ++ pk) bv) (!(optEqual bv nv))
        (.branch none pk (some nv) cs))
    else if common < pk.length then
      match pk.drop common with
      | ix :: prest =>
        let kids := Hd.setKid Hd.noKids ix (.branch none prest bv cs)
        let nv := newValue e.ver value
        if key.length = common then
          .ok (afterInspect stored pre d true (.branch none (pk.take common) (some nv) kids))
        else
          (match key.drop common with
            | j :: krest =>
              .ok (afterInspect stored pre d true
                (.branch none (pk.take common) none (Hd.setKid kids j (.leaf none krest nv))))
            | [] => .panic)
      | [] => .panic
    else
      match key.drop common with
      | idx :: krest =>
        if (cs idx).isNone then
          .ok (afterInspect stored pre d true
            (.branch none pk bv (Hd.setKid cs idx (.leaf none krest (newValue e.ver value)))))
        else
          (match rec (cs idx) (pre ++ pk ++ [idx]) krest value d with
            | .ok (c', changed, d') =>
              .ok (afterInspect stored pre d' changed (.branch none pk bv (Hd.setKid cs idx c')))
            | .err => .err
            | .panic => .panic)
      | [] => .panic
  | _ => .panic

/-- `insertAt(handle, key, value)`; `pre` = path of the node.
    Fuel: every recursive call consumes at least one nibble of the key. -/
def insertAt (e : Env) : Nat → Hd → Nibs → Nibs → Bytes → Death → Res (Hd × Bool × Death)
  | 0, _, _, _, _, _ => .panic
  | fuel + 1, h, pre, key, value, d =>
    match e.resolve pre h with
    | .err => .err
    | .panic => .panic
    | .ok stored => insertNode e (insertAt e fuel) stored pre key value d

/-! ### remove (`removeAt`, `inspect`, `removeInspector`, `fix`) -/

/-- indices of the non-nil children (the code stops after two) -/
def usedIdx (cs : Nib → Hd) : List Nib := (List.finRange 16).filter (fun i => !(cs i).isNone)

/-- `fix`: the row of a cached child that is merged into its parent is scheduled for deletion -/
def childDeath (stored : Hd) (childPre : Nibs) (d : Death) : Death :=
  match stored.cached with
  | some h => rowKey childPre h :: d
  | none => d

/-- `fix`: the branch `pk` without value and its only child `stored` at index `i` become one node -/
def fixMerge (pk : Nibs) (i : Nib) (stored : Hd) (d : Death) : Res (Hd × Death) :=
  match stored with
  | .leaf _ cpk cv => .ok (.leaf none (pk ++ i :: cpk) cv, d)
  | .branch _ cpk cv ccs => .ok (.branch none (pk ++ i :: cpk) cv ccs, d)
  | _ => .panic

/-- `fix(branch, key)` on the branch `(pk, bv, cs)` at path `pre`: a branch without children becomes
    a leaf, a branch without value and with one child is merged with that child (loaded from the
    database when it is persisted; the row of a cached child is scheduled for deletion) -/
def fix (e : Env) (pre pk : Nibs) (bv : Option DVal) (cs : Nib → Hd) (d : Death) : Res (Hd × Death) :=
  match usedIdx cs, bv with
  | [], none => .panic    -- "branch with no subvalues. Something went wrong."
  | [], some v => .ok (.leaf none pk v, d)
  | [i], none =>
    (match e.resolve (pre ++ pk ++ [i]) (cs i) with
      | .err => .err
      | .panic => .panic
      | .ok stored => fixMerge pk i stored (childDeath stored (pre ++ pk ++ [i]) d))
  | _, _ => .ok (.branch none pk bv cs, d)

/-- what `inspect` does with `deleteNode` on the stored node `old` -/
def afterDelete (old : Hd) (pre : Nibs) (d : Death) : Death :=
  match old.cached with
  | none => d
  | some h => rowKey pre h :: d

/-- `inspect` with `restoreNode` / `replaceNode` on the stored node -/
def removeKeep (stored : Hd) (pre : Nibs) (changed : Bool) (n : Hd) (d : Death) :
    Res (Option (Hd × Bool) × Death) :=
  let r := afterInspect stored pre d changed n
  .ok (some (r.1, r.2.1), r.2.2)

/-- `replaceNode{fix(...)}` -/
def removeFixed (stored : Hd) (pre : Nibs) : Res (Hd × Death) → Res (Option (Hd × Bool) × Death)
  | .ok (n, d') => removeKeep stored pre true n d'
  | .err => .err
  | .panic => .panic

/-- `inspect` + `removeInspector` on the stored node `stored` at path `pre`; `rec` is `removeAt` for
    the child the key leads to.
    Result: `none` = the node is gone, otherwise new in-memory handle and `changed`; deathRow. -/
def removeNode (e : Env) (rec : Hd → Nibs → Nibs → Death → Res (Option (Hd × Bool) × Death))
    (stored : Hd) (pre key : Nibs) (d : Death) : Res (Option (Hd × Bool) × Death) :=
  match stored with
  | .empty _ => .ok (none, afterDelete stored pre d)
  | .leaf _ pk lv =>
    if pk = key then
      .ok (none, afterDelete stored pre (replaceOldValue d (pre ++ pk) (some lv)))
    else removeKeep stored pre false stored d
  | .branch _ pk bv cs =>
    let common := lcpLen pk key
    if common = pk.length ∧ common = key.length then
      if bv.isSome then
        removeFixed stored pre (fix e pre pk none cs (replaceOldValue d (pre ++ pk) bv))
      else removeKeep stored pre false stored d
    else if common < pk.length then removeKeep stored pre false stored d
    else
      match key.drop common with
      | idx :: krest =>
        if (cs idx).isNone then removeKeep stored pre false stored d
        else
          (match rec (cs idx) (pre ++ pk ++ [idx]) krest d with
            | .err => .err
            | .panic => .panic
            | .ok (some (c', changed), d') =>
              removeKeep stored pre changed (Hd.branch none pk bv (Hd.setKid cs idx c')) d'
            | .ok (none, d') =>
              removeFixed stored pre (fix e pre pk bv (Hd.setKid cs idx Hd.none) d'))
      | [] => .panic
  | _ => .panic

/-- `removeAt(handle, key)`. -/
def removeAt (e : Env) : Nat → Hd → Nibs → Nibs → Death → Res (Option (Hd × Bool) × Death)
  | 0, _, _, _, _ => .panic
  | fuel + 1, h, pre, key, d =>
    match e.resolve pre h with
    | .err => .err
    | .panic => .panic
    | .ok stored => removeNode e (removeAt e fuel) stored pre key d

/-! ### Get (`TrieDB.lookup`, `TrieLookup.lookupNode` / `lookupValue` / `fetchValue`) -/

/-- `TrieLookup.fetchValue`: a hashed value is the row `fullKey ‖ hash` -/
def fetchE (e : Env) (full : Bytes) : EVal → Option Bytes
  | .inl v => some v
  | .hashed h => dbGet e.H e.db (full ++ h)

/-- `TrieLookup.lookupNode` + `lookupValue` from the encoded node `data` at path `pre`; inlined
    children are decoded in place, hashed children are fetched.  Every error is `nil` for `Get`.
    Fuel: every step consumes a nibble of the key. -/
def lookupData (e : Env) (full : Bytes) : Nat → Bytes → Nibs → Nibs → Option Bytes
  | 0, _, _, _ => none
  | fuel + 1, data, pre, key =>
    match e.dec data with
    | none => none
    | some .empty => none
    | some (.leaf pk v) => if key = pk then fetchE e full v else none
    | some (.branch pk v cs) =>
      if !(pk.isPrefixOf key) then none
      else if key = pk then (match v with | some x => fetchE e full x | none => none)
      else
        match key.drop pk.length with
        | i :: rest =>
          (match cs i with
            | .none => none
            | .inl enc => lookupData e full fuel enc (pre ++ pk ++ [i]) rest
            | .hashed h =>
              match dbGet e.H e.db (rowKey (pre ++ pk ++ [i]) h) with
              | none => none
              | some data' => lookupData e full fuel data' (pre ++ pk ++ [i]) rest)
        | [] => none

/-- `TrieLookup.lookupValue` starting at the node with hash `h` at path `pre` -/
def lookupDB (e : Env) (full : Bytes) (h : Bytes) (pre key : Nibs) : Option Bytes :=
  match dbGet e.H e.db (rowKey pre h) with
  | none => none
  | some data => lookupData e full (key.length + 1) data pre key

/-- `inMemoryFetchedValue` -/
def fetchMem (e : Env) (full : Bytes) : DVal → Option Bytes
  | .inl v => some v
  | .fresh data => some data
  | .ref h => dbGet e.H e.db (full ++ h)

/-- `TrieDB.lookup`: walk over the in-memory nodes, `TrieLookup` from the first persisted handle -/
def lookupMem (e : Env) (full : Bytes) : Hd → Nibs → Nibs → Option Bytes
  | .none, _, _ => none
  | .persisted h, pre, key => lookupDB e full h pre key
  | .empty _, _, _ => none
  | .leaf _ pk v, _, key => if pk = key then fetchMem e full v else none
  | .branch _ pk bv cs, pre, key =>
    if pk = key then (match bv with | some v => fetchMem e full v | none => none)
    else if pk.isPrefixOf key then
      match key.drop pk.length with
      | i :: rest => lookupMem e full (cs i) (pre ++ pk ++ [i]) rest
      | [] => none
    else none

/-! ### commit (`commit`, `commitChild`, `newEncodedNode`, `newEncodedValue`) -/

/-- `newEncodedValue`: encoded value and the row written for a new hashed value; `full` is the
    full nibble key of the node -/
def encValue (H : Bytes → Bytes) (full : Nibs) : DVal → (Bool × Bytes) × List WOp
  | .inl v => ((false, v), [])
  | .ref h => ((true, h), [])
  | .fresh data => ((true, H data), [.put (rowKey full (H data)) data])

/-- the value part of `newEncodedNode` for a branch -/
def encOptValue (H : Bytes → Bytes) (full : Nibs) : Option DVal → Option (Bool × Bytes) × List WOp
  | some v => let r := encValue H full v; (some r.1, r.2)
  | none => (none, [])

/-- `commitChild(child, prefix)`: the child reference (`none` for the nil handle; a hash for a
    persisted or cached child; for a new node its hash, after writing its row, when the encoding has
    at least `H.Length()` bytes, else the encoding itself) and the rows written.  `enc` is the result
    of encoding the child when it is a new in-memory node. -/
def kidRef (H : Bytes → Bytes) (q : Nibs) (c : Hd) (enc : Option (Bytes × List WOp)) :
    Option Bytes × List WOp :=
  match c with
  | .none => (none, [])
  | .persisted h => (some h, [])
  | _ =>
    match c.cached with
    | some h => (some h, [])
    | none =>
      match enc with
      | some (en, w) =>
        if en.length ≥ hashLen then (some (H en), w ++ [.put (rowKey q (H en)) en])
        else (some en, w)
      | none => (none, [])

/-- `newEncodedNode` with the child-store function of `commit` / `commitChild` for the NEW
    in-memory node behind the handle at path `pre`: its encoding and the rows written, in the order
    of the code (value row, then child by child the rows of its subtree and its own row). -/
def encNew (H : Bytes → Bytes) : Hd → Nibs → Option (Bytes × List WOp)
  | .leaf none pk v, pre =>
    let ev := encValue H (pre ++ pk) v
    some (encLeaf pk ev.1.1 ev.1.2, ev.2)
  | .branch none pk bv cs, pre =>
    let ev := encOptValue H (pre ++ pk) bv
    let kid (i : Nib) : Option Bytes × List WOp :=
      kidRef H (pre ++ pk ++ [i]) (cs i) (encNew H (cs i) (pre ++ pk ++ [i]))
    some (encBranch pk ev.1 (fun i => (kid i).1),
          ev.2 ++ (List.finRange 16).flatMap (fun i => (kid i).2))
  | .empty none, _ => some ([0], [])
  | _, _ => none

/-- one `TrieDB` instance over the database -/
structure St where
  db : DB
  root : Hd
  rootHash : Bytes
  death : Death

/-- `commit()` -/
def commit (H : Bytes → Bytes) (s : St) : Res St :=
  let dels := s.death.map WOp.del
  match s.root with
  | .none => .panic
  | .persisted _ => .ok { s with death := [] }      -- returns before `Flush`: the batch is dropped
  | r =>
    match r.cached with
    | some h => .ok { s with rootHash := h, death := [] }   -- no `Flush` either
    | none =>
      match encNew H r [] with
      | none => .panic
      | some (enc, w) =>
        let h := H enc
        .ok { db := applyW s.db (dels ++ w ++ [.put h enc]), root := .persisted h, rootHash := h,
              death := [] }

/-! ### the exported methods -/

structure Cfg where
  H : Bytes → Bytes
  dec : Bytes → Option ENode
  ver : Ver

def Cfg.env (c : Cfg) (s : St) : Env := { H := c.H, dec := c.dec, ver := c.ver, db := s.db }

/-- `NewEmptyTrieDB(db)` on an empty database -/
def St.init (H : Bytes → Bytes) : St :=
  { db := [], root := .persisted (H [0]), rootHash := H [0], death := [] }

/-- `Put(key, value)` -/
def doPut (c : Cfg) (s : St) (k v : Bytes) : Res St :=
  match insertAt (c.env s) ((toNibs k).length + 1) s.root [] (toNibs k) v s.death with
  | .ok (h, _, d) => .ok { s with root := h, death := d }
  | .err => .err
  | .panic => .panic

/-- `Delete(key)` -/
def doDel (c : Cfg) (s : St) (k : Bytes) : Res St :=
  match removeAt (c.env s) ((toNibs k).length + 1) s.root [] (toNibs k) s.death with
  | .ok (some (h, _), d) => .ok { s with root := h, death := d }
  | .ok (none, d) => .ok { s with root := .persisted (c.H [0]), rootHash := c.H [0], death := d }
  | .err => .err
  | .panic => .panic

/-- `Get(key)` -/
def doGet (c : Cfg) (s : St) (k : Bytes) : Option Bytes :=
  lookupMem (c.env s) k s.root [] (toNibs k)

/-- `NewTrieDB(rootHash, db)` over the database of `s` -/
def reopenAt (s : St) : St :=
  { db := s.db, root := .persisted s.rootHash, rootHash := s.rootHash, death := [] }

/-! ### operation language of the harness line -/

inductive Op where
  | put (k v : Bytes)
  | del (k : Bytes)
  | get (k : Bytes)
  | commit
  | reopen
  | bad
deriving Repr

def showOpt : Option Bytes → String
  | none => "nil"
  | some b => hex b

def joinWith (sep : String) : List String → String
  | [] => ""
  | [a] => a
  | a :: r => a ++ sep ++ joinWith sep r

def Res.map {α β : Type} (f : α → β) : Res α → Res β
  | .ok a => .ok (f a)
  | .err => .err
  | .panic => .panic

/-- the effect of one op of the line on the `TrieDB` (`reopen` = `Hash()`, then a fresh
    `NewTrieDB(root, db)`) -/
def execOp (c : Cfg) (s : St) : Op → Res St
  | .put k v => doPut c s k v
  | .del k => doDel c s k
  | .get _ => .ok s
  | .commit => commit c.H s
  | .reopen => (commit c.H s).map reopenAt
  | .bad => .ok s

/-- the whole history; stops at the first error or panic -/
def execAll (c : Cfg) (s : St) : List Op → Res St
  | [] => .ok s
  | op :: r =>
    match execOp c s op with
    | .ok s' => execAll c s' r
    | .err => .err
    | .panic => .panic

/-- what the harness prints for an op that went through, given the states before and after -/
def showOp (c : Cfg) (s s' : St) : Op → String
  | .put _ _ => "ok"
  | .del _ => "ok"
  | .get k => showOpt (doGet c s k)
  | .commit => toHex s'.rootHash ++ ",eq"
  | .reopen => toHex s'.rootHash ++ ",eq"
  | .bad => "bad-op"

/-- one op on the model: new state and observable; `none` state = the op panicked.  After a Go
    `error` the harness goes on with the instance as it is; the model keeps the state before the op. -/
def stepModel (c : Cfg) (s : St) (op : Op) : Option St × String :=
  match execOp c s op with
  | .ok s' => (some s', showOp c s s' op)
  | .err => (some s, "err")
  | .panic => (none, "panic")

/-- sorted, duplicate-free insertion (Go: keys of a map, `sort.Strings`) -/
def insKey (k : Bytes) : List Bytes → List Bytes
  | [] => [k]
  | a :: r => if a = k then a :: r else if klt k a then k :: a :: r else a :: insKey k r

def flipLast : Bytes → Bytes
  | [] => []
  | [b] => [b ^^^ 1]
  | a :: r => a :: flipLast r

/-- the keys read back at the end of a line: every key mentioned and three neighbours -/
def probes (ops : List Op) : List Bytes :=
  ops.foldl (fun acc op =>
    let one (k : Bytes) (acc : List Bytes) : List Bytes :=
      let acc := insKey k acc
      let acc := if k.isEmpty then acc else insKey (flipLast k) (insKey k.dropLast acc)
      insKey (k ++ [0]) acc
    match op with
    | .put k _ => one k acc
    | .del k => one k acc
    | .get k => one k acc
    | _ => acc) []

/-- the implicit end of a line: `Hash()`, then `Get` of every probe on a fresh instance -/
def finalModel (c : Cfg) (s : St) (ops : List Op) : String :=
  match commit c.H s with
  | .ok s' =>
    let f := reopenAt s'
    "F=" ++ toHex s'.rootHash ++ ",eq," ++ joinWith "," ((probes ops).map (fun k => showOpt (doGet c f k)))
  | .err => "F=err"
  | .panic => "panic"

def runModelFrom (c : Cfg) (s : St) (all : List Op) : List Op → List String
  | [] => [finalModel c s all]
  | op :: r =>
    match stepModel c s op with
    | (some s', o) => o :: runModelFrom c s' all r
    | (none, o) => [o]

def runModel (c : Cfg) (ops : List Op) : List String := runModelFrom c (St.init c.H) ops ops

/-! ### the specification: an ordered map and its Merkle root -/

/-- the map after one op -/
def specStep (m : Entries) : Op → Entries
  | .put k v => OMap.upsert k v m
  | .del k => OMap.erase k m
  | _ => m

/-- the map after a history -/
def specAll (m : Entries) (ops : List Op) : Entries := ops.foldl specStep m

def stepSpec (ver : Ver) (H : Bytes → Bytes) (m : Entries) (op : Op) : Entries × String :=
  (specStep m op,
    match op with
    | .put _ _ => "ok"
    | .del _ => "ok"
    | .get k => showOpt (OMap.get k m)
    | .commit => toHex (specRoot ver H m) ++ ",eq"
    | .reopen => toHex (specRoot ver H m) ++ ",eq"
    | .bad => "bad-op")

def finalSpec (ver : Ver) (H : Bytes → Bytes) (m : Entries) (ops : List Op) : String :=
  "F=" ++ toHex (specRoot ver H m) ++ ",eq," ++
    joinWith "," ((probes ops).map (fun k => showOpt (OMap.get k m)))

def runSpecFrom (ver : Ver) (H : Bytes → Bytes) (m : Entries) (all : List Op) : List Op → List String
  | [] => [finalSpec ver H m all]
  | op :: r => let s := stepSpec ver H m op; s.2 :: runSpecFrom ver H s.1 all r

def runSpec (ver : Ver) (H : Bytes → Bytes) (ops : List Op) : List String :=
  runSpecFrom ver H [] ops ops

/-! ### parsing -/

def parseOp (s : String) : Op :=
  match words s with
  | ["put", k, v] => match ofHex? k, ofHex? v with
    | some k, some v => .put k v
    | _, _ => .bad
  | ["del", k] => match ofHex? k with | some k => .del k | none => .bad
  | ["get", k] => match ofHex? k with | some k => .get k | none => .bad
  | ["commit"] => .commit
  | ["reopen"] => .reopen
  | _ => .bad

/-- ops that stay inside one `TrieDB` session (no `Hash()`, no new instance) -/
def Op.inSession : Op → Bool
  | .commit => false
  | .reopen => false
  | _ => true

def Op.isBad : Op → Bool
  | .bad => true
  | _ => false

/-- `ver|op;op;…` -/
def parseLine (line : String) : Option (Ver × List Op) :=
  match line.splitOn "|" with
  | [ver, body] =>
    let ops := (body.splitOn ";").map parseOp
    if ops.any Op.isBad then none
    else if ver == "0" then some (Ver.v0, ops)
    else if ver == "1" then some (Ver.v1, ops)
    else none
  | _ => none

end Gossamer.C06
