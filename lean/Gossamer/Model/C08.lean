/-
C08: model of `lib/runtime/storage/storagediff.go` and `lib/runtime/storage/trie.go`
(`storageDiff`, `TrieState`), method by method, over an abstract committed trie (`Backend`).
Core Lean only.

* Go maps are key-sorted association lists (`KMap`, `KSet`); the order in which Go ranges over a
  map is an explicit argument (`ApplyOrder`) of `applyToTrie`.
* `storageDiff.childChangeSet` holds diffs whose own `childChangeSet` stays empty (no method ever
  writes to it), so the model has two levels: `CDiff` (upserts, deletes, sortedKeys) and `Diff`
  (`CDiff` + child `CDiff`s).  `snapshot()` (deep copy) is the identity on values.
* `limit int` with `-1` = unlimited is `Option Nat`.
* a nil-pointer panic of the Go code is the outcome `panic`; it happens before any mutation except
  inside `applyToTrie`, where the partial result is kept.
-/
import Gossamer.Lib.C08Backend
namespace Gossamer.C08
open Gossamer

/-! ### storageDiff -/

structure CDiff where
  upserts : KMap Bytes
  deletes : KSet
  sortedKeys : KSet
deriving DecidableEq

structure Diff where
  c : CDiff
  kids : KMap CDiff
deriving DecidableEq

namespace CDiff

def empty : CDiff := { upserts := [], deletes := [], sortedKeys := [] }

/-- `get`: value (Go nil = `none`) and "marked for deletion" -/
def get (c : CDiff) (k : Bytes) : Option Bytes × Bool :=
  match KMap.find k c.upserts with
  | some v => (some v, false)
  | none => if KSet.has k c.deletes then (none, true) else (none, false)

/-- `upsert` (a nil value is stored as the empty value) -/
def upsert (c : CDiff) (k v : Bytes) : CDiff :=
  { upserts := KMap.ins k v c.upserts, deletes := KSet.del k c.deletes,
    sortedKeys := KSet.ins k c.sortedKeys }

/-- `delete` on a diff without child change sets -/
def delete (c : CDiff) (k : Bytes) : CDiff :=
  { upserts := KMap.del k c.upserts, deletes := KSet.ins k c.deletes,
    sortedKeys := KSet.del k c.sortedKeys }

end CDiff

/-- loop of `clearPrefix` / `deleteChildLimit` over the sorted candidate keys: `sel k` = the key is
    to be deleted; a deletion of a key that is not new consumes one unit of the limit -/
def limitLoop {σ : Type} (del : σ → Bytes → σ) (sel : Bytes → Bool) (newKeys : List Bytes) :
    List Bytes → Option Nat → σ → Nat → σ × Nat
  | [], _, s, n => (s, n)
  | k :: r, limit, s, n =>
    if limit = some 0 then (s, n)
    else if sel k then
      limitLoop del sel newKeys r (if newKeys.contains k then limit else limit.map (· - 1))
        (del s k) (n + 1)
    else limitLoop del sel newKeys r limit s n

/-- `clearPrefix`, for the receiver type `σ` with its `delete` and its upserts -/
def clearPrefixG {σ : Type} (del : σ → Bytes → σ) (ups : KMap Bytes) (s : σ) (prefix_ : Bytes)
    (trieKeys : List Bytes) (limit : Option Nat) : σ × Nat × Bool :=
  let newKeys := (KMap.keys ups).filter (fun k => !trieKeys.contains k)
  let keysToClear := sortKeys (newKeys ++ trieKeys)
  let r := limitLoop del (fun k => prefix_.isPrefixOf k) newKeys keysToClear limit s 0
  (r.1, r.2, r.2 == keysToClear.length)

namespace Diff

def empty : Diff := { c := CDiff.empty, kids := [] }

def upsert (d : Diff) (k v : Bytes) : Diff := { d with c := d.c.upsert k v }

/-- `delete`: also drops the child change set stored under the same string -/
def delete (d : Diff) (k : Bytes) : Diff := { c := d.c.delete k, kids := KMap.del k d.kids }

def clearPrefix (d : Diff) (p : Bytes) (trieKeys : List Bytes) (limit : Option Nat) :
    Diff × Nat × Bool :=
  clearPrefixG Diff.delete d.c.upserts d p trieKeys limit

def kid (d : Diff) (ck : Bytes) : CDiff := (KMap.find ck d.kids).getD CDiff.empty

/-- `deleteChildLimit` -/
def deleteChildLimit (d : Diff) (ck : Bytes) (current : List Bytes) (limit : Option Nat) :
    Diff × Nat × Bool :=
  let ch := d.kid ck
  let newKeys := (KMap.keys ch.upserts).filter (fun k => !current.contains k)
  match limit with
  | none => (d.delete ck, newKeys.length + current.length, true)
  | some _ =>
    let allKeys := sortKeys (current ++ newKeys)
    let r := limitLoop CDiff.delete (fun _ => true) newKeys allKeys limit ch 0
    ({ d with kids := KMap.ins ck r.1 d.kids }, r.2, r.2 == allKeys.length)

/-- `clearPrefixInChild` -/
def clearPrefixInChild (d : Diff) (ck p : Bytes) (childKeys : List Bytes) (limit : Option Nat) :
    Diff × Nat × Bool :=
  let ch := d.kid ck
  let r := clearPrefixG CDiff.delete ch.upserts ch p childKeys limit
  ({ d with kids := KMap.ins ck r.1 d.kids }, r.2.1, r.2.2)

/-- `getFromChild` -/
def getFromChild (d : Diff) (ck k : Bytes) : Option Bytes × Bool :=
  match KMap.find ck d.kids with
  | some ch => ch.get k
  | none => (none, false)

/-- `upsertChild` -/
def upsertChild (d : Diff) (ck k v : Bytes) : Diff :=
  let ch := d.kid ck
  { c := { d.c with deletes := KSet.del ck d.c.deletes },
    kids := KMap.ins ck (ch.upsert k v) d.kids }

/-- `deleteFromChild` -/
def deleteFromChild (d : Diff) (ck k : Bytes) : Diff :=
  { d with kids := KMap.ins ck ((d.kid ck).delete k) d.kids }

end Diff

/-! ### applyToTrie -/

/-- one iteration order per `range` over a map in `applyToTrie` -/
structure ApplyOrder where
  ups : List (Bytes × Bytes)
  kids : List (Bytes × List (Bytes × Bytes) × List Bytes)
  dels : List Bytes

/-- the order the executable model uses: ascending keys -/
def Diff.sortedOrder (d : Diff) : ApplyOrder :=
  { ups := d.c.upserts, kids := d.kids.map (fun e => (e.1, e.2.upserts, e.2.deletes)),
    dels := d.c.deletes }

section generic
variable {β τ : Type} (B : Backend β τ)

/-- child upserts then child deletes of one child change set; `none` once a call has panicked -/
def applyKid (s : Option β) (e : Bytes × List (Bytes × Bytes) × List Bytes) : Option β :=
  let s1 := e.2.1.foldl (fun s kv => s.bind (fun b => B.putIntoChild b e.1 kv.1 (some kv.2))) s
  e.2.2.foldl (fun s k => s.map (fun b => (B.clearFromChild b e.1 k).getD b)) s1

/-- `DeleteChild` if `GetChild` finds an object, `Delete` of the main key otherwise -/
def applyDel (b : β) (k : Bytes) : β :=
  match B.getChild b k with
  | .present _ => B.deleteChild b k
  | _ => B.delete b k

/-- `applyToTrie`; `none` = panicked on the way -/
def applyToTrie (b : β) (o : ApplyOrder) : Option β :=
  let b1 := o.ups.foldl (fun b kv => B.put b kv.1 (some kv.2)) b
  let b2 := o.kids.foldl (applyKid B) (some b1)
  b2.map (fun b => o.dels.foldl (applyDel B) b)

/-- the partial state a panicking `applyToTrie` leaves behind: the prefix of the calls made -/
def applyKidP (s : β × Bool) (e : Bytes × List (Bytes × Bytes) × List Bytes) : β × Bool :=
  let s1 := e.2.1.foldl (fun (s : β × Bool) kv =>
    if s.2 then s else
      match B.putIntoChild s.1 e.1 kv.1 (some kv.2) with
      | some b => (b, false)
      | none => (s.1, true)) s
  e.2.2.foldl (fun (s : β × Bool) k =>
    if s.2 then s else ((B.clearFromChild s.1 e.1 k).getD s.1, false)) s1

def applyPartial (b : β) (o : ApplyOrder) : β :=
  let b1 := o.ups.foldl (fun b kv => B.put b kv.1 (some kv.2)) b
  (o.kids.foldl (applyKidP B) (b1, false)).1

/-! ### TrieState -/

/-- `TrieState`: the committed trie and the stack of transactions (head = innermost) -/
structure TS (β : Type) where
  base : β
  txs : List Diff

/-- result of one exported call -/
inductive Out where
  | ok
  | panic
  | val (v : Option Bytes)
  | cnt (n : Nat) (all : Bool)
  | keys (ks : List Bytes)
  | ents (es : List (Bytes × Option Bytes))
  | dump (es : List (Bytes × Option Bytes))
      (kids : List (Bytes × Option (List (Bytes × Option Bytes)))) (root : Bytes)
  | many (l : List Out)
  | const (b : Bytes)
  | bad

/-- keys of a trie that start with `p`: `Get(p)` for the key equal to the prefix (the iterator
    starts strictly after its cursor), then the iterator while the prefix matches -/
def keysWithPrefixOn (get : Bytes → Option Bytes) (keysAfter : Bytes → List Bytes) (p : Bytes) :
    List Bytes :=
  (if (get p).isSome then [p] else []) ++ (keysAfter p).takeWhile (fun k => p.isPrefixOf k)

/-- the `nextKey` / `nextKeyOnState` merge of `NextKey` and `GetChildNextKey` -/
def mergeNext (nextKey nextOnState : Option Bytes) : Option Bytes :=
  match nextOnState with
  | none => nextKey
  | some s =>
    match nextKey with
    | none => some s
    | some n => if klt s n then some s else some n

def putTS (s : TS β) (k : Bytes) (v : Option Bytes) : TS β × Out :=
  match s.txs with
  | d :: r => ({ s with txs := d.upsert k (v.getD []) :: r }, .ok)
  | [] => ({ s with base := B.put s.base k v }, .ok)

def getTS (s : TS β) (k : Bytes) : Option Bytes :=
  match s.txs with
  | d :: _ =>
    let r := d.c.get k
    if r.1.isSome || r.2 then r.1 else B.get s.base k
  | [] => B.get s.base k

def deleteTS (s : TS β) (k : Bytes) : TS β × Out :=
  match s.txs with
  | d :: r => ({ s with txs := d.delete k :: r }, .ok)
  | [] => ({ s with base := B.delete s.base k }, .ok)

def nextKeyTS (s : TS β) (k : Bytes) : Option Bytes :=
  match s.txs with
  | d :: _ =>
    mergeNext (nextSorted k d.c.sortedKeys)
      ((B.keysAfter s.base k).find? (fun x => !KSet.has x d.c.deletes))
  | [] => B.nextKey s.base k

def clearPrefixTS (s : TS β) (p : Bytes) : TS β × Out :=
  match s.txs with
  | d :: r =>
    let ks := keysWithPrefixOn (B.get s.base) (B.keysAfter s.base) p
    ({ s with txs := (d.clearPrefix p ks none).1 :: r }, .ok)
  | [] => ({ s with base := B.clearPrefix s.base p }, .ok)

def clearPrefixLimitTS (s : TS β) (p : Bytes) (limit : Nat) : TS β × Out :=
  match s.txs with
  | d :: r =>
    let ks := keysWithPrefixOn (B.get s.base) (B.keysAfter s.base) p
    let x := d.clearPrefix p ks (some limit)
    ({ s with txs := x.1 :: r }, .cnt x.2.1 x.2.2)
  | [] =>
    let x := B.clearPrefixLimit s.base p limit
    ({ s with base := x.1 }, .cnt x.2.1 x.2.2)

/-- `TrieEntries` (sorted by key) -/
def trieEntriesTS (s : TS β) : List (Bytes × Option Bytes) :=
  match s.txs with
  | d :: _ =>
    let m := d.c.upserts.foldl (fun (m : KMap (Option Bytes)) e => KMap.ins e.1 (some e.2) m)
      (B.entries s.base)
    d.c.deletes.foldl (fun m k => KMap.del k m) m
  | [] => B.entries s.base

def setChildStorageTS (s : TS β) (ck k : Bytes) (v : Option Bytes) : TS β × Out :=
  match s.txs with
  | d :: r => ({ s with txs := d.upsertChild ck k (v.getD []) :: r }, .ok)
  | [] =>
    match B.putIntoChild s.base ck k v with
    | some b => ({ s with base := b }, .ok)
    | none => (s, .panic)

def getChildRootTS (s : TS β) (ck : Bytes) : Out :=
  match B.getChild s.base ck with
  | .missing => .val none
  | .dangling => .panic
  | .present c => .val (some (B.T.hash c))

def getFromChildB (b : β) (ck k : Bytes) : Out :=
  match B.getChild b ck with
  | .missing => .val none
  | .dangling => .panic
  | .present c => .val (B.T.get c k)

def getChildStorageTS (s : TS β) (ck k : Bytes) : Out :=
  match s.txs with
  | d :: _ =>
    if KSet.has ck d.c.deletes then .val none
    else
      let r := d.getFromChild ck k
      if r.1.isSome || r.2 then .val r.1 else getFromChildB B s.base ck k
  | [] => getFromChildB B s.base ck k

def deleteChildTS (s : TS β) (ck : Bytes) : TS β × Out :=
  match s.txs with
  | d :: r => ({ s with txs := d.delete ck :: r }, .ok)
  | [] => ({ s with base := B.deleteChild s.base ck }, .ok)

/-- the loop of `DeleteChildLimit` outside a transaction: delete ascending keys in place -/
def deleteKeysLimit (c : τ) : List Bytes → Nat → Nat → τ × Nat
  | [], _, n => (c, n)
  | k :: r, limit, n =>
    if n = limit then (c, n) else deleteKeysLimit (B.T.delete c k) r limit (n + 1)

def deleteChildLimitTS (s : TS β) (ck : Bytes) (limit : Option Nat) : TS β × Out :=
  match s.txs with
  | d :: r =>
    match B.getChild s.base ck with
    | .missing =>
      if (KMap.find ck d.kids).isNone then (s, .cnt 0 false)
      else
        let x := d.deleteChildLimit ck [] limit
        ({ s with txs := x.1 :: r }, .cnt x.2.1 x.2.2)
    | .dangling => (s, .panic)
    | .present c =>
      let x := d.deleteChildLimit ck ((B.T.entries c).map (·.1)) limit
      ({ s with txs := x.1 :: r }, .cnt x.2.1 x.2.2)
  | [] =>
    match B.getChild s.base ck with
    | .missing => (s, .cnt 0 false)
    | .dangling => (s, .panic)
    | .present c =>
      let keys := (B.T.entries c).map (·.1)
      match limit with
      | none => ({ s with base := B.deleteChild s.base ck }, .cnt keys.length true)
      | some n =>
        let x := deleteKeysLimit B c keys n 0
        ({ s with base := B.setChildObj s.base ck x.1 }, .cnt x.2 (x.2 == keys.length))

def clearChildStorageTS (s : TS β) (ck k : Bytes) : TS β × Out :=
  match s.txs with
  | d :: r => ({ s with txs := d.deleteFromChild ck k :: r }, .ok)
  | [] => ({ s with base := (B.clearFromChild s.base ck k).getD s.base }, .ok)

def clearPrefixInChildTS (s : TS β) (ck p : Bytes) : TS β × Out :=
  match s.txs with
  | d :: r =>
    match B.getChild s.base ck with
    | .missing => ({ s with txs := (d.clearPrefixInChild ck p [] none).1 :: r }, .ok)
    | .dangling => (s, .panic)
    | .present c =>
      let ks := keysWithPrefixOn (B.T.get c) (B.T.keysAfter c) p
      ({ s with txs := (d.clearPrefixInChild ck p ks none).1 :: r }, .ok)
  | [] =>
    match B.getChild s.base ck with
    | .present c => ({ s with base := B.setChildObj s.base ck (B.T.clearPrefix c p) }, .ok)
    | _ => (s, .ok)

def clearPrefixInChildLimitTS (s : TS β) (ck p : Bytes) (limit : Nat) : TS β × Out :=
  match s.txs with
  | d :: r =>
    match B.getChild s.base ck with
    | .missing =>
      let x := d.clearPrefixInChild ck p [] (some limit)
      ({ s with txs := x.1 :: r }, .cnt x.2.1 x.2.2)
    | .dangling => (s, .panic)
    | .present c =>
      let ks := keysWithPrefixOn (B.T.get c) (B.T.keysAfter c) p
      let x := d.clearPrefixInChild ck p ks (some limit)
      ({ s with txs := x.1 :: r }, .cnt x.2.1 x.2.2)
  | [] =>
    match B.getChild s.base ck with
    | .present c =>
      let x := B.T.clearPrefixLimit c p limit
      ({ s with base := B.setChildObj s.base ck x.1 }, .cnt x.2.1 x.2.2)
    | _ => (s, .cnt 0 false)

def getChildNextKeyTS (s : TS β) (ck k : Bytes) : Out :=
  let onState : Out :=
    match B.getChild s.base ck with
    | .present c => .val (B.T.nextKey c k)
    | _ => .val none
  match s.txs with
  | d :: _ =>
    if KSet.has ck d.c.deletes then .val none
    else
      match KMap.find ck d.kids with
      | some ch =>
        let nextKey := nextSorted k ch.sortedKeys
        match B.getChild s.base ck with
        | .missing => .val nextKey
        | .dangling => .panic
        | .present c =>
          .val (mergeNext nextKey ((B.T.keysAfter c k).find? (fun x => !KSet.has x ch.deletes)))
      | none => onState
  | [] => onState

/-- `GetKeysWithPrefixFromChild` (keys sorted: the Go result is in map order) -/
def getKeysWithPrefixFromChildTS (s : TS β) (ck p : Bytes) : Out :=
  let onState : Out :=
    match B.getChild s.base ck with
    | .present c => .keys (sortKeys (B.T.keysWithPrefix c p))
    | _ => .keys []
  match s.txs with
  | d :: _ =>
    if KSet.has ck d.c.deletes then .keys []
    else
      match KMap.find ck d.kids with
      | some ch =>
        let finish (onTrie : List (Bytes × Option Bytes)) : Out :=
          let m := ch.upserts.foldl (fun (m : KMap (Option Bytes)) e => KMap.ins e.1 (some e.2) m)
            onTrie
          let m := ch.deletes.foldl (fun m k => KMap.del k m) m
          .keys ((KMap.keys m).filter (fun k => p.isPrefixOf k))
        match B.getChild s.base ck with
        | .missing => if ch.upserts.isEmpty then .keys [] else finish []
        | .dangling => .panic
        | .present c => finish (B.T.entries c)
      | none => onState
  | [] => onState

def startTS (s : TS β) : TS β × Out :=
  ({ s with txs := (s.txs.head?.getD Diff.empty) :: s.txs }, .ok)

def rollbackTS (s : TS β) : TS β × Out :=
  match s.txs with
  | [] => (s, .panic)
  | _ :: r => ({ s with txs := r }, .ok)

/-- `CommitTransaction`; `ord` = the iteration orders of the Go maps -/
def commitTS (ord : Diff → ApplyOrder) (s : TS β) : TS β × Out :=
  match s.txs with
  | [] => (s, .panic)
  | [d] =>
    match applyToTrie B s.base (ord d) with
    | some b => ({ base := b, txs := [] }, .ok)
    | none => ({ base := applyPartial B s.base (ord d), txs := [] }, .panic)
  | d :: _ :: r => ({ s with txs := d :: r }, .ok)

/-! ### operations of the harness -/

inductive Op where
  | put (k : Bytes) (v : Option Bytes)
  | get (k : Bytes)
  | del (k : Bytes)
  | clr (p : Bytes)
  | clrl (p : Bytes) (n : Nat)
  | next (k : Bytes)
  | ents
  | cput (c k : Bytes) (v : Option Bytes)
  | cget (c k : Bytes)
  | cdel (c k : Bytes)
  | cclr (c p : Bytes)
  | cclrl (c p : Bytes) (n : Nat)
  | cnext (c k : Bytes)
  | ckeys (c p : Bytes)
  | kill (c : Bytes)
  | killl (c : Bytes) (n : Option Nat)
  | croot (c : Bytes)
  | start
  | commit
  | rollback
  | snap (x y : UInt8) (sep : Bool)
  | const
  | bad
deriving DecidableEq

/-- reads of `snap` over the probe universe of the two symbols `x`, `y` -/
def snapReads (x y : UInt8) (sep : Bool) : List Op :=
  let px := childPrefix ++ [x]
  let py := childPrefix ++ [y]
  let mainKeys : List Bytes := [[], [x], [x, y], [y], [y, x], px, py]
  let kids : List Bytes := if sep then [[0x4b, x], [0x4b, x, y], [0x4b, y]] else [[x], [x, y], [y]]
  let inKeys : List Bytes := [[], [x], [x, y], [y]]
  mainKeys.flatMap (fun k => (if k.isEmpty then [] else [Op.get k]) ++ [Op.next k]) ++ [Op.ents] ++
    kids.flatMap (fun c => [Op.ckeys c []] ++
      inKeys.flatMap (fun k => (if k.isEmpty then [] else [Op.cget c k]) ++ [Op.cnext c k]))

/-- read-only operations -/
def readOp (s : TS β) : Op → Out
  | .get k => .val (getTS B s k)
  | .next k => .val (nextKeyTS B s k)
  | .ents => .ents (trieEntriesTS B s)
  | .cget c k => getChildStorageTS B s c k
  | .cnext c k => getChildNextKeyTS B s c k
  | .ckeys c p => getKeysWithPrefixFromChildTS B s c p
  | .croot c => getChildRootTS B s c
  | .const => .const childPrefix
  | _ => .bad

end generic

/-- dump of the committed trie, per backend -/
structure Dumper (β : Type) where
  /-- per child-root entry of the main trie (ascending): child key and the entries of the child
      found by `GetChild` (`none` = no object) -/
  kids : β → List (Bytes × Option (List (Bytes × Option Bytes)))

section generic2
variable {β τ : Type} (B : Backend β τ) (D : Dumper β) (ord : Diff → ApplyOrder)

def stepTS (s : TS β) : Op → TS β × Out
  | .put k v => putTS B s k v
  | .del k => deleteTS B s k
  | .clr p => clearPrefixTS B s p
  | .clrl p n => clearPrefixLimitTS B s p n
  | .cput c k v => setChildStorageTS B s c k v
  | .cdel c k => clearChildStorageTS B s c k
  | .cclr c p => clearPrefixInChildTS B s c p
  | .cclrl c p n => clearPrefixInChildLimitTS B s c p n
  | .kill c => deleteChildTS B s c
  | .killl c n => deleteChildLimitTS B s c n
  | .start => startTS s
  | .commit => commitTS B ord s
  | .rollback => rollbackTS s
  | .snap x y sep =>
    (s, .many ((snapReads x y sep).map (readOp B s) ++
      [.dump (B.entries s.base) (D.kids s.base) (B.hash s.base)]))
  | .bad => (s, .bad)
  | op => (s, readOp B s op)

def runTS (s : TS β) : List Op → TS β × List Out
  | [] => (s, [])
  | op :: r =>
    let x := stepTS B D ord s op
    let y := runTS x.1 r
    (y.1, x.2 :: y.2)

end generic2

end Gossamer.C08
