/-
Model of lib/keystore/encrypt.go (Encrypt, Decrypt, EncryptPrivateKey, DecryptPrivateKey,
EncryptAndWriteToFile, ReadFromFileAndDecrypt) and lib/keystore/helpers.go (DecodePrivateKey),
after the `fix:` commit that makes Decrypt reject inputs shorter than the nonce.

AES-GCM and BLAKE2b are NOT modelled: they are the oracle record `Crypto` (kdf / sealAE / openAE).
Every function below is the Go glue around these oracles, with Go slicing made explicit
(outcome ok | err | panic).  `idealCrypto` is the ideal-world instance (a log of honest
encryptions; only logged ciphertexts open) that the driver runs the glue with.
-/
import Gossamer.Base.Bytes
namespace Gossamer.C37

/-- outcome of a Go call: value, returned error, or run-time panic -/
inductive Out (α : Type) where
  | ok (a : α)
  | err
  | panic
deriving DecidableEq, Repr

/-- `gcm.NonceSize()` of `cipher.NewGCM` -/
def nonceSize : Nat := 12
/-- `gcm.Overhead()` (tag length) -/
def tagSize : Nat := 16

/-- the cryptographic oracles the glue is written against -/
structure Crypto where
  /-- `blake2b.Sum256(password)[:]` (the AES-256 key; `aes.NewCipher`/`cipher.NewGCM` cannot fail on 32 bytes) -/
  kdf : Bytes → Bytes
  /-- `gcm.Seal(nil, nonce, msg, nil)` -/
  sealAE : (key nonce msg : Bytes) → Bytes
  /-- `gcm.Open(nil, nonce, ct, nil)`; `none` = "message authentication failed" -/
  openAE : (key nonce ct : Bytes) → Option Bytes

/-- `Encrypt(msg, password)`.  `rnd` is what `io.ReadFull(rand.Reader, nonce)` can draw: fewer than
    12 bytes is the read error; otherwise the nonce is the first 12 bytes and the result is
    `gcm.Seal(nonce, nonce, msg, nil)` = nonce ++ sealed. -/
def encrypt (C : Crypto) (rnd msg pw : Bytes) : Out Bytes :=
  if rnd.length < nonceSize then .err
  else
    let nonce := rnd.take nonceSize
    .ok (nonce ++ C.sealAE (C.kdf pw) nonce msg)

/-- `Decrypt(data, password)` (repaired: the length guard precedes `data[:nonceSize]`). -/
def decrypt (C : Crypto) (data pw : Bytes) : Out Bytes :=
  if data.length < nonceSize then .err
  else
    match C.openAE (C.kdf pw) (data.take nonceSize) (data.drop nonceSize) with
    | some m => .ok m
    | none => .err

/-- `Decrypt` as it was before the repair: `data[:nonceSize]` on a shorter slice panics. -/
def decryptOld (C : Crypto) (data pw : Bytes) : Out Bytes :=
  if data.length < nonceSize then .panic
  else
    match C.openAE (C.kdf pw) (data.take nonceSize) (data.drop nonceSize) with
    | some m => .ok m
    | none => .err

inductive Scheme where
  | ed25519 | sr25519 | secp256k1
deriving DecidableEq, Repr

/-- `crypto.Ed25519Type` … -/
def Scheme.name : Scheme → String
  | .ed25519 => "ed25519"
  | .sr25519 => "sr25519"
  | .secp256k1 => "secp256k1"

/-- `PrivateKeyLength` of the three packages -/
def Scheme.keyLen : Scheme → Nat
  | .ed25519 => 64
  | .sr25519 => 32
  | .secp256k1 => 32

/-- a `crypto.PrivateKey`: its dynamic type and `Encode()` bytes -/
structure PrivKey where
  scheme : Scheme
  bytes : Bytes
deriving DecidableEq, Repr

def PrivKey.valid (pk : PrivKey) : Prop := pk.bytes.length = pk.scheme.keyLen

/-- `<pkg>.NewPrivateKey(in)`: length check only (Decode of sr25519/secp256k1 accepts any 32 bytes) -/
def newPrivateKey (s : Scheme) (inp : Bytes) : Out PrivKey :=
  if inp.length ≠ s.keyLen then .err else .ok ⟨s, inp⟩

/-- `DecodePrivateKey(in, keytype)` -/
def decodePrivateKey (inp : Bytes) (keytype : String) : Out PrivKey :=
  if keytype = "ed25519" then newPrivateKey .ed25519 inp
  else if keytype = "sr25519" then newPrivateKey .sr25519 inp
  else if keytype = "secp256k1" then newPrivateKey .secp256k1 inp
  else .err

/-- `EncryptPrivateKey(pk, password)` -/
def encryptPrivateKey (C : Crypto) (rnd : Bytes) (pk : PrivKey) (pw : Bytes) : Out Bytes :=
  encrypt C rnd pk.bytes pw

/-- `DecryptPrivateKey(data, password, keytype)` -/
def decryptPrivateKey (C : Crypto) (data pw : Bytes) (keytype : String) : Out PrivKey :=
  match decrypt C data pw with
  | .ok m => decodePrivateKey m keytype
  | .err => .err
  | .panic => .panic

/-- `EncryptedKeystore` (the JSON key file, encoding/json trusted) -/
structure KeyFile where
  type : String
  publicKey : String
  ciphertext : Bytes
deriving DecidableEq, Repr

/-- what `os.ReadFile` + `json.Unmarshal` can yield -/
inductive FileState where
  | absent                    -- ReadFile error
  | garbled                   -- Unmarshal error
  | parsed (f : KeyFile)
deriving DecidableEq, Repr

/-- `EncryptAndWriteToFile(path, pk, password)`: the three type assertions always find a type for
    a key of one of the three schemes; `pubHex` is `pk.Public().Hex()` (not modelled). -/
def encryptToFile (C : Crypto) (rnd : Bytes) (pk : PrivKey) (pubHex : String) (pw : Bytes) : Out KeyFile :=
  match encryptPrivateKey C rnd pk pw with
  | .ok ct => .ok ⟨pk.scheme.name, pubHex, ct⟩
  | .err => .err
  | .panic => .panic

/-- `ReadFromFileAndDecrypt(filename, password)` -/
def readFromFileAndDecrypt (C : Crypto) (fs : FileState) (pw : Bytes) : Out PrivKey :=
  match fs with
  | .absent => .err
  | .garbled => .err
  | .parsed f => decryptPrivateKey C f.ciphertext pw f.type

/-! ### the ideal world: a log of honest encryptions -/

/-- one honest encryption event: key, nonce, message -/
structure Enc where
  k : Bytes
  n : Bytes
  m : Bytes
deriving DecidableEq, Repr

/-- the sealed body of an honest encryption -/
def Crypto.ct (C : Crypto) (e : Enc) : Bytes := C.sealAE e.k e.n e.m
/-- the stored blob `nonce ++ body` -/
def Crypto.blob (C : Crypto) (e : Enc) : Bytes := e.n ++ C.ct e

/-- length-faithful placeholder for the sealed bytes in the ideal world: |msg| + 16, the last 16
    depending on the nonce (so that two honest encryptions with different nonces differ). -/
def idealSeal (n m : Bytes) : Bytes := m ++ (n ++ List.replicate tagSize 0).take tagSize

/-- ideal AEAD + ideal hash: the key is the password itself (collision free), and exactly the
    logged honest ciphertexts open. -/
def idealCrypto (L : List Enc) : Crypto where
  kdf := id
  sealAE := fun _ n m => idealSeal n m
  openAE := fun k n c =>
    match L.find? (fun e => decide (e.k = k ∧ e.n = n ∧ idealSeal e.n e.m = c)) with
    | some e => some e.m
    | none => none

/-! ### ciphertext mutations of the correspondence run -/

/-- flip bit `i` (0 = least significant bit of byte 0) -/
def flipBit (b : Bytes) (i : Nat) : Bytes :=
  b.set (i / 8) ((b.getD (i / 8) 0) ^^^ (UInt8.ofNat (2 ^ (i % 8))))

inductive Mut where
  | none
  | trunc (k : Nat)            -- keep the first k bytes
  | flip (i : Nat)             -- flip bit (i mod 8·len)
  | nonce (n : Bytes)          -- overwrite the first 12 bytes
  | ext (s : Bytes)            -- append bytes
  | pre (s : Bytes)            -- prepend bytes
deriving Repr

def Mut.apply (mu : Mut) (b : Bytes) : Bytes :=
  match mu with
  | .none => b
  | .trunc k => b.take k
  | .flip i => if b.length = 0 then b else flipBit b (i % (8 * b.length))
  | .nonce n => n ++ b.drop nonceSize
  | .ext s => b ++ s
  | .pre s => s ++ b

/-! ### several calls on one stored buffer -/

/-- one decryption request against the stored buffer: on the buffer itself, or on a tampered copy -/
inductive SeqOp where
  | onBuf (pw : Bytes)
  | onCopy (mu : Mut) (pw : Bytes)

/-- outcome of one request as a function of the CURRENT buffer contents; `f` is the single-call
    function (`decrypt C`, or `fun d p => decryptPrivateKey C d p kt`) -/
def SeqOp.outcome {α : Type} (f : Bytes → Bytes → Out α) (buf : Bytes) : SeqOp → Out α
  | .onBuf pw => f buf pw
  | .onCopy mu pw => f (mu.apply buf) pw

/-- a sequence of calls threading the caller's buffer as state.  The Go functions read `data` and
    the password only (`gcm.Open(nil, …)` allocates its output), so the buffer after a call is the
    buffer before it.  Returns the outcomes and the final buffer contents. -/
def runOps {α : Type} (f : Bytes → Bytes → Out α) : Bytes → List SeqOp → List (Out α) × Bytes
  | buf, [] => ([], buf)
  | buf, op :: rest =>
    let o := op.outcome f buf
    let buf' := buf
    let r := runOps f buf' rest
    (o :: r.1, r.2)

/-! ### histories of calls in one process -/

/-- one call of the package API (raw level) -/
inductive Call where
  | enc (rnd msg pw : Bytes)
  | dec (data pw : Bytes)

/-- the per-call pure function -/
def Call.result (C : Crypto) : Call → Out Bytes
  | .enc rnd msg pw => encrypt C rnd msg pw
  | .dec data pw => decrypt C data pw

/-- a history of calls, threading the process state.  The package keeps NO state between calls
    (no cache of derived keys or AEADs): the state is only the ghost list of calls made so far, and
    no call reads it. -/
def runCalls (C : Crypto) : List Call → List Call → List (Out Bytes)
  | _, [] => []
  | past, c :: rest => c.result C :: runCalls C (past ++ [c]) rest

end Gossamer.C37
