/-
C26 — BABE epoch data is taken from the block's own fork.  Core Lean only.

Model of dot/state/epoch.go (`nextEpochMap`, `HandleBABEDigest`, `storeBABENextEpochData/ConfigData`,
`Retrieve`, `RetrieveAndUpdate`, `findAncestor`, `GetEpochDataRaw`, `GetConfigData`, `GetSkippedEpochDataRaw`,
`GetSkippedConfigData`, `UpdateSkippedEpochDefinitions`, `FinalizeBABENextEpochData/ConfigData`,
`GetEpochForBlock`, `retrieveFirstNonOriginBlockSlot`, `NewEpochState/restoreMapFromDisk`) over the block state
of Model/C17 (`AddBlock`, `SetFinalisedHash`, `GetHeader`) plus `BlockState.IsDescendantOf` with its
header-walk fallback and `GetHashesByNumber(1)`.  Finalisation is part of the histories: the tree root moves,
abandoned forks are pruned, finalised headers live in the header table.

Hashes are natural numbers, `0` is `common.EmptyHash`.  The hash determines the header: a case fixes a
universe `Univ` (hash ↦ header, hash ↦ BABE slot) and every operation names a block by its hash.

Go maps.  The inner map of `nextEpochMap` is ranged over in `findAncestor` (and in
`findFinalizedHeaderForEpoch`), so which entry is taken when several qualify depends on Go's random iteration
order.  Lookups return ALL entries the range could return first (`FA.found cands`, `Res.mem cands`) and the
theorems hold for every element.  Where such a choice is written back (`RetrieveAndUpdate`, `Finalize…`) the
model takes the first candidate; the harness does not generate histories where that choice is not unique.

`findAncestor` has no loop bound in Go; the model takes fuel (`C26_terminates`: number + 1 suffices).
`findAncOld` is the loop before the repair (it re-read the ORIGINAL header's parent).
-/
import Gossamer.Model.C17
namespace Gossamer.C26
open Gossamer.C17 (Blk findB)

/-- the headers of a case: `blk h` is the header with hash `h`, `slot h` its BABE slot number -/
structure Univ where
  blk : Nat → Blk
  slot : Nat → Nat

/-- inner Go map `map[common.Hash]T`: announcing hash ↦ data id -/
abbrev Entries := List (Nat × Nat)
/-- `nextEpochMap[T]` : epoch ↦ inner map -/
abbrev EpochMap := List (Nat × Entries)

structure St where
  epochLen : Nat
  /-- the block state (block tree, unfinalisedBlocks, header table, …) -/
  bs : C17.St
  /-- `firstSlotNumberKey` (0 = not set) -/
  fsn : Nat
  nextEpoch : EpochMap
  nextConfig : EpochMap
  /-- the copies of both maps in the database (`nextepochdata…` / `nextconfigdata…` keys) -/
  diskEpoch : EpochMap
  diskConfig : EpochMap
  /-- `epochDataKey(epoch)` / `configDataKey(epoch)` entries of the database -/
  dbEpoch : List (Nat × Nat)
  dbConfig : List (Nat × Nat)
deriving Repr, Inhabited

def genesis : Blk := { hash := 1, parent := 0, number := 0, sroot := 0 }

def St.init (epochLen : Nat) : St :=
  { epochLen := epochLen, bs := C17.St.init genesis, fsn := 0, nextEpoch := [], nextConfig := [],
    diskEpoch := [], diskConfig := [], dbEpoch := [], dbConfig := [] }

/-! ### association lists (Go maps, database keys) -/

def lookup {β : Type} (m : List (Nat × β)) (k : Nat) : Option β :=
  match m.find? (fun p => p.1 = k) with
  | some p => some p.2
  | none => none

/-- `m[k] = v` -/
def insert {β : Type} (m : List (Nat × β)) (k : Nat) (v : β) : List (Nat × β) :=
  if m.any (fun p => p.1 = k) then m.map (fun p => if p.1 = k then (k, v) else p) else m ++ [(k, v)]

/-- `delete(m, k)` -/
def erase {β : Type} (m : List (Nat × β)) (k : Nat) : List (Nat × β) := m.filter (fun p => p.1 ≠ k)

/-- `storeBABENextEpochData` / `storeBABENextConfigData`: `m[epoch][hash] = data` -/
def store (m : EpochMap) (epoch hash data : Nat) : EpochMap :=
  match lookup m epoch with
  | some es => insert m epoch (insert es hash data)
  | none => insert m epoch [(hash, data)]

/-! ### dot/state/block.go -/

/-- `BlockState.GetHeader`: unfinalisedBlocks, then the header table -/
def getHeader (st : St) (h : Nat) : Option Blk := C17.getHeader st.bs h

/-- the loop of the fallback in `BlockState.IsDescendantOf`:
    `for current := descendant; current.Number > ancestor.Number; current = GetHeader(current.ParentHash)` -/
def headerWalk (st : St) (a aNum : Nat) : Nat → Blk → Option Bool
  | 0, _ => none
  | fuel + 1, cur =>
    if cur.number > aNum then
      if cur.parent = a then some true
      else match getHeader st cur.parent with
        | none => none
        | some p => headerWalk st a aNum fuel p
    else some false

/-- `BlockState.IsDescendantOf(ancestor, descendant)`; `none` = an error wrapping `database.ErrNotFound` -/
def isDesc (st : St) (a d : Nat) : Option Bool :=
  if a = d then some true
  else match findB st.bs.tree a, findB st.bs.tree d with
    | some _, some dn => some (decide (a ∈ C17.up st.bs dn))      -- both in the block tree
    | _, _ =>
      match getHeader st d, getHeader st a with
      | some dh, some ah => headerWalk st a ah.number (dh.number + 1) dh
      | _, _ => none

/-- `BlockState.GetHashesByNumber(1)`: the tree nodes with number 1, else the number table -/
def hashesAt1 (st : St) : List Nat :=
  let rootNum := match findB st.bs.tree st.bs.root with
    | some rb => rb.number
    | none => 0
  let mem := if 1 < rootNum then [] else (st.bs.tree.filter (fun b => b.number = 1)).map (·.hash)
  if mem.isEmpty then
    match C17.lookupN st.bs.dbNum 1 with
    | some h => [h]
    | none => []
  else mem

/-! ### findAncestor -/

inductive FA where
  | found (cands : Entries)
  | errHash        -- errHashNotInMemory
  | errParent      -- "cannot get parent header"
  | outOfFuel      -- the Go loop is still running
deriving DecidableEq, Repr

/-- the test made on one entry of the ranged-over map for the current header -/
def hit (st : St) (cur : Nat) (e : Nat × Nat) : Bool :=
  e.1 = cur || isDesc st e.1 cur == some true

/-- `findAncestor` (repaired: `GetHeader(currentHeader.ParentHash)`) -/
def findAnc (st : St) (entries : Entries) : Nat → Blk → FA
  | 0, _ => .outOfFuel
  | fuel + 1, cur =>
    let c := entries.filter (hit st cur.hash)
    if c ≠ [] then .found c
    else if cur.parent = 0 then .errHash
    else match getHeader st cur.parent with
      | none => .errParent
      | some p => findAnc st entries fuel p

/-- `findAncestor` as it was: `GetHeader(header.ParentHash)` with the ORIGINAL header -/
def findAncOld (st : St) (entries : Entries) (orig : Blk) : Nat → Blk → FA
  | 0, _ => .outOfFuel
  | fuel + 1, cur =>
    let c := entries.filter (hit st cur.hash)
    if c ≠ [] then .found c
    else if cur.parent = 0 then .errHash
    else match getHeader st orig.parent with
      | none => .errParent
      | some p => findAncOld st entries orig fuel p

inductive Res where
  | gen                     -- genesisEpochDescriptor
  | db (d : Nat)            -- persisted definition
  | mem (cands : Entries)   -- one of these in-memory announcements (Go map order picks)
  | errEpoch                -- ErrEpochNotInMemory
  | errHash                 -- errHashNotInMemory
  | errParent
  | timeout
deriving DecidableEq, Repr

def Res.ofFA : FA → Res
  | .found c => .mem c
  | .errHash => .errHash
  | .errParent => .errParent
  | .outOfFuel => .timeout

/-- `nextEpochMap.Retrieve` -/
def retrieve (st : St) (m : EpochMap) (epoch : Nat) (hdr : Blk) : Res :=
  match lookup m epoch with
  | none => .errEpoch
  | some entries => Res.ofFA (findAnc st entries (hdr.number + 1) hdr)

/-- `nextEpochMap.RetrieveAndUpdate(oldEpoch, newEpoch, header)`: the map afterwards and the answer -/
def retrieveAndUpdate (st : St) (m : EpochMap) (old new : Nat) (hdr : Blk) : EpochMap × Res :=
  match lookup m old with
  | none => (m, .errEpoch)
  | some entries =>
    match findAnc st entries (hdr.number + 1) hdr with
    | .found [] => (m, .errHash)
    | .found (x :: rest) =>
      let m1 := insert m old (erase entries x.1)
      let hashes := (lookup m1 new).getD []
      (insert m1 new (insert hashes x.1 x.2), .mem (x :: rest))
    | r => (m, Res.ofFA r)

/-- `GetEpochDataRaw(epoch, header)` (header non-nil) -/
def getEpochDataRaw (st : St) (epoch : Nat) (hdr : Blk) : Res :=
  if epoch = 0 then .gen
  else match lookup st.dbEpoch epoch with
    | some d => .db d
    | none => retrieve st st.nextEpoch epoch hdr

/-- `GetConfigData(epoch, header)`: `for tryEpoch := epoch; tryEpoch >= 0; tryEpoch--` -/
def getConfigData (st : St) (hdr : Blk) : Nat → Res
  | 0 => .gen
  | e + 1 =>
    match lookup st.dbConfig (e + 1) with
    | some d => .db d
    | none =>
      match retrieve st st.nextConfig (e + 1) hdr with
      | .errEpoch => getConfigData st hdr e
      | .errHash => getConfigData st hdr e
      | r => r

/-- `updateEpochDefinitionKey`: move a database definition from `old` to `new` -/
def dbMove (db : List (Nat × Nat)) (old new : Nat) : Option (List (Nat × Nat) × Nat) :=
  match lookup db old with
  | none => none
  | some d => some (insert (erase db old) new d, d)

/-- would `RetrieveAndUpdate(skipped, …, header)` have to choose between several entries? -/
def ambRU (st : St) (m : EpochMap) (db : List (Nat × Nat)) (skipped : Nat) (hdr : Blk) : Bool :=
  skipped ≠ 0 && (lookup db skipped).isNone &&
    match lookup m skipped with
    | none => false
    | some entries =>
      match findAnc st entries (hdr.number + 1) hdr with
      | .found c => decide (c.length > 1)
      | _ => false

/-- `GetSkippedEpochDataRaw(skipped, current, header)` -/
def getSkippedEpochData (st : St) (skipped current : Nat) (hdr : Blk) : St × Res :=
  if skipped = 0 then (st, .gen)
  else match dbMove st.dbEpoch skipped current with
    | some (db', d) => ({ st with dbEpoch := db' }, .db d)
    | none =>
      ({ st with nextEpoch := (retrieveAndUpdate st st.nextEpoch skipped current hdr).1 },
        (retrieveAndUpdate st st.nextEpoch skipped current hdr).2)

/-- `GetSkippedConfigData(skipped, current, header)` -/
def getSkippedConfig (st : St) (skipped current : Nat) (hdr : Blk) : St × Res :=
  if skipped = 0 then (st, .gen)
  else match dbMove st.dbConfig skipped current with
    | some (db', d) => ({ st with dbConfig := db' }, .db d)
    | none =>
      let st' := { st with nextConfig := (retrieveAndUpdate st st.nextConfig skipped current hdr).1 }
      match (retrieveAndUpdate st st.nextConfig skipped current hdr).2 with
      | .errEpoch => (st', getConfigData st' hdr (skipped - 1))
      | .errHash => (st', getConfigData st' hdr (skipped - 1))
      | r => (st', r)

/-- `updateSkippedEpochDataRaw`; `false` = an error was returned -/
def updateSkippedEpoch (st : St) (skipped current : Nat) (hdr : Blk) : St × Bool :=
  match dbMove st.dbEpoch skipped current with
  | some p => ({ st with dbEpoch := p.1 }, true)
  | none =>
    ({ st with nextEpoch := (retrieveAndUpdate st st.nextEpoch skipped current hdr).1 },
      match (retrieveAndUpdate st st.nextEpoch skipped current hdr).2 with
      | .mem _ => true
      | _ => false)

/-- `updateSkippedConfigData` -/
def updateSkippedConfig (st : St) (skipped current : Nat) (hdr : Blk) : St × Bool :=
  match dbMove st.dbConfig skipped current with
  | some p => ({ st with dbConfig := p.1 }, true)
  | none =>
    ({ st with nextConfig := (retrieveAndUpdate st st.nextConfig skipped current hdr).1 },
      match (retrieveAndUpdate st st.nextConfig skipped current hdr).2 with
      | .mem _ => true
      | .errEpoch => true
      | .errHash => true
      | _ => false)

/-- `UpdateSkippedEpochDefinitions(skipped, current, header)`; `false` = an error was returned -/
def updateSkipped (st : St) (skipped current : Nat) (hdr : Blk) : St × Bool :=
  if skipped = 0 then (st, true)
  else if (updateSkippedEpoch st skipped current hdr).2 then
    updateSkippedConfig (updateSkippedEpoch st skipped current hdr).1 skipped current hdr
  else ((updateSkippedEpoch st skipped current hdr).1, false)

/-! ### GetEpochForBlock -/

inductive Slot where
  | ok (s : Nat)
  | notFound      -- an error wrapping database.ErrNotFound (GetEpochForBlock retries with the parent)
  | other
deriving DecidableEq, Repr

/-- the loop over the number-1 hashes: the first `IsDescendantOf` error ends it; no ancestor found = the zero
    hash is looked up, which fails -/
def scanFirst (u : Univ) (st : St) (bh : Nat) : List Nat → Slot
  | [] => .notFound
  | x :: rest =>
    match isDesc st x bh with
    | none => .notFound
    | some true => (match getHeader st x with | some _ => .ok (u.slot x) | none => .notFound)
    | some false => scanFirst u st bh rest

/-- `retrieveFirstNonOriginBlockSlot(blockHash)` -/
def retrieveFirst (u : Univ) (st : St) (bh : Nat) : Slot :=
  if st.fsn ≠ 0 then .ok st.fsn
  else match hashesAt1 st with
    | [] => .other
    | [x] => (match getHeader st x with | some _ => .ok (u.slot x) | none => .notFound)
    | xs =>
      match getHeader st bh with
      | none => .notFound
      | some b => if b.number = 1 then .ok (u.slot b.hash) else scanFirst u st bh xs

/-- `GetEpochForBlock`; uint64 subtraction wraps -/
def epochForBlock (u : Univ) (st : St) (hdr : Blk) : Option Nat :=
  if hdr.number ≤ 1 then some 0
  else
    let r := match retrieveFirst u st hdr.hash with
      | .notFound => retrieveFirst u st hdr.parent
      | r => r
    match r with
    | .ok first => some (((18446744073709551616 + u.slot hdr.hash - first) % 18446744073709551616) / st.epochLen)
    | _ => none

/-- `nextEpoch := currEpoch + 1` in uint64 -/
def nextOf (e : Nat) : Nat := (1 + e) % 18446744073709551616

/-! ### finalisation -/

/-- `subchain[1:]` of `handleFinalisedBlock` -/
def subchain (bs : C17.St) (h : Nat) : List Blk :=
  match C17.rangeInMemory bs bs.root h with
  | .ok path => path.tail
  | _ => []

/-- `findFinalizedHeaderForEpoch`: the entries whose announcing block is in the header table -/
def persisted (st : St) (entries : Entries) : Entries :=
  entries.filter (fun x => (findB st.bs.dbHdr x.1).isSome)

/-- the in-memory epochs `e <= nextEpoch` are dropped, and the same epochs on disk -/
def dropUpTo (m : EpochMap) (next : Nat) : EpochMap := m.filter (fun p => p.1 > next)

def dropDisk (disk mem : EpochMap) (next : Nat) : EpochMap :=
  disk.filter (fun p => !(decide (p.1 ≤ next) && mem.any (fun q => q.1 = p.1)))

/-- outcome of an operation that may have to write back a choice made by Go's map order: `amb` = the choice
    is not unique, the operation is not performed (rule shared with the harness) -/
inductive Tri where
  | ok | err | amb
deriving DecidableEq, Repr

/-- `FinalizeBABENextEpochData(header)` -/
def finalizeEpoch (u : Univ) (st : St) (hdr : Blk) : St × Tri :=
  if hdr.number = 0 then (st, .ok)
  else match epochForBlock u st hdr with
    | none => (st, .err)
    | some e =>
      let next := nextOf e
      match lookup st.dbEpoch next with
      | some _ => (st, .ok)
      | none =>
        match lookup st.nextEpoch next with
        | none => (st, .err)
        | some entries =>
          match persisted st entries with
          | [] => (st, .err)
          | [x] =>
            ({ st with dbEpoch := insert st.dbEpoch next x.2, nextEpoch := dropUpTo st.nextEpoch next,
                       diskEpoch := dropDisk st.diskEpoch st.nextEpoch next }, .ok)
          | _ => (st, .amb)

/-- `FinalizeBABENextConfigData(header)` (repaired: looks under `configDataKey`) -/
def finalizeConfig (u : Univ) (st : St) (hdr : Blk) : St × Tri :=
  if hdr.number = 0 then (st, .ok)
  else match epochForBlock u st hdr with
    | none => (st, .err)
    | some e =>
      let next := nextOf e
      match lookup st.dbConfig next with
      | some _ => (st, .ok)
      | none =>
        match lookup st.nextConfig next with
        | none => (st, .ok)
        | some entries =>
          match persisted st entries with
          | [] => (st, .err)
          | [x] =>
            ({ st with dbConfig := insert st.dbConfig next x.2, nextConfig := dropUpTo st.nextConfig next,
                       diskConfig := dropDisk st.diskConfig st.nextConfig next }, .ok)
          | _ => (st, .amb)

/-! ### operations -/

inductive Op where
  | add (h : Nat)                       -- AddBlock
  | ann (h d : Nat)                     -- HandleBABEDigest(header, NextEpochData d)
  | cfg (h d : Nat)                     -- HandleBABEDigest(header, NextConfigDataV1 d)
  | dbe (epoch d : Nat)                 -- SetEpochDataRaw
  | dbc (epoch d : Nat)                 -- StoreConfigData
  | restart                             -- NewEpochState: maps restored from the database
  | fin (h round : Nat)                 -- SetFinalisedHash(h, round, 0); on success both Finalize… calls
  | skipE (h skipped current : Nat)     -- GetSkippedEpochDataRaw
  | skipC (h skipped current : Nat)     -- GetSkippedConfigData
  | upd (h skipped current : Nat)       -- UpdateSkippedEpochDefinitions
deriving Repr

inductive Out where
  | ok | err
  | res (r : Res)
  | fin (r : C17.FinRes) (e c : Tri)
  | amb
deriving Repr

def step (u : Univ) (st : St) : Op → St × Out
  | .add h =>
    let (bs', r) := C17.addBlock st.bs (u.blk h)
    ({ st with bs := bs' }, if r = .ok then .ok else .err)
  | .ann h d => match epochForBlock u st (u.blk h) with
    | some e => ({ st with nextEpoch := store st.nextEpoch (nextOf e) h d,
                           diskEpoch := store st.diskEpoch (nextOf e) h d }, .ok)
    | none => (st, .err)
  | .cfg h d => match epochForBlock u st (u.blk h) with
    | some e => ({ st with nextConfig := store st.nextConfig (nextOf e) h d,
                           diskConfig := store st.diskConfig (nextOf e) h d }, .ok)
    | none => (st, .err)
  | .dbe e d => ({ st with dbEpoch := insert st.dbEpoch e d }, .ok)
  | .dbc e d => ({ st with dbConfig := insert st.dbConfig e d }, .ok)
  | .restart => ({ st with nextEpoch := st.diskEpoch, nextConfig := st.diskConfig }, .ok)
  | .fin h r =>
    let sub := subchain st.bs h
    let (bs', res) := C17.setFinalised genesis.hash st.bs h r 0
    if res = .ok then
      let moved := h ≠ st.bs.root
      let fsn' := if moved then
          (match sub.find? (fun b => b.number = 1) with
            | some b => u.slot b.hash
            | none => st.fsn)
        else st.fsn
      let st1 := { st with bs := bs', fsn := fsn' }
      let (st2, e) := finalizeEpoch u st1 (u.blk h)
      let (st3, c) := finalizeConfig u st2 (u.blk h)
      (st3, .fin res e c)
    else ({ st with bs := bs' }, .fin res .ok .ok)
  | .skipE h s c =>
    if ambRU st st.nextEpoch st.dbEpoch s (u.blk h) then (st, .amb)
    else let (st', r) := getSkippedEpochData st s c (u.blk h); (st', .res r)
  | .skipC h s c =>
    if ambRU st st.nextConfig st.dbConfig s (u.blk h) then (st, .amb)
    else let (st', r) := getSkippedConfig st s c (u.blk h); (st', .res r)
  | .upd h s c =>
    if ambRU st st.nextEpoch st.dbEpoch s (u.blk h) || ambRU st st.nextConfig st.dbConfig s (u.blk h) then (st, .amb)
    else let (st', ok) := updateSkipped st s c (u.blk h); (st', if ok then .ok else .err)

def run (u : Univ) (epochLen : Nat) (ops : List Op) : St := ops.foldl (fun s o => (step u s o).1) (St.init epochLen)

end Gossamer.C26
