/-
C26 — BABE epoch data is taken from the block's own fork.  Core Lean only.

Model of dot/state/epoch.go (`nextEpochMap`, `HandleBABEDigest`, `storeBABENextEpochData/ConfigData`,
`Retrieve`, `findAncestor`, `GetEpochDataRaw`, `GetConfigData`, `GetEpochForBlock`,
`retrieveFirstNonOriginBlockSlot`) over the part of dot/state/block.go it calls (`GetHeader`,
`IsDescendantOf`, `GetHashesByNumber(1)`, `AddBlock`).

Hashes are natural numbers, `0` is `common.EmptyHash` (the parent hash of genesis).  A header is the record
`(hash, parent, number, slot)`; the hash determines the header in Go, which the theorems take as the
hypothesis `Consistent`.  No block is finalised in this model: the block-tree root is genesis and every
imported header is answered by `GetHeader` (assumption recorded in config.json).

Go maps.  `nextEpochMap` is `map[epoch]map[hash]T`; the inner map is ranged over in `findAncestor`, so the
entry that is returned when several announcing hashes lie on the queried block's ancestry depends on Go's
random iteration order.  The model returns ALL entries the range could return first (`FA.found cands`);
the theorems hold for every element of `cands`, i.e. for every iteration order.

`findAncestor` has no loop bound in Go.  The model takes fuel; `C26_terminates` shows `number + 1` is enough
(and `C26_fuel_stable` that more fuel never changes the answer), which is the property's "fails promptly".
`findAncOld` is the loop as it was before the repair (it re-read the ORIGINAL header's parent).
-/
namespace Gossamer.C26

structure Hdr where
  hash : Nat
  parent : Nat
  number : Nat
  slot : Nat
deriving DecidableEq, Repr, Inhabited

/-- inner Go map `map[common.Hash]T`: announcing hash ↦ data id -/
abbrev Entries := List (Nat × Nat)
/-- `nextEpochMap[T]` : epoch ↦ inner map -/
abbrev EpochMap := List (Nat × Entries)

structure St where
  epochLen : Nat
  /-- headers `GetHeader` answers: genesis first, then `AddBlock` order -/
  imported : List Hdr
  nextEpoch : EpochMap
  nextConfig : EpochMap
  /-- `epochDataKey(epoch)` / `configDataKey(epoch)` entries of the database -/
  dbEpoch : List (Nat × Nat)
  dbConfig : List (Nat × Nat)
deriving Repr, Inhabited

def genesis : Hdr := { hash := 1, parent := 0, number := 0, slot := 0 }

def St.init (epochLen : Nat) : St :=
  { epochLen := epochLen, imported := [genesis], nextEpoch := [], nextConfig := [], dbEpoch := [], dbConfig := [] }

/-! ### association lists (Go maps) -/

def lookup {β : Type} (m : List (Nat × β)) (k : Nat) : Option β :=
  match m.find? (fun p => p.1 = k) with
  | some p => some p.2
  | none => none

/-- `m[k] = v` -/
def insert {β : Type} (m : List (Nat × β)) (k : Nat) (v : β) : List (Nat × β) :=
  if m.any (fun p => p.1 = k) then m.map (fun p => if p.1 = k then (k, v) else p) else m ++ [(k, v)]

/-- `storeBABENextEpochData` / `storeBABENextConfigData`: `m[epoch][hash] = data` -/
def store (m : EpochMap) (epoch hash data : Nat) : EpochMap :=
  match lookup m epoch with
  | some es => insert m epoch (insert es hash data)
  | none => insert m epoch [(hash, data)]

/-! ### dot/state/block.go -/

/-- `BlockState.GetHeader` -/
def getHeader (st : St) (h : Nat) : Option Hdr := st.imported.find? (fun x => x.hash = h)

/-- the hash and its imported ancestors, following parent links (`fuel` steps at most) -/
def ancList (st : St) : Nat → Nat → List Nat
  | 0, _ => []
  | fuel + 1, h =>
    match getHeader st h with
    | none => []
    | some x => h :: ancList st fuel x.parent

/-- `BlockState.IsDescendantOf(ancestor, descendant)`; `none` = an error wrapping `database.ErrNotFound`.
    With no finalised blocks the block tree holds exactly the imported headers, so the fallback walk over
    headers is entered only when one of the two is unknown and then fails at its first `GetHeader`. -/
def isDesc (st : St) (a d : Nat) : Option Bool :=
  if a = d then some true
  else match getHeader st a, getHeader st d with
    | some _, some x => some (decide (a ∈ ancList st (x.number + 1) d))
    | _, _ => none

/-- `BlockState.AddBlock` → `BlockTree.AddBlock`: parent in the tree, block not yet in the tree,
    `number == parent.number + 1` -/
def addBlock (st : St) (h : Hdr) : Option St :=
  match getHeader st h.parent with
  | none => none
  | some p =>
    if (getHeader st h.hash).isSome then none
    else if p.number + 1 ≠ h.number then none
    else some { st with imported := st.imported ++ [h] }

/-! ### findAncestor -/

inductive FA where
  | found (cands : Entries)
  | errHash        -- errHashNotInMemory
  | errParent      -- "cannot get parent header"
  | outOfFuel      -- the Go loop is still running
deriving DecidableEq, Repr

/-- the test made on one entry of the ranged-over map for the current header -/
def hit (st : St) (cur : Nat) (e : Nat × Nat) : Bool :=
  e.1 = cur || isDesc st e.1 cur == some true

/-- `findAncestor` (repaired: `GetHeader(currentHeader.ParentHash)`) -/
def findAnc (st : St) (entries : Entries) : Nat → Hdr → FA
  | 0, _ => .outOfFuel
  | fuel + 1, cur =>
    let c := entries.filter (hit st cur.hash)
    if c ≠ [] then .found c
    else if cur.parent = 0 then .errHash
    else match getHeader st cur.parent with
      | none => .errParent
      | some p => findAnc st entries fuel p

/-- `findAncestor` as it was: `GetHeader(header.ParentHash)` with the ORIGINAL header -/
def findAncOld (st : St) (entries : Entries) (orig : Hdr) : Nat → Hdr → FA
  | 0, _ => .outOfFuel
  | fuel + 1, cur =>
    let c := entries.filter (hit st cur.hash)
    if c ≠ [] then .found c
    else if cur.parent = 0 then .errHash
    else match getHeader st orig.parent with
      | none => .errParent
      | some p => findAncOld st entries orig fuel p

inductive Res where
  | gen                     -- genesisEpochDescriptor
  | db (d : Nat)            -- persisted definition
  | mem (cands : Entries)   -- one of these in-memory announcements (Go map order picks)
  | errEpoch                -- ErrEpochNotInMemory
  | errHash                 -- errHashNotInMemory
  | errParent
  | timeout
deriving DecidableEq, Repr

/-- `nextEpochMap.Retrieve` -/
def retrieve (st : St) (m : EpochMap) (epoch : Nat) (hdr : Hdr) : Res :=
  match lookup m epoch with
  | none => .errEpoch
  | some entries =>
    match findAnc st entries (hdr.number + 1) hdr with
    | .found c => .mem c
    | .errHash => .errHash
    | .errParent => .errParent
    | .outOfFuel => .timeout

/-- `GetEpochDataRaw(epoch, header)` (header non-nil) -/
def getEpochDataRaw (st : St) (epoch : Nat) (hdr : Hdr) : Res :=
  if epoch = 0 then .gen
  else match lookup st.dbEpoch epoch with
    | some d => .db d
    | none => retrieve st st.nextEpoch epoch hdr

/-- `GetConfigData(epoch, header)`: `for tryEpoch := epoch; tryEpoch >= 0; tryEpoch--` -/
def getConfigData (st : St) (hdr : Hdr) : Nat → Res
  | 0 => .gen
  | e + 1 =>
    match lookup st.dbConfig (e + 1) with
    | some d => .db d
    | none =>
      match retrieve st st.nextConfig (e + 1) hdr with
      | .errEpoch => getConfigData st hdr e
      | .errHash => getConfigData st hdr e
      | r => r

/-! ### GetEpochForBlock -/

inductive Slot where
  | ok (s : Nat)
  | notFound      -- an error wrapping database.ErrNotFound (GetEpochForBlock retries with the parent)
  | other
deriving DecidableEq, Repr

/-- `retrieveFirstNonOriginBlockSlot(blockHash)`; `firstSlotNumberKey` is unset while nothing is finalised -/
def retrieveFirst (st : St) (bh : Nat) : Slot :=
  match st.imported.filter (fun x => x.number = 1) with
  | [] => .other
  | [x] => .ok x.slot
  | xs =>
    match getHeader st bh with
    | none => .notFound
    | some b =>
      if b.number = 1 then .ok b.slot
      else match xs.find? (fun x => isDesc st x.hash bh == some true) with
        | some x => .ok x.slot
        | none => .notFound

/-- `GetEpochForBlock`; uint64 subtraction wraps -/
def epochForBlock (st : St) (hdr : Hdr) : Option Nat :=
  if hdr.number ≤ 1 then some 0
  else
    let r := match retrieveFirst st hdr.hash with
      | .notFound => retrieveFirst st hdr.parent
      | r => r
    match r with
    | .ok first => some (((18446744073709551616 + hdr.slot - first) % 18446744073709551616) / st.epochLen)
    | _ => none

/-! ### operations -/

inductive Op where
  | add (h : Hdr)                 -- AddBlock
  | ann (h : Hdr) (d : Nat)       -- HandleBABEDigest(header, NextEpochData d)
  | cfg (h : Hdr) (d : Nat)       -- HandleBABEDigest(header, NextConfigDataV1 d)
  | dbe (epoch d : Nat)           -- SetEpochDataRaw
  | dbc (epoch d : Nat)           -- StoreConfigData
  | restart                       -- NewEpochState: maps restored from the database
deriving Repr

/-- `nextEpoch := currEpoch + 1` in uint64 -/
def nextOf (e : Nat) : Nat := (1 + e) % 18446744073709551616

def step (st : St) : Op → St × Bool
  | .add h => match addBlock st h with
    | some st' => (st', true)
    | none => (st, false)
  | .ann h d => match epochForBlock st h with
    | some e => ({ st with nextEpoch := store st.nextEpoch (nextOf e) h.hash d }, true)
    | none => (st, false)
  | .cfg h d => match epochForBlock st h with
    | some e => ({ st with nextConfig := store st.nextConfig (nextOf e) h.hash d }, true)
    | none => (st, false)
  | .dbe e d => ({ st with dbEpoch := insert st.dbEpoch e d }, true)
  | .dbc e d => ({ st with dbConfig := insert st.dbConfig e d }, true)
  | .restart => (st, true)

def run (epochLen : Nat) (ops : List Op) : St := ops.foldl (fun s o => (step s o).1) (St.init epochLen)

end Gossamer.C26
