/-
C32 — model of full sync's handling of block responses
(dot/sync/fullsync.go: validateResults, validateResponseFields, isResponseAChain,
 FullSyncStrategy.Process, sortFragmentsOfChain, mergeFragmentsOfChain, validBlocksUnderFragment;
 dot/sync/unready_blocks.go; dot/sync/block_importer.go: importBlock / processBlockData /
 handleBlock; dot/types/block_data.go: IsParent).  Core Lean only.

Hashes are abstract identifiers (`Nat`).  A `BD` is a `types.BlockData`: `stated` is the field
`BlockData.Hash` (taken from the wire), `id` stands for `Header.Hash()`, i.e. the hash of the header
that comes with it (hashing is injective on the headers of a case), `parent`/`num` are the header's
`ParentHash`/`Number`.  The chain environment the importer talks to (block state, runtime, finality
gadget, import handler) is the one of the harness: a set of known header hashes and the highest
finalised number; executing a block whose parent is known makes its header known, a non-empty
justification finalises the block.
-/
namespace Gossamer.C32

structure BD where
  id : Nat
  stated : Nat
  parent : Nat
  num : Nat
  hasHeader : Bool
  hasBody : Bool
  just : Bool
deriving DecidableEq, Repr, Inhabited

/-- the request a response answers: bootstrap data ascending / descending, or body+justification -/
inductive Kind | asc | desc | body
deriving DecidableEq, Repr

/-- `request.RequestField(RequestedDataHeader)`; the body is requested by all three -/
def Kind.hdr : Kind → Bool
  | .body => false
  | _ => true

structure Result where
  peer : Nat
  kind : Kind
  completed : Bool
  blocks : List BD      -- in wire order
deriving Repr

inductive Rep | hdr | bad
deriving DecidableEq, Repr

/-- `BlockData.IsParent` -/
def isParent (a b : BD) : Bool := a.num + 1 == b.num && a.stated == b.parent

/-- `isResponseAChain` -/
def isChain : List BD → Bool
  | [] => true
  | [_] => true
  | a :: b :: rest => isParent a b && isChain (b :: rest)

inductive FieldErr | nilHeader | mismatch | nilBody
deriving DecidableEq, Repr

/-- `validateResponseFields` (first offending block, header checks before the body check) -/
def checkFields (hdr : Bool) : List BD → Option FieldErr
  | [] => none
  | b :: rest =>
    if hdr && !b.hasHeader then some .nilHeader
    else if hdr && b.stated != b.id then some .mismatch
    else if !b.hasBody then some .nilBody
    else checkFields hdr rest

inductive Verdict
  | skip
  | reject (rep : Option Rep) (block : Bool)
  | accept (blocks : List BD)
deriving Repr

/-- one iteration of the loop of `validateResults` -/
def validateOne (bad : List Nat) (r : Result) : Verdict :=
  if !r.completed then .skip
  else if r.blocks.isEmpty then .skip
  else
    let bs := if r.kind = .desc then r.blocks.reverse else r.blocks
    match checkFields r.kind.hdr bs with
    | some .nilBody => .reject none false
    | some _ => .reject (some .hdr) false
    | none =>
      if r.kind.hdr && !isChain bs then .reject (some .hdr) false
      else if bs.any (fun b => bad.contains b.stated) then .reject (some .bad) true
      else .accept bs

structure Validated where
  reps : List (Nat × Rep) := []
  blocked : List Nat := []
  valid : List (Kind × List BD) := []

def validateResults (bad : List Nat) : List Result → Validated
  | [] => {}
  | r :: rest =>
    let v := validateResults bad rest
    match validateOne bad r with
    | .skip => v
    | .reject rep blk =>
      { v with reps := (match rep with | some x => [(r.peer, x)] | none => []) ++ v.reps,
               blocked := (if blk then [r.peer] else []) ++ v.blocked }
    | .accept bs => { v with valid := (r.kind, bs) :: v.valid }

/-! ### state -/

structure St where
  known : List Nat := [0]
  fin : Nat := 0
  incomplete : List BD := []
  disjoint : List (List BD) := []
deriving Repr

inductive Ev
  | handed (b : BD) (parentKnown : Bool)  -- the strategy called importBlock
  | exec (b : BD) (parentKnown : Bool)    -- the importer went on to execute the block (handleBlock)
  | fin (b : BD)                          -- SetFinalisedHash
deriving Repr

inductive Outcome | ok | errParent | errFin | panic
deriving DecidableEq, Repr

/-- `unreadyBlocks.newIncompleteBlock` -/
def newIncomplete (st : St) (b : BD) : St :=
  let e : BD := { b with stated := b.id, hasHeader := true, hasBody := false, just := false }
  { st with incomplete := e :: st.incomplete.filter (fun x => x.stated != e.stated) }

/-- `blockImporter.importBlock` over the environment of the harness -/
def importBlock (st : St) (b : BD) : St × List Ev × Outcome :=
  let pk := st.known.contains b.parent
  if st.known.contains b.stated then (st, [.handed b pk], .ok)
  else
    if b.hasBody && !pk then (st, [.handed b pk, .exec b false], .errParent)
    else
      let st1 : St := if b.hasBody then { st with known := b.id :: st.known } else st
      let ev1 : List Ev := if b.hasBody then [.handed b pk, .exec b true] else [.handed b pk]
      if b.just then
        if st1.known.contains b.id then ({ st1 with fin := max st1.fin b.num }, ev1 ++ [.fin b], .ok)
        else (st1, ev1, .errFin)
      else (st1, ev1, .ok)

/-- the inner `for _, blockToImport := range nextBlocksToImport` -/
def importAll (st : St) : List BD → St × List Ev × Outcome
  | [] => (st, [], .ok)
  | b :: rest =>
    match importBlock st b with
    | (st1, ev, .ok) =>
      let (st2, ev2, o) := importAll st1 rest
      (st2, ev ++ ev2, o)
    | r => r

/-- `validBlocksUnderFragment` -/
def validUnder (fin : Nat) (frag : List BD) : List BD := frag.dropWhile (fun b => b.num ≤ fin)

/-- `updateDisjointFragments`: the first disjoint fragment whose first block is the child of `last` -/
def takeJoin (last : BD) : List (List BD) → Option (List BD × List (List BD))
  | [] => none
  | f :: fs =>
    if f.head?.any (isParent last) then some (f, fs)
    else (takeJoin last fs).map (fun p => (p.1, f :: p.2))

/-- `updateIncompleteBlocks` -/
def complete (inc : List BD) : List BD → List BD × List BD
  | [] => ([], inc)
  | r :: rest =>
    match inc.find? (fun x => x.stated == r.stated) with
    | none => complete inc rest
    | some i =>
      let p := complete (inc.filter (fun x => x.stated != r.stated)) rest
      ({ i with hasBody := r.hasBody, just := r.just } :: p.1, p.2)

/-- the first loop of `Process`: one valid response -/
def absorb (fin0 : Nat) (acc : St × List (List BD)) (v : Kind × List BD) : St × List (List BD) :=
  let st := acc.1
  let ready := acc.2
  if v.1.hdr then
    match v.2.getLast? with
    | none => (st, ready ++ [v.2])
    | some last =>
      match takeJoin last st.disjoint with
      | some (f, rest) =>
        let vb := validUnder fin0 (v.2 ++ f)
        ({ st with disjoint := rest }, if vb.isEmpty then ready else ready ++ [vb])
      | none => (st, ready ++ [v.2])
  else
    let p := complete st.incomplete v.2
    ({ st with incomplete := p.2 }, ready ++ p.1.map (fun b => [b]))

def headNum (f : List BD) : Nat := (f.head?.map (·.num)).getD 0

/-- `sortFragmentsOfChain`: `slices.SortFunc` is a stable insertion sort up to 12 elements -/
def insertFrag (f : List BD) : List (List BD) → List (List BD)
  | [] => [f]
  | g :: gs => if headNum f ≤ headNum g then f :: g :: gs else g :: insertFrag f gs

def sortFrags : List (List BD) → List (List BD)
  | [] => []
  | f :: fs => insertFrag f (sortFrags fs)

def linked (cur f : List BD) : Bool :=
  match cur.getLast?, f.head? with
  | some l, some h => isParent l h
  | _, _ => false

/-- `mergeFragmentsOfChain` -/
def mergeGo (cur : List BD) : List (List BD) → List (List BD)
  | [] => [cur]
  | f :: fs => if linked cur f then mergeGo (cur ++ f) fs else cur :: mergeGo f fs

def mergeFrags : List (List BD) → List (List BD)
  | [] => []
  | f :: fs => mergeGo f fs

def headParentKnown (known : List Nat) (f : List BD) : Bool :=
  match f.head? with
  | some h => known.contains h.parent
  | none => false

structure Second where
  next : List BD := []
  stored : List (List BD) := []
  queued : List Nat := []

/-- the loop over `disjointFragments` inside the import loop of `Process` -/
def second (known : List Nat) (fin : Nat) : List (List BD) → Second
  | [] => {}
  | frag :: rest =>
    let s := second known fin rest
    match validUnder fin frag with
    | [] => s
    | h :: t =>
      if known.contains h.parent then { s with next := (h :: t) ++ s.next }
      else if h.num - 1 ≤ fin then s
      else { s with stored := (h :: t) :: s.stored, queued := h.parent :: s.queued }

/-- `removeIrrelevantFragments`: per fragment the longest suffix above the finalised number -/
def keepAbove (fin : Nat) (frag : List BD) : List BD :=
  (frag.reverse.takeWhile (fun b => fin < b.num)).reverse

def removeIrrelevant (st : St) : St :=
  { st with incomplete := st.incomplete.filter (fun b => st.fin < b.num),
            disjoint := (st.disjoint.map (keepAbove st.fin)).filter (fun f => !f.isEmpty) }

structure POut where
  st : St
  events : List Ev
  outcome : Outcome
  reps : List (Nat × Rep) := []
  blocked : List Nat := []
  queued : List Nat := []

/-- `Process` after the first loop: sort, merge, split by known parent, import, second pass, import,
    prune -/
def finish (v : Validated) (st1 : St) (ready : List (List BD)) : POut :=
  if ready.any (·.isEmpty) then { st := st1, events := [], outcome := .panic }
  else
    let frags := mergeFrags (sortFrags ready)
    let next := (frags.filter (headParentKnown st1.known)).flatten
    let disj := frags.filter (fun f => !headParentKnown st1.known f)
    let r1 := importAll st1 next
    match r1.2.2 with
    | .ok =>
      let s := second r1.1.known r1.1.fin disj
      let st3 : St := { r1.1 with disjoint := r1.1.disjoint ++ s.stored }
      let r2 := importAll st3 s.next
      match r2.2.2 with
      | .ok =>
        { st := removeIrrelevant r2.1, events := r1.2.1 ++ r2.2.1, outcome := .ok,
          reps := v.reps, blocked := v.blocked, queued := s.queued }
      | o => { st := r2.1, events := r1.2.1 ++ r2.2.1, outcome := o, queued := s.queued }
    | o => { st := r1.1, events := r1.2.1, outcome := o }

/-- `FullSyncStrategy.Process` -/
def process (bad : List Nat) (st : St) (results : List Result) : POut :=
  let v := validateResults bad results
  let acc := v.valid.foldl (absorb st.fin) (st, [])
  finish v acc.1 acc.2

/-! ### histories -/

inductive Op
  | announce (b : BD)
  | proc (results : List Result)

structure Run where
  st : St := {}
  trace : List Ev := []
  outcomes : List Outcome := []

def step (bad : List Nat) (r : Run) : Op → Run
  | .announce b => { r with st := newIncomplete r.st b }
  | .proc results =>
    let o := process bad r.st results
    { st := o.st, trace := r.trace ++ o.events, outcomes := r.outcomes ++ [o.outcome] }

def run (bad : List Nat) (ops : List Op) : Run := ops.foldl (step bad) {}

end Gossamer.C32
