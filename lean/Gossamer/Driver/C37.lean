import Gossamer.Base.Proto
import Gossamer.Model.C37
open Gossamer Gossamer.C37

/- Case lines (tokens separated by one space; bytes are hex, `-` = empty; `<pw2>` may be `=`):
   const
   enc  <msg> <pw> <pw2> <rnd> <mut>                      Encrypt, mutate, Decrypt
   key  <scheme> <keybytes> <pw> <pw2> <rnd> <kt> <mut>   EncryptPrivateKey, mutate, DecryptPrivateKey(…, kt)
   file <scheme> <keybytes> <pw> <pw2> <rnd> <fmut>       EncryptAndWriteToFile, mutate the file, ReadFromFileAndDecrypt
   swap <msg> <pw> <rnd1> <rnd2>                          two encryptions, nonces exchanged
   dec  <data> <pw>                                       Decrypt of arbitrary bytes
   deck <data> <pw> <kt>                                  DecryptPrivateKey of arbitrary bytes
   <mut>  = none | trunc:<k> | flip:<i> | nonce:<hex> | ext:<hex> | pre:<hex>
   <fmut> = none | ct:<mut> | type:<text> | pub | noct | ftrunc:<d> | fflip:<i> | missing
   The model is run with the ideal-world oracle whose log holds exactly the honest encryptions
   the line describes. -/

def parseMut : List String → Option Mut
  | ["none"] => some .none
  | ["trunc", k] => k.toNat?.map .trunc
  | ["flip", i] => i.toNat?.map .flip
  | ["nonce", h] => (ofHex? h).map .nonce
  | ["ext", h] => (ofHex? h).map .ext
  | ["pre", h] => (ofHex? h).map .pre
  | _ => none

def parseScheme : String → Option Scheme
  | "ed25519" => some .ed25519
  | "sr25519" => some .sr25519
  | "secp256k1" => some .secp256k1
  | _ => none

def pw2Of (pw : Bytes) (tok : String) : Option Bytes := if tok = "=" then some pw else ofHex? tok

def showB (r : Out Bytes) (orig : Bytes) : String :=
  match r with
  | .ok m => if m = orig then "ok same" else "ok diff"
  | .err => "err"
  | .panic => "panic"

def showK (r : Out PrivKey) (orig : PrivKey) : String :=
  match r with
  | .ok k => if k = orig then "ok same" else "ok diff"
  | .err => "err"
  | .panic => "panic"

/-- `<len> <n|x>`: length of the blob and whether it starts with the drawn nonce -/
def shape (ct rnd : Bytes) : String :=
  s!"{ct.length} {if ct.take nonceSize = rnd.take nonceSize then "n" else "x"}"

def stepEnc (msg pw pw2 rnd : Bytes) (mu : Mut) : String :=
  let C := idealCrypto [⟨pw, rnd.take nonceSize, msg⟩]
  match encrypt C rnd msg pw with
  | .ok ct => s!"{shape ct rnd} {showB (decrypt C (mu.apply ct) pw2) msg}"
  | .err => "eerr"
  | .panic => "panic"

def stepKey (s : Scheme) (kb pw pw2 rnd : Bytes) (kt : String) (mu : Mut) : String :=
  match newPrivateKey s kb with
  | .ok pk =>
    let C := idealCrypto [⟨pw, rnd.take nonceSize, pk.bytes⟩]
    match encryptPrivateKey C rnd pk pw with
    | .ok ct => s!"{shape ct rnd} {showK (decryptPrivateKey C (mu.apply ct) pw2 kt) pk}"
    | .err => "eerr"
    | .panic => "panic"
  | _ => "kerr"

inductive FMut where
  | ct (mu : Mut)
  | type (t : String)
  | pub
  | noct
  | ftrunc (d : Nat)
  | fflip
  | missing

def parseFMut (tok : String) : Option FMut :=
  match tok.splitOn ":" with
  | ["none"] => some (.ct .none)
  | "ct" :: rest => (parseMut rest).map .ct
  | ["type", t] => some (.type t)
  | ["pub"] => some .pub
  | ["noct"] => some .noct
  | ["ftrunc", d] => d.toNat?.map .ftrunc
  | ["fflip", i] => i.toNat?.map (fun _ => .fflip)
  | ["missing"] => some .missing
  | _ => none

/-- the file the reader sees after the mutation.  `ftrunc d` drops the last d bytes of the file:
    the file is `{…}\n`, so only d ≤ 1 leaves parsable JSON (encoding/json, trusted). -/
def FMut.apply (fm : FMut) (f : KeyFile) : FileState :=
  match fm with
  | .ct mu => .parsed { f with ciphertext := mu.apply f.ciphertext }
  | .type t => .parsed { f with type := t }
  | .pub => .parsed { f with publicKey := f.publicKey ++ "00" }
  | .noct => .parsed { f with ciphertext := [] }
  | .ftrunc d => if d ≤ 1 then .parsed f else .garbled
  | .fflip => .parsed f
  | .missing => .absent

def stepFile (s : Scheme) (kb pw pw2 rnd : Bytes) (fm : FMut) : String :=
  match newPrivateKey s kb with
  | .ok pk =>
    let C := idealCrypto [⟨pw, rnd.take nonceSize, pk.bytes⟩]
    match encryptToFile C rnd pk "pub" pw with
    | .ok f =>
      let res := match fm with
        | .fflip => "safe"   -- a raw bit flip in the JSON text: the property only demands err | same key
        | _ => showK (readFromFileAndDecrypt C (fm.apply f) pw2) pk
      let hd := s!"{shape f.ciphertext rnd} {f.type} p "
      -- known finding: the Type field of the key file is not authenticated; rewriting it to another
      -- scheme with the same key length makes the reader return a different key
      match fm, res with
      | .type _, "ok diff" => hd ++ res ++ "\tspec=" ++ hd ++ "err\tkf=file-type-unauthenticated"
      | _, _ => hd ++ res
    | .err => "eerr"
    | .panic => "panic"
  | _ => "kerr"

def stepSwap (msg pw r1 r2 : Bytes) : String :=
  let n1 := r1.take nonceSize
  let n2 := r2.take nonceSize
  let C := idealCrypto [⟨pw, n1, msg⟩, ⟨pw, n2, msg⟩]
  match encrypt C r1 msg pw, encrypt C r2 msg pw with
  | .ok c1, .ok c2 =>
    let a := n2 ++ c1.drop nonceSize
    let b := n1 ++ c2.drop nonceSize
    s!"{showB (decrypt C a pw) msg} {showB (decrypt C b pw) msg}"
  | _, _ => "eerr"

/- seq enc <msg> <pw> <rnd>|op;…   seq key <scheme> <kb> <pw> <rnd>|…   seq file <scheme> <kb> <pw> <rnd>|…
   op = d <pw2> | t <pw2> <mut>;  output `<len> <n>|o1;o2;…` -/
def parseOp (pw : Bytes) (s : String) : Option SeqOp :=
  match words s with
  | ["d", p] => (pw2Of pw p).map .onBuf
  | ["t", p, mu] =>
    match pw2Of pw p, parseMut (mu.splitOn ":") with
    | some p, some mu => some (.onCopy mu p)
    | _, _ => none
  | _ => none

def parseOps (pw : Bytes) (s : String) : Option (List SeqOp) :=
  (s.splitOn ";").mapM (parseOp pw)

def stepSeq (hdr ops : String) : String :=
  match words hdr with
  | ["seq", "enc", msg, pw, rnd] =>
    match ofHex? msg, ofHex? pw, ofHex? rnd with
    | some msg, some pw, some rnd =>
      match parseOps pw ops with
      | some ops =>
        let C := idealCrypto [⟨pw, rnd.take nonceSize, msg⟩]
        match encrypt C rnd msg pw with
        | .ok ct =>
          let r := runOps (decrypt C) ct ops
          s!"{shape ct rnd}|{";".intercalate (r.1.map (showB · msg))}"
        | _ => "eerr"
      | none => "bad-op"
    | _, _, _ => "bad-op"
  | ["seq", kind, s, kb, pw, rnd] =>
    match parseScheme s, ofHex? kb, ofHex? pw, ofHex? rnd with
    | some s, some kb, some pw, some rnd =>
      match parseOps pw ops, newPrivateKey s kb with
      | some ops, .ok pk =>
        let C := idealCrypto [⟨pw, rnd.take nonceSize, pk.bytes⟩]
        if kind = "key" then
          match encryptPrivateKey C rnd pk pw with
          | .ok ct =>
            let r := runOps (fun d p => decryptPrivateKey C d p s.name) ct ops
            s!"{shape ct rnd}|{";".intercalate (r.1.map (showK · pk))}"
          | _ => "eerr"
        else if kind = "file" then
          match encryptToFile C rnd pk "pub" pw with
          | .ok f =>
            let r := runOps (fun d p => readFromFileAndDecrypt C (.parsed { f with ciphertext := d }) p)
              f.ciphertext ops
            s!"{shape f.ciphertext rnd}|{";".intercalate (r.1.map (showK · pk))}"
          | _ => "eerr"
        else "bad-op"
      | some _, _ => "kerr"
      | none, _ => "bad-op"
    | _, _, _, _ => "bad-op"
  | _ => "bad-op"

/- hist|op;…   op = e <slot> <kind> <data> <pw> <rnd> <b|f> | d <slot> <pw> <b|f>
   kind = m | k:<scheme> | f:<scheme>.  The ideal log holds every encryption of the line; each op is
   the per-call pure function; the b|f token (reused buffer / fresh slice) is irrelevant to the model. -/
structure HSlot where
  kind : String
  scheme : Scheme
  data : Bytes
  pw : Bytes
  ct : Bytes

inductive HOp where
  | e (slot : Nat) (kind : String) (scheme : Scheme) (data pw rnd : Bytes)
  | d (slot : Nat) (pw : Bytes)

def parseHOp (s : String) : Option HOp :=
  match words s with
  | ["e", i, kind, data, pw, rnd, _] =>
    match i.toNat?, ofHex? data, ofHex? pw, ofHex? rnd with
    | some i, some data, some pw, some rnd =>
      if i > 3 then none else
      match kind.splitOn ":" with
      | ["m"] => some (.e i "m" .ed25519 data pw rnd)
      | ["k", sc] => (parseScheme sc).map (fun sc => .e i "k" sc data pw rnd)
      | ["f", sc] => (parseScheme sc).map (fun sc => .e i "f" sc data pw rnd)
      | _ => none
    | _, _, _, _ => none
  | ["d", i, pw, _] =>
    match i.toNat?, ofHex? pw with
    | some i, some pw => if i > 3 then none else some (.d i pw)
    | _, _ => none
  | _ => none

def hDec (C : Crypto) (sl : HSlot) (pw : Bytes) : String :=
  if sl.kind = "m" then showB (decrypt C sl.ct pw) sl.data
  else if sl.kind = "k" then showK (decryptPrivateKey C sl.ct pw sl.scheme.name) ⟨sl.scheme, sl.data⟩
  else showK (readFromFileAndDecrypt C (.parsed ⟨sl.scheme.name, "pub", sl.ct⟩) pw) ⟨sl.scheme, sl.data⟩

def hLog : List HOp → List Enc
  | [] => []
  | .e _ _ _ data pw rnd :: rest => ⟨pw, rnd.take nonceSize, data⟩ :: hLog rest
  | .d _ _ :: rest => hLog rest

def hRun (C : Crypto) : List HOp → List (Option HSlot) → List String → List String × List (Option HSlot)
  | [], slots, acc => (acc.reverse, slots)
  | .e i kind sc data pw rnd :: rest, slots, acc =>
    let keyOk : Bool := kind == "m" || (match newPrivateKey sc data with | .ok _ => true | _ => false)
    if !keyOk then hRun C rest slots ("kerr" :: acc)
    else match encrypt C rnd data pw with
      | .ok ct => hRun C rest (slots.set i (some ⟨kind, sc, data, pw, ct⟩)) (s!"ok {shape ct rnd}" :: acc)
      | _ => hRun C rest slots ("eerr" :: acc)
  | .d i pw :: rest, slots, acc =>
    match slots.getD i none with
    | some sl => hRun C rest slots (hDec C sl pw :: acc)
    | none => hRun C rest slots ("none" :: acc)

def otherPw (pw : Bytes) : Bytes :=
  match pw.getLast? with
  | none => [0]
  | some b => pw.dropLast ++ [b ^^^ 1]

def hFinal (C : Crypto) (slots : List (Option HSlot)) : List String :=
  (slots.zipIdx).filterMap (fun (sl, i) =>
    sl.map (fun sl => s!"s{i}:{hDec C sl sl.pw} {hDec C sl (otherPw sl.pw)}"))

def stepHist (ops : String) : String :=
  match (ops.splitOn ";").mapM parseHOp with
  | some ops =>
    let C := idealCrypto (hLog ops)
    let r := hRun C ops [none, none, none, none] []
    ";".intercalate r.1 ++ "|" ++ ",".intercalate (hFinal C r.2)
  | none => "bad-op"

def step (line : String) : String :=
  match line.splitOn "|" with
  | ["hist", ops] => stepHist ops
  | [hdr, ops] => stepSeq hdr ops
  | _ =>
  match words line with
  | ["const"] => s!"{nonceSize} {tagSize}"
  | ["enc", msg, pw, pw2, rnd, mu] =>
    match ofHex? msg, ofHex? pw, ofHex? rnd, parseMut (mu.splitOn ":") with
    | some msg, some pw, some rnd, some mu =>
      match pw2Of pw pw2 with
      | some pw2 => stepEnc msg pw pw2 rnd mu
      | none => "bad-op"
    | _, _, _, _ => "bad-op"
  | ["key", s, kb, pw, pw2, rnd, kt, mu] =>
    match parseScheme s, ofHex? kb, ofHex? pw, ofHex? rnd, parseMut (mu.splitOn ":") with
    | some s, some kb, some pw, some rnd, some mu =>
      match pw2Of pw pw2 with
      | some pw2 => stepKey s kb pw pw2 rnd (if kt = "~" then "" else kt) mu
      | none => "bad-op"
    | _, _, _, _, _ => "bad-op"
  | ["file", s, kb, pw, pw2, rnd, fm] =>
    match parseScheme s, ofHex? kb, ofHex? pw, ofHex? rnd, parseFMut fm with
    | some s, some kb, some pw, some rnd, some fm =>
      match pw2Of pw pw2 with
      | some pw2 => stepFile s kb pw pw2 rnd fm
      | none => "bad-op"
    | _, _, _, _, _ => "bad-op"
  | ["swap", msg, pw, r1, r2] =>
    match ofHex? msg, ofHex? pw, ofHex? r1, ofHex? r2 with
    | some msg, some pw, some r1, some r2 => stepSwap msg pw r1 r2
    | _, _, _, _ => "bad-op"
  | ["dec", data, pw] =>
    match ofHex? data, ofHex? pw with
    | some data, some pw => showB (decrypt (idealCrypto []) data pw) []
    | _, _ => "bad-op"
  | ["deck", data, pw, kt] =>
    match ofHex? data, ofHex? pw with
    | some data, some pw =>
      showK (decryptPrivateKey (idealCrypto []) data pw (if kt = "~" then "" else kt)) ⟨.ed25519, []⟩
    | _, _ => "bad-op"
  | _ => "bad-op"

def main : IO Unit := runDriver step
