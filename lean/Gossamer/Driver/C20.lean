import Gossamer.Base.Proto
import Gossamer.Model.C20
import Gossamer.Lib.C20Spec
import Gossamer.Lib.C20Bitfield
import Gossamer.Lib.C20GraphRound
open Gossamer Gossamer.C20

/- line:   `t=<parents,> w=<weights,> h=<names> b=<baseNumber>|<op>;<op>;…`
            op = `pv <voter> <block> <sig>` | `pc <voter> <block> <sig>` | `g`
            (voter ≥ #voters = not a voter; block = #blocks = a block outside the chain)
           `const threshold <total>`
   output: one entry per op joined by `;`, then ` w=<curPv>,<eqPv>,<curPc>,<eqPc> t=<thr> G<pcghost>`
            import entry = `<res>:<ghost>,<finalized>,<estimate>,<completable>@<dump of the vote graph>`
            (dump = entries `<block>:<number>:<ancestors>:<descendants>:<set bits>` joined by `/`, then `^<heads>`)   (`~` when the prevote
            phase is intolerant: the GHOST is then not unique), `g` entry = `G<precommit ghost>` (`G~` when the
            precommit phase is intolerant).
           `spec=` is printed when the paper definitions over the imported votes give another trace; no claim
           is made (spec := model) for a prefix whose precommits are intolerant, nor for lines with a target
           outside the chain. -/

def natList? (s : String) : Option (List Nat) := (s.splitOn ",").mapM (·.toNat?)

def showOpt : Option Nat → String
  | none => "-"
  | some b => toString b

def showState (g f e : Option Nat) (c : Bool) : String :=
  s!"{showOpt g},{showOpt f},{showOpt e},{if c then "T" else "F"}"

def showSV (a : SV) : String := s!"{a.blk}.{a.sig}"

def showRes : ImportRes → String
  | .notVoter => "n" | .dup => "d" | .ok => "v" | .err => "x"
  | .equivocation a b => s!"e{showSV a}-{showSV b}"

inductive Cmd where
  | imp (o : Op)
  | g

def parseOp? (s : String) : Option Cmd :=
  match words s with
  | ["g"] => some .g
  | [p, v, b, sg] =>
    match (if p == "pv" then some false else if p == "pc" then some true else none), v.toNat?, b.toNat?, sg.toNat? with
    | some ph, some v, some b, some sg => some (.imp ⟨ph, v, ⟨b, sg⟩⟩)
    | _, _, _, _ => none
  | _ => none


def showHN (t : Tree) : Option (Nat × Nat) → String
  | none => "-"
  | some (h, n) => if n = t.num h then toString h else s!"{h}#{n}!"

def showStateC (t : Tree) (r : RoundC) : String :=
  s!"{showHN t r.ghost},{showHN t r.fin},{showHN t r.est},{if r.compl then "T" else "F"}"

def dotList (l : List Nat) : String := if l.isEmpty then "-" else ".".intercalate (l.map toString)

def maskBits (m : Nat) (n : Nat) : List Nat := (List.range n).filter (fun i => m.testBit i)

/-- dump of the compressed graph: entries by block index, then the heads -/
def dumpGraph (t : Tree) (nbits : Nat) (g : Graph) : String :=
  let ents := (List.range t.size).filterMap (fun b =>
    match g.entries b with
    | none => none
    | some e => some s!"{b}:{e.number}:{dotList e.ancestors}:{dotList e.descendants}:{dotList (maskBits e.cum nbits)}")
  "/".intercalate ents ++ "^" ++ dotList ((List.range t.size).filter (fun b => g.heads.contains b))

structure TraceAcc where
  r : Round
  rc : RoundC
  seen : List Op          -- imported so far (spec side)
  mout : List String      -- model entries (reversed)
  sout : List String      -- spec entries (reversed)
  kf : Option String

def modelIntol (ws : List Nat) (r : Round) (ph : Bool) : Bool := decide (maskWeight ws r.eqv (phN ph) > faulty ws)

def stepCmd (key : Nat → Nat) (t : Tree) (ws : List Nat) (a : TraceAcc) (c : Cmd) : TraceAcc :=
  match c with
  | .g =>
    let r := precommitGhost t ws a.r
    let rc := precommitGhostC key t ws a.rc
    let m := if modelIntol ws r true then "G~" else "G" ++ showHN t rc.pcGhost ++
      (if showHN t rc.pcGhost == showOpt r.pcGhost then "" else "!ref" ++ showOpt r.pcGhost)
    let s := if !tolerant ws a.seen true then "G~" else "G" ++ showOpt (specGhost t ws a.seen true)
    { a with r := r, rc := rc, mout := m :: a.mout, sout := s :: a.sout }
  | .imp o =>
    let (res, r) := importVote t ws a.r o.ph o.v o.sv
    let (_, rc) := importVoteC key t ws a.rc o.ph o.v o.sv
    let seen := a.seen ++ [o]
    let dump := "@" ++ dumpGraph t (2 * ws.length) rc.graph
    let stU := showState r.ghost r.fin r.est r.compl
    let stC := showStateC t rc
    let m0 := showRes res ++ ":" ++
      (if modelIntol ws r false then "~" else stC ++ (if stC == stU then "" else "!ref" ++ stU))
    let m := m0 ++ dump
    let s := if !tolerant ws seen true then m else showRes res ++ ":" ++
      (if !tolerant ws seen false then "~" else
        showState (specGhost t ws seen false) (specFinalized t ws seen) (specEstimate t ws seen)
          (specCompletable t ws seen)) ++ dump
    let kf := match a.kf with
      | some k => some k
      | none => if m == s then none
                else if 2 * faulty ws < voteWeight ws seen true ∧ voteWeight ws seen true < threshold (total ws)
                  then some "estimate-shortcut-below-threshold"
                else some "none"
    { r := r, rc := rc, seen := seen, mout := m :: a.mout, sout := s :: a.sout, kf := kf }

def runCase (key : Nat → Nat) (t : Tree) (ws : List Nat) (cmds : List Cmd) : String :=
  let a := cmds.foldl (stepCmd key t ws) ⟨Round.init, RoundC.init, [], [], [], none⟩
  let rF := precommitGhost t ws a.r
  let rcF := precommitGhostC key t ws a.rc
  let thr := threshold (total ws)
  let mtail := s!" w={a.r.cur false},{maskWeight ws a.r.eqv 0},{a.r.cur true},{maskWeight ws a.r.eqv 1} t={thr} " ++
    (if modelIntol ws rF true then "G~" else "G" ++ showHN t rcF.pcGhost ++
      (if showHN t rcF.pcGhost == showOpt rF.pcGhost then "" else "!ref" ++ showOpt rF.pcGhost))
  let stail := s!" w={voteWeight ws a.seen false},{equivWeight ws a.seen false},{voteWeight ws a.seen true},{equivWeight ws a.seen true} t={thr} " ++
    (if !tolerant ws a.seen true then "G~" else "G" ++ showOpt (specGhost t ws a.seen true))
  let m := ";".intercalate a.mout.reverse ++ mtail
  let s := ";".intercalate a.sout.reverse ++ stail
  let valid := a.seen.all (fun o => o.sv.blk < t.size)
  if m == s || !valid then m
  else match a.kf with
    | some k => if k == "none" then s!"{m}\tspec={s}" else s!"{m}\tspec={s}\tkf={k}"
    | none => s!"{m}\tspec={s}"


/-! bitfield cases: `bf a=<positions,|-> b=<positions,|->`
    output `A=<words> E=<even 1s> O=<odd 1s> ME=<merged even> MO=<merged odd> M=<a.Merge(b) words> blank=<a><b>` -/

def hex16 (n : Nat) : String :=
  let d := (Nat.toDigits 16 n)
  String.ofList (List.replicate (16 - d.length) '0' ++ d)

def showWords (w : BF.Words) : String := if w.isEmpty then "-" else ".".intercalate (w.map hex16)

def showList (l : List Nat) : String := if l.isEmpty then "-" else ",".intercalate (l.map toString)

def posList? (s : String) : Option (List Nat) := if s == "-" then some [] else natList? s

def bfCase (pa pb : List Nat) : String :=
  let a := pa.foldl BF.setBit []
  let b := pb.foldl BF.setBit []
  s!"A={showWords a} E={showList (BF.iter1s a 0 1)} O={showList (BF.iter1s a 1 1)} " ++
  s!"ME={showList (BF.iter1sMerged a b 0 1)} MO={showList (BF.iter1sMerged a b 1 1)} " ++
  s!"M={showWords (BF.merge a b)} blank={BF.isBlank a}{BF.isBlank b}"

def field? (pre : String) (s : String) : Option String :=
  if s.startsWith pre then some (s.drop pre.length).toString else none

def step (line : String) : String :=
  match words line with
  | ["const", "threshold", n] => match n.toNat? with
    | some n => toString (threshold n)
    | none => "bad-op"
  | ["bf", fa, fb] =>
    match (field? "a=" fa).bind posList?, (field? "b=" fb).bind posList? with
    | some pa, some pb => bfCase pa pb
    | _, _ => "bad-op"
  | _ =>
    match line.splitOn "|" with
    | [hdr, body] =>
      match words hdr with
      | tf :: wf :: rest =>
        let names : List Nat := match rest.filterMap (field? "h=") with
          | n :: _ => n.toList.map Char.toNat
          | [] => []
        let key : Nat → Nat := fun b => names.getD b b
        match (field? "t=" tf).bind natList?, (field? "w=" wf).bind natList? with
        | some par, some ws =>
          let cmds := ((body.splitOn ";").filter (· ≠ "")).mapM parseOp?
          match cmds with
          | some cmds =>
            if par.isEmpty || ws.isEmpty then "bad-op" else runCase key ⟨par⟩ ws cmds
          | none => "bad-op"
        | _, _ => "bad-op"
      | _ => "bad-op"
    | _ => "bad-op"

def main : IO Unit := runDriver step
