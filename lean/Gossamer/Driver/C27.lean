import Gossamer.Base.Proto
import Gossamer.Model.C27
open Gossamer Gossamer.C27

/- line:  `op;op;...` over one fresh database
     check <slotNow> <slot> <hid> <sid>  -> none | proof <sid> <slot> <hidFirst> <hidSecond> | err
     dump                                -> start=<n|-> <slot>:<hid>/<sid>,...   (slots ascending)
     const maxSlotCapacity|pruningBound|keys|headers -/

def numHeaders : Nat := 6
def numSigners : Nat := 3

/-- decimal digits only (Go `strconv.ParseUint(s, 10, 64)`) -/
def parseU64? (s : String) : Option Nat :=
  let cs := s.toList
  if cs.isEmpty ∨ !cs.all Char.isDigit then none else
  let n := cs.foldl (fun acc c => acc * 10 + (c.toNat - 48)) 0
  if n < 2 ^ 64 then some n else none

def showOut : Out UInt8 UInt8 → String
  | .none => "none"
  | .err => "err"
  | .proof slot off a b => s!"proof {off.toNat} {slot} {a.toNat} {b.toNat}"

def dump (db : DB) : String :=
  let pre := tablePrefix ++ slotHeaderMapKey
  let start := match db.get startKey with
    | none => "-"
    | some v => if v.length = 8 then toString (natOfLE v) else "bad" ++ hex v
  let isSlot (k : Bytes) : Bool := k.take pre.length == pre && k.length == pre.length + 8
  let ents := (db.filter (fun e => isSlot e.1)).map (fun e => (natOfLE (e.1.drop pre.length), e))
  let ents := ents.mergeSort (fun a b => a.1 ≤ b.1)
  let showEnt (x : Nat × Bytes × Bytes) : String :=
    match byteCodec.dec x.2.2 with
    | none => "?val" ++ hex x.2.1
    | some l => s!"{x.1}:" ++ ",".intercalate (l.map (fun e => s!"{e.1.toNat}/{e.2.toNat}"))
  let odd := (db.filter (fun e => !isSlot e.1 && e.1 != startKey)).map (fun e => "?key" ++ hex e.1)
  " ".intercalate (["start=" ++ start] ++ ents.map showEnt ++ odd)

def stepOp (db : DB) (op : String) : String × DB :=
  match words op with
  | ["const", "maxSlotCapacity"] => (toString maxSlotCapacity, db)
  | ["const", "pruningBound"] => (toString pruningBound, db)
  | ["const", "keys"] => (hex (slotKey 0x0102030405060708) ++ " " ++ hex startKey, db)
  | ["const", "headers"] => (s!"distinct={numHeaders} roundtrip=ok", db)
  | ["dump"] => (dump db, db)
  | ["check", a, b, h, s] =>
    match parseU64? a, parseU64? b, parseU64? h, parseU64? s with
    | some slotNow, some slot, some hid, some sid =>
      if hid < numHeaders ∧ sid < numSigners then
        let r := mstep byteCodec (fun (x : UInt8) => x) db ⟨slotNow, slot, UInt8.ofNat hid, UInt8.ofNat sid⟩
        (showOut r.1, r.2)
      else ("bad-op", db)
    | _, _, _, _ => ("bad-op", db)
  | _ => ("bad-op", db)

/- second run (lib/babe call site), lines `b|op;op;...`:
     vb <now> <slot> <kind> <idx> <var> <sealer> <tamper> <e>
   = the C27 machine composed with "only headers whose slot claim and seal verify reach
   CheckEquivocation", called with (slotNow = now, slot, header = the unsealed block, signer = idx).
   Order of the checks in verifyAuthorshipRight: authority index, slot claim, seal, equivocation. -/
def stepBabe (db : DB) (op : String) : String × DB :=
  match words op with
  | ["dump"] => (dump db, db)
  | ["vb", a, b, k, i, v, s, t, e] =>
    match parseU64? a, parseU64? b, parseU64? k, parseU64? i, parseU64? v, parseU64? s, parseU64? t,
        parseU64? e with
    | some now, some slot, some kind, some idx, some var, some sealer, some tamper, some exp =>
      if now < 1 ∨ now > 1000000 ∨ kind < 1 ∨ kind > 2 ∨ (idx > 2 ∧ idx ≠ 5) ∨ var > 3 ∨ sealer > 3
          ∨ tamper > 1 ∨ exp > 2 then ("bad-op", db)
      else if idx > 2 then ("badidx", db)
      else if kind = 2 ∧ idx ≠ exp then ("badclaim", db)
      else if sealer ≠ idx ∨ tamper = 1 then ("badsig", db)
      else
        let hid := kind * 16 + idx * 4 + var
        let r := mstep byteCodec (fun (x : UInt8) => x) db ⟨now, slot, UInt8.ofNat hid, UInt8.ofNat idx⟩
        let call := s!" c={now}/{slot}/{idx}"
        match r.1 with
        | .none => ("ok" ++ call, r.2)
        | .err => ("err" ++ call, r.2)
        | .proof sl off x y => ("equiv" ++ call ++ s!" r={sl}/{off.toNat}/{x.toNat}/{y.toNat}", r.2)
    | _, _, _, _, _, _, _, _ => ("bad-op", db)
  | _ => ("bad-op", db)

def step (line : String) : String :=
  if line.startsWith "b|" then
    ";".intercalate (run stepBabe ([] : DB) ((String.ofList (line.toList.drop 2)).splitOn ";")).1
  else
    ";".intercalate (run stepOp ([] : DB) (line.splitOn ";")).1

def main : IO Unit := runDriver step
