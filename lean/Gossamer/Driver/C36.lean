import Gossamer.Base.Proto
import Gossamer.Model.C36
open Gossamer Gossamer.C36

/- line:   `genesis`  |  ops joined by `;` where an op is
             `imp <id> <parent> <k> <v> [sc <delay> <tag> | fc <delay> <bestFin> <tag>]`
             `fin <id> <round> <setID>`      `lr <round>`
   output: `<op results joined by ;>|<write log>|<restart outcome for every prefix of the log, joined by ;>` -/

def pad3 (n : Nat) : String :=
  let s := toString n
  String.ofList (List.replicate (3 - s.length) '0') ++ s

def showW : W → String
  | .hdr h => s!"h{h.id}"
  | .blb id => s!"b{id}"
  | .arr id => s!"a{id}"
  | .hsh n id => s!"n{n}={id}"
  | .fsn => "fsn"
  | .fin r s id => s!"f{r}.{s}={id}"
  | .hrs r s => s!"hrs={r}.{s}"
  | .node st => s!"T{pad3 st}"
  | .curSet s => s!"set={s}"
  | .auth s t => s!"au{s}={t}"
  | .change s n => s!"ch{s}={n}"
  | .lfr r => s!"lr={r}"
  | .epoch => "epoch"
  | .skipto => "skipto"

def showEntry : Entry → String
  | .put w => showW w
  | .batch ws => "[" ++ ",".intercalate (ws.map showW) ++ "]"

def showLog (l : List Entry) : String :=
  if l.isEmpty then "-" else " ".intercalate (l.map showEntry)

def showOpt (name : String) : Option Nat → String
  | some v => s!" {name}={v}"
  | none => s!" {name}=missing"

def showOutcome : Outcome → String
  | .eBlock => "E-block"
  | .eTrie => "E-trie"
  | .eEpoch => "E-epoch"
  | .ok hd r s body f00 cur auth chg lr =>
    let pre := s!"ok b{hd.id}#{hd.number} r{r}.{s} st={pad3 hd.root}" ++
      (if body then " body=ok" else " body=missing") ++ (if f00 then "" else " f00=missing")
    match cur with
    | none => pre ++ " set=missing"
    | some c => pre ++ s!" set={c}" ++ showOpt "au" auth ++ showOpt "ch" chg ++ showOpt "lr" lr

def num? (s : String) (lo hi : Nat) : Option Nat :=
  if s.isEmpty || !s.all Char.isDigit || s.length > 4 then none
  else
    let v := s.toNat!
    if lo ≤ v ∧ v ≤ hi then some v else none

def parseOp (op : String) : Option Op :=
  match words op with
  | ["imp", id, p, k, v] => do
    some (.imp (← num? id 1 9) (← num? p 0 9) (← num? k 0 2) (← num? v 0 9) none)
  | ["imp", id, p, k, v, "sc", d, t] => do
    some (.imp (← num? id 1 9) (← num? p 0 9) (← num? k 0 2) (← num? v 0 9)
      (some (.sc (← num? d 0 99) (← num? t 0 99))))
  | ["imp", id, p, k, v, "fc", d, bf, t] => do
    some (.imp (← num? id 1 9) (← num? p 0 9) (← num? k 0 2) (← num? v 0 9)
      (some (.fc (← num? d 0 99) (← num? bf 0 99) (← num? t 0 99))))
  | ["fin", id, r, s] => do some (.fin (← num? id 0 9) (← num? r 0 99) (← num? s 0 99))
  | ["lr", r] => do some (.lr (← num? r 0 99))
  | _ => none

def parseOps : List String → Option (List Op)
  | [] => some []
  | o :: os => do
    let op ← parseOp o
    let rest ← parseOps os
    some (op :: rest)

def step (line : String) : String :=
  if line = "genesis" then showLog genesisLog ++ "|" ++ showOutcome (restart base)
  else
    let ops := line.splitOn ";"
    if ops.length > 40 then "bad-op"
    else match (parseOps ops).bind (runOps {} init []) with
      | none => "bad-op"
      | some (n, results) =>
        ";".intercalate results ++ "|" ++ showLog n.log ++ "|" ++
          ";".intercalate ((prefixes base n.log).map (fun db => showOutcome (restart db)))

def main : IO Unit := runDriver step
