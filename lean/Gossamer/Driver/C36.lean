import Gossamer.Base.Proto
import Gossamer.Model.C36
open Gossamer Gossamer.C36

/- line:   `genesis`  |  ops joined by `;` where an op is
             `imp <id> <parent> <k> <v> [sc <delay> <tag> | fc <delay> <bestFin> <tag>]`
             `fin <id> <round> <setID>`      `lr <round>`
   output: `<op results joined by ;>|<write log>|<restart outcome for every prefix of the log, joined by ;>` -/

def pad3 (n : Nat) : String :=
  let s := toString n
  String.ofList (List.replicate (3 - s.length) '0') ++ s

def showW : W → String
  | .hdr h => s!"h{h.id}"
  | .blb id => s!"b{id}"
  | .arr id => s!"a{id}"
  | .hsh n id => s!"n{n}={id}"
  | .fsn => "fsn"
  | .fin r s id => s!"f{r}.{s}={id}"
  | .hrs r s => s!"hrs={r}.{s}"
  | .node st => s!"T{pad3 st}"
  | .curSet s => s!"set={s}"
  | .auth s t => s!"au{s}={t}"
  | .change s n => s!"ch{s}={n}"
  | .lfr r => s!"lr={r}"
  | .epoch => "epoch"
  | .skipto => "skipto"
  | .ned e h => s!"ned{e}:{h}"
  | .ncd e h => s!"ncd{e}:{h}"
  | .delNed e h => s!"del:ned{e}:{h}"
  | .delNcd e h => s!"del:ncd{e}:{h}"
  | .einfo e => s!"ei{e}"
  | .cinfo e => s!"ci{e}"
  | .jcp h => s!"j{h}"
  | .pv r s => s!"pv{r}.{s}"
  | .pc r s => s!"pc{r}.{s}"

def showEntry : Entry → String
  | .put w => showW w
  | .batch ws => "[" ++ ",".intercalate (ws.map showW) ++ "]"

def showLog (l : List Entry) : String :=
  if l.isEmpty then "-" else " ".intercalate (l.map showEntry)

def showOpt (name : String) : Option Nat → String
  | some v => s!" {name}={v}"
  | none => s!" {name}=missing"

def bit (b : Bool) : String := if b then "1" else "0"

def dash (l : List String) : String := if l.isEmpty then "-" else ",".intercalate l

/-- the (epoch, block) pairs of a next-epoch table: epochs 0..6, block ids 0..9 -/
def pairs (f : Nat → Nat → Bool) : String :=
  dash (((List.range 7).flatMap (fun e => (List.range 10).filterMap (fun h =>
    if f e h then some s!"{e}:{h}" else none))))

def epochs (f : Nat → Bool) : String :=
  dash ((List.range 7).filterMap (fun e => if f e then some (toString e) else none))

def showOutcome (db : DB) : Outcome → String
  | .eBlock => "E-block"
  | .eTrie => "E-trie"
  | .eEpoch => "E-epoch"
  | .ok hd r s body f00 cur auth chg lr =>
    let pre := s!"ok b{hd.id}#{hd.number} r{r}.{s} st={pad3 hd.root}" ++
      (if body then " body=ok" else " body=missing") ++
      s!" j={bit (db.jcp hd.id)} pv={bit (db.pv r s)} pc={bit (db.pc r s)}" ++
      s!" ne={pairs db.ned} nc={pairs db.ncd} ei={epochs db.einfo} ci={epochs db.cinfo}" ++
      (if f00 then "" else " f00=missing")
    match cur with
    | none => pre ++ " set=missing"
    | some c => pre ++ s!" set={c}" ++ showOpt "au" auth ++ showOpt "ch" chg ++ showOpt "lr" lr

def num? (s : String) (lo hi : Nat) : Option Nat :=
  if s.isEmpty || !s.all Char.isDigit || s.length > 4 then none
  else
    let v := s.toNat!
    if lo ≤ v ∧ v ≤ hi then some v else none

def parseChg : List String → Option (Option ChangeSpec)
  | [] => some none
  | ["sc", d, t] => do some (some (.sc (← num? d 0 99) (← num? t 0 99)))
  | ["fc", d, bf, t] => do some (some (.fc (← num? d 0 99) (← num? bf 0 99) (← num? t 0 99)))
  | _ => none

def parseOp (op : String) : Option Op :=
  match words op with
  | "imp" :: id :: p :: k :: v :: rest =>
    let (rest, nc) := if rest.getLast? = some "nc" then (rest.dropLast, true) else (rest, false)
    let (rest, ne) := if rest.getLast? = some "ne" then (rest.dropLast, true) else (rest, false)
    do
      let chg ← parseChg rest
      some (.imp (← num? id 1 9) (← num? p 0 9) (← num? k 0 2) (← num? v 0 9) chg ne nc)
  | ["fin", id, r, s] => do some (.fin (← num? id 0 9) (← num? r 0 99) (← num? s 0 99))
  | ["gfin", id, r, s] => do some (.gfin (← num? id 0 9) (← num? r 0 99) (← num? s 0 99))
  | ["just", id] => do some (.just (← num? id 0 9))
  | ["pv", r, s] => do some (.pv (← num? r 0 99) (← num? s 0 99))
  | ["pc", r, s] => do some (.pc (← num? r 0 99) (← num? s 0 99))
  | ["lr", r] => do some (.lr (← num? r 0 99))
  | _ => none

def parseOps : List String → Option (List Op)
  | [] => some []
  | o :: os => do
    let op ← parseOp o
    let rest ← parseOps os
    some (op :: rest)

def step (line : String) : String :=
  if line = "genesis" then showLog genesisLog ++ "|" ++ showOutcome base (restart base)
  else
    let ops := line.splitOn ";"
    if ops.length > 40 then "bad-op"
    else match (parseOps ops).bind (runOps {} init []) with
      | none => "bad-op"
      | some (n, results) =>
        if n.nondet then "nondet" else
        ";".intercalate results ++ "|" ++ showLog n.log ++ "|" ++
          ";".intercalate ((prefixes base n.log).map (fun db => showOutcome db (restart db)))

def main : IO Unit := runDriver step
