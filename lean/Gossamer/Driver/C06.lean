import Gossamer.Base.Proto
import Gossamer.Lib.Blake2b
import Gossamer.Model.C06
import Gossamer.Lib.C06Nibbles
open Gossamer Gossamer.C06

/-! ### direct calls of the packed-nibble helpers (`nib …` lines) -/
namespace NibDrv
open Gossamer.C06.Nb

def num? (s : String) : Option Nat := s.toNat?

def showNK (k : NK) : String := toString k.offset ++ " " ++ hex k.data

def showPad : Option UInt8 → String
  | some b => toHex [b]
  | none => "-"

def showPfx (p : PFX) : String := hex p.key ++ "," ++ showPad p.padded ++ "," ++ hex p.joined

def b01 (b : Bool) : String := if b then "1" else "0"

def pn? (d o : String) : Option PN :=
  match ofHex? d, num? o with
  | some d, some o => some { data := d, offset := o }
  | _, _ => none

def showNS (n : NS) : String :=
  (if n.len = 0 then "1" else "0") ++ "/" ++ hex n.pfx.key ++ "/" ++ showPad n.pfx.padded

def nsOp (n : NS) (op : String) : Option (NS × List String) :=
  match op.splitOn ":" with
  | ["p", v] => (num? v).map (fun v => let n' := n.push (UInt8.ofNat v); (n', [showNS n']))
  | ["pop"] => let n' := n.pop; some (n', [showNS n'])
  | ["app", d, o] => (pn? d o).map (fun s => let n' := n.appendPartial s.rightPartial; (n', [showNS n']))
  | ["aos", d, o, ix] =>
    let slice : Option (Option PN) := if d == "x" then some none else (pn? d o).map some
    let index : Option (Option UInt8) := if ix == "x" then some none else (num? ix).map (fun v => some (UInt8.ofNat v))
    match slice, index with
    | some sl, some ix => let r := n.appendOpt sl ix; some (r.1, [toString r.2, showNS r.1])
    | _, _ => none
  | ["drop", k] => (num? k).map (fun k => let n' := n.dropLasts k; (n', [showNS n']))
  | _ => none

def nsRun (ops : List String) : Option (List String) :=
  (ops.foldl (fun acc op => acc.bind (fun (st : NS × List String) =>
    (nsOp st.1 op).map (fun r => (r.1, st.2 ++ r.2)))) (some (NS.empty, []))).map (·.2)

def step (f : List String) : String :=
  match f with
  | ["nib", "at", d, o, i] =>
    (match pn? d o, num? i with | some n, some i => toString (n.nib i).toNat | _, _ => "bad-op")
  | ["nib", "len", d, o] => (match pn? d o with | some n => toString n.len | none => "bad-op")
  | ["nib", "mid", d, o, i] =>
    (match pn? d o, num? i with
      | some n, some i => let m := n.mid i; showNK m.nodeKey ++ " " ++ toString m.len
      | _, _ => "bad-op")
  | ["nib", "adv", d, o, i] =>
    (match pn? d o, num? i with
      | some n, some i =>
        (match n.advance i with | some m => showNK m.nodeKey ++ " " ++ toString m.len | none => "panic")
      | _, _ => "bad-op")
  | ["nib", "left", d, o] => (match pn? d o with | some n => showPfx n.left | none => "bad-op")
  | ["nib", "cp", d1, o1, d2, o2] =>
    (match pn? d1 o1, pn? d2 o2 with
      | some a, some b =>
        toString (a.commonPrefix b) ++ " " ++ b01 (a.startsWith b) ++ " " ++ b01 (a.equal b) ++ " " ++
          toString (a.compare b)
      | _, _ => "bad-op")
  | ["nib", "nk", d, o] =>
    (match pn? d o with
      | some n => showNK n.nodeKey ++ " " ++ toString (PN.ofNodeKey n.nodeKey).len
      | none => "bad-op")
  | ["nib", "nkr", d, o, nb] =>
    (match pn? d o, num? nb with | some n, some nb => showNK (n.nodeKeyRange nb) | _, _ => "bad-op")
  | ["nib", "right", d, o] =>
    (match pn? d o with
      | some n =>
        let p := n.rightPartial
        hex n.right ++ " " ++ toString p.first ++ " " ++ toHex [p.paddedNibble] ++ " " ++ hex p.data
      | none => "bad-op")
  | ["nib", "shift", off, d, no] =>
    (match num? off, ofHex? d, num? no with
      | some off, some d, some no =>
        let r := NK.shiftKey { offset := off, data := d } no
        showNK r.1 ++ " " ++ (if r.2 then "true" else "false")
      | _, _, _ => "bad-op")
  | ["nib", "comb", o1, d1, o2, d2] =>
    (match num? o1, ofHex? d1, num? o2, ofHex? d2 with
      | some o1, some d1, some o2, some d2 =>
        showNK (combineKey { offset := o1, data := d1 } { offset := o2, data := d2 })
      | _, _, _, _ => "bad-op")
  | ["nib", "ns", ops] =>
    (match nsRun (ops.splitOn ",") with | some outs => joinWith "," outs | none => "bad-op")
  | _ => "bad-op"

end NibDrv

/- line:   `ver|op;op;…`  (put k v | del k | get k | commit | reopen), or `const <name>`
   output: per-op observables `;`-joined and the final `F=<root>,eq,<gets on a fresh instance>`.
   Model = the TrieDB model over an association-list database with the executable BLAKE2b;
   spec  = ordered map + `specRoot`. -/
def step (line : String) : String :=
  if line == "const V1MaxInlineValueSize" then toString v1MaxInline
  else if line == "const HashLength" then toString hashLen
  else if line.startsWith "nib " then NibDrv.step (words line)
  else
  match parseLine line with
  | none => "bad-op"
  | some (ver, ops) =>
    let H := Blake2b.hash256
    let m := joinWith ";" (runModel { H := H, dec := decodeNode, ver := ver } ops)
    let s := joinWith ";" (runSpec ver H ops)
    if m == s then m else m ++ "\tspec=" ++ s

def main : IO Unit := runDriver step
