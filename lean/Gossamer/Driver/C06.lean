import Gossamer.Base.Proto
import Gossamer.Lib.Blake2b
import Gossamer.Model.C06
open Gossamer Gossamer.C06

/- line:   `ver|op;op;…`  (put k v | del k | get k | commit | reopen), or `const <name>`
   output: per-op observables `;`-joined and the final `F=<root>,eq,<gets on a fresh instance>`.
   Model = the TrieDB model over an association-list database with the executable BLAKE2b;
   spec  = ordered map + `specRoot`. -/
def step (line : String) : String :=
  if line == "const V1MaxInlineValueSize" then toString v1MaxInline
  else if line == "const HashLength" then toString hashLen
  else
  match parseLine line with
  | none => "bad-op"
  | some (ver, ops) =>
    let H := Blake2b.hash256
    let m := joinWith ";" (runModel { H := H, dec := decodeNode, ver := ver } ops)
    let s := joinWith ";" (runSpec ver H ops)
    if m == s then m else m ++ "\tspec=" ++ s

def main : IO Unit := runDriver step
