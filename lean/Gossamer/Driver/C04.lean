import Gossamer.Base.Proto
import Gossamer.Lib.Blake2b
import Gossamer.Model.C04
open Gossamer Gossamer.C04

/- line:   `op;op;…`  (ops: put h k v | del h k | clr h p | putc h c k v | snap h | ver h 0|1 | hash h |
                        wd h | load h | gfd h k)
   output: the observables of the model run, `;`-joined; when the specification (a persisted root
   reloads to exactly the in-memory state, GetFromDB = in-memory Get) demands something else,
   TAB `spec=<demanded observables>`, and TAB `kf=child-tries-equal-content` if two child tries of
   one trie had the same root hash at some point of the run (child_storage.go keys `childTries` by
   root hash, so such tries share one map entry: a finding of the child-storage properties), or
   `kf=stored-trie-mutated` if a trie was written through its handle while the dot/state cache of
   tries held that object (second run). -/
def step (line : String) : String :=
  let ops := parseLine line
  let r := run Blake2b.hash256 ops
  let m := C02.joinWith ";" (r.map (·.1))
  let s := C02.joinWith ";" (r.map (·.2))
  if m == s then m
  else m ++ "\tspec=" ++ s ++
    (if runAliased Blake2b.hash256 St.init ops then "\tkf=child-tries-equal-content"
     else if runStale Blake2b.hash256 St.init ops then "\tkf=stored-trie-mutated" else "")

def main : IO Unit := runDriver step
