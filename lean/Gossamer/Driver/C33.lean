import Gossamer.Base.Proto
import Gossamer.Model.C33
import Gossamer.Lib.C33Stream
open Gossamer Gossamer.Scale Gossamer.C33

/- line:   `dec <kind> <hex>` | `alloc <kind> <hex>` | `stream <max> <buflen> <chunk> <hex>` | `const <name>`
   output: `ok <dump> re=<hex of the re-encoded message> rt=<1|0>` | `err` | `panic`, on `alloc` lines
           followed by ` a=ok|big` (model allocation counter against the linear budget).  Where the
           allocation is above the budget the property is violated: `spec=… a=ok`, `kf=bytes-alloc`. -/

def isU8 : Ty → Bool
  | .prim .u8 => true
  | _ => false

def bytesOfList (vs : List Val) : Bytes :=
  vs.map (fun v => match v with | .nat n => UInt8.ofNat n | _ => 0)

mutual
partial def showVal : Ty → Val → String
  | .prim .bytes, .bytes b => "x" ++ hex b
  | .prim .str, .bytes b => "s" ++ hex b
  | .prim _, .nat n => toString n
  | .prim _, .int i => toString i
  | .prim _, .bool b => if b then "t" else "f"
  | .unit, _ => "()"
  | .pair a b, v => "(" ++ ",".intercalate (showFields (.pair a b) v) ++ ")"
  | .option _, .none => "none"
  | .option t, .some v => "some(" ++ showVal t v ++ ")"
  | .array _ t, .list vs =>
    if isU8 t then "x" ++ hex (bytesOfList vs) else "[" ++ ",".intercalate (vs.map (showVal t)) ++ "]"
  | .seq t, .list vs =>
    if isU8 t then "x" ++ hex (bytesOfList vs) else "[" ++ ",".intercalate (vs.map (showVal t)) ++ "]"
  | .enumCons i t rest, .variant j v =>
    if j = i then s!"v{i}:" ++ showVal t v else showVal rest (.variant j v)
  | _, _ => "?"
partial def showFields : Ty → Val → List String
  | .pair a b, .pair x y => showVal a x :: showFields b y
  | _, _ => []
end

def showOptBytes : Option Bytes → String
  | none => "none"
  | some b => "some(x" ++ hex b ++ ")"

def showBlock (d : BlockDataMsg) : String :=
  let h := match d.header with | none => "none" | some v => "some(" ++ showVal headerTy v ++ ")"
  let b := match d.body with | none => "none" | some v => "some(" ++ showVal bodyTy v ++ ")"
  s!"some((x{hex d.hash},{h},{b},{showOptBytes d.receipt},{showOptBytes d.messageQueue},{showOptBytes d.justification}))"

def showMsg (k : Kind) : Msg → String
  | .scale v => match k.ty with | some t => showVal t v | none => "?"
  | .raw b => "x" ++ hex b
  | .unit => "()"
  | .blockReq m =>
    let from_ := match m.start with | .number n => s!"n:{n}" | .hash h => "h:x" ++ hex h
    let mx := match m.max with | none => "none" | some n => s!"some({n})"
    s!"({m.requestedData},{from_},{m.direction},{mx})"
  | .blockResp ds => "[" ++ ",".intercalate (ds.map showBlock) ++ "]"
  | .stateReq b st np =>
    s!"(x{hex b},[{",".intercalate (st.map (fun e => "x" ++ hex e))}],{if np then "t" else "f"})"
  | .stateResp es proof =>
    let showE (e : KVEntry) : String :=
      let kvs := ",".intercalate (e.entries.map (fun kv => s!"(x{hex kv.1},x{hex kv.2})"))
      s!"(x{hex e.root},[{kvs}],{if e.complete then "t" else "f"})"
    s!"([{",".intercalate (es.map showE)}],x{hex proof})"

def parseKind : String → Option Kind
  | "ba" => some .ba | "bah" => some .bah | "tx" => some .tx | "txh" => some .txh
  | "cons" => some .cons | "lreq" => some .lreq | "lresp" => some .lresp | "warp" => some .warp
  | "breq" => some .breq | "bresp" => some .bresp | "body" => some .body
  | "gmsg" => some .gmsg | "ghs" => some .ghs
  | "sreq" => some .sreq | "sresp" => some .sresp | "wproof" => some .wproof
  | _ => none

def outcome (k : Kind) (bs : Bytes) : String :=
  match decode k bs with
  | .err => "err"
  | .panic => "panic"
  | .ok m =>
    if k = .sresp then s!"ok {showMsg k m} re=err"          -- StateResponse has no Encode
    else
      let enc := encode k m
      let rt := decode k enc == .ok m
      s!"ok {showMsg k m} re={hex enc} rt={if rt then 1 else 0}"

/-- `stream <maxSize> <bufLen> <chunk> <hex>`: one `readStream` on a stream holding the bytes -/
def streamOutcome (maxSize bufLen chunk : Nat) (s : Bytes) : String :=
  let r := readStream maxSize bufLen chunk s
  if r.panic then "panic"
  else
    let e := match r.err with
      | none => "nil" | some .eof => "eof" | some .leb => "leb" | some .max => "max" | some .short => "short"
    s!"tot={r.tot} err={e} msg={hex r.msg} buflen={r.bufLen} rest={r.rest.length}"

def step (line : String) : String :=
  match words line with
  | ["const", "MaxBlocksInResponse"] => "128"
  | ["const", "MaxBlockResponseSize"] => "16777216"
  | ["stream", m, l, c, h] =>
    match m.toNat?, l.toNat?, c.toNat?, ofHex? h with
    | some maxSize, some bufLen, some chunk, some bs => streamOutcome maxSize bufLen chunk bs
    | _, _, _, _ => "bad-op"
  | ["dec", k, h] =>
    match parseKind k, ofHex? h with
    | some kind, some bs => outcome kind bs
    | _, _ => "bad-op"
  | ["alloc", k, h] =>
    match parseKind k, ofHex? h with
    | some kind, some bs =>
      let o := outcome kind bs
      if (msgCost kind bs).alloc > allocBudget bs.length then
        s!"{o} a=big\tspec={o} a=ok\tkf=bytes-alloc"
      else s!"{o} a=ok"
    | _, _ => "bad-op"
  | _ => "bad-op"

def main : IO Unit := runDriver step
