import Gossamer.Base.Proto
import Gossamer.Base.Dec
import Gossamer.Model.C18
open Gossamer Gossamer.C18

/- line (see harness/C18/c18_test.go):
     n=<auths> set=<set> tree=<p1,p2,..|-> fin=<blk> has=<0|1> f=<fault> R=<round> S=<msg set>
     T=b<k>:<num> lm=<0|1|2>|<id> b<k>:<num> <sig>;...
     thr <n>
   output: <class> fin=<-|b<k>:<round>:<set>> pc=<-|round:set:len> trk=<0|1>  [TAB spec=.. TAB kf=..] -/

/-- canonical decimal (what Go's strconv.Itoa prints) -/
def canonNat? (cs : List Char) : Option Nat :=
  match parseDec? cs with
  | some n => if decChars n = cs then some n else none
  | none => none

def splitOnChar (c : Char) (cs : List Char) : List (List Char) :=
  (cs.foldr (fun x (acc : List Char × List (List Char)) =>
      if x = c then ([], acc.1 :: acc.2) else (x :: acc.1, acc.2)) ([], [])) |> fun p => p.1 :: p.2

/-- `b<k>:<num>` -/
def parseVote? (cs : List Char) : Option (Nat × Nat) :=
  match cs with
  | 'b' :: rest =>
    match splitOnChar ':' rest with
    | [a, b] => do
      let k ← canonNat? a
      let m ← canonNat? b
      if k < 1000 ∧ m < 1000000 then some (k, m) else none
    | _ => none
  | _ => none

/-- `v<i>` / `x<j>` -/
def parseKey? (cs : List Char) : Option Nat :=
  match cs with
  | 'v' :: rest => do let v ← canonNat? rest; if v ≤ 99 then some v else none
  | 'x' :: rest => do let v ← canonNat? rest; if v ≤ 99 then some (100 + v) else none
  | _ => none

def zeroSig : Sig := ⟨true, 0, 0, 0, 0, 0, 0, 0⟩

/-- signature token of an entry `(id, blk, num)` in a commit for `round` under service set `set` -/
def parseSig? (id blk num round set : Nat) (cs : List Char) : Option Sig :=
  let h := Sig.honest id blk num round set
  match cs with
  | ['o', 'k'] => some h
  | ['z'] => some zeroSig
  | ['p', 'v'] => some { h with stage := 0 }
  | 'b' :: 'a' :: 'd' :: rest => do
    let t ← canonNat? rest
    if t < 8 then some { h with tamper := t + 1 } else none
  | 'r' :: rest => do let q ← canonNat? rest; some { h with round := q }
  | 's' :: rest => do let q ← canonNat? rest; some { h with set := q }
  | 'k' :: rest => do let k ← parseKey? rest; some { h with key := k }
  | 'o' :: rest => do let (b, m) ← parseVote? rest; some { h with blk := b, num := m }
  | _ => none

structure Hdr where
  n : Option Nat := none
  set : Option Nat := none
  tree : Option Tree := none
  fin : Option Nat := none
  has : Option Nat := none
  f : Option Nat := none
  R : Option Nat := none
  S : Option Nat := none
  T : Option (Nat × Nat) := none
  lm : Option Nat := none

def parseTree? (cs : List Char) : Option Tree :=
  if cs = ['-'] then some ⟨[]⟩
  else do
    let ps ← (splitOnChar ',' cs).mapM canonNat?
    let t : Tree := ⟨ps⟩
    if t.wf then some t else none

/-- a header field may be given once -/
def setOnce {α : Type} (cur : Option α) (v : Option α) : Option (Option α) :=
  if cur.isSome then none else v.map some

/-- store one `key=value` token; `none` when malformed or repeated -/
def hdrTok (h : Hdr) (tok : String) : Option Hdr :=
  match splitOnChar '=' tok.toList with
  | k :: v :: more =>
    let v := v ++ (more.map (fun m => '=' :: m)).flatten
    let num := canonNat? v
    match String.ofList k with
    | "n" => (setOnce h.n (num.filter (· ≤ 16))).map fun x => { h with n := x }
    | "set" => (setOnce h.set num).map fun x => { h with set := x }
    | "tree" => (setOnce h.tree (parseTree? v)).map fun x => { h with tree := x }
    | "fin" => (setOnce h.fin num).map fun x => { h with fin := x }
    | "has" => (setOnce h.has (num.filter (· ≤ 1))).map fun x => { h with has := x }
    | "f" => (setOnce h.f (num.filter (· ≤ 5))).map fun x => { h with f := x }
    | "R" => (setOnce h.R num).map fun x => { h with R := x }
    | "S" => (setOnce h.S num).map fun x => { h with S := x }
    | "T" => (setOnce h.T (parseVote? v)).map fun x => { h with T := x }
    | "lm" => (setOnce h.lm (num.filter (· ≤ 2))).map fun x => { h with lm := x }
    | _ => none
  | _ => none

def parseEntry? (round set : Nat) (s : String) : Option Entry :=
  match words s with
  | [a, b, c] => do
    let id ← parseKey? a.toList
    let (blk, num) ← parseVote? b.toList
    let sig ← parseSig? id blk num round set c.toList
    some ⟨id, blk, num, sig⟩
  | _ => none

def parseCase? (line : String) : Option (Env × Commit) :=
  match splitOnChar '|' line.toList with
  | hd :: b :: more => do
    let body := String.ofList (b ++ (more.map (fun m => '|' :: m)).flatten)
    let h ← (words (String.ofList hd)).foldlM hdrTok ({} : Hdr)
    let n ← h.n; let set ← h.set; let tree ← h.tree; let fin ← h.fin; let has ← h.has
    let f ← h.f; let R ← h.R; let S ← h.S; let (tb, tn) ← h.T; let lm ← h.lm
    let _ ← if fin ≥ tree.size then none else some ()
    let entries ← if (words body).isEmpty then some [] else (body.splitOn ";").mapM (parseEntry? R set)
    some (⟨n, set, tree, fin, has == 1, f⟩, ⟨R, S, tb, tn, entries, lm⟩)
  | _ => none

def showVErr : VErr → String
  | .len => "err-len"
  | .set => "err-set"
  | .finHdr => "err-finhdr"
  | .anc _ => "err-anc"
  | .notDesc => "err-notdesc"
  | .hdr => "err-hdr"
  | .num => "err-num"
  | .min need got => s!"err-min {need} {got}"

def showRes : Res → String
  | .ok => "ok"
  | .errHdr => "err-hdr"
  | .errHashNum => "err-hashnum"
  | .errHas => "err-has"
  | .verr e => showVErr e
  | .errSetFin => "err-setfin"
  | .errSetPc => "err-setpc"

def showOut (o : Out) : String :=
  let fin := match o.fin with | some (b, r, s) => s!"b{b}:{r}:{s}" | none => "-"
  let pc := match o.pc with | some (r, s, l) => s!"{r}:{s}:{l}" | none => "-"
  s!"{showRes o.res} fin={fin} pc={pc} trk={if o.trk then 1 else 0}"

def step (line : String) : String :=
  match words line with
  | ["thr", d] => match canonNat? d.toList with
    | some n => if n ≤ 100000 then toString (thr n) else "bad-op"
    | none => "bad-op"
  | _ =>
    match parseCase? line with
    | none => "bad-op"
    | some (env, c) =>
      let o := handleCommit env c
      let base := showOut o
      -- the property: SetFinalisedHash only for a commit backed by MORE than 2/3 of the authorities
      if o.fin.isSome && !supermajority (specCount env c) env.n then
        let spec : Out := ⟨.verr (.min (thr env.n + 1) (specCount env c)), none, none, false⟩
        s!"{base}\tspec={showOut spec}\tkf=c18-threshold-not-strict"
      else base

def main : IO Unit := runDriver step
