import Gossamer.Base.Proto
import Gossamer.Base.Dec
import Gossamer.Model.C18
open Gossamer Gossamer.C18

/- line (see harness/C18/c18_test.go):
     n=<auths> set=<set> tree=<p1,p2,..|-> fin=<blk> has=<0|1> f=<fault> R=<round> S=<msg set>
     T=b<k>:<num> lm=<0|1|2>|<id> b<k>:<num> <sig>;...
     thr <n>
   output: <class> fin=<-|b<k>:<round>:<set>> pc=<-|round:set:len> trk=<0|1>  [TAB spec=.. TAB kf=..] -/

/-- canonical decimal (what Go's strconv.Itoa prints) -/
def canonNat? (cs : List Char) : Option Nat :=
  match parseDec? cs with
  | some n => if decChars n = cs then some n else none
  | none => none

def splitOnChar (c : Char) (cs : List Char) : List (List Char) :=
  (cs.foldr (fun x (acc : List Char × List (List Char)) =>
      if x = c then ([], acc.1 :: acc.2) else (x :: acc.1, acc.2)) ([], [])) |> fun p => p.1 :: p.2

/-- `b<k>:<num>` -/
def parseVote? (cs : List Char) : Option (Nat × Nat) :=
  match cs with
  | 'b' :: rest =>
    match splitOnChar ':' rest with
    | [a, b] => do
      let k ← canonNat? a
      let m ← canonNat? b
      if k < 1000 ∧ m < 1000000 then some (k, m) else none
    | _ => none
  | _ => none

/-- `v<i>` / `x<j>` -/
def parseKey? (cs : List Char) : Option Nat :=
  match cs with
  | 'v' :: rest => do let v ← canonNat? rest; if v ≤ 99 then some v else none
  | 'x' :: rest => do let v ← canonNat? rest; if v ≤ 99 then some (100 + v) else none
  | _ => none

def zeroSig : Sig := ⟨true, 0, 0, 0, 0, 0, 0, 0⟩

/-- signature token of an entry `(id, blk, num)` in a commit message for round `round`, set id `set` -/
def parseSig? (id blk num round set : Nat) (cs : List Char) : Option Sig :=
  let h := Sig.honest id blk num round set
  match cs with
  | ['o', 'k'] => some h
  | ['z'] => some zeroSig
  | ['p', 'v'] => some { h with stage := 0 }
  | 'b' :: 'a' :: 'd' :: rest => do
    let t ← canonNat? rest
    if t < 8 then some { h with tamper := t + 1 } else none
  | 'r' :: rest => do let q ← canonNat? rest; some { h with round := q }
  | 's' :: rest => do let q ← canonNat? rest; some { h with set := q }
  | 'k' :: rest => do let k ← parseKey? rest; some { h with key := k }
  | 'o' :: rest => do let (b, m) ← parseVote? rest; some { h with blk := b, num := m }
  | _ => none

def parseTree? (cs : List Char) : Option Tree :=
  if cs = ['-'] then some ⟨[]⟩
  else do
    let ps ← (splitOnChar ',' cs).mapM canonNat?
    let t : Tree := ⟨ps⟩
    if t.wf then some t else none

/-- `-` or a comma separated list of distinct keys (at most 16) -/
def parseKeys? (cs : List Char) : Option (List Nat) :=
  if cs = ['-'] then some []
  else do
    let ks ← (splitOnChar ',' cs).mapM parseKey?
    if ks.eraseDups.length = ks.length ∧ ks.length ≤ 16 then some ks else none

/-- `key=value` tokens: exactly the keys of `want`, each once -/
def parseKV? (toks : List String) (want : List String) : Option (List (String × List Char)) := do
  let kvs ← toks.mapM fun tok =>
    match splitOnChar '=' tok.toList with
    | k :: v :: more => some (String.ofList k, v ++ (more.map (fun m => '=' :: m)).flatten)
    | _ => none
  let ks := kvs.map (·.1)
  if ks.all (want.contains ·) ∧ ks.eraseDups.length = ks.length ∧ ks.length = want.length then some kvs else none

def parseEntry? (round mset : Nat) (s : String) : Option Entry :=
  match words s with
  | [a, b, c] => do
    let id ← parseKey? a.toList
    let (blk, num) ← parseVote? b.toList
    let sig ← parseSig? id blk num round mset c.toList
    some ⟨id, blk, num, sig⟩
  | _ => none

def parseEntries? (round mset : Nat) (body : String) (sep : String) : Option (List Entry) :=
  if (words body).isEmpty then some [] else (body.splitOn sep).mapM (parseEntry? round mset)

/-- f R S T lm and the entry text → fault and commit -/
def parseCommit? (kv : List (String × List Char)) (body sep : String) : Option (Nat × Commit) := do
  let f ← (← kv.lookup "f") |> canonNat?
  let R ← (← kv.lookup "R") |> canonNat?
  let S ← (← kv.lookup "S") |> canonNat?
  let (tb, tn) ← (← kv.lookup "T") |> parseVote?
  let lm ← (← kv.lookup "lm") |> canonNat?
  let _ ← if f ≤ 5 ∧ lm ≤ 2 then some () else none
  let entries ← parseEntries? R S body sep
  some (f, ⟨R, S, tb, tn, entries, lm⟩)

def joinRest (c : Char) (b : List Char) (more : List (List Char)) : String :=
  String.ofList (b ++ (more.map (fun m => c :: m)).flatten)

def parseOp? (o : String) : Option Op :=
  match words o with
  | ["setchange", a, b] => do
    let ns ← canonNat? a.toList
    let vs ← parseKeys? b.toList
    some (.setchange ns vs)
  | "commit" :: _ =>
    match splitOnChar '/' o.toList with
    | l :: r :: more => do
      let kv ← parseKV? ((words (String.ofList l)).drop 1) ["f", "R", "S", "T", "lm"]
      let (f, c) ← parseCommit? kv (joinRest '/' r more) ","
      some (.commit f c)
    | _ => none
  | _ => none

/-- tree, initial Service state, ops, and whether the line is a single-commit line -/
def parseCase? (line : String) : Option (Tree × Svc × List Op × Bool) :=
  match splitOnChar '|' line.toList with
  | hd :: b :: more =>
    let body := joinRest '|' b more
    match words (String.ofList hd) with
    | "hist" :: toks => do
      let kv ← parseKV? toks ["auths", "set", "tree", "fin"]
      let auths ← (← kv.lookup "auths") |> parseKeys?
      let set ← (← kv.lookup "set") |> canonNat?
      let tree ← (← kv.lookup "tree") |> parseTree?
      let fin ← (← kv.lookup "fin") |> canonNat?
      let _ ← if fin ≥ tree.size then none else some ()
      let ops ← if (words body).isEmpty then some [] else (body.splitOn ";").mapM parseOp?
      some (tree, ⟨auths, set, fin, []⟩, ops, false)
    | toks => do
      let kv ← parseKV? toks ["n", "set", "tree", "fin", "has", "f", "R", "S", "T", "lm"]
      let n ← (← kv.lookup "n") |> canonNat?
      let set ← (← kv.lookup "set") |> canonNat?
      let tree ← (← kv.lookup "tree") |> parseTree?
      let fin ← (← kv.lookup "fin") |> canonNat?
      let has ← (← kv.lookup "has") |> canonNat?
      let _ ← if n ≤ 16 ∧ has ≤ 1 ∧ fin < tree.size then some () else none
      let (f, c) ← parseCommit? kv body ";"
      some (tree, ⟨List.range n, set, fin, if has = 1 then [(c.round, set)] else []⟩, [.commit f c], true)
  | _ => none

def showVErr : VErr → String
  | .len => "err-len"
  | .set => "err-set"
  | .finHdr => "err-finhdr"
  | .anc _ => "err-anc"
  | .notDesc => "err-notdesc"
  | .hdr => "err-hdr"
  | .num => "err-num"
  | .min need got => s!"err-min {need} {got}"

def showRes : Res → String
  | .ok => "ok"
  | .errHdr => "err-hdr"
  | .errHashNum => "err-hashnum"
  | .errHas => "err-has"
  | .verr e => showVErr e
  | .errSetFin => "err-setfin"
  | .errSetPc => "err-setpc"

def showOut (o : Out) : String :=
  let fin := match o.fin with | some (b, r, s) => s!"b{b}:{r}:{s}" | none => "-"
  let pc := match o.pc with | some (r, s, l) => s!"{r}:{s}:{l}" | none => "-"
  s!"{showRes o.res} fin={fin} pc={pc} trk={if o.trk then 1 else 0}"

def showOpOut : OpOut → String
  | .commit o => showOut o
  | .set st vs =>
    let name (k : Nat) : String := if k ≥ 100 then s!"x{k - 100}" else s!"v{k}"
    s!"set:{st}:{if vs.isEmpty then "-" else ",".intercalate (vs.map name)}"

def showTrace (os : List OpOut) : String :=
  if os.isEmpty then "empty" else ";".intercalate (os.map showOpOut)

def step (line : String) : String :=
  match words line with
  | ["thr", d] => match canonNat? d.toList with
    | some n => if n ≤ 100000 then toString (thr n) else "bad-op"
    | none => "bad-op"
  | _ =>
    match parseCase? line with
    | none => "bad-op"
    | some (t, s, ops, _) =>
      let model := showTrace (run t ops s)
      -- the property: SetFinalisedHash only for a commit backed by MORE than 2/3 of the authorities of
      -- the set the Service is in; the spec trace is the same history with that decision
      let spec := showTrace (runSpec t ops s)
      if spec ≠ model then s!"{model}\tspec={spec}\tkf=c18-threshold-not-strict" else model

def main : IO Unit := runDriver step
