import Gossamer.Base.Proto
import Gossamer.Model.C07
import Gossamer.Lib.HashRef
open Gossamer Gossamer.TrieCodec Gossamer.C07

/- Case lines: see harness/C07/c07n_test.go (node), c07c_test.go (triedb codec), c07t_test.go (triedb).
   `H` of the model is instantiated with the BLAKE2b-256 reference of Lib/HashRef. -/

def H : Bytes → Bytes := HashRef.blake2b256

/-- `N<count>.<seed>` / `Z<count>.<seed>` / hex -/
def expandTok (tok : String) : Option Bytes :=
  match tok.toList with
  | 'N' :: rest =>
    match (String.ofList rest).splitOn "." with
    | [c, s] => do
      let cnt ← c.toNat?
      let seed ← s.toNat?
      pure ((List.range cnt).map fun i => UInt8.ofNat ((seed + i + i / 16) % 16))
    | _ => none
  | 'Z' :: rest =>
    match (String.ofList rest).splitOn "." with
    | [c, s] => do
      let cnt ← c.toNat?
      let seed ← s.toNat?
      pure ((List.range cnt).map fun i => UInt8.ofNat ((seed + i * 31 + i / 256) % 256))
    | _ => none
  | _ => ofHex? tok

def valTok (tok : String) : Option (Option Bytes) :=
  if tok = "nil" then some none else (expandTok tok).map some

partial def parseNode : List String → Option (Node × List String)
  | "E" :: t => some (.empty, t)
  | "S" :: mv :: t => (ofHex? mv).map fun b => (.stub b, t)
  | "L" :: pk :: v :: h :: t => do
    let pk ← expandTok pk
    let v ← valTok v
    pure (.leaf pk v (h == "1"), t)
  | "B" :: pk :: v :: h :: bm :: t => do
    let pk ← expandTok pk
    let v ← valTok v
    let bm ← ofHex? bm
    match bm with
    | [b0, b1] =>
      let rec kids : List Bool → List String → Option (List Node × List String)
        | [], t => some ([], t)
        | false :: bs, t => (kids bs t).map fun (cs, t') => (Node.empty :: cs, t')
        | true :: bs, t => do
          let (c, t1) ← parseNode t
          let (cs, t2) ← kids bs t1
          pure (c :: cs, t2)
      let (cs, t') ← kids (bitmapBits b0 b1) t
      pure (.branch pk v (h == "1") cs, t')
    | _ => none
  | _ => none

def modesOf (m : String) : Option (List Bool) :=
  if m = "z" then some [false] else if m = "s" then some [true] else if m = "a" then some [false, true]
  else none

/-- evaluate under the assumed scale mode(s); `a` demands a mode-independent answer -/
def underModes (m : String) (f : Bool → String) : String :=
  match modesOf m with
  | some [x] => f x
  | some [x, y] => if f x = f y then f x else "mode-dependent"
  | _ => "bad-op"

/-- model output, plus `spec=`/`kf=` where the zero-hash quirk of `H256.UnmarshalSCALE` shows -/
def withSpec (m : String) (f : Bool → Bool → String) : String :=
  let mo := underModes m (f true)
  let sp := underModes m (f false)
  if mo = sp then mo else mo ++ "\tspec=" ++ sp ++ "\tkf=triedb-zero-hash"

def kindVariant (k : String) : Option Variant :=
  if k = "L" then some leafV else if k = "LH" then some leafHashedV else if k = "B" then some branchV
  else if k = "BV" then some branchValV else if k = "BH" then some branchHashedV else none

def headerStr (o : Out (Variant × Nat × Bytes)) : String :=
  outStr (fun (v, l, r) => s!"ok {variantStr v} {l} {r.length}") o

def headerByteStr (h : String) : String :=
  match ofHex? h with
  | some [b] =>
    match decodeHeaderByte b with
    | some (v, p) => s!"ok {variantStr v} {byteHex p}"
    | none => "err-variant"
  | _ => "bad-op"

def parseTValue (s : String) : Option TValue :=
  match s.toList with
  | 'I' :: r => (ofHex? (String.ofList r)).map .inline
  | 'H' :: r => (ofHex? (String.ofList r)).map .hashed
  | _ => none

def parseTChild (s : String) : Option TChild :=
  if s = "_" then some .none
  else match s.toList with
    | 'I' :: r => (ofHex? (String.ofList r)).map .inline
    | 'H' :: r => (ofHex? (String.ofList r)).map .hashed
    | _ => none

def step (line : String) : String :=
  match words line with
  | ["const", "variants"] => " ".intercalate (variantTable.map variantStr)
  | ["const", "maxPartialKeyLength"] => toString maxPartialKeyLength
  | ["const", "hashLength"] => toString hashLength
  | ["const", "ChildrenCapacity"] => toString childrenCapacity
  | ["nhb", h] => headerByteStr h
  | ["thb", h] => headerByteStr h
  | ["nh", h] => match ofHex? h with | some b => headerStr (decodeHeader b) | none => "bad-op"
  | ["th", h] => match ofHex? h with | some b => headerStr (decodeHeader b) | none => "bad-op"
  | ["neh", k, l] =>
    match kindVariant k, l.toNat? with
    | some v, some n => outStr hex (encodeHeaderChecked v n)
    | _, _ => "bad-op"
  | ["teh", k, l, key] =>
    match kindVariant k, l.toNat?, ofHex? key with
    | some v, some n, some kb =>
      if n > maxPartialKeyLength then "panic" else hex (tencodeHeader v kb n)
    | _, _, _ => "bad-op"
  | ["nk", l, h] =>
    match l.toNat?, ofHex? h with
    | some n, some b => outStr (fun (k, r) => s!"ok {hex k} {r.length}") (decodeKey n b)
    | _, _ => "bad-op"
  | ["tk", l, h] =>
    match l.toNat?, ofHex? h with
    | some n, some b => outStr (fun (d, o, r) => s!"ok {hex d}/{o} {r.length}") (tdecodeKey n b)
    | _, _ => "bad-op"
  | ["nd", m, h] =>
    match ofHex? h with
    | some b => underModes m fun s => outStr dumpNode (decode s b)
    | none => "bad-op"
  | ["td", m, h] =>
    match ofHex? h with
    | some b => withSpec m fun q s => outStr dumpTNode (tdecodeG q s b)
    | none => "bad-op"
  | "ne" :: m :: expr =>
    match parseNode expr with
    | some (n, []) =>
      match encodeChecked H n with
      | .ok enc => underModes m fun s => hex enc ++ " " ++ outStr dumpNode (decode s enc)
      | _ => "panic"
    | _ => "bad-op"
  | ["te", m, "L", key, n, v] =>
    match ofHex? key, n.toNat?, parseTValue v with
    | some kb, some nn, some tv =>
      if nn > maxPartialKeyLength then "panic"
      else
        let enc := tencodeLeaf kb nn tv
        withSpec m fun q s => hex enc ++ " " ++ outStr dumpTNode (tdecodeG q s enc)
    | _, _, _ => "bad-op"
  | "te" :: m :: "B" :: key :: n :: v :: kids =>
    match ofHex? key, n.toNat?, (if v = "nil" then some none else (parseTValue v).map some),
        kids.mapM parseTChild with
    | some kb, some nn, some tv, some cs =>
      if cs.length ≠ 16 then "bad-op"
      else if nn > maxPartialKeyLength then "panic"
      else
        let enc := tencodeBranch kb nn cs tv
        withSpec m fun q s => hex enc ++ " " ++ outStr dumpTNode (tdecodeG q s enc)
    | _, _, _, _ => "bad-op"
  | _ => "bad-op"

def main : IO Unit := runDriver step
