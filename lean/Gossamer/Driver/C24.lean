import Gossamer.Base.Proto
import Gossamer.Model.C24
import Gossamer.Lib.HashRef
open Gossamer Gossamer.C24

/- lines (see harness/C24/c24_test.go):
   v <ss> <c1> <c2> <n> <rb> <epoch> <slot> <kind> <idx> <vsigner> <vrfT> <sealer> <sealT> <shape> <eng> <dup> o=<attach><below><vrf><seal>
   own <ss> <c1> <c2> <n> <rb> <epoch> <me> <slot0> <belowbits> -/

def showVerdict : Verdict → String
  | .ok => "ok"
  | .missingDigest => "err-missing-digest"
  | .firstNotPre => "err-first-not-pre"
  | .lastNotSeal => "err-last-not-seal"
  | .index => "err-index"
  | .overThreshold => "err-over-threshold"
  | .badSecondaryClaim => "err-bad-secondary-claim"
  | .badSlotClaim => "err-bad-slot-claim"
  | .badSignature => "err-bad-signature"
  | .claimOther => "err-claim-other"
  | .sealOther => "err-seal-other"
  | .verifierInfo => "err-verifier-info"

def H := HashRef.blake2b256

def randOf (rb : Nat) : Bytes := List.replicate 32 (UInt8.ofNat rb)

def preOf (kind idx slot : Nat) : Option PreDigest :=
  match kind with
  | 1 => some (.primary idx slot)
  | 2 => some (.secPlain idx slot)
  | 3 => some (.secVRF idx slot)
  | _ => none

def digestOf (shape : Nat) (pre : Item) : List Item :=
  match shape with
  | 0 => [pre, .sealItem]
  | 1 => [pre, .other, .sealItem]
  | 2 => [pre]
  | 3 => [.sealItem, .sealItem]
  | 4 => []
  | 5 => [.other, pre, .sealItem]
  | 6 => [pre, .sealItem, .other]
  | _ => [pre, pre]

def triOf (c : Char) : Tri := if c = '1' then .yes else if c = '2' then .err else .no

def oraclesOf (s : String) : Option Oracles :=
  match s.toList with
  | ['o', '=', a, b, v, l] => some ⟨a = '1', b = '1', triOf v, triOf l⟩
  | _ => none

def stepV (f : List Nat) (o : Oracles) : String :=
  match f with
  | [ss, c1, c2, n, rb, _epoch, slot, kind, idx, _vs, _vt, _sl, _st, shape, _eng, _dup] =>
    let digest := digestOf shape (.pre (preOf kind idx slot))
    let m := verify H ss c1 c2 n (randOf rb) digest o
    let a := authorised H ss c1 c2 n (randOf rb) digest o
    if m = .ok ∧ a = false then
      s!"{showVerdict m}\tspec=err-bad-slot-claim\tkf=secondary-kind-not-checked"
    else if m ≠ .ok ∧ a = true then
      s!"{showVerdict m}\tspec=ok"          -- cannot happen (C24_authorised_accepted)
    else showVerdict m
  | _ => "bad-op"

def stepOwn (f : List Nat) (bits : String) : String :=
  match f with
  | [ss, c1, c2, n, rb, _epoch, me, slot0] =>
    if n > 7 ∨ me ≥ n then "bad-op" else
    match getVerifierInfo ss c1 c2 n with
    | none => "err-verifier-info"
    | some _ =>
      let outs := (bits.toList.zipIdx).filterMap fun (c, i) =>
        let slot := slot0 + i
        match claimSlot H ss n me (randOf rb) slot (c = '1') with
        | none => none
        | some pd =>
          let kind := match pd with | .primary _ _ => 1 | .secPlain _ _ => 2 | .secVRF _ _ => 3
          let v := verify H ss c1 c2 n (randOf rb) [.pre (some pd), .sealItem] ⟨true, c = '1', .yes, .yes⟩
          some s!"{slot}:{kind}:{showVerdict v}"
      if outs.isEmpty then "none" else ",".intercalate outs
  | _ => "bad-op"

def allNat (ws : List String) : Option (List Nat) := ws.mapM String.toNat?

def step (line : String) : String :=
  match words line with
  | "v" :: rest =>
    if rest.length ≠ 17 then "bad-op" else
    match allNat (rest.take 16), oraclesOf (rest.getD 16 "") with
    | some f, some o => if f.getD 3 0 > 7 then "bad-op" else stepV f o
    | _, _ => "bad-op"
  | "own" :: rest =>
    if rest.length ≠ 9 then "bad-op" else
    match allNat (rest.take 8) with
    | some f => stepOwn f (rest.getD 8 "")
    | none => "bad-op"
  | _ => "bad-op"

def main : IO Unit := runDriver step
