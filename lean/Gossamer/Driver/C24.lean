import Gossamer.Base.Proto
import Gossamer.Model.C24
import Gossamer.Lib.HashRef
open Gossamer Gossamer.C24

/- lines (see harness/C24/c24_test.go):
   v <ss> <c1> <c2> <n> <rb> <epoch> <slot> <kind> <idx> <vsigner> <vrfT> <sealer> <sealT> <shape> <eng> <dup> o=<attach><below><vrf><seal>
   own <ss> <c1> <c2> <n> <rb> <epoch> <me> <slot0> <belowbits> -/

def showVerdict : Verdict → String
  | .ok => "ok"
  | .missingDigest => "err-missing-digest"
  | .firstNotPre => "err-first-not-pre"
  | .lastNotSeal => "err-last-not-seal"
  | .index => "err-index"
  | .overThreshold => "err-over-threshold"
  | .badSecondaryClaim => "err-bad-secondary-claim"
  | .badSlotClaim => "err-bad-slot-claim"
  | .badSignature => "err-bad-signature"
  | .claimOther => "err-claim-other"
  | .sealOther => "err-seal-other"
  | .verifierInfo => "err-verifier-info"
  | .parentUnknown => "err-parent"
  | .epochLower => "err-epoch-lower"

def H := HashRef.blake2b256

def preOf (kind idx slot : Nat) : Option PreDigest :=
  match kind with
  | 1 => some (.primary idx slot)
  | 2 => some (.secPlain idx slot)
  | 3 => some (.secVRF idx slot)
  | _ => none

def digestOf (shape : Nat) (pre : Item) : List Item :=
  match shape with
  | 0 => [pre, .sealItem]
  | 1 => [pre, .other, .sealItem]
  | 2 => [pre]
  | 3 => [.sealItem, .sealItem]
  | 4 => []
  | 5 => [.other, pre, .sealItem]
  | 6 => [pre, .sealItem, .other]
  | _ => [pre, pre]

def triOf (c : Char) : Tri := if c = '1' then .yes else if c = '2' then .err else .no

def oraclesOf (s : String) : Option Oracles :=
  match s.toList with
  | ['o', '=', a, b, v, l] => some ⟨a = '1', b = '1', triOf v, triOf l⟩
  | _ => none

def allNat (ws : List String) : Option (List Nat) := ws.mapM String.toNat?

def stepV (f : List Nat) (o : Oracles) : String :=
  match f with
  | [ss, c1, c2, n, rb, _epoch, slot, kind, idx, _vs, _vt, _sl, _st, shape, _eng, _dup] =>
    let digest := digestOf shape (.pre (preOf kind idx slot))
    let m := verify H ss c1 c2 n (randOf rb) digest o
    let a := authorised H ss c1 c2 n (randOf rb) digest o
    if m = .ok ∧ a = false then
      s!"{showVerdict m}\tspec=err-bad-slot-claim\tkf=secondary-kind-not-checked"
    else if m ≠ .ok ∧ a = true then
      s!"{showVerdict m}\tspec=ok"          -- cannot happen (C24_authorised_accepted)
    else showVerdict m
  | _ => "bad-op"

def stepOwn (f : List Nat) (bits : String) : String :=
  match f with
  | [ss, c1, c2, n, rb, _epoch, me, slot0] =>
    if n > 7 ∨ me ≥ n then "bad-op" else
    match getVerifierInfo ss c1 c2 n with
    | none => "err-verifier-info"
    | some _ =>
      let outs := (bits.toList.zipIdx).filterMap fun (c, i) =>
        let slot := slot0 + i
        match claimSlot H ss n me (randOf rb) slot (c = '1') with
        | none => none
        | some pd =>
          let kind := match pd with | .primary _ _ => 1 | .secPlain _ _ => 2 | .secVRF _ _ => 3
          let v := verify H ss c1 c2 n (randOf rb) [.pre (some pd), .sealItem] ⟨true, c = '1', .yes, .yes⟩
          some s!"{slot}:{kind}:{showVerdict v}"
      if outs.isEmpty then "none" else ",".intercalate outs
  | _ => "bad-op"


/-! manager lines: `mgr G=<n>,<koff>,<rb>,<c1>,<c2>,<ss> A=.. B=..|vb ..;dis ..` -/

def descOf (s : String) : Option Desc :=
  match (String.ofList (s.toList.drop 2)).splitOn "," |>.mapM String.toNat? with
  | some [n, _koff, rb, c1, c2, ss] => if n > 7 then none else some ⟨n, rb % 256, c1, c2, ss⟩
  | _ => none

def branchOf (s : String) : Option Branch :=
  if s = "A" then some .A else if s = "B" then some .B else none

def parentOf (s : String) : Option Parent :=
  if s = "g" then some .genesis else if s = "x" then some .unknown
  else if s = "1" then some (.blk 1) else if s = "2" then some (.blk 2) else if s = "3" then some (.blk 3)
  else none

def showDis : DisResult → String
  | .ok => "ok" | .index => "err-index" | .already => "err-already-disabled"
  | .verifierInfo => "err-verifier-info"

def opOf (ws : List String) : Option Op :=
  match ws with
  | ["vb", x, par, epoch, slot, kind, idx, _vs, _vt, _sl, _st, shape, o] =>
    match branchOf x, parentOf par, allNat [epoch, slot, kind, idx, shape], oraclesOf o with
    | some br, some p, some [epoch, slot, kind, idx, shape], some o =>
      some (.vb ⟨br, p, epoch, digestOf shape (.pre (preOf kind idx slot)), o⟩)
    | _, _, _, _ => none
  | ["dis", x, k, idx] =>
    match branchOf x, k.toNat?, idx.toNat? with
    | some br, some k, some idx => if 1 ≤ k ∧ k ≤ 3 ∧ idx < 2 ^ 32 then some (.dis br k idx) else none
    | _, _, _ => none
  | _ => none

/-- model output, spec output, known-finding hit of one op -/
def opOut (env : Env) (st : MState) (op : Option Op) : MState × String × String × Bool :=
  match op with
  | none => (st, "bad-op", "bad-op", false)
  | some (.vb b) =>
    let m := verifyBlock H env b
    let a := blockAuthorised H env b
    if m = .ok ∧ a = false then (st, "ok", "err-bad-slot-claim", true)
    else if m ≠ .ok ∧ a = true then (st, showVerdict m, "ok", false)
    else (st, showVerdict m, showVerdict m, false)
  | some (.dis br k idx) =>
    let r := setOnDisabled env st br k idx
    (r.1, showDis r.2, showDis r.2, false)

def stepMgr (line : String) : String :=
  match line.splitOn "|" with
  | [hdr, body] =>
    match words hdr with
    | ["mgr", g, a, b] =>
      match descOf g, descOf a, descOf b with
      | some dg, some da, some db =>
        let env : Env := ⟨dg, da, db⟩
        let (_, ms, ss, kf) := (body.splitOn ";").foldl
          (fun (acc : MState × List String × List String × Bool) opS =>
            let (st, ms, ss, kf) := acc
            let (st', m, s, k) := opOut env st (opOf (words opS))
            (st', ms ++ [m], ss ++ [s], kf || k))
          (MState.init, [], [], false)
        let m := ";".intercalate ms
        let s := ";".intercalate ss
        if m = s then m
        else if kf then s!"{m}\tspec={s}\tkf=secondary-kind-not-checked"
        else s!"{m}\tspec={s}"
      | _, _, _ => "bad-op"
    | _ => "bad-op"
  | _ => "bad-op"

/-! layout lines: `d <ss> <c1> <c2> <n> <rb> <epoch> <slot> <kind> <idx> <vsigner> <vrfT> <sealer> <layout> <pre> o=....`
    (which pre-image the final seal signed does not concern the model: the seal oracle is the truth of
    "valid over the header with exactly the last item removed") -/

def itemOfChar (pre : Item) (c : Char) : Option Item :=
  if c = 'P' ∨ c = 'p' then some pre
  else if c = 'q' then some (.pre none)
  else if c = 'c' ∨ c = 'r' then some .other
  else if c = 'S' ∨ c = 'o' ∨ c = 'j' then some .sealItem
  else none

def stepD (f : List Nat) (layout : String) (o : Oracles) : String :=
  match f with
  | [ss, c1, c2, n, rb, _epoch, slot, kind, idx, _vs, _vt, _sl] =>
    let chars := if layout = "-" then [] else layout.toList
    match chars.mapM (itemOfChar (.pre (preOf kind idx slot))) with
    | none => "bad-op"
    | some digest =>
      if digest.length > 6 then "bad-op" else
      let m := verify H ss c1 c2 n (randOf rb) digest o
      let a := authorised H ss c1 c2 n (randOf rb) digest o
      if m = .ok ∧ a = false then
        s!"{showVerdict m}\tspec=err-bad-slot-claim\tkf=secondary-kind-not-checked"
      else if m ≠ .ok ∧ a = true then s!"{showVerdict m}\tspec=ok"
      else showVerdict m
  | _ => "bad-op"

/-! threshold-boundary lines: `t <v|c> <ss> <n> <rb> <epoch> <slot> <idx> <thr-be-hex> <res-hex>`;
    `below` is C25's `checkPrimary res thr` (= `natOfLE res < thr`, strictly: C25_compare) -/

def stepT (mode : String) (f : List Nat) (thr res : Bytes) : String :=
  match f with
  | [ss, n, rb, _epoch, slot, idx] =>
    if thr.length ≠ 16 ∨ n < 1 ∨ n > 7 ∨ idx ≥ n then "bad-op" else
    let below := C25.checkPrimary res (C13.ofBytesBE thr)
    if mode = "v" then
      let m := verify H ss 1 1 n (randOf rb) [.pre (some (.primary idx slot)), .sealItem] ⟨true, below, .yes, .yes⟩
      s!"{showVerdict m} {hex res}"
    else if mode = "c" then
      match claimSlot H ss n idx (randOf rb) slot below with
      | none => s!"none {hex res}"
      | some (.primary _ _) => s!"1 {hex res}"
      | some (.secPlain _ _) => s!"2 {hex res}"
      | some (.secVRF _ _) => s!"3 {hex res}"
    else "bad-op"
  | _ => "bad-op"

def step (line : String) : String :=
  match words line with
  | "mgr" :: _ => stepMgr line
  | ["t", mode, ss, n, rb, epoch, slot, idx, thr, res] =>
    match allNat [ss, n, rb, epoch, slot, idx], ofHex? thr, ofHex? res with
    | some f, some tb, some rs => stepT mode f tb rs
    | _, _, _ => "bad-op"
  | "d" :: rest =>
    if rest.length ≠ 15 then "bad-op" else
    match allNat (rest.take 12), (rest.getD 14 "").length ≥ 1, oraclesOf (rest.getD 14 "") with
    | some f, _, some o =>
      if f.getD 3 0 > 7 ∨ (rest.getD 13 "").toNat?.isNone then "bad-op" else stepD f (rest.getD 12 "") o
    | _, _, _ => "bad-op"
  | "v" :: rest =>
    if rest.length ≠ 17 then "bad-op" else
    match allNat (rest.take 16), oraclesOf (rest.getD 16 "") with
    | some f, some o => if f.getD 3 0 > 7 then "bad-op" else stepV f o
    | _, _ => "bad-op"
  | "own" :: rest =>
    if rest.length ≠ 9 then "bad-op" else
    match allNat (rest.take 8) with
    | some f => stepOwn f (rest.getD 8 "")
    | none => "bad-op"
  | _ => "bad-op"

def main : IO Unit := runDriver step
