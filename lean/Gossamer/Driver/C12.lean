import Gossamer.Base.Proto
import Gossamer.Lib.ScaleText
import Gossamer.Model.C12
import Gossamer.Lib.ScaleMap
open Gossamer Gossamer.Scale Gossamer.ScaleText

/- line:   d <type> <input-hex>
   output: ok <canonical encoding of the decoded value> <consumed> | ok-huge | err   [+ " big"]
   spec:   what C12 demands: the outcome of the canonical decoder, or a plain failure; never `big`.
           followed by " <reader>=<outcome>" for every other way of feeding the same bytes
           (Unmarshal, NewDecoder over bytes.Reader / HalfReader / OneByteReader / DataErrReader)
           whose outcome differs from the bytes.Buffer one; the spec has none of these.
   known findings: `bytes-short-read` (zero-filled short read in decodeBytes),
                   `bytes-alloc` (declared length allocated before reading),
                   `bytes-chunked-read` (decodeBytes over a reader that delivers less per Read). -/

def showDecode (t : Ty) (data : Bytes) (o : C12.DRes) : String :=
  let big := if o.req > data.length + 1024 then " big" else ""
  match o.res with
  | none => "err" ++ big
  | some (v, r) =>
    if o.req > data.length + 65536 then "ok-huge" ++ big
    else s!"ok {hex (encode Spec.codec t v)} {data.length - r.length}{big}"

/-- outcome of one of the other reader kinds, in the harness's notation -/
def viaOut (t : Ty) (o : Option (Val × Bytes)) : String :=
  match o with
  | none => "err"
  | some (v, _) => s!"ok:{hex (encode Spec.codec t v)}"

/-- " <kind>=<outcome>" for every reader kind whose outcome differs from the bytes.Buffer one -/
def readerSuffix (t : Ty) (data : Bytes) (o : C12.DRes) : String :=
  if o.req > data.length + 65536 then ""
  else
    let base := viaOut t o.res
    let kinds : List (String × C12.RKind) :=
      [("um", .buffer), ("rdr", .buffer)] ++
        (if C12.chunkingObserved t then [("half", .half), ("one", .one), ("derr", .dataErr)] else [])
    let rs := kinds.foldl (fun acc (name, k) =>
      let x := viaOut t (C12.decodeR k t data)
      if x = base then acc else acc ++ s!" {name}={x}") ""
    let d := viaOut t (C12.decodeDG t data)
    if d = base then rs else rs ++ s!" dirty={d}"

def step (line : String) : String :=
  match words line with
  | ["d", tys, h] =>
    match parseTy tys, ofHex? h with
    | some g, some data =>
      let t := g.toTy
      let o := C12.decodeA t data
      let rs := readerSuffix t data o
      let model := showDecode t data o ++ rs
      let spec :=
        match decode Spec.codec t data with
        | none => "err"
        | some (v, r) =>
          if o.res.isNone then "err"      -- failing is always allowed
          else s!"ok {hex (encode Spec.codec t v)} {data.length - r.length}"
      if model = spec then model
      else
        let kf := if o.zf then "bytes-short-read"
                  else if o.req > data.length + 1024 then "bytes-alloc"
                  else if (rs.splitOn " dirty=").length > 1 then "dirty-dst"
                  else if rs ≠ "" then "bytes-chunked-read" else "none"
        s!"{model}\tspec={spec}\tkf={kf}"
    | _, _ => "bad-op"
  | ["mdec", kts, vts, h, dst] => ScaleMap.stepDec kts vts h dst
  | _ => "bad-op"

def main : IO Unit := runDriver step
