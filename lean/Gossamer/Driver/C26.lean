import Gossamer.Base.Proto
import Gossamer.Model.C26
open Gossamer Gossamer.C26

/- line:  `L|op;op;…`  (see harness/C26/c26_test.go for the op list)
   output: the outputs of the ops joined by `;` -/

structure DSt where
  st : St
  /-- headers defined by the line: id ↦ header (id 0 = genesis) -/
  defs : List (Nat × Hdr)

def maxID : Nat := 8

def hdrOf (d : DSt) (id : Nat) : Option Hdr := lookup d.defs id

/-- block id of a model hash (hash = id + 1) -/
def idOfHash (h : Nat) : String := if h = 0 then "-1" else toString (h - 1)

def insertSorted (x : Nat) : List Nat → List Nat
  | [] => [x]
  | y :: ys => if x < y then x :: y :: ys else if x = y then y :: ys else y :: insertSorted x ys

def sortDedup (l : List Nat) : List Nat := l.foldl (fun acc x => insertSorted x acc) []

def showRes : Res → String
  | .gen => "gen"
  | .db d => toString d
  | .mem c => "/".intercalate ((sortDedup (c.map (·.2))).map toString)
  | .errEpoch => "err-epoch"
  | .errHash => "err-hash"
  | .errParent => "err-parent"
  | .timeout => "timeout"

def qe (d : DSt) (h : Hdr) (e : Nat) : String := showRes (getEpochDataRaw d.st e h)
def qc (d : DSt) (h : Hdr) (e : Nat) : String := showRes (getConfigData d.st h e)

def insertSortedS (x : String) : List String → List String
  | [] => [x]
  | y :: ys => if x < y then x :: y :: ys else y :: insertSortedS x ys

def sortS (l : List String) : List String := l.foldl (fun acc x => insertSortedS x acc) []

def dumpMap (m : EpochMap) : String :=
  let epochs := sortDedup (m.map (·.1))
  " ".intercalate (epochs.map fun e =>
    let ents := (lookup m e).getD []
    s!"{e}:" ++ ",".intercalate (sortS (ents.map fun p => s!"{idOfHash p.1}={p.2}")))

def nat? (s : String) : Option Nat := s.toNat?

def stateOp (d : DSt) (o : Op) : DSt × String :=
  let (st', ok) := step d.st o
  ({ d with st := st' }, if ok then "ok" else "err")

def define (d : DSt) (id p s : Nat) : Option (DSt × Hdr) :=
  match hdrOf d id with
  | some h => some (d, h)
  | none =>
    match hdrOf d p with
    | none => none
    | some ph =>
      if id < 1 ∨ id > maxID then none
      else
        let h : Hdr := { hash := id + 1, parent := ph.hash, number := ph.number + 1, slot := s }
        some ({ d with defs := d.defs ++ [(id, h)] }, h)

def dataOK (x : Nat) : Bool := 1 ≤ x && x ≤ 65535

def opStep (d : DSt) (f : List String) : DSt × String :=
  match f with
  | [k, a, b, c] =>
    if k = "add" ∨ k = "mk" then
      match nat? a, nat? b, nat? c with
      | some id, some p, some s =>
        match define d id p s with
        | none => (d, "bad-op")
        | some (d', h) => if k = "mk" then (d', "ok") else stateOp d' (.add h)
      | _, _, _ => (d, "bad-op")
    else (d, "bad-op")
  | [k, a, b] =>
    match nat? a, nat? b with
    | some x, some y =>
      if k = "ann" ∨ k = "cfg" then
        match hdrOf d x with
        | some h => if dataOK y then stateOp d (if k = "ann" then .ann h y else .cfg h y) else (d, "bad-op")
        | none => (d, "bad-op")
      else if k = "dbe" then (if dataOK y then stateOp d (.dbe x y) else (d, "bad-op"))
      else if k = "dbc" then (if dataOK y then stateOp d (.dbc x y) else (d, "bad-op"))
      else if k = "qe" ∨ k = "qc" then
        match hdrOf d x with
        | some h => (d, if k = "qe" then qe d h y else qc d h y)
        | none => (d, "bad-op")
      else (d, "bad-op")
    | _, _ => (d, "bad-op")
  | [k, a] =>
    match nat? a with
    | some x =>
      if k = "ep" then
        match hdrOf d x with
        | some h => (d, match epochForBlock d.st h with | some e => toString e | none => "err")
        | none => (d, "bad-op")
      else if k = "qall" then
        if x > 12 then (d, "bad-op")
        else
          let rows := (List.range (maxID + 1)).filterMap fun id =>
            match hdrOf d id with
            | none => none
            | some h =>
              let cells := (List.range (x + 1)).map fun e => qe d h e ++ "," ++ qc d h e
              some (s!"{id}=" ++ ".".intercalate cells)
          (d, " ".intercalate rows)
      else (d, "bad-op")
    | none => (d, "bad-op")
  | ["restart"] => stateOp d .restart
  | ["dump"] => (d, "E[" ++ dumpMap d.st.nextEpoch ++ "] C[" ++ dumpMap d.st.nextConfig ++ "]")
  | _ => (d, "bad-op")

def step' (line : String) : String :=
  match line.splitOn "|" with
  | [hd, body] =>
    match (match words hd with | [x] => nat? x | _ => none) with
    | some l =>
      if l < 1 ∨ l > 1000 then "bad-op"
      else
        let d0 : DSt := { st := St.init l, defs := [(0, genesis)] }
        let (_, outs) := (body.splitOn ";").foldl (fun (acc : DSt × List String) o =>
          let f := words o
          if f.isEmpty then acc
          else
            let (d', out) := opStep acc.1 f
            (d', out :: acc.2)) (d0, [])
        ";".intercalate outs.reverse
    | none => "bad-op"
  | _ => "bad-op"

def main : IO Unit := runDriver step'
