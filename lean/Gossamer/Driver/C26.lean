import Gossamer.Base.Proto
import Gossamer.Model.C26
open Gossamer Gossamer.C26

/- line:  `L|op;op;…`  (see harness/C26/c26_test.go for the op list)
   output: the outputs of the ops joined by `;` -/

structure Def where
  id : Nat
  blk : C17.Blk
  slot : Nat

structure DSt where
  st : St
  /-- headers defined by the line (id 0 = genesis); model hash = id + 1 -/
  defs : List Def
  round : Nat

def maxID : Nat := 8

def defOf (d : DSt) (id : Nat) : Option Def := d.defs.find? (fun x => x.id = id)

def univ (d : DSt) : Univ :=
  { blk := fun h => match d.defs.find? (fun x => x.blk.hash = h) with
      | some x => x.blk
      | none => default
    slot := fun h => match d.defs.find? (fun x => x.blk.hash = h) with
      | some x => x.slot
      | none => 0 }

/-- block id of a model hash (hash = id + 1) -/
def idOfHash (h : Nat) : String := if h = 0 then "-1" else toString (h - 1)

def insertSorted (x : Nat) : List Nat → List Nat
  | [] => [x]
  | y :: ys => if x < y then x :: y :: ys else if x = y then y :: ys else y :: insertSorted x ys

def sortDedup (l : List Nat) : List Nat := l.foldl (fun acc x => insertSorted x acc) []

def showRes : Res → String
  | .gen => "gen"
  | .db d => toString d
  | .mem c => "/".intercalate ((sortDedup (c.map (·.2))).map toString)
  | .errEpoch => "err-epoch"
  | .errHash => "err-hash"
  | .errParent => "err-parent"
  | .timeout => "timeout"

def qe (d : DSt) (h : C17.Blk) (e : Nat) : String := showRes (getEpochDataRaw d.st e h)
def qc (d : DSt) (h : C17.Blk) (e : Nat) : String := showRes (getConfigData d.st h e)

def insertSortedS (x : String) : List String → List String
  | [] => [x]
  | y :: ys => if x < y then x :: y :: ys else y :: insertSortedS x ys

def sortS (l : List String) : List String := l.foldl (fun acc x => insertSortedS x acc) []

def dumpMap (m : EpochMap) : String :=
  let epochs := sortDedup (m.map (·.1))
  " ".intercalate (epochs.map fun e =>
    let ents := (lookup m e).getD []
    s!"{e}:" ++ ",".intercalate (sortS (ents.map fun p => s!"{idOfHash p.1}={p.2}")))

def dumpDB (m : List (Nat × Nat)) : String :=
  let epochs := sortDedup (m.map (·.1))
  " ".intercalate (epochs.map fun e => s!"{e}={(lookup m e).getD 0}")

def rangeName : C17.RangeRes → String
  | .ok _ => "ok"
  | .endNotFound => "end"
  | .startNotFound => "start"
  | .startGreater => "greater"
  | .nilBlock => "nil"
  | .notAncestor => "notanc"

def finName : C17.FinRes → String
  | .ok => "ok"
  | .errUnknown => "err-unknown"
  | .errSetID => "err-setid"
  | .errRange r => "err-range-" ++ rangeName r
  | .errMissing => "err-missing"
  | .errHeader => "err-header"

def triName : Tri → String
  | .ok => "ok"
  | .err => "err"
  | .amb => "amb"

def showOut : Out → String
  | .ok => "ok"
  | .err => "err"
  | .amb => "amb"
  | .res r => showRes r
  | .fin r e c => if r = .ok then s!"ok E={triName e} C={triName c}" else finName r

def stateOp (d : DSt) (o : Op) : DSt × String :=
  let (st', out) := step (univ d) d.st o
  ({ d with st := st' }, showOut out)

def define (d : DSt) (id p s : Nat) : Option (DSt × Def) :=
  match defOf d id with
  | some x => some (d, x)
  | none =>
    match defOf d p with
    | none => none
    | some px =>
      if id < 1 ∨ id > maxID then none
      else
        let x : Def := { id := id, slot := s,
                         blk := { hash := id + 1, parent := px.blk.hash, number := px.blk.number + 1, sroot := 0 } }
        some ({ d with defs := d.defs ++ [x] }, x)

def dataOK (x : Nat) : Bool := 1 ≤ x && x ≤ 65535

def opStep (d : DSt) (f : List String) : DSt × String :=
  match f with
  | [k, a, b, c] =>
    match a.toNat?, b.toNat?, c.toNat? with
    | some x, some y, some z =>
      if k = "add" ∨ k = "mk" then
        match define d x y z with
        | none => (d, "bad-op")
        | some (d', df) => if k = "mk" then (d', "ok") else stateOp d' (.add df.blk.hash)
      else if k = "sqe" ∨ k = "sqc" ∨ k = "upd" then
        match defOf d x with
        | none => (d, "bad-op")
        | some df =>
          stateOp d (if k = "sqe" then .skipE df.blk.hash y z
            else if k = "sqc" then .skipC df.blk.hash y z else .upd df.blk.hash y z)
      else (d, "bad-op")
    | _, _, _ => (d, "bad-op")
  | [k, a, b] =>
    match a.toNat?, b.toNat? with
    | some x, some y =>
      if k = "ann" ∨ k = "cfg" then
        match defOf d x with
        | some df =>
          if dataOK y then stateOp d (if k = "ann" then .ann df.blk.hash y else .cfg df.blk.hash y)
          else (d, "bad-op")
        | none => (d, "bad-op")
      else if k = "dbe" then (if dataOK y then stateOp d (.dbe x y) else (d, "bad-op"))
      else if k = "dbc" then (if dataOK y then stateOp d (.dbc x y) else (d, "bad-op"))
      else if k = "qe" ∨ k = "qc" then
        match defOf d x with
        | some df => (d, if k = "qe" then qe d df.blk y else qc d df.blk y)
        | none => (d, "bad-op")
      else (d, "bad-op")
    | _, _ => (d, "bad-op")
  | [k, a] =>
    match a.toNat? with
    | some x =>
      if k = "ep" then
        match defOf d x with
        | some df => (d, match epochForBlock (univ d) d.st df.blk with | some e => toString e | none => "err")
        | none => (d, "bad-op")
      else if k = "fin" then
        let h := match defOf d x with
          | some df => df.blk.hash
          | none => 1000 + x
        let d1 := { d with round := d.round + 1 }
        stateOp d1 (.fin h d1.round)
      else if k = "qall" then
        if x > 12 then (d, "bad-op")
        else
          let rows := (List.range (maxID + 1)).filterMap fun id =>
            match defOf d id with
            | none => none
            | some df =>
              let cells := (List.range (x + 1)).map fun e => qe d df.blk e ++ "," ++ qc d df.blk e
              some (s!"{id}=" ++ ".".intercalate cells)
          (d, " ".intercalate rows)
      else (d, "bad-op")
    | none => (d, "bad-op")
  | ["restart"] => stateOp d .restart
  | ["dump"] =>
    (d, "E[" ++ dumpMap d.st.nextEpoch ++ "] C[" ++ dumpMap d.st.nextConfig ++ "] DE[" ++ dumpDB d.st.dbEpoch
      ++ "] DC[" ++ dumpDB d.st.dbConfig ++ s!"] S={d.st.fsn}")
  | _ => (d, "bad-op")

def step' (line : String) : String :=
  match line.splitOn "|" with
  | [hd, body] =>
    match (match words hd with | [x] => x.toNat? | _ => none) with
    | some l =>
      if l < 1 ∨ l > 1000 then "bad-op"
      else
        let d0 : DSt := { st := St.init l, defs := [{ id := 0, blk := genesis, slot := 0 }], round := 0 }
        let (_, outs) := (body.splitOn ";").foldl (fun (acc : DSt × List String) o =>
          let f := words o
          if f.isEmpty then acc
          else
            let (d', out) := opStep acc.1 f
            (d', out :: acc.2)) (d0, [])
        ";".intercalate outs.reverse
    | none => "bad-op"
  | _ => "bad-op"

def main : IO Unit := runDriver step'
