import Gossamer.Base.Proto
import Gossamer.Model.C23
import Gossamer.Lib.C23Spec
open Gossamer Gossamer.C23

/- line:  `t=<p1,..,pn> a=<ann,..>|imp b;fin b;...`   (see harness/C23/c23_test.go)
   output per op (joined by `;`):
     `<res> id=<set id> au=<tag per set> ch=<change block per set, then -> ids=<set id per block number>
      nx=<blk:next change,..> # fc=<forced slice> sc=<scheduled tree>`
   The part before `#` is what the property speaks about (compared with the specification); the part after
   `#` is the stored order of the pending changes (ties the model to the code, no demand from the property). -/

def joinWith (sep : String) (xs : List String) : String := sep.intercalate xs

def parseNat? (s : String) : Option Nat := if s.isEmpty then none else s.toNat?

def parseParents (s : String) : Option (List Nat) :=
  if s = "-" then some [] else
  let rec go (i : Nat) : List String → Option (List Nat)
    | [] => some []
    | x :: xs => do
      let p ← parseNat? x
      if p > i then none
      let r ← go (i + 1) xs
      pure (p :: r)
  go 0 (s.splitOn ",")

def parseAnn (n : Nat) (s : String) : Option Ann := do
  let cs := s.toList
  let k := cs.findIdx (fun c => c = 's' || c = 'f')
  if k = 0 ∨ k ≥ cs.length then none
  let b ← parseNat? (String.ofList (cs.take k))
  let forced : Bool := cs[k]? == some 'f'
  let parts := (String.ofList (cs.drop (k + 1))).splitOn "."
  let nums ← parts.mapM parseNat?
  if b < 1 ∨ b > n then none
  match forced, nums with
  | false, [d, tg] => some { blk := b, forced := false, delay := d, tag := tg, best := 0 }
  | true, [d, tg, bf] => some { blk := b, forced := true, delay := d, tag := tg, best := bf }
  | _, _ => none

/-- header `t=.. a=.. [v=pub]`; `v=pub` (the run through dot/core `Service.handleBlock`, which cannot see the
    unexported pending structures) restricts the output to the public observables -/
def parseHeader (hd : String) : Option (Tree × Nat) := do
  let mut parents : List Nat := []
  let mut annS : Option String := none
  let mut pub := 0
  for f in words hd do
    if f.startsWith "t=" then
      parents ← parseParents (f.drop 2).toString
    else if f.startsWith "a=" then
      annS := some (f.drop 2).toString
    else if f = "v=pub" then
      pub := 1
    else if f = "v=burst" then
      pub := 2
    else none
  let anns ← match annS with
    | none => some []
    | some "-" => some []
    | some s => (s.splitOn ",").mapM (parseAnn parents.length)
  pure ({ parents := parents, anns := anns }, pub)

def parseOp (n : Nat) (s : String) : Option Op :=
  match words s with
  | ["imp", b] => match parseNat? b with
    | some b => if b ≥ 1 ∧ b ≤ n then some (.imp b) else none
    | none => none
  | ["fin", b] => match parseNat? b with
    | some b => if b ≥ 1 ∧ b ≤ n then some (.fin b) else none
    | none => none
  | _ => none

def maxNum (t : Tree) : Nat := ((List.range (t.parents.length + 1)).map (num t)).foldl max 0

def sortedBlocks (t : Tree) (p : Nat → Bool) : List Nat := (List.range (t.parents.length + 1)).filter p

def showOpt : Option Nat → String
  | some n => toString n
  | none => "err"

/-- the public observables of the model state -/
def pubModel (t : Tree) (s : St) : String :=
  let au := (List.range (s.setId + 1)).map (fun i => showOpt (lookup s.auths i))
  let ch := (List.range (s.setId + 2)).map (fun i => match lookup s.change i with | some n => toString n | none => "-")
  let ids := (List.range (maxNum t + 5)).map (fun k => showOpt (setIdAt s k))
  let nx := (sortedBlocks t (inBt t s)).map (fun b =>
    toString b ++ ":" ++ (match nextChange t s b with | none => "err" | some 0 => "-" | some n => toString n))
  s!"id={s.setId} au={joinWith "," au} ch={joinWith "," ch} ids={joinWith "," ids} nx={joinWith "," nx}"

/-- the same observables of the specification state -/
def pubSpec (t : Tree) (p : Spec) : String :=
  let au := p.auths.map toString
  let ch := p.starts.map toString ++ ["-"]
  let ids := (List.range (maxNum t + 5)).map (fun k => toString (p.setIdAt k))
  let nx := (sortedBlocks t (fun b => p.known.contains b && anc t p.fin b)).map (fun b =>
    toString b ++ ":" ++ (match p.nextChange t b with | 0 => "-" | n => toString n))
  s!"id={p.setId} au={joinWith "," au} ch={joinWith "," ch} ids={joinWith "," ids} nx={joinWith "," nx}"

def showForced (c : Ann) : String := s!"{c.blk}.{c.delay}.{c.tag}.{c.best}"

def showForest : List Node → List String
  | [] => []
  | .mk c kids :: rest =>
    (s!"{c.blk}.{c.delay}.{c.tag}" ++ "{" ++ joinWith "," (showForest kids) ++ "}") :: showForest rest

def privModel (s : St) : String :=
  s!"fc={joinWith "," (s.forced.map showForced)} sc={joinWith "," (showForest s.roots)}"

structure Run where
  s : St
  p : Spec
  /-- out of the specification's scope from here on (re-import of an accepted block, malformed header) -/
  oos : Bool
  /-- an import failed in digest handling / forced-change application (finding `failed-import-keeps-block`) -/
  failed : Bool

def runOps (t : Tree) (pub : Nat) : Run → List (Option Op) → List String × List String × Bool × Bool
  | _, [] => ([], [], false, false)
  | r, none :: ops =>
    let (ms, ss, clean, tainted) := runOps t pub r ops
    ("bad-op" :: ms, "bad-op" :: ss, clean, tainted)
  | r, some op :: ops =>
    let oos := r.oos || (match op with
      | .imp b => (inBt t r.s b && r.p.known.contains b) || malformed t b
      | .fin _ => false)
    let (s', res) := step t r.s op
    let (p', sres) := r.p.step t op
    let failed := r.failed || res = .eDigest .already || res = .eForced .pending
    let priv := if pub ≠ 0 then "" else " # " ++ privModel s'
    -- `v=burst` (the run through the real dot/digest finalisation handler): consecutive `fin` ops are one burst
    -- whose finalisations are queued before the handler runs; only `e-fin` is visible per finalisation and the
    -- state is read after the burst.  The handler must treat the burst as the finalisations one after the other.
    let isFin := match op with | .fin _ => true | .imp _ => false
    let nextFin := match ops with | some (.fin _) :: _ => true | _ => false
    let cls := fun (r : Res) => if pub = 2 && isFin then (if r = .eFin then "e-fin" else "fin") else r.str
    let m := if pub = 2 && isFin && nextFin then cls res else cls res ++ " " ++ pubModel t s' ++ priv
    let sp := if oos then m
      else if pub = 2 && isFin && nextFin then cls sres else cls sres ++ " " ++ pubSpec t p' ++ priv
    let (ms, ss, clean, tainted) := runOps t pub { s := s', p := p', oos := oos, failed := failed } ops
    (m :: ms, sp :: ss, clean || (sp != m && !failed), tainted || (sp != m && failed))

/-- `none` = the line is malformed; `some none` = an op the harness answers with `bad-op` -/
def parseOps (n : Nat) (opsS : String) : Option (List (Option Op)) :=
  if (words opsS).isEmpty then some []
  else (opsS.splitOn ";").mapM (fun o => if (words o).length = 2 then some (parseOp n o) else none)

def step (line : String) : String :=
  match line.splitOn "|" with
  | [hd, opsS] =>
    match parseHeader hd, (parseHeader hd).bind (fun t => parseOps t.1.parents.length opsS) with
    | some (t, pub), some ops =>
      if ops.isEmpty then "-" else
      let (ms, ss, clean, tainted) := runOps t pub { s := St.init, p := Spec.init, oos := false, failed := false } ops
      let m := joinWith ";" ms
      let sp := joinWith ";" ss
      if !clean && !tainted then m
      else if !clean then m ++ "\tspec=" ++ sp ++ "\tkf=failed-import-keeps-block"
      else m ++ "\tspec=" ++ sp
    | _, _ => "bad-op"
  | _ => "bad-op"

def main : IO Unit := runDriver step
