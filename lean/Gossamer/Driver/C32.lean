import Gossamer.Base.Proto
import Gossamer.Model.C32
open Gossamer Gossamer.C32

/- line (see harness/C32/c32_test.go):  `<blocks> <bad>|<op>;<op>;…`
   blocks `p:n,p:n,…` | `-`;  bad `i,j,…` | `-`
   op  `I <id>` | `P <res>/<res>/…` | `P`;  res `<peer><A|D|B><c|u>:<blk>,…`;  blk `<id>[h][b][j][f<hash>]`
   output per op: `ok` (I) or
   `<r> ev=… rep=… blk=… q=… inc=… dj=… fin=<n>` -/

def joinWith (sep : String) : List String → String
  | [] => ""
  | [x] => x
  | x :: xs => x ++ sep ++ joinWith sep xs

def joinOr (sep : String) (xs : List String) : String := if xs.isEmpty then "-" else joinWith sep xs

/-- the tree: entry i-1 describes block i as (parent hash id, number) -/
abbrev Tree := List (Nat × Nat)

def parseTree (s : String) : Option Tree :=
  if s = "-" then some []
  else
    let rec go (parts : List String) (i : Nat) : Option Tree :=
      match parts with
      | [] => some []
      | part :: rest =>
        match part.splitOn ":" with
        | [ps, ns] =>
          match ps.toNat?, ns.toNat? with
          | some p, some n =>
            if n > 1000000 ∨ (p ≥ i ∧ p < 900) ∨ p > 100000 ∨ i ≥ 900 then none
            else (go rest (i + 1)).map (fun t => (p, n) :: t)
          | _, _ => none
        | _ => none
    go (s.splitOn ",") 1

def parseNats (s : String) : Option (List Nat) :=
  if s = "-" ∨ s = "" then some []
  else (s.splitOn ",").mapM (fun p => p.toNat?.bind (fun v => if v > 100000 then none else some v))

def blockOf (t : Tree) (id : Nat) : Option BD :=
  if id = 0 then none
  else (t[id - 1]?).map (fun pn =>
    { id := id, stated := id, parent := pn.1, num := pn.2, hasHeader := true, hasBody := true, just := false })

def parseFlags (b : BD) : List Char → Option BD
  | [] => some b
  | 'h' :: rest => parseFlags { b with hasHeader := false } rest
  | 'b' :: rest => parseFlags { b with hasBody := false } rest
  | 'j' :: rest => parseFlags { b with just := true } rest
  | 'f' :: rest =>
    (String.ofList rest).toNat?.bind (fun h => if h > 100000 then none else some { b with stated := h })
  | _ => none

def parseBlk (t : Tree) (tok : String) : Option BD :=
  let cs := tok.toList
  let ds := cs.takeWhile Char.isDigit
  let rest := cs.dropWhile Char.isDigit
  match (String.ofList ds).toNat? with
  | some id => (blockOf t id).bind (fun b => parseFlags b rest)
  | none => none

def parseResult (t : Tree) (s : String) : Option Result :=
  match s.toList with
  | p :: k :: c :: ':' :: rest =>
    if p < 'a' ∨ p > 'd' then none
    else
      let kind? : Option Kind := if k = 'A' then some .asc else if k = 'D' then some .desc
        else if k = 'B' then some .body else none
      match kind? with
      | none => none
      | some kind =>
        if c = 'u' then some { peer := p.toNat - 97, kind := kind, completed := false, blocks := [] }
        else if c = 'c' then
          let body := String.ofList rest
          let blocks? : Option (List BD) :=
            if body = "" then some [] else (body.splitOn ",").mapM (parseBlk t)
          blocks?.map (fun bs => { peer := p.toNat - 97, kind := kind, completed := true, blocks := bs })
        else none
  | _ => none

def peerName (p : Nat) : String := String.ofList [Char.ofNat (97 + p)]

def showBD (b : BD) : String := if b.stated = b.id then s!"{b.id}" else s!"{b.id}~{b.stated}"

def showEv : Ev → Option String
  | .handed b _ => some s!"h{b.id}"
  | .exec b true => some s!"i{b.id}"
  | .exec _ false => none
  | .fin b => some s!"f{b.id}"

def showOutcome : Outcome → String
  | .ok => "ok"
  | .errParent => "err-parent"
  | .errFin => "err-fin"
  | .panic => "panic"

def showRep : Rep → String
  | .hdr => "hdr"
  | .bad => "bad"

def insertNat (x : Nat) : List Nat → List Nat
  | [] => [x]
  | y :: ys => if x ≤ y then x :: y :: ys else y :: insertNat x ys

def sortNats (xs : List Nat) : List Nat := xs.foldr insertNat []

def showP (o : POut) : String :=
  let ev := joinOr "," (o.events.filterMap showEv)
  let rep := joinOr "," (o.reps.map (fun pr => peerName pr.1 ++ ":" ++ showRep pr.2))
  let blk := joinOr "," (o.blocked.map peerName)
  let q := joinOr "," (o.queued.map toString)
  let inc := joinOr "," ((sortNats (o.st.incomplete.map (·.id))).map toString)
  let dj := joinOr "/" (o.st.disjoint.map (fun f => joinWith "." (f.map showBD)))
  s!"{showOutcome o.outcome} ev={ev} rep={rep} blk={blk} q={q} inc={inc} dj={dj} fin={o.st.fin}"

def runOps (t : Tree) (bad : List Nat) : St → List String → List String
  | _, [] => []
  | st, op :: rest =>
    if op.startsWith "I " then
      match (op.drop 2).toString.toNat? with
      | some id =>
        match blockOf t id with
        | some b => "ok" :: runOps t bad (newIncomplete st b) rest
        | none => "bad-op" :: runOps t bad st rest
      | none => "bad-op" :: runOps t bad st rest
    else if op = "P" ∨ op.startsWith "P " then
      let arg := (op.drop 2).toString
      let results? : Option (List Result) :=
        if arg = "" then some [] else (arg.splitOn "/").mapM (parseResult t)
      match results? with
      | some results =>
        if results.length > 12 then "bad-op" :: runOps t bad st rest
        else
          let o := process bad st results
          showP o :: runOps t bad o.st rest
      | none => "bad-op" :: runOps t bad st rest
    else "bad-op" :: runOps t bad st rest

def step (line : String) : String :=
  if line = "const" then "max=128 boot=19 hdr=1 body=2 just=16"
  else
    match line.splitOn "|" with
    | [hdr, ops] =>
      match hdr.splitOn " " with
      | [ts, bs] =>
        match parseTree ts, parseNats bs with
        | some t, some bad => joinWith ";" (runOps t bad {} (ops.splitOn ";"))
        | _, _ => "bad-op"
      | _ => "bad-op"
    | _ => "bad-op"

def main : IO Unit := runDriver step
