import Gossamer.Base.Proto
import Gossamer.Lib.ScaleText
import Gossamer.Model.C12
import Gossamer.Lib.ScaleMap
open Gossamer Gossamer.Scale Gossamer.ScaleText

/- line:   e <type> <value> <suffix-hex>      output: <hex> | <decode outcome> [eq=..]
           order <type>                       output: [i,j,..]
   The spec column is the canonical codec (`Spec.codec`); known findings: `opt-vdt`. -/

def showDecode (t : Ty) (orig : Option Val) (data : Bytes) (o : C12.DRes) : String :=
  let big := if o.req > data.length + 1024 then " big" else ""
  match o.res with
  | none => "err" ++ big
  | some (v, r) =>
    if o.req > data.length + 65536 then "ok-huge" ++ big
    else
      let eq := match orig with
        | some w => s!" eq={v == w}"
        | none => ""
      s!"ok {hex (encode Spec.codec t v)} {data.length - r.length}{big}{eq}"

def specDecode (t : Ty) (orig : Option Val) (data : Bytes) : String :=
  match decode Spec.codec t data with
  | none => "err"
  | some (v, r) =>
    let eq := match orig with
      | some w => s!" eq={v == w}"
      | none => ""
    s!"ok {hex (encode Spec.codec t v)} {data.length - r.length}{eq}"

/-- one type of an `xpkg` case: Marshal, then Unmarshal of the bytes.  A function of the type and the
    value alone (the model has no cache: the field order is `fieldOrder` of the type's own tags). -/
def xpkgOne (tys vs : String) : String :=
  match parseTy tys with
  | none => "bad-op"
  | some g =>
    match parseVal g vs with
    | none => "bad-op"
    | some v =>
      let t := g.toTy
      match C11.marshalGo t v with
      | none => "panic"
      | some enc =>
        match (C12.decodeA t enc).res with
        | none => s!"{hex enc}|err"
        | some (w, _) => s!"{hex enc}|ok:{hex (encode Spec.codec t w)}"

def step (line : String) : String :=
  match words line with
  | ["e", tys, vs, sfx] =>
    match parseTy tys with
    | none => "bad-op"
    | some g =>
      match parseVal g vs, ofHex? sfx with
      | some v, some suffix =>
        let t := g.toTy
        let specEnc := encode Spec.codec t v
        let spec := s!"{hex specEnc} | {specDecode t (some v) (specEnc ++ suffix)}"
        match C11.marshalGo t v with
        | none => s!"panic\tspec={spec}\tkf=opt-vdt"
        | some enc =>
          let data := enc ++ suffix
          -- when Marshal's bytes are not the canonical ones the harness also decodes the canonical ones
          let canon := if enc = specEnc then ""
            else
              let cd := specEnc ++ suffix
              s!" canon={hex specEnc} -> {showDecode t none cd (C12.decodeA t cd)}"
          let model := s!"{hex enc} | {showDecode t (some v) data (C12.decodeA t data)}{canon}"
          if model = spec then model
          else
            let kf := if enc ≠ specEnc then "opt-vdt" else if C12.hasMidUint t v then "uint-5to7" else "none"
            s!"{model}\tspec={spec}\tkf={kf}"
      | _, _ => "bad-op"
  | ["xpkg", _, _, da, va, db, vb] => s!"a={xpkgOne da va} b={xpkgOne db vb} c={xpkgOne da va}"
  | ["menc", kts, vts, vals] => ScaleMap.stepEnc kts vts vals
  | ["mrt", kts, vts, vals] => ScaleMap.stepRt kts vts vals
  | ["order", tys] =>
    match parseTy tys with
    | some (.st fs) => "[" ++ ",".intercalate ((C11.fieldOrder (fs.map (·.2))).map toString) ++ "]"
    | _ => "bad-op"
  | _ => "bad-op"

def main : IO Unit := runDriver step
