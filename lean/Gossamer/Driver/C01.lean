import Gossamer.Base.Proto
import Gossamer.Lib.Blake2b
import Gossamer.Model.C01
open Gossamer Gossamer.C02 Gossamer.C01

/- line:   `ver|op;op;…`  (mutating ops of C02: put k v | del k | clr p | clrl p n)
   output: root hash after every op, `;`-joined, then `;R=<Root(sorted entries)>,<Root(reversed)>`
   for the final entry list.  Model = hash of the model trie, spec = `specRoot` of the ordered map. -/
def lastD {α : Type} (d : α) : List α → α
  | [] => d
  | [a] => a
  | _ :: r => lastD d r

def step (line : String) : String :=
  match parseLine line with
  | none => "bad-op"
  | some (v, ops) =>
    let ver := verOf v
    let H := Blake2b.hash256
    let tm := statesModel Trie.nil ops
    let ts := statesSpec [] ops
    let finalM := (Trie.entries (lastD Trie.nil tm)).map (fun e => (e.1, e.2.getD []))
    let finalM := finalM.mergeSort (fun a b => !(klt b.1 a.1))
    let finalS := lastD [] ts
    let m := joinWith ";" (tm.map (fun t => toHex (hashTrie ver H t)))
      ++ ";R=" ++ toHex (layoutRoot ver H finalM) ++ "," ++ toHex (layoutRoot ver H finalM.reverse)
    let sR := toHex (specRoot ver H finalS)
    let s := joinWith ";" (ts.map (fun es => toHex (specRoot ver H es))) ++ ";R=" ++ sR ++ "," ++ sR
    if m == s then m
    else
      let tag := firstTag Trie.nil [] ops
      m ++ "\tspec=" ++ s ++ (if tag.isEmpty then "" else "\tkf=" ++ tag)

def main : IO Unit := runDriver step
