import Gossamer.Base.Proto
import Gossamer.Model.C16
import Gossamer.Lib.BlockTreeCase
open Gossamer Gossamer.BlockTree Gossamer.BlockTreeCase Gossamer.C16

/- line format of C15; output per op: best block (and GetHashByNumber along the best chain for `q`).
   The model is evaluated under two different iteration orders of the leaf map; they must agree. -/

def bestStr (e : Env) : String :=
  let a := bestHashWith e.bt e.bt.leaves id
  let b := bestHashWith e.bt e.bt.leaves.reverse List.reverse
  if a ≠ b then "order-dependent" else
  match a with
  | some h => e.name h
  | none => "panic"

def numRange (e : Env) : Nat × Nat :=
  let ns := e.defs.toList.map (·.number)
  let lo := ns.foldl min (e.defs[0]!.number)
  let hi := ns.foldl max (e.defs[0]!.number)
  (lo - 1, hi + 1)

def stepOp (e : Env) (op : String) : Option (Env × String) := do
  let (c, rest) ← opParts op
  if c = 'q' then
    let _ ← parseIds rest e.defs.size
    let (lo, hi) := numRange e
    let nums := (List.range (hi + 1 - lo)).map (· + lo)
    let secH := "H" ++ ",".intercalate (nums.map (fun n => match e.bt.getHashByNumber n with
      | .ok h => e.name h | .greaterThanHighest => "eH" | .lowerThanRoot => "eL" | .notFound => "eF" | .panic => "panic"))
    let leafIdx := sortNat (e.bt.leaves.filterMap (fun l => e.defs.findIdx? (fun d => d.hash = l.hash)))
    let secP := "P" ++ ".".intercalate (leafIdx.map (fun i =>
      s!"{i}:{primaryCount e.bt.root (e.defs[i]!.hash)}"))
    pure (e, secH ++ " " ++ secP ++ " b" ++ bestStr e)
  else
    let i ← rest.toNat?
    if i ≥ e.defs.size then none
    if c = 'a' then
      if i = 0 then none
      let d := e.defs[i]!
      match e.bt.addBlock (e.header i) d.arr with
      | .ok bt' => let e' := { e with bt := bt' }; pure (e', "ok b" ++ bestStr e')
      | .error err =>
        let code := match err with
          | .parentNotFound => "eP" | .blockExists => "eX" | .unexpectedNumber => "eN" | .primary => "eD"
        pure (e, code ++ " b" ++ bestStr e)
    else if c = 'f' then
      let e' := { e with bt := (e.bt.prune (e.defs[i]!.hash)).1 }
      pure (e', "b" ++ bestStr e')
    else none

def runOps (e : Env) : List String → List String → Option (List String)
  | [], acc => some acc.reverse
  | op :: ops, acc => match stepOp e op with
    | some (e', out) => runOps e' ops (out :: acc)
    | none => none

def step (line : String) : String :=
  match line.splitOn "|" with
  | [ds, os] =>
    match parseDefs ds with
    | some defs =>
      if defs.size = 0 then "bad-op" else
      let ops := if os = "" then [] else os.splitOn ";"
      match runOps (initEnv defs) ops [] with
      | some outs => ";".intercalate outs
      | none => "bad-op"
    | none => "bad-op"
  | _ => "bad-op"

def main : IO Unit := runDriver step
