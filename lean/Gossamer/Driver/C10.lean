import Gossamer.Base.Proto
import Gossamer.Lib.Blake2b
import Gossamer.Model.C10
open Gossamer Gossamer.C10

/- line:   `<fn> <version> <data>`   fn = root1 | root2 | oroot1 | oroot2
   output: `ok <root>` | `fail` (the model: the Go decoder and the Go trie), then, when the
   specification (strict decoding, spec root of the last-wins map) gives something else,
   TAB `spec=…` and TAB `kf=bytes-short-read` if the Go decoder zero-filled a byte string. -/
def step (line : String) : String :=
  match parseLine line with
  | none => "bad-op"
  | some (f, v, d) =>
    let H := Blake2b.hash256
    let m := showOut (runModel H f v d)
    let s := showOut (runSpec H f v d)
    if m == s then m
    else m ++ "\tspec=" ++ s ++ (if shortRead f d then "\tkf=bytes-short-read" else "")

def main : IO Unit := runDriver step
