import Gossamer.Base.Proto
import Gossamer.Base.Dec
import Gossamer.Model.C21
open Gossamer Gossamer.C21

/- line (see harness/C21/c21_test.go):
     n=<voters> me=<key> base=<root number> tree=<p1,p2,..|-> fin=<blk> chg=<-|e|num> R=<round> S=<set>|<op>;<op>;...
     thr <n>
   output: <class>;...|pv=.. pc=.. pve=.. pce=.. trk=N|tot=../..|pvb={..} dpc={..} bfc={..} dpv={..} fin={..}
           [TAB spec=<what the property demands> TAB kf=c21-wrong-number-vote-counted | c21-direct-vote-shadows-ghost]
   `wn` / `byz` stand for outcome sets that are not compared (see harness). -/

/-- canonical decimal (what Go's strconv.Itoa prints) -/
def canonNat? (cs : List Char) : Option Nat :=
  match parseDec? cs with
  | some n => if decChars n = cs then some n else none
  | none => none

def splitOnChar (c : Char) (cs : List Char) : List (List Char) :=
  (cs.foldr (fun x (acc : List Char × List (List Char)) =>
      if x = c then ([], acc.1 :: acc.2) else (x :: acc.1, acc.2)) ([], [])) |> fun p => p.1 :: p.2

/-- `b<k>:<num>` -/
def parseVote? (cs : List Char) : Option (Nat × Nat) :=
  match cs with
  | 'b' :: rest =>
    match splitOnChar ':' rest with
    | [a, b] => do
      let k ← canonNat? a
      let m ← canonNat? b
      if k < 1000 ∧ m < 1000000 then some (k, m) else none
    | _ => none
  | _ => none

/-- `v<i>` / `x<j>` -/
def parseKey? (cs : List Char) : Option Nat :=
  match cs with
  | 'v' :: rest => do let v ← canonNat? rest; if v ≤ 99 then some v else none
  | 'x' :: rest => do let v ← canonNat? rest; if v ≤ 99 then some (100 + v) else none
  | _ => none

def parseStage? (s : List Char) : Option Nat :=
  match s with
  | ['p', 'v'] => some 0
  | ['p', 'c'] => some 1
  | ['p', 'p'] => some 2
  | ['x', '3'] => some 3
  | _ => none

/-- the signature oracle: does the descriptor denote the key's honest signature over exactly the message (whose round
and set id are known when the message is delivered)? -/
def parseSig? (stage key blk num : Nat) (cs : List Char) : Option (Nat → Nat → Bool) :=
  match cs with
  | ['o', 'k'] => some fun _ _ => true
  | ['z'] => some fun _ _ => false
  | 'b' :: 'a' :: 'd' :: rest => do
    let t ← canonNat? rest
    if t < 8 then some fun _ _ => false else none
  | 's' :: 't' :: rest => do let q ← parseStage? rest; some fun _ _ => q == stage
  | 'r' :: rest => do let q ← canonNat? rest; some fun mround _ => q == mround
  | 's' :: rest => do let q ← canonNat? rest; some fun _ mset => q == mset
  | 'k' :: rest => do let k ← parseKey? rest; some fun _ _ => k == key
  | 'o' :: rest => do let (b, m) ← parseVote? rest; some fun _ _ => b == blk && m == num
  | _ => none

/-- an op as written on the line: `=` (the Service's current round / set id) is resolved when the op runs -/
inductive POp where
  | msg (stage key blk num : Nat) (sig : Nat → Nat → Bool) (mr ms : Option Nat)
  | own (stage blk : Nat)
  | init (i : Init)

structure Hdr where
  n : Option Nat := none
  me : Option Nat := none
  base : Option Nat := none
  tree : Option Tree := none
  fin : Option Nat := none
  chg : Option Chg := none
  R : Option Nat := none
  S : Option Nat := none

def parseTree? (cs : List Char) : Option Tree :=
  if cs = ['-'] then some ⟨[0]⟩
  else do
    let ps ← (splitOnChar ',' cs).mapM canonNat?
    let t : Tree := ⟨0 :: ps⟩
    if t.wf ∧ ps.length ≤ 15 then some t else none

def parseChg? (cs : List Char) : Option Chg :=
  match cs with
  | ['-'] => some .none
  | ['e'] => some .fail
  | _ => do let h ← canonNat? cs; if h ≤ 2000 then some (.at h) else none

def setOnce {α : Type} (cur : Option α) (v : Option α) : Option (Option α) :=
  if cur.isSome then none else v.map some

def hdrTok (h : Hdr) (tok : String) : Option Hdr :=
  match splitOnChar '=' tok.toList with
  | k :: v :: more =>
    let v := v ++ (more.map (fun m => '=' :: m)).flatten
    let num := canonNat? v
    match String.ofList k with
    | "n" => (setOnce h.n (num.filter (fun x => 1 ≤ x ∧ x ≤ 16))).map fun x => { h with n := x }
    | "me" => (setOnce h.me ((parseKey? v).filter (fun x => x < 16 ∨ (100 ≤ x ∧ x < 104)))).map
        fun x => { h with me := x }
    | "base" => (setOnce h.base (num.filter (· ≤ 1000))).map fun x => { h with base := x }
    | "tree" => (setOnce h.tree (parseTree? v)).map fun x => { h with tree := x }
    | "fin" => (setOnce h.fin num).map fun x => { h with fin := x }
    | "chg" => (setOnce h.chg (parseChg? v)).map fun x => { h with chg := x }
    | "R" => (setOnce h.R (num.filter (· ≤ 1000))).map fun x => { h with R := x }
    | "S" => (setOnce h.S (num.filter (· ≤ 1000))).map fun x => { h with S := x }
    | _ => none
  | _ => none

def parseRS? (s : String) : Option (Option Nat) :=
  if s = "=" then some none else ((canonNat? s.toList).filter (· ≤ 1000)).map some

def authKey? (cs : List Char) : Option Nat :=
  (parseKey? cs).filter (fun x => x < 16 ∨ (100 ≤ x ∧ x < 104))

def parseOp? (c : Cfg) (s : String) : Option POp :=
  match words s with
  | ["m", st, id, v, sig, mr, ms] => do
    let stage ← parseStage? st.toList
    let key ← parseKey? id.toList
    let (blk, num) ← parseVote? v.toList
    let mround ← parseRS? mr
    let mset ← parseRS? ms
    let ok ← parseSig? stage key blk num sig.toList
    some (.msg stage key blk num ok mround mset)
  | ["own", st, b] => do
    let stage ← parseStage? st.toList
    let (blk, _) ← parseVote? (b.toList ++ [':', '0'])
    if stage ≤ 1 then some (.own stage blk) else none
  | ["init", cur, auths, hr, hs, h] => do
    let cur ← (canonNat? cur.toList).filter (· ≤ 1000)
    let as ← (splitOnChar ',' auths.toList).mapM authKey?
    let hr ← (canonNat? hr.toList).filter (· ≤ 1000)
    let hs ← (canonNat? hs.toList).filter (· ≤ 1000)
    let (blk, _) ← parseVote? (h.toList ++ [':', '0'])
    if 1 ≤ as.length ∧ as.length ≤ 16 ∧ blk < c.t.size then some (.init ⟨cur, as, hr, hs, blk⟩) else none
  | _ => none

def parseCase? (line : String) : Option (Cfg × List POp) :=
  match splitOnChar '|' line.toList with
  | hd :: b :: more => do
    let body := String.ofList (b ++ (more.map (fun m => '|' :: m)).flatten)
    let h ← (words (String.ofList hd)).foldlM hdrTok ({} : Hdr)
    let n ← h.n; let me ← h.me; let base ← h.base; let tree ← h.tree; let fin ← h.fin
    let chg ← h.chg; let R ← h.R; let S ← h.S
    let _ ← if fin ≥ tree.size then none else some ()
    let c : Cfg := ⟨List.range n, me, base, tree, fin, chg, R, S, false⟩
    let ops ← if (words body).isEmpty then some [] else (body.splitOn ";").mapM (parseOp? c)
    some (c, ops)
  | _ => none

def showErr : Err → String
  | .sig => "err-sig" | .set => "err-set" | .oob => "err-oob" | .lag => "err-lag" | .ahead => "err-ahead"
  | .voter => "err-voter" | .self => "err-self" | .noblock => "err-noblock" | .num => "err-num"
  | .notdesc => "err-notdesc" | .equiv => "err-equiv" | .noghost => "err-noghost" | .before => "err-before"
  | .chg => "err-chg" | .node => "err-node" | .hdr => "err-hdr"

def insSorted (s : String) : List String → List String
  | [] => [s]
  | x :: xs => if s < x then s :: x :: xs else if s = x then x :: xs else x :: insSorted s xs

/-- sorted, duplicate-free, `{a,b}` -/
def showSet (l : List String) : String :=
  "{" ++ ",".intercalate (l.foldl (fun acc s => insSorted s acc) []) ++ "}"

def keyName (k : Nat) : String :=
  if k < 16 then s!"v{k}" else if 100 ≤ k ∧ k < 104 then s!"x{k - 100}" else "?"

def blkName (c : Cfg) (b : Nat) : String := if b < c.t.size then s!"b{b}" else "?"

def showVote (c : Cfg) (v : Vote) : String := s!"{blkName c v.blk}:{v.num}"

def showEV (c : Cfg) : Except Err Vote → String
  | .ok v => showVote c v
  | .error e => showErr e

def showState (c : Cfg) (s : St) : String :=
  let dump (l : List (Nat × Vote)) := showSet (l.map fun kv => s!"{keyName kv.1}:{showVote c kv.2}")
  let dumpEq (l : List (Nat × Nat)) := showSet (l.map fun kv => s!"{keyName kv.1}:{kv.2}")
  s!"pv={dump s.pv} pc={dump s.pc} pve={dumpEq s.pve} pce={dumpEq s.pce} trk={s.trk.length}"

def showTotals (c : Cfg) (s : St) : String :=
  let bs := List.range c.t.size
  let f (g : Nat → Nat) := ",".intercalate (bs.map fun b => toString (g b))
  s!"tot={f (pvTotal c s)}/{f (pcTotal c s)}"

/-! concrete iteration orders, used to cross-check the closed form against the faithful model -/

def rot {α : Type} (k : Nat) (l : List α) : List α := l.rotateLeft (if l.length = 0 then 0 else k % l.length)

def ordId : Ord := fun _ => Perms.id
def ordRev : Ord := fun _ => ⟨List.reverse, List.reverse, List.reverse⟩
def ordRot (k : Nat) : Ord := fun p =>
  let j := k + p.foldl (fun a x => 3 * a + x + 1) 0
  ⟨rot j, rot (j / 2 + 1), rot (j / 3 + 2)⟩

def testOrds : List Ord := [ordId, ordRev, ordRot 1, ordRot 2, ordRot 5, ordRot 11]

def finStr (c : Cfg) (b : Nat) : String :=
  s!"yes:{blkName c b}:{c.round}:{c.set}:head={blkName c b}"

/-- the four order-dependent queries: the sets of possible outcomes by the closed form -/
structure Sets where
  pvb : List String
  dpc : List String
  bfc : List String
  fin : List String

def querySets (c : Cfg) (s : St) (ps : List Nat) : Sets :=
  if ps.isEmpty then ⟨["err-noghost"], ["err-noghost"], ["err-noghost"], ["err-noghost"]⟩
  else
    let pvb := ps.map fun p => showVote c (c.voteOf p)
    let dpc := ps.map fun p => showEV c (capVote c (c.voteOf p))
    let bfc := ps.map fun p => showVote c (c.voteOf (bfcOf c s p))
    let fin := ps.flatMap fun p1 =>
      let b1 := bfcOf c s p1
      if c.number b1 < c.headNum then ["err-before"]
      else if pcTotal c s b1 ≤ thr c.n then ["no"]
      else ps.map fun p2 => finStr c (bfcOf c s p2)
    ⟨pvb, dpc, bfc, fin⟩

/-- the faithful model under a few concrete orders must stay inside the closed-form sets -/
def crossCheck (c : Cfg) (s : St) (q : Sets) (byz : Bool) : Bool :=
  testOrds.all fun o =>
    q.pvb.contains (showEV c (getPreVotedBlock c o s)) &&
    q.dpc.contains (showEV c (determinePreCommit c o s)) &&
    (byz || q.bfc.contains (showEV c (getBestFinalCandidate c o s))) &&
    (byz || q.fin.contains (match attemptToFinalize c o s with
      | .ok .no => "no" | .ok (.yes b) => finStr c b | .error e => showErr e))

/-- a stored vote whose number is not the number of its block: reachable because `validateVote` does not compare
them (known finding c21-wrong-number-vote-counted); the order-dependent queries are not compared there -/
def wrongNum (c : Cfg) (l : List (Nat × Vote)) : Bool :=
  l.any fun kv => kv.2.num != c.number kv.2.blk

def showQueries (c : Cfg) (s : St) (q : Sets) (byz : Bool) : String :=
  let wv := wrongNum c s.pv
  let wc := wv || wrongNum c s.pc
  let dpv := showSet [showEV c (determinePreVote c s)]
  let pvb := if wv then "wn" else showSet q.pvb
  let dpc := if wv then "wn" else showSet q.dpc
  let bfc := if wc then "wn" else if byz then "byz" else showSet q.bfc
  let fin := if wc then "wn" else if byz then "byz" else showSet q.fin
  s!"pvb={pvb} dpc={dpc} bfc={bfc} dpv={dpv} fin={fin}"

/-- the stored votes name known blocks on the chain of the finalised head (Props: `C21_reachable_good`) -/
def goodVotes (c : Cfg) (l : List (Nat × Vote)) : Bool :=
  l.all fun kv => decide (kv.2.blk < c.t.size) && c.t.le c.fin kv.2.blk

/-- run the ops of a line: the configuration changes with `init` -/
def runOps (c0 : Cfg) (ops : List POp) : Cfg × St × List String :=
  ops.foldl (fun (acc : Cfg × St × List String) op =>
    let c := acc.1
    let s := acc.2.1
    match op with
    | .msg stage key blk num sig mr ms =>
      let mround := mr.getD c.round
      let mset := ms.getD c.set
      let r := validateVoteMessage c s ⟨stage, key, blk, num, sig mround mset, mround, mset⟩
      (c, r.2, acc.2.2 ++ [match r.1 with | some e => showErr e | none => "ok"])
    | .own stage b =>
      let r := stepAll (c, s) (.own stage b)
      (r.1, r.2, acc.2.2 ++ [if b < c.t.size ∧ c.t.le c.fin b then "ok" else "skip"])
    | .init i =>
      let r := initiateRound c s i
      let vs := ",".intercalate (r.1.voters.map keyName)
      (r.1, r.2, acc.2.2 ++ [s!"init:{r.1.set}:{r.1.round}:{blkName r.1 r.1.fin}:{vs}"])) (c0, ({} : St), [])

/-- output of one case; `ghost`: the pre-voted block is the GRANDPA-GHOST of the specification -/
def render (c0 : Cfg) (ops : List POp) (ghost : Bool) : String :=
  let (c, s, res) := runOps c0 ops
  if !(goodVotes c s.pv && goodVotes c s.pc) then "NOT-GOOD"
  else
    let byz := decide (c.n < 3 * s.pce.length)
    let wn := wrongNum c s.pv || wrongNum c s.pc
    let pre := s!"{";".intercalate res}|{showState c s}|{showTotals c s}|"
    let q := querySets c s (pvbSet c s)
    if !wn && !crossCheck c s q byz then s!"MODEL-MISMATCH {pre}{showQueries c s q byz}"
    else
      -- the property: with a supermajority block and at most one third equivocators the pre-voted block is
      -- the GRANDPA-GHOST, the highest block with more than two thirds of the prevotes
      let e := s.pve.length
      let gs := ghostSet c s.pv e (thr c.n)
      if ghost ∧ 3 * e ≤ c.n ∧ !gs.isEmpty then
        let qs := querySets c s gs
        pre ++ showQueries c s { q with pvb := qs.pvb, dpc := qs.dpc } byz
      else pre ++ showQueries c s q byz

def stepLine (line : String) : String :=
  match words line with
  | ["thr", d] => match canonNat? d.toList with
    | some n => if n ≤ 100000 then toString (thr n) else "bad-op"
    | none => "bad-op"
  | _ =>
    match parseCase? line with
    | none => "bad-op"
    | some (c, ops) =>
      let model := render c ops false
      let strictModel := render { c with strict := true } ops false
      let spec := render { c with strict := true } ops true
      if spec = model then model
      else if strictModel ≠ model then s!"{model}\tspec={spec}\tkf=c21-wrong-number-vote-counted"
      else s!"{model}\tspec={spec}\tkf=c21-direct-vote-shadows-ghost"

def main : IO Unit := runDriver stepLine
