import Gossamer.Base.Proto
import Gossamer.Model.C19
open Gossamer Gossamer.C19

/- line (one case; the precommits are the `;`-separated ops so that the shrinker can drop them):

   vc   w=<32|64> hp=<n> ip=<n> v=<id:weight,...|-> t=<parent,...|-> c=<blk>:<num>|<blk> <num> <id> <sig>;...
   just w=<32|64> r=<round> s=<set> off=<n> v=<auth:weight,...|-> t=<parent,...> h=<blk,...|-> c=<blk>:<num> ft=<blk>:<num>|<blk> <num> <auth> <kind>;...

   output vc  : `novoters` | `vs=<total>/<threshold>[id:w,...] valid=<bool> n=<n> dup=<n> eq=<n> inv=<n>`
   output just: `<DecodeGrandpaJustificationVerifyFinalizes>/<Verify>` each one of
                ok err-target err-commit err-sig err-ancestry err-unused novoters err-auth
   vcl  like vc, with precommit numbers that disagree with the tree; output `returns` (no panic, no hang)
   `hp`, `ip`, `r`, `s`, `off` only steer how the harness materialises hashes, ids, signatures, headers. -/

def kvs (ws : List String) : List (String × String) :=
  ws.filterMap (fun w => match w.splitOn "=" with
    | [k, v] => some (k, v)
    | _ => none)

def field (kv : List (String × String)) (k : String) : Option String :=
  (kv.find? (·.1 == k)).map (·.2)

def natList? (s : String) : Option (List Nat) :=
  if s == "-" then some [] else (s.splitOn ",").mapM (·.toNat?)

def pair? (s : String) : Option (Nat × Nat) :=
  match s.splitOn ":" with
  | [a, b] => do pure (← a.toNat?, ← b.toNat?)
  | _ => none

def pairList? (s : String) : Option (List (Nat × Nat)) :=
  if s == "-" then some [] else (s.splitOn ",").mapM pair?

def kind? (s : String) : Option Nat :=
  match s with
  | "ok" => some 0 | "wr" => some 1 | "ws" => some 2 | "wk" => some 3 | "wn" => some 4
  | "bad" => some 5 | _ => none

def pre? (isJust : Bool) (w : Nat) (s : String) : Option Pre :=
  match words s with
  | [b, n, i, g] => do
    let sg ← if isJust then kind? g else g.toNat?
    pure ⟨← b.toNat?, (← n.toNat?) % 2 ^ w, ← i.toNat?, sg, !isJust || sg == 0⟩
  | _ => none

def pres? (isJust : Bool) (w : Nat) (body : String) : Option (List Pre) :=
  if body.trimAscii.toString == "" then some []
  else (body.splitOn ";").mapM (pre? isJust w)

def showVS (vs : VoterSet) : String :=
  s!"vs={vs.total}/{vs.threshold}[" ++ ",".intercalate (vs.voters.map fun iw => s!"{iw.1}:{iw.2}") ++ "]"

def showVC (r : VCRes) : String :=
  s!"valid={r.valid} n={r.nPre} dup={r.nDup} eq={r.nEq} inv={r.nInv}"

def showJ : JRes → String
  | .ok => "ok" | .errTarget => "err-target" | .errCommit => "err-commit" | .errSig => "err-sig"
  | .errAncestry => "err-ancestry" | .errUnused => "err-unused"

/-- model = the resolution of ambiguous GHOST steps most favourable to the target, spec = the least
    favourable one (= the GHOST is unambiguously the target); they differ only in the known-finding
    region `ghost-ambiguous`. -/
def bracket (m s : String) : String :=
  if m == s then m else m ++ "\tspec=" ++ s ++ "\tkf=ghost-ambiguous"

def stepVC (kv : List (String × String)) (body : String) : Option String := do
  let w ← (← field kv "w").toNat?
  let ws ← pairList? (← field kv "v")
  let par ← natList? (← field kv "t")
  let (tb, tn) ← pair? (← field kv "c")
  let pcs ← pres? false w body
  match newVoterSet ws with
  | none => pure "novoters"
  | some vs =>
    let c : Chain := ⟨par, List.range par.length⟩
    if !consistent w vs c pcs then pure "unmodelled" else
    let tn := tn % 2 ^ w
    let m := validateCommit (pickToward c tb) w vs c tb tn pcs
    let s := validateCommit (pickAway c tb) w vs c tb tn pcs
    pure (bracket (showVS vs ++ " " ++ showVC m) (showVS vs ++ " " ++ showVC s))

def stepJust (kv : List (String × String)) (body : String) : Option String := do
  let w ← (← field kv "w").toNat?
  let ws ← pairList? (← field kv "v")
  let par ← natList? (← field kv "t")
  let has ← natList? (← field kv "h")
  let (tb, tn) ← pair? (← field kv "c")
  let (fb, fn) ← pair? (← field kv "ft")
  let pcs ← pres? true w body
  match newVoterSet ws with
  | none => pure "novoters/err-auth"
  | some vs =>
    let c : Chain := ⟨par, has⟩
    if !consistent w vs c pcs then pure "unmodelled" else
    let tn := tn % 2 ^ w
    let fn := fn % 2 ^ w
    let out := fun (pick : List Nat → Nat) =>
      showJ (verifyFinalizes pick w vs c tb tn fb fn pcs) ++ "/" ++
      showJ (verifyWithVoterSet pick w vs c tb tn pcs)
    pure (bracket (out (pickToward c tb)) (out (pickAway c tb)))

def step (line : String) : String :=
  let (hdr, body) := match line.splitOn "|" with
    | [h] => (h, "")
    | h :: rest => (h, "|".intercalate rest)
    | [] => ("", "")
  match words hdr with
  | "vc" :: rest => (stepVC (kvs rest) body).getD "bad-op"
  -- numbers that disagree with the tree: outside the model; the only claim is that the call returns
  | "vcl" :: rest => if (stepVC (kvs rest) body).isSome then "returns" else "bad-op"
  | "just" :: rest => (stepJust (kvs rest) body).getD "bad-op"
  | _ => "bad-op"

def main : IO Unit := runDriver step
