import Gossamer.Base.Proto
import Gossamer.Model.C19
open Gossamer Gossamer.C19

/- line (one case; the precommits are the `;`-separated ops so that the shrinker can drop them):

   vc   w=<32|64> hp=<n> ip=<n> v=<id:weight,...|-> t=<parent,...|-> c=<blk>:<num>|<blk> <num> <id> <sig>;...
   just w=<32|64> r=<round> s=<set> off=<n> v=<auth:weight,...|-> t=<parent,...> h=<blk,...|-> c=<blk>:<num> ft=<blk>:<num>|<blk> <num> <auth> <kind>;...

   output vc  : `novoters` | `vs=<total>/<threshold>[id:w,...] valid=<bool> n=<n> dup=<n> eq=<n> inv=<n>`
   output just: `<DecodeGrandpaJustificationVerifyFinalizes>/<Verify>` each one of
                ok err-target err-commit err-sig err-ancestry err-unused novoters err-auth
   vcl  like vc, with precommit numbers that disagree with the tree; output `returns` (no panic, no hang)
   `hp`, `ip`, `r`, `s`, `off` only steer how the harness materialises hashes, ids, signatures, headers. -/

def kvs (ws : List String) : List (String × String) :=
  ws.filterMap (fun w => match w.splitOn "=" with
    | [k, v] => some (k, v)
    | _ => none)

def field (kv : List (String × String)) (k : String) : Option String :=
  (kv.find? (·.1 == k)).map (·.2)

def natList? (s : String) : Option (List Nat) :=
  if s == "-" then some [] else (s.splitOn ",").mapM (·.toNat?)

def pair? (s : String) : Option (Nat × Nat) :=
  match s.splitOn ":" with
  | [a, b] => do pure (← a.toNat?, ← b.toNat?)
  | _ => none

def pairList? (s : String) : Option (List (Nat × Nat)) :=
  if s == "-" then some [] else (s.splitOn ",").mapM pair?

def kind? (s : String) : Option Nat :=
  match s with
  | "ok" => some 0 | "wr" => some 1 | "ws" => some 2 | "wk" => some 3 | "wn" => some 4
  | "bad" => some 5 | _ => none

/-- signature kind of a `just`/`wrap` entry → (signature token, valid for exactly this hash, number,
    round, set).  `cn<X>`: the signer's honest signature over (this hash, number X): the genuine signature
    when X is the entry's number, otherwise other bytes that do not verify for this entry. -/
def sigOf (w num : Nat) (g : String) : Option (Nat × Bool) :=
  if g.startsWith "cn" then do
    let x ← (g.drop 2).toString.toNat?
    if x % 2 ^ w == num then pure (0, true) else pure (100 + x % 2 ^ w, false)
  else do
    let k ← kind? g
    pure (k, k == 0)

def pre? (isJust : Bool) (w : Nat) (s : String) : Option Pre :=
  match words s with
  | [b, n, i, g] => do
    let num := (← n.toNat?) % 2 ^ w
    let (sg, ok) ← if isJust then sigOf w num g else (do pure ((← g.toNat?), true))
    pure ⟨← b.toNat?, num, ← i.toNat?, sg, ok⟩
  | _ => none

/-- lines with `fz=1` contain an entry whose number disagrees with the tree (a forged copy); both sides
    print only the verdict there: which rejection is reported first depends on how the vote graph treats
    the bogus number, which the model does not follow. -/
def coarse (fz : Bool) (x : String) : String :=
  if !fz then x
  else if x == "ok" || x.startsWith "ok " || x == "novoters" || x == "err-auth" || x == "err-setid"
      || x == "err-auths" || x == "err-voters" then x
  else "rej"

def pres? (isJust : Bool) (w : Nat) (body : String) : Option (List Pre) :=
  if body.trimAscii.toString == "" then some []
  else (body.splitOn ";").mapM (pre? isJust w)

def showVS (vs : VoterSet) : String :=
  s!"vs={vs.total}/{vs.threshold}[" ++ ",".intercalate (vs.voters.map fun iw => s!"{iw.1}:{iw.2}") ++ "]"

def showVC (r : VCRes) : String :=
  s!"valid={r.valid} n={r.nPre} dup={r.nDup} eq={r.nEq} inv={r.nInv}"

def showJ : JRes → String
  | .ok => "ok" | .errTarget => "err-target" | .errCommit => "err-commit" | .errSig => "err-sig"
  | .errAncestry => "err-ancestry" | .errUnused => "err-unused"

/-- model = the resolution of ambiguous GHOST steps most favourable to the target, spec = the least
    favourable one (= the GHOST is unambiguously the target); they differ only in the known-finding
    region `ghost-ambiguous`. -/
def bracket (m s : String) : String :=
  if m == s then m else m ++ "\tspec=" ++ s ++ "\tkf=ghost-ambiguous"

def stepVC (kv : List (String × String)) (body : String) : Option String := do
  let w ← (← field kv "w").toNat?
  let ws ← pairList? (← field kv "v")
  let par ← natList? (← field kv "t")
  let (tb, tn) ← pair? (← field kv "c")
  let pcs ← pres? false w body
  match newVoterSet ws with
  | none => pure "novoters"
  | some vs =>
    let c : Chain := ⟨par, List.range par.length⟩
    if !consistent w vs c pcs then pure "unmodelled" else
    let tn := tn % 2 ^ w
    let m := validateCommit (pickToward c tb) w vs c tb tn pcs
    let s := validateCommit (pickAway c tb) w vs c tb tn pcs
    pure (bracket (showVS vs ++ " " ++ showVC m) (showVS vs ++ " " ++ showVC s))

def stepJust (kv : List (String × String)) (body : String) : Option String := do
  let w ← (← field kv "w").toNat?
  let ws ← pairList? (← field kv "v")
  let par ← natList? (← field kv "t")
  let has ← natList? (← field kv "h")
  let (tb, tn) ← pair? (← field kv "c")
  let (fb, fn) ← pair? (← field kv "ft")
  let pcs ← pres? true w body
  match newVoterSet ws with
  | none => pure "novoters/err-auth"
  | some vs =>
    let c : Chain := ⟨par, has⟩
    let fz := field kv "fz" == some "1"
    -- an invalid signature is a rejection whatever the numbers are (C19_sound)
    if fz && pcs.any (fun p => !p.sigok) then pure "rej/rej" else
    if !consistent w vs c pcs then pure "unmodelled" else
    let tn := tn % 2 ^ w
    let fn := fn % 2 ^ w
    let out := fun (pick : List Nat → Nat) =>
      coarse fz (showJ (verifyFinalizes pick w vs c tb tn fb fn pcs)) ++ "/" ++
      coarse fz (showJ (verifyWithVoterSet pick w vs c tb tn pcs))
    pure (bracket (out (pickToward c tb)) (out (pickAway c tb)))

def authSet? (s : String) : Option (Option (List (Nat × Nat))) :=
  if s == "x" then some none else (pairList? s).map some

def showW (round : Nat) : WRes → String
  | .errSetId => "err-setid" | .errAuths => "err-auths" | .errVoters => "err-voters"
  | .inner j => showJ j | .ok sid => s!"ok r={round} s={sid}"

/-- wrap cs=<change block of set 0,1,..> cur=<current set id> as=<auths of set 0>/<set 1>/.. (`k:w,..`, `-` empty,
    `x` not stored) ib=<imported blk>:<imported number> r=<round> s=<set id the precommits are signed for>
    off= t= h= c= |precommits      as in `just` lines, numbers are uint32 -/
def stepWrap (kv : List (String × String)) (body : String) : Option String := do
  let change ← natList? (← field kv "cs")
  let cur ← (← field kv "cur").toNat?
  let auths ← ((← field kv "as").splitOn "/").mapM authSet?
  let (ib, ibn) ← pair? (← field kv "ib")
  let round ← (← field kv "r").toNat?
  let sset ← (← field kv "s").toNat?
  let par ← natList? (← field kv "t")
  let has ← natList? (← field kv "h")
  let (tb, tn) ← pair? (← field kv "c")
  let pcs ← pres? true 32 body
  let g : GState := ⟨change, cur, auths⟩
  let c : Chain := ⟨par, has⟩
  let tn := tn % 2 ^ 32
  let fz := field kv "fz" == some "1"
  -- does the call reach the verification, and with which set id
  let reached := match setIdAt g ibn with
    | some sid => match g.authsAt sid with
      | some a => (newVoterSet (unitWs a)).map (fun vs => (sid, vs))
      | none => none
    | none => none
  let badSig := match reached with
    | some (sid, _) => (resign sset sid pcs).any (fun p => !p.sigok)
    | none => false
  if fz && badSig then pure "rej" else
  let unmodelled := match reached with
    | some (_, vs) => !consistent 32 vs c pcs
    | none => false
  if unmodelled then pure "unmodelled" else
  let a := coarse fz (showW round (wrapper (pickToward c tb) false g ib ibn sset c tb tn pcs))
  let b := coarse fz (showW round (wrapper (pickAway c tb) false g ib ibn sset c tb tn pcs))
  let sp := coarse fz (showW round (wrapper (pickAway c tb) true g ib ibn sset c tb tn pcs))
  if a != b then pure (a ++ "\tspec=" ++ b ++ "\tkf=ghost-ambiguous")
  else if sp != a then pure (a ++ "\tspec=" ++ sp ++ "\tkf=wrapper-unit-weights")
  else pure a

def showImp : ImpRes → String
  | .errVerify => "err-verify" | .errFinalise => "err-fin" | .errJustification => "err-just"
  | .finalised r s => s!"fin r={r} s={s}" | .stored => "stored"

/-- imp j=<0|1 justification present> g=<ok|err> r=<round> s=<set> ff=<0|1 SetFinalisedHash fails>
    jf=<0|1 SetJustification fails> -/
def stepImp (kv : List (String × String)) : Option String := do
  let j ← (← field kv "j").toNat?
  let gk ← field kv "g"
  let r ← (← field kv "r").toNat?
  let s ← (← field kv "s").toNat?
  let ff ← (← field kv "ff").toNat?
  let jf ← (← field kv "jf").toNat?
  pure (showImp (importData (j == 1) (if gk == "ok" then some (r, s) else none) (ff == 1) (jf == 1)))

def step (line : String) : String :=
  let (hdr, body) := match line.splitOn "|" with
    | [h] => (h, "")
    | h :: rest => (h, "|".intercalate rest)
    | [] => ("", "")
  match words hdr with
  | "vc" :: rest => (stepVC (kvs rest) body).getD "bad-op"
  -- numbers that disagree with the tree: outside the model; the only claim is that the call returns
  | "vcl" :: rest => if (stepVC (kvs rest) body).isSome then "returns" else "bad-op"
  | "just" :: rest => (stepJust (kvs rest) body).getD "bad-op"
  -- a validly signed precommit with a bogus number that reaches the vote graph: only "the call returns"
  | "justl" :: rest => if (stepJust (kvs rest) body).isSome then "returns" else "bad-op"
  | "wrap" :: rest => (stepWrap (kvs rest) body).getD "bad-op"
  | "imp" :: rest => (stepImp (kvs rest)).getD "bad-op"
  | _ => "bad-op"

def main : IO Unit := runDriver step
