import Gossamer.Base.Proto
import Gossamer.Model.C09
open Gossamer Gossamer.C09

/- line:  `app <cur hex|absent> <item hex>`            output: stored value (hex)
          `seq <cur hex|absent> <item>,<item>,…`        output: stored value after all appends
   The spec value (Substrate `StorageAppend`) is printed as `spec=` only where the model differs. -/

def parseCur (s : String) : Option Bytes := if s = "absent" then some [] else ofHex? s

def parseItems (s : String) : Option (List Bytes) := (s.splitOn ",").mapM ofHex?

def render (model spec : Bytes) : String :=
  if model = spec then hex model else s!"{hex model}\tspec={hex spec}"

def step (line : String) : String :=
  match words line with
  | ["app", c, i] =>
    match parseCur c, ofHex? i with
    | some cur, some item => render (storageAppend cur item) (substrateAppend cur item)
    | _, _ => "bad-op"
  | ["seq", c, is] =>
    match parseCur c, parseItems is with
    | some cur, some items => render (appendAll cur items) (items.foldl substrateAppend cur)
    | _, _ => "bad-op"
  | _ => "bad-op"

def main : IO Unit := runDriver step
