import Gossamer.Base.Proto
import Gossamer.Model.C09
open Gossamer Gossamer.C09

/- line:  `app <cur hex|absent> <item hex>`            output: stored value (hex)
          `seq <cur hex|absent> <item>,<item>,…`        output: stored value after all appends
   The spec value (Substrate `StorageAppend`) is printed as `spec=` only where the model differs. -/

def parseCur (s : String) : Option Bytes := if s = "absent" then some [] else ofHex? s

def parseItems (s : String) : Option (List Bytes) := (s.splitOn ",").mapM ofHex?

def render (model spec : Bytes) : String :=
  if model = spec then hex model else s!"{hex model}\tspec={hex spec}"

/-! `ts|op;op;…` : a run of operations on a `TrieState` over an empty trie; ops `a K ITEM`, `p K VAL`,
    `g K`, `b`, `r`, `c`, `cap K`, `snap`.  After every op: the values of the keys 61, 62, 6162 in the
    current view | the captured values | the values in the trie kept by `snap`; `.` = none. -/

def tsKeys : List Bytes := [[0x61], [0x62], [0x61, 0x62]]

def parseOp (s : String) : Option Op :=
  match words s with
  | ["a", k, i] => match ofHex? k, ofHex? i with | some k, some i => some (.app k i) | _, _ => none
  | ["p", k, v] => match ofHex? k, ofHex? v with | some k, some v => some (.put k v) | _, _ => none
  | ["g", k] => (ofHex? k).map .get
  | ["b"] => some .tbegin
  | ["r"] => some .rollback
  | ["c"] => some .commit
  | ["cap", k] => (ofHex? k).map .cap
  | ["snap"] => some .snap
  | _ => none

def showTS (t : TS) : String :=
  let cur := "/".intercalate (tsKeys.map (fun k => hex ((t.stack.headD []).get k)))
  let caps := "/".intercalate (tsKeys.map (fun k =>
    match t.caps.find? (·.1 = k) with | some p => hex p.2 | none => "."))
  let old := "/".intercalate (tsKeys.map (fun k =>
    match t.old with | some s => hex (s.get k) | none => "."))
  s!"{cur}|{caps}|{old}"

def runTS : TS → List String → List String → String
  | _, [], acc => ";".intercalate acc.reverse
  | t, o :: os, acc =>
    match parseOp o with
    | none => ";".intercalate (("bad-op" :: acc).reverse)
    | some op =>
      match t.step op with
      | none => ";".intercalate (("panic" :: acc).reverse)
      | some t' => runTS t' os (showTS t' :: acc)

def step (line : String) : String :=
  if line.startsWith "ts|" then
    runTS TS.init ((String.ofList (line.toList.drop 3)).splitOn ";") []
  else
  match words line with
  | ["app", c, i] =>
    match parseCur c, ofHex? i with
    | some cur, some item => render (storageAppend cur item) (substrateAppend cur item)
    | _, _ => "bad-op"
  | ["seq", c, is] =>
    match parseCur c, parseItems is with
    | some cur, some items => render (appendAll cur items) (items.foldl substrateAppend cur)
    | _, _ => "bad-op"
  | _ => "bad-op"

def main : IO Unit := runDriver step
