import Gossamer.Base.Proto
import Gossamer.Lib.C22Sim
open Gossamer Gossamer.C22 Gossamer.C22.Sim

/- line (lib/grandpa run):
     thr <n>                                             State.threshold()
     n=<n> byz=<i,j|-> tree=<p1,p2,..|->|op;op;…        a schedule (see harness/C22/c22_test.go)
   line (pkg/finality-grandpa run):
     fgthr <total>                                       threshold(total) on uint64
     fgset <w1,w2,…>                                     NewVoterSet: total weight and threshold
     fgfin <w1,w2,…> <k>                                 a Round in which the first k voters vote for one block
   output: see the harness; `spec=`/`kf=` are added when a decision of the code is outside the abstract rule -/

/-- a canonical decimal (what Go's `s == strconv.Itoa(v)` accepts) -/
def num? (s : String) : Option Nat :=
  match s.toNat? with
  | some n => if toString n == s then some n else none
  | none => none

def tagged? (t : Char) (s : String) : Option Nat :=
  if s.length ≥ 2 && s.front == t then num? (String.ofList (s.toList.drop 1)) else none

def parseTree? (s : String) : Option (List Nat) :=
  if s == "-" then some []
  else
    let parts := s.splitOn ","
    let ps := parts.filterMap num?
    if ps.length ≠ parts.length || ps.length > 12 then none
    else if (List.range ps.length).all (fun i => ps.getD i 0 ≤ i) then some ps else none

def parseByz? (s : String) : Option (List Nat) :=
  if s == "-" then some []
  else
    let parts := s.splitOn ","
    let bs := parts.filterMap num?
    if bs.length ≠ parts.length || bs.any (· > 9) || bs.eraseDups.length ≠ bs.length then none
    else some bs

def parseHeader? (h : String) : Option Cfg :=
  let toks := words h
  let kvs := toks.filterMap (fun t => match t.splitOn "=" with
    | k :: rest@(_ :: _) => some (k, String.intercalate "=" rest)
    | _ => none)
  if kvs.length ≠ toks.length || kvs.length ≠ 3 then none
  else
    let look (k : String) : Option String := (kvs.find? (fun p => p.1 == k)).map (·.2)
    match look "n", look "byz", look "tree" with
    | some ns, some bs, some ts =>
      match num? ns, parseByz? bs, parseTree? ts with
      | some n, some byz, some ps =>
        if 1 ≤ n && n ≤ 10 && byz.all (· < n) then some ⟨n, byz, ps⟩ else none
      | _, _, _ => none
    | _, _, _ => none

def parseOp? (c : Cfg) (o : String) : Option Op :=
  let honest? (s : String) : Option Nat :=
    match tagged? 'v' s with
    | some i => if i < c.n && !c.byz.contains i then some i else none
    | none => none
  let block? (s : String) : Option Nat :=
    match tagged? 'b' s with
    | some k => if k < c.size then some k else none
    | none => none
  match words o with
  | ["best", v, b] => match honest? v, block? b with
    | some i, some k => some (.best i k)
    | _, _ => none
  | ["pv", v] => (honest? v).map .pv
  | ["pc", v] => (honest? v).map .pc
  | ["fin", v] => (honest? v).map .fin
  | ["bv", st, v, r, b] =>
    match (if st == "pv" then some 0 else if st == "pc" then some 1 else none),
          tagged? 'v' v, tagged? 'r' r, block? b with
    | some s, some j, some q, some k =>
      if j < c.n && c.byz.contains j && q ≤ 20 then some (.bv s j q k) else none
    | _, _, _, _ => none
  | ["d", m, v] => match tagged? 'm' m, honest? v with
    | some id, some i => if id < 1000 then some (.d id i) else none
    | _, _ => none
  | _ => none

def trim (s : String) : String := String.ofList (s.toList.dropWhile (· == ' ') |>.reverse |>.dropWhile (· == ' ') |>.reverse)

def schedule (line : String) : String :=
  match line.splitOn "|" with
  | h :: rest@(_ :: _) =>
    let body := String.intercalate "|" rest
    match parseHeader? h with
    | none => "bad-op"
    | some c =>
      let opStrs := if trim body == "" then [] else body.splitOn ";"
      if opStrs.length > 600 then "bad-op"
      else
        let ops := opStrs.filterMap (parseOp? c)
        if ops.length ≠ opStrs.length then "bad-op"
        else
          let r := run c ops
          if r.spec == r.model then r.model
          else match r.kf with
            | some t => s!"{r.model}\tspec={r.spec}\tkf={t}"
            | none => s!"{r.model}\tspec={r.spec}"
  | _ => "bad-op"

def fgset (s : String) : String :=
  let parts := s.splitOn ","
  let ws := parts.filterMap num?
  if ws.length ≠ parts.length || ws.length > 64 || ws.any (· ≥ 4294967296) then "bad-op"
  else
    let total := ws.foldl (· + ·) 0
    if total == 0 then "nil" else s!"{total} {thrFG64 total}"

/-- a finality-grandpa Round over R ← A in which the first `k` voters prevote and precommit A -/
def fgfin (s ks : String) : String :=
  let parts := s.splitOn ","
  let ws := parts.filterMap num?
  match num? ks with
  | none => "bad-op"
  | some k =>
    if ws.length ≠ parts.length || ws.length > 64 || ws.any (· ≥ 4294967296) || k > ws.length then "bad-op"
    else
      let total := ws.foldl (· + ·) 0
      if total == 0 then "nil"
      else
        let w := (ws.take k).foldl (· + ·) 0
        let r := if fgSuper total w then "A" else "-"
        s!"{total} {thrFG64 total} {w} fin={r} ghost={r}"

def step (line : String) : String :=
  match words line with
  | ["thr", n] => match num? n with
    | some k => if k > 100000 then "bad-op" else toString (thrLib k)
    | none => "bad-op"
  | ["fgthr", t] => match num? t with
    | some k => if k ≥ 18446744073709551616 then "bad-op" else toString (thrFG64 k)
    | none => "bad-op"
  | ["fgset", s] => fgset s
  | ["fgfin", s, k] => fgfin s k
  | _ => schedule line

def main : IO Unit := runDriver step
