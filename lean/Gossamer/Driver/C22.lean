import Gossamer.Base.Proto
import Gossamer.Lib.C22Sim
open Gossamer Gossamer.C22 Gossamer.C22.Sim

/- line (lib/grandpa run):
     thr <n>                                             State.threshold()
     n=<n> byz=<i,j|-> tree=<p1,p2,..|->|op;op;…        a schedule (see harness/C22/c22_test.go)
   line (pkg/finality-grandpa run):
     fgthr <total>                                       threshold(total) on uint64
     fgset <w1,w2,…>                                     NewVoterSet: total weight and threshold
     fgfin <w1,w2,…> <k>                                 a Round in which the first k voters vote for one block
     fgrnd w=<w1,..> tree=<..>|pv v b;pc v b;…            a Round with weighted voters over a tree
   output: see the harness; `spec=`/`kf=` are added when a decision of the code is outside the abstract rule -/

/-- a canonical decimal (what Go's `s == strconv.Itoa(v)` accepts) -/
def num? (s : String) : Option Nat :=
  match s.toNat? with
  | some n => if toString n == s then some n else none
  | none => none

def tagged? (t : Char) (s : String) : Option Nat :=
  if s.length ≥ 2 && s.front == t then num? (String.ofList (s.toList.drop 1)) else none

def parseTree? (s : String) : Option (List Nat) :=
  if s == "-" then some []
  else
    let parts := s.splitOn ","
    let ps := parts.filterMap num?
    if ps.length ≠ parts.length || ps.length > 12 then none
    else if (List.range ps.length).all (fun i => ps.getD i 0 ≤ i) then some ps else none

def parseByz? (s : String) : Option (List Nat) :=
  if s == "-" then some []
  else
    let parts := s.splitOn ","
    let bs := parts.filterMap num?
    if bs.length ≠ parts.length || bs.any (· > 15) || bs.eraseDups.length ≠ bs.length then none
    else some bs

def parseHeader? (h : String) : Option Cfg :=
  let toks := words h
  let kvs := toks.filterMap (fun t => match t.splitOn "=" with
    | k :: rest@(_ :: _) => some (k, String.intercalate "=" rest)
    | _ => none)
  if kvs.length ≠ toks.length || kvs.length ≠ 3 then none
  else
    let look (k : String) : Option String := (kvs.find? (fun p => p.1 == k)).map (·.2)
    match look "n", look "byz", look "tree" with
    | some ns, some bs, some ts =>
      match num? ns, parseByz? bs, parseTree? ts with
      | some n, some byz, some ps =>
        if 1 ≤ n && n ≤ 12 then some ⟨n, byz, ps⟩ else none
      | _, _, _ => none
    | _, _, _ => none

/-- `v1,v4,…`: distinct keys ≤ 15, the honest ones among the initial voters -/
def parseKeys? (c : Cfg) (s : String) : Option (List Nat) :=
  let parts := s.splitOn ","
  let ks := parts.filterMap (tagged? 'v')
  if ks.length ≠ parts.length || ks.any (· > 15) || ks.eraseDups.length ≠ ks.length
      || ks.any (fun k => !c.byz.contains k && k ≥ c.n) || ks.length < 1 || ks.length > 12 then none
  else some ks

/-- `sets` = the voter lists defined so far in the schedule -/
def parseOp? (c : Cfg) (sets : List (List Nat)) (o : String) : Option Op :=
  let honest? (s : String) : Option Nat :=
    match tagged? 'v' s with
    | some i => if i < c.n && !c.byz.contains i then some i else none
    | none => none
  let block? (s : String) : Option Nat :=
    match tagged? 'b' s with
    | some k => if k < c.size then some k else none
    | none => none
  let scripted (j t : Nat) : Bool :=
    c.byz.contains j || (match sets[t]? with | some mem => !mem.contains j | none => false)
  let stage? (st : String) : Option Nat := if st == "pv" then some 0 else if st == "pc" then some 1 else none
  match words o with
  | ["best", v, b] => match honest? v, block? b with
    | some i, some k => some (.best i k)
    | _, _ => none
  | ["pv", v] => (honest? v).map .pv
  | ["pc", v] => (honest? v).map .pc
  | ["pp", v] => (honest? v).map .pp
  | ["fin", v] => (honest? v).map .fin
  | ["chg", b, ids] => match block? b, parseKeys? c ids with
    | some k, some ks => if sets.length < 8 then some (.chg k ks) else none
    | _, _ => none
  | ["bv", st, v, r, b] =>
    match stage? st, tagged? 'v' v, tagged? 'r' r, block? b with
    | some s, some j, some q, some k =>
      if j ≤ 15 && scripted j 0 && q ≤ 20 then some (.bv s j 0 q k) else none
    | _, _, _, _ => none
  | ["bv", st, v, t, r, b] =>
    match stage? st, tagged? 'v' v, tagged? 's' t, tagged? 'r' r, block? b with
    | some s, some j, some tt, some q, some k =>
      if j ≤ 15 && tt ≤ 20 && scripted j tt && q ≤ 20 then some (.bv s j tt q k) else none
    | _, _, _, _, _ => none
  | ["d", m, v] => match tagged? 'm' m, honest? v with
    | some id, some i => if id < 1000 then some (.d id i) else none
    | _, _ => none
  | _ => none

/-- parse the ops in order, keeping track of the sets that `chg` ops define -/
def parseOps? (c : Cfg) : List String → List (List Nat) → Option (List Op)
  | [], _ => some []
  | o :: rest, sets =>
    match parseOp? c sets o with
    | none => none
    | some op =>
      let sets' := match op with
        | .chg _ ids => sets ++ [ids]
        | _ => sets
      match parseOps? c rest sets' with
      | some ops => some (op :: ops)
      | none => none

def trim (s : String) : String := String.ofList (s.toList.dropWhile (· == ' ') |>.reverse |>.dropWhile (· == ' ') |>.reverse)

def schedule (line : String) : String :=
  match line.splitOn "|" with
  | h :: rest@(_ :: _) =>
    let body := String.intercalate "|" rest
    match parseHeader? h with
    | none => "bad-op"
    | some c =>
      let opStrs := if trim body == "" then [] else body.splitOn ";"
      if opStrs.length > 600 then "bad-op"
      else
        match parseOps? c opStrs [List.range c.n] with
        | none => "bad-op"
        | some ops =>
          let r := run c ops
          if r.spec == r.model then r.model
          else match r.kf with
            | some t => s!"{r.model}\tspec={r.spec}\tkf={t}"
            | none => s!"{r.model}\tspec={r.spec}"
  | _ => "bad-op"

def fgset (s : String) : String :=
  let parts := s.splitOn ","
  let ws := parts.filterMap num?
  if ws.length ≠ parts.length || ws.length > 64 || ws.any (· ≥ 4294967296) then "bad-op"
  else
    let total := ws.foldl (· + ·) 0
    if total == 0 then "nil" else s!"{total} {thrFG64 total}"

/-- a finality-grandpa Round over R ← A in which the first `k` voters prevote and precommit A -/
def fgfin (s ks : String) : String :=
  let parts := s.splitOn ","
  let ws := parts.filterMap num?
  match num? ks with
  | none => "bad-op"
  | some k =>
    if ws.length ≠ parts.length || ws.length > 64 || ws.any (· ≥ 4294967296) || k > ws.length then "bad-op"
    else
      let total := ws.foldl (· + ·) 0
      if total == 0 then "nil"
      else
        let w := (ws.take k).foldl (· + ·) 0
        let r := if fgSuper total w then "A" else "-"
        s!"{total} {thrFG64 total} {w} fin={r} ghost={r}"

/-- a finality-grandpa Round with weighted voters over a tree: the prevote-GHOST, the finalised block, the estimate
    and completability, computed with the predicates of the abstract model (`hasSuper`, `possibleW`) -/
def fgrnd (line : String) : String :=
  match line.splitOn "|" with
  | [h, body] =>
    match words h with
    | ["fgrnd", wtok, ttok] =>
      if !(wtok.startsWith "w=") || !(ttok.startsWith "tree=") then "bad-op"
      else
        let wparts := (String.ofList (wtok.toList.drop 2)).splitOn ","
        let ws := wparts.filterMap num?
        match parseTree? (String.ofList (ttok.toList.drop 5)) with
        | none => "bad-op"
        | some ps =>
          if ws.length ≠ wparts.length || ws.length > 64 || ws.any (· ≥ 4294967296) then "bad-op"
          else
            let opStrs := if trim body == "" then [] else body.splitOn ";"
            let ops := opStrs.filterMap (fun o => match words o with
              | [st, v, b] => match (if st == "pv" then some false else if st == "pc" then some true else none),
                                    num? v, num? b with
                | some pc, some vi, some bi => if vi < ws.length && bi ≤ ps.length then some (pc, vi, bi) else none
                | _, _, _ => none
              | _ => none)
            if ops.length ≠ opStrs.length || ops.length > 200 then "bad-op"
            else
              let total := ws.foldl (· + ·) 0
              if total == 0 then "nil"
              else
                let ids := (List.range ws.length).filter (fun i => ws.getD i 0 > 0)
                let vs : Voters := ⟨ids, fun i => ws.getD i 0, fun _ => false⟩
                let O := parentOrder ps
                let member (p : Bool × Nat × Nat) : Bool := ids.contains p.2.1
                let pvs : Votes Nat := (ops.filter (fun p => !p.1 && member p)).map (fun p => (p.2.1, p.2.2))
                let pcs : Votes Nat := (ops.filter (fun p => p.1 && member p)).map (fun p => (p.2.1, p.2.2))
                let tol := total - thrFG total
                if vs.weight (equivocates pvs) > tol || vs.weight (equivocates pcs) > tol then "eqv"
                else
                  let size := ps.length + 1
                  let deepest (l : List Nat) : Option Nat := match l with
                    | [] => none
                    | b :: rest => some (rest.foldl (fun hi x => if depth ps hi < depth ps x then x else hi) b)
                  match deepest ((List.range size).filter (fun b => decide (hasSuper vs O pvs b))) with
                  | none => "ghost=- fin=- est=- comp=-"
                  | some g =>
                    let chain := (List.range (g + 1)).map (fun k => up ps k g)
                    if fgSuper total (vs.weight (voted pcs)) then
                      let fin := match chain.find? (fun x => decide (hasSuper vs O pcs x)) with
                        | some x => s!"b{x}" | none => "-"
                      let e := chain.find? (fun x => possibleW vs O pcs x)
                      let children := (List.range size).filter (fun x => x != g && x != 0 && par ps x == g)
                      let comp := match e with
                        | some x => x != g || children.all (fun x => !possibleW vs O pcs x)
                        | none => false
                      let es := match e with | some x => s!"b{x}" | none => "-"
                      s!"ghost=b{g} fin={fin} est={es} comp={if comp then "T" else "F"}"
                    else s!"ghost=b{g} fin=- est=- comp=-"
    | _ => "bad-op"
  | _ => "bad-op"

def step (line : String) : String :=
  match words line with
  | ["thr", n] => match num? n with
    | some k => if k > 100000 then "bad-op" else toString (thrLib k)
    | none => "bad-op"
  | ["fgthr", t] => match num? t with
    | some k => if k ≥ 18446744073709551616 then "bad-op" else toString (thrFG64 k)
    | none => "bad-op"
  | ["fgset", s] => fgset s
  | ["fgfin", s, k] => fgfin s k
  | _ => if line.startsWith "fgrnd " then fgrnd line else schedule line

def main : IO Unit := runDriver step
