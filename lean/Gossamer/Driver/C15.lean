import Gossamer.Base.Proto
import Gossamer.Model.C15
import Gossamer.Lib.BlockTreeCase
open Gossamer Gossamer.BlockTree Gossamer.BlockTreeCase Gossamer.C15

/- line: `<defs>|<ops>` (see harness/C15/c15_test.go); output: one field per op joined by `;` -/

def rangeStr (e : Env) : Except RangeErr (List Hash) → String
  | .ok l => e.names l
  | .error .endNotFound => "eE"
  | .error .startNotFound => "eS"
  | .error .startGreater => "eG"
  | .error .nilBlock => "eN"
  | .error .notAncestor => "eA"

def numRange (e : Env) : Nat × Nat :=
  let ns := e.defs.toList.map (·.number)
  let lo := ns.foldl min (e.defs[0]!.number)
  let hi := ns.foldl max (e.defs[0]!.number)
  (lo - 1, hi + 1)

def query (e : Env) (ids : List Nat) : String :=
  let bt := e.bt
  let hs := ids.map (fun i => e.defs[i]!.hash)
  let secA := "A" ++ e.names bt.getAllBlocks
  let secD := "D" ++ ",".intercalate (hs.map (fun a => match bt.getAllDescendants a with
    | some l => e.names l | none => "e"))
  let secI := "I" ++ ",".intercalate (hs.map (fun a => String.join (hs.map (fun b =>
    match bt.isDescendantOf a b with
    | .ok true => "1" | .ok false => "0" | .startNotFound => "s" | .endNotFound => "e"))))
  let secC := "C" ++ ",".intercalate (hs.map (fun a => ".".intercalate (hs.map (fun b =>
    match bt.lca a b with
    | .ok h => e.name h | .notFound => "e" | .panic => "panic"))))
  let secR := "R" ++ ",".intercalate (hs.map (fun a => "_".intercalate (hs.map (fun b => rangeStr e (bt.range a b)))))
  let secM := "M" ++ ",".intercalate (hs.map (fun a => "_".intercalate (hs.map (fun b => rangeStr e (bt.rangeInMemory a b)))))
  let (lo, hi) := numRange e
  let nums := (List.range (hi + 1 - lo)).map (· + lo)
  let secN := s!"N{lo}:" ++ ",".intercalate (nums.map (fun n => e.names (bt.getHashesAtNumber n)))
  let secH := "H" ++ ",".intercalate (nums.map (fun n => match bt.getHashByNumber n with
    | .ok h => e.name h | .greaterThanHighest => "eH" | .lowerThanRoot => "eL" | .notFound => "eF" | .panic => "panic"))
  let secT := "T" ++ ".".intercalate (ids.map (fun i => match bt.getArrivalTime (e.defs[i]!.hash) with
    | some t => if i = 0 then "r" else toString t | none => "e"))
  " ".intercalate [secA, secD, secI, secC, secR, secM, secN, secH, secT]

def tail (e : Env) : String := " b" ++ e.best ++ " L" ++ e.namesSorted e.bt.leafHashes

def stepOp (e : Env) (op : String) : Option (Env × String) := do
  let (c, rest) ← opParts op
  if c = 'q' then
    let ids ← parseIds rest e.defs.size
    pure (e, query e ids)
  else
    let i ← rest.toNat?
    if i ≥ e.defs.size then none
    if c = 'a' then
      if i = 0 then none
      let d := e.defs[i]!
      match e.bt.addBlock (e.header i) d.arr with
      | .ok bt' => let e' := { e with bt := bt' }; pure (e', "ok" ++ tail e')
      | .error err =>
        let code := match err with
          | .parentNotFound => "eP" | .blockExists => "eX" | .unexpectedNumber => "eN" | .primary => "eD"
        pure (e, code ++ tail e)
    else if c = 'f' then
      let (bt', pruned) := e.bt.prune (e.defs[i]!.hash)
      let e' := { e with bt := bt' }
      pure (e', "[" ++ e.names pruned ++ "]" ++ tail e')
    else none

def runOps (e : Env) : List String → List String → Option (List String)
  | [], acc => some acc.reverse
  | op :: ops, acc => match stepOp e op with
    | some (e', out) => runOps e' ops (out :: acc)
    | none => none

def step (line : String) : String :=
  match line.splitOn "|" with
  | [ds, os] =>
    match parseDefs ds with
    | some defs =>
      if defs.size = 0 then "bad-op" else
      let ops := if os = "" then [] else os.splitOn ";"
      match runOps (initEnv defs) ops [] with
      | some outs => ";".intercalate outs
      | none => "bad-op"
    | none => "bad-op"
  | _ => "bad-op"

def main : IO Unit := runDriver step
