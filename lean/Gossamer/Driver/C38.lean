import Gossamer.Base.Proto
import Gossamer.Model.C38
open Gossamer Gossamer.C38

/- line:   `<ver> <mode> <addr>|op;op;…`
     ops: put k v | del k | page P Q A | loop P Q | pairs P
   output: the model observables joined by `;`, then, when the specification (ordered map; the
   block field resolves) gives something else, TAB `spec=<spec observables>` and TAB `kf=<tag>` if
   the first diverging op lies in the region of a known finding. -/
def step (line : String) : String :=
  match parseLine line with
  | none => "bad-op"
  | some (addr, ops) =>
    let m := joinWith ";" (runFrom (stepModel addr) St.init ops)
    let s := joinWith ";" (runFrom (stepSpec addr) St.init ops)
    if m == s then m
    else
      let tag := firstTag addr St.init ops
      m ++ "\tspec=" ++ s ++ (if tag.isEmpty then "" else "\tkf=" ++ tag)

def main : IO Unit := runDriver step
