import Gossamer.Base.Proto
import Gossamer.Model.C02
open Gossamer Gossamer.C02

/- line:   `ver|op;op;…`  (ops: put k v | del k | clr p | clrl p n | get k | next k | keys p | entries)
   output: `<model observables joined by ;>` then, when the ordered-map specification gives
   something else, TAB `spec=<spec observables>` and TAB `kf=<tag>` if the first diverging
   op lies in the region of a known finding. -/
/-- Pinned facts about slice ownership of the Go API (`probe <name>` corpus lines).  They are not
    part of the ordered-map property (no production caller writes into these slices: every host
    function copies before `Put` and copies `Get` results into Wasm memory); a change of any of
    them shows up as a disagreement on the probe line. -/
def probe : String → String
  | "put-retains-value" => "true"        -- `StorageValue: value`: Put takes ownership of `value`
  | "put-retains-key" => "false"         -- the key is converted to a fresh nibble slice
  | "get-returns-internal" => "true"     -- Get returns `leaf.StorageValue` itself
  | "get-write-stale-hash" => "cached=false fresh-differs=false"
  | "entries-returns-internal" => "true"
  | _ => "bad-op"

def step (line : String) : String :=
  if line.startsWith "probe " then probe ((line.drop 6).toString) else
  match parseLine line with
  | none => "bad-op"
  | some (_, ops) =>
    let m := joinWith ";" (runModel ops)
    let s := joinWith ";" (runSpec ops)
    if m == s then m
    else
      let tag := firstTag Trie.nil [] ops
      m ++ "\tspec=" ++ s ++ (if tag.isEmpty then "" else "\tkf=" ++ tag)

def main : IO Unit := runDriver step
