import Gossamer.Base.Proto
import Gossamer.Model.C02
open Gossamer Gossamer.C02

/- line:   `ver|op;op;…`  (ops: put k v | del k | clr p | clrl p n | get k | next k | keys p | entries)
   output: `<model observables joined by ;>` then, when the ordered-map specification gives
   something else, TAB `spec=<spec observables>` and TAB `kf=<tag>` if the first diverging
   op lies in the region of a known finding. -/
def step (line : String) : String :=
  match parseLine line with
  | none => "bad-op"
  | some (_, ops) =>
    let m := joinWith ";" (runModel ops)
    let s := joinWith ";" (runSpec ops)
    if m == s then m
    else
      let tag := firstTag Trie.nil [] ops
      m ++ "\tspec=" ++ s ++ (if tag.isEmpty then "" else "\tkf=" ++ tag)

def main : IO Unit := runDriver step
