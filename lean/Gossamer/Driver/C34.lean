import Gossamer.Base.Proto
import Gossamer.Model.C34
import Gossamer.Lib.Monitor
open Gossamer Gossamer.C34

/- lines:
   `u h p;o;k;r h;e h;g;l;w`  op sequence on a fresh PriorityQueue
        u = Push(hash h, priority p)  o = Pop  k = Peek  r = RemoveExtrinsic  e = Exists
        g = Pending  l = Len  w = PopWithTimer with an expired timer (= Pop)
      → `<res>:<slots>;…|<hash/prio/order/index …>|txs=<sorted hashes>|ord=<currOrder>`
        (`<slots>` = hashes in slice order, `!` appended when some `index` ≠ its position)
   `table <Type>|<table>` → `safe`/`racy <method>` decided over the table extracted from the current
   source (as in C35); `race …` → `ok`
   `pwt <seed> <rounds>` → `lost=0 rounds=<rounds>` (conservation under a concurrent PopWithTimer) -/

def showSlots (q : PQ) : String :=
  let l := q.toList
  let ok := (List.range q.len).all fun k => (q.arr.get k).index == (k : Int)
  (if l.isEmpty then "-" else ",".intercalate (l.map fun it => toString it.hash)) ++ (if ok then "" else "!")

def showOut : Out → String
  | .ok => "ok" | .dup => "dup" | .none => "nil" | .tx h => s!"t{h}" | .bool b => if b then "T" else "F"
  | .num n => toString n | .list l => if l.isEmpty then "[]" else "[" ++ ",".intercalate (l.map toString) ++ "]"
  | .panic => "panic"

def parseOp (s : String) : Option Op :=
  match words s with
  | ["u", h, p] => do let h ← h.toNat?; let p ← p.toNat?; pure (Op.push h p)
  | ["o"] => some .pop
  | ["w"] => some .pop
  | ["k"] => some .peek
  | ["r", h] => h.toNat?.map Op.remove
  | ["e", h] => h.toNat?.map Op.exist
  | ["g"] => some .pending
  | ["l"] => some .len
  | _ => none

def runSeq (s : State) : List Op → List String → Option (List String × State)
  | [], acc => some (acc.reverse, s)
  | op :: ops, acc =>
    let (r, s1) := C34.step s op
    if r == .panic then none
    else runSeq s1 ops (s!"{showOut r}:{showSlots s1.pq}" :: acc)

def seqCase (body : String) : String :=
  let opsS := if body.isEmpty then [] else body.splitOn ";"
  match opsS.mapM parseOp with
  | none => "bad-op"
  | some ops =>
    match runSeq State.init ops [] with
    | none => "panic"
    | some (outs, s) =>
      let dump := " ".intercalate (s.pq.toList.map fun it => s!"{it.hash}/{it.priority}/{it.order}/{it.index}")
      let ks := (s.txs.map (·.1)).mergeSort (· ≤ ·)
      s!"{";".intercalate outs}|{dump}|txs={",".intercalate (ks.map toString)}|ord={s.currOrder}"

/- `ts <op>;<op>…`  sequence on a fresh TransactionState: `pool h p` `unpool h` `rm h` `push h p`
   `pop` `peek` `exists h` `pending` `pendingpool`
   → results joined by `;`, then `|q=<queue hashes in slice order>|pool=<h/p sorted>` -/
def parseTSOp (s : String) : Option TSOp :=
  match words s with
  | ["pool", h, p] => do let h ← h.toNat?; let p ← p.toNat?; pure (TSOp.addPool h p)
  | ["unpool", h] => h.toNat?.map TSOp.unpool
  | ["rm", h] => h.toNat?.map TSOp.rm
  | ["push", h, p] => do let h ← h.toNat?; let p ← p.toNat?; pure (TSOp.push h p)
  | ["pop"] => some .pop
  | ["peek"] => some .peek
  | ["exists", h] => h.toNat?.map TSOp.exist
  | ["pending"] => some .pending
  | ["pendingpool"] => some .pendingPool
  | _ => none

def tsSeq (ts : TS) : List TSOp → List String → Option (List String × TS)
  | [], acc => some (acc.reverse, ts)
  | op :: ops, acc =>
    let (r, t1) := tsStep ts op
    if r == .panic then none else tsSeq t1 ops (showOut r :: acc)

def tsCase (body : String) : String :=
  let opsS := if body.isEmpty then [] else body.splitOn ";"
  match opsS.mapM parseTSOp with
  | none => "bad-op"
  | some ops =>
    match tsSeq TS.init ops [] with
    | none => "panic"
    | some (outs, ts) =>
      let pl := ts.pool.mergeSort (fun a b => a.1 ≤ b.1)
      let ps := if pl.isEmpty then "-" else ",".intercalate (pl.map fun (h, p) => s!"{h}/{p}")
      s!"{";".intercalate outs}|q={showSlots ts.q.pq}|pool={ps}"

def step (line : String) : String :=
  match words line with
  | "race" :: _ => "ok"
  | "ts" :: _ => tsCase (line.drop 3).toString
  | ["pwt", _, rounds] =>
    -- concurrent PopWithTimer scenario: every schedule is (C34_linearizable) a sequential run in
    -- which PopWithTimer is a Pop or a nil that took nothing (C34_nil_takes_nothing), and every
    -- sequential run conserves transactions (C34_conservation): nothing may be lost
    match rounds.toNat? with
    | some n => s!"lost=0 rounds={n}"
    | none => "bad-op"
  | "table" :: _ =>
    -- the lock table the harness extracted from the CURRENT source is on the line: decide it
    match line.splitOn "|" with
    | [_, t] => match Monitor.parseTable t with
      | some tb => Monitor.verdict tb
      | none => "bad-op"
    | _ => "bad-op"
  | _ => seqCase line

def main : IO Unit := runDriver step
