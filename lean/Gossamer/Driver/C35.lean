import Gossamer.Base.Proto
import Gossamer.Model.C35
import Gossamer.Lib.Monitor
open Gossamer Gossamer.C35

/- lines:
   `<cap>|p k v;g k;…`      sequence on a fresh cache → `<effective cap>|<res>:<list>;…|map=<sorted keys>`
                            (`<list>` = `k=v,k=v` front→back, `-` when empty; res of a put is `_`)
   `table LRUCache|<table>` → `safe` / `racy <method>`: the monitor rule DECIDED over the table
                              the harness extracted from the current source (nothing stored)
   `race …`                 → `ok` (the stress run only reports that it survived the race detector) -/

def showList (l : List Elem) : String :=
  if l.isEmpty then "-" else ",".intercalate (l.map fun e => s!"{e.key}={e.val}")

def showMap (m : List (Nat × Nat)) (l : List Elem) : String :=
  -- sorted keys; `!` marks a map entry whose element is not in the list under that key
  let ks := (m.map (·.1)).mergeSort (· ≤ ·)
  let ok := m.all fun (k, id) => l.any fun e => e.id == id && e.key == k
  (if ks.isEmpty then "-" else ",".intercalate (ks.map toString)) ++ (if ok then "" else "!")

def parseOp (s : String) : Option Op :=
  match words s with
  | ["g", k] => k.toNat?.map Op.get
  | ["p", k, v] => do let k ← k.toNat?; let v ← v.toNat?; pure (Op.put k v)
  | _ => none

def runSeq (c : Cache) : List Op → List String → List String × Cache
  | [], acc => (acc.reverse, c)
  | op :: ops, acc =>
    let (r, c1) := C35.step c op
    let rs := match op with | .get _ => toString r | .put _ _ => "_"
    runSeq c1 ops (s!"{rs}:{showList c1.lruList}" :: acc)

def seqCase (capS body : String) : String :=
  match capS.toNat? with
  | none => "bad-op"
  | some cap =>
    let opsS := if body.isEmpty then [] else body.splitOn ";"
    match opsS.mapM parseOp with
    | none => "bad-op"
    | some ops =>
      let c0 := C35.new cap
      let (outs, c) := runSeq c0 ops []
      s!"{c0.capacity}|{";".intercalate outs}|map={showMap c.cache c.lruList}"

/- `trie <cap>|sn <mode> <khex> <vhex>;gn <mode> <khex>;sv …;gv …`  wrapper sequence on a
   TrieInMemoryCache whose node cache has capacity <cap>.  <mode> ∈ f|s|m says how the harness
   passes the key (fresh slice / shared scratch buffer / scratch buffer scribbled over after the
   call); the model ignores it: the cache is keyed by the key's bytes at call time.
   → results joined by `;` (`nil` or hex), then `|vlen=<entries of the value cache>`
   `defcap <n>` → `T`/`F`: after n distinct SetNode on NewTrieInMemoryCache, is the first still there -/
def showBytesRes (n : Nat) : String :=
  match decBytes n with
  | some b => hex b
  | none => "nil"

def parseTOp (s : String) : Option TOp :=
  match words s with
  | ["sn", _, k, v] => do let k ← ofHex? k; let v ← ofHex? v; pure (TOp.setn k v)
  | ["gn", _, k] => (ofHex? k).map TOp.getn
  | ["sv", _, k, v] => do let k ← ofHex? k; let v ← ofHex? v; pure (TOp.setv k v)
  | ["gv", _, k] => (ofHex? k).map TOp.getv
  | _ => none

def trieSeq (t : TrieCache) : List TOp → List String → List String × TrieCache
  | [], acc => (acc.reverse, t)
  | op :: ops, acc =>
    let (r, t1) := tstep t op
    let rs := match op with | .setn _ _ => "_" | .setv _ _ => "_" | _ => showBytesRes r
    trieSeq t1 ops (rs :: acc)

def trieCase (capS body : String) : String :=
  match capS.toNat? with
  | none => "bad-op"
  | some cap =>
    let opsS := if body.isEmpty then [] else body.splitOn ";"
    match opsS.mapM parseTOp with
    | none => "bad-op"
    | some ops =>
      let (outs, t) := trieSeq (tnew cap) ops []
      s!"{";".intercalate outs}|vlen={t.value.length}"

/- `swseq <max>|add i;exc i;…` → results (`_`, `T`/`F`) then `|c=<counts of ids 0..3>`
   `sw <seed> <G> <perG>` → `count=<G*perG> exceeded=T` (limit G*perG-1: every request counted) -/
def parseLOp (s : String) : Option LOp :=
  match words s with
  | ["add", i] => i.toNat?.map LOp.add
  | ["exc", i] => i.toNat?.map LOp.exc
  | _ => none

def limSeq (max : Nat) (l : Limiter) : List LOp → List String → List String × Limiter
  | [], acc => (acc.reverse, l)
  | op :: ops, acc =>
    let (r, l1) := lstep max l op
    let rs := match op with | .add _ => "_" | .exc _ => if r == 1 then "T" else "F"
    limSeq max l1 ops (rs :: acc)

def limCase (maxS body : String) : String :=
  match maxS.toNat? with
  | none => "bad-op"
  | some max =>
    let opsS := if body.isEmpty then [] else body.splitOn ";"
    match opsS.mapM parseLOp with
    | none => "bad-op"
    | some ops =>
      let (outs, l) := limSeq max [] ops []
      let cs := [0, 1, 2, 3].map fun i => toString (lcount l i)
      s!"{";".intercalate outs}|c={",".intercalate cs}"

def step (line : String) : String :=
  match words line with
  | "race" :: _ => "ok"
  | "trieconc" :: _ => "foreign=0"   -- a GetNode result is nil or was stored under the key asked for
  | ["sw", _, g, per] =>
    match g.toNat?, per.toNat? with
    | some g, some per =>
      -- G*perG AddRequest of one id, limit G*perG-1: the sequential model of that many adds
      let n := g * per
      let l := (lrun (n - 1) [] (List.replicate n (LOp.add 0))).2
      let e := (lstep (n - 1) l (.exc 0)).1
      s!"count={lcount l 0} exceeded={if e == 1 then "T" else "F"}"
    | _, _ => "bad-op"
  | "swseq" :: _ =>
    match (line.drop 6).toString.splitOn "|" with
    | [m, body] => limCase m body
    | _ => "bad-op"
  | ["defcap", n] =>
    match n.toNat? with
    | some n => if n > defaultNodeCacheMaxElements then "F" else "T"
    | none => "bad-op"
  | "trie" :: _ =>
    match (line.drop 5).toString.splitOn "|" with
    | [capS, body] => trieCase capS body
    | _ => "bad-op"
  | "table" :: _ =>
    -- the lock table the harness extracted from the CURRENT source is on the line: decide it
    match line.splitOn "|" with
    | [_, t] => match Monitor.parseTable t with
      | some tb => Monitor.verdict tb
      | none => "bad-op"
    | _ => "bad-op"
  | _ =>
    match line.splitOn "|" with
    | [capS, body] => seqCase capS body
    | _ => "bad-op"

def main : IO Unit := runDriver step
