import Gossamer.Base.Proto
import Gossamer.Model.C35
import Gossamer.Lib.Monitor
open Gossamer Gossamer.C35

/- lines:
   `<cap>|p k v;g k;…`      sequence on a fresh cache → `<effective cap>|<res>:<list>;…|map=<sorted keys>`
                            (`<list>` = `k=v,k=v` front→back, `-` when empty; res of a put is `_`)
   `lock LRUCache <Method>` → lock-table entry of the model (`Lock writes`)
   `methods LRUCache`       → method names of the table
   `table LRUCache|<table>` → `safe` / `racy <method>`: the monitor rule decided over the table
                              the harness extracted from the current source
   `race …`                 → `ok` (the stress run only reports that it survived the race detector) -/

def showList (l : List Elem) : String :=
  if l.isEmpty then "-" else ",".intercalate (l.map fun e => s!"{e.key}={e.val}")

def showMap (m : List (Nat × Nat)) (l : List Elem) : String :=
  -- sorted keys; `!` marks a map entry whose element is not in the list under that key
  let ks := (m.map (·.1)).mergeSort (· ≤ ·)
  let ok := m.all fun (k, id) => l.any fun e => e.id == id && e.key == k
  (if ks.isEmpty then "-" else ",".intercalate (ks.map toString)) ++ (if ok then "" else "!")

def parseOp (s : String) : Option Op :=
  match words s with
  | ["g", k] => k.toNat?.map Op.get
  | ["p", k, v] => do let k ← k.toNat?; let v ← v.toNat?; pure (Op.put k v)
  | _ => none

def runSeq (c : Cache) : List Op → List String → List String × Cache
  | [], acc => (acc.reverse, c)
  | op :: ops, acc =>
    let (r, c1) := C35.step c op
    let rs := match op with | .get _ => toString r | .put _ _ => "_"
    runSeq c1 ops (s!"{rs}:{showList c1.lruList}" :: acc)

def seqCase (capS body : String) : String :=
  match capS.toNat? with
  | none => "bad-op"
  | some cap =>
    let opsS := if body.isEmpty then [] else body.splitOn ";"
    match opsS.mapM parseOp with
    | none => "bad-op"
    | some ops =>
      let c0 := C35.new cap
      let (outs, c) := runSeq c0 ops []
      s!"{c0.capacity}|{";".intercalate outs}|map={showMap c.cache c.lruList}"

def table : List Monitor.Method := (Monitor.ofTriples lockTable).getD []

def step (line : String) : String :=
  match words line with
  | ["lock", "LRUCache", m] =>
    match table.find? (·.name == m) with
    | some e => e.render
    | none => "no-such-method"
  | ["methods", "LRUCache"] => ",".intercalate (table.map (·.name))
  | "race" :: _ => "ok"
  | _ =>
    match line.splitOn "|" with
    | ["table LRUCache", t] =>
      match Monitor.parseTable t with
      | some tb => Monitor.verdict tb
      | none => "bad-op"
    | [capS, body] => seqCase capS body
    | _ => "bad-op"

def main : IO Unit := runDriver step
