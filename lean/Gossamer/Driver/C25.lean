import Gossamer.Base.Proto
import Gossamer.Model.C25
import Gossamer.Lib.HashRef
open Gossamer Gossamer.C25

/- lines (see harness/C25/c25_test.go):
   thr <c1> <c2> <n> <pbits-hex>   → ok <32 hex> | err-zero | err-gt1 | err-16bytes | panic | enclosure-fail
   mono <c1> <c2> <n>              → le
   chk <seed> <rand> <slot> <epoch> <thr-be-hex> <res-hex> → <bool> <res-hex>
   auth <rand> <slot> <n>          → <idx> | panic
   const max                       → 32 hex -/

def u128Hex (u : C13.U128) : String := toHex (beBytes 8 u.upper.toNat ++ beBytes 8 u.lower.toNat)

def showThr : Thr → String
  | .ok t => "ok " ++ u128Hex t
  | .errZero => "err-zero"
  | .errGt1 => "err-gt1"
  | .err16 => "err-16bytes"
  | .panic => "panic"

/-- the float kernel is checked by enclosure whenever the inputs are in the property's domain
    (0 < c1 ≤ c2, n ≥ 1) and `p` decoded to a value in [0, 1] -/
def enclosureOk (c1 c2 n bits : Nat) : Bool :=
  if c1 = 0 ∨ c2 = 0 ∨ c1 > c2 ∨ n = 0 then true
  else match decodeF64 bits with
    | some ⟨false, m, 0, down⟩ => if m ≤ 2 ^ down then encloses c1 c2 n m down else false
    | some ⟨true, 0, _, _⟩ => encloses c1 c2 n 0 0
    | _ => false

def step (line : String) : String :=
  match words line with
  | ["thr", a, b, n, p] =>
    match a.toNat?, b.toNat?, n.toNat?, ofHex? p with
    | some c1, some c2, some n, some pb =>
      let bits := natOfBE pb
      let r := calcThreshold c1 c2 bits
      match r with
      | .ok _ => if enclosureOk c1 c2 n bits then showThr r else "enclosure-fail"
      | _ => showThr r
    | _, _, _, _ => "bad-op"
  | ["mono", a, b, n] =>
    match a.toNat?, b.toNat?, n.toNat? with
    | some c1, some c2, some _ => if 1 ≤ c1 ∧ c1 < c2 then "le" else "err"
    | _, _, _ => "bad-op"
  | ["chk", _, _, _, _, t, r] =>
    match ofHex? t, ofHex? r with
    | some tb, some res => s!"{checkPrimary res (C13.ofBytesBE tb)} {hex res}"
    | _, _ => "bad-op"
  | ["auth", r, s, n] =>
    match ofHex? r, s.toNat?, n.toNat? with
    | some rnd, some slot, some n =>
      match secondaryAuthor HashRef.blake2b256 rnd slot n with
      | .idx i => toString i
      | .panic => "panic"
    | _, _, _ => "bad-op"
  | ["const", "max"] => u128Hex (C13.ofBig maxU128)
  | _ => "bad-op"

def main : IO Unit := runDriver step
