import Gossamer.Base.Proto
import Gossamer.Model.C31
open Gossamer Gossamer.C31

/- lines (see harness/C31/*.go):
   `const MaxBlocksInResponse`
   `plan <a> <b> <fields>`                        → `<k> <start>:<max>,…`
   `srv <tree> <fin> <from> <dir> <max> <mask>`   → `ok <n> <id>/<present>,…` | error class
   `seq <tree> <fin>|<peer> <from> <dir> <max> <mask>;…` → per request `same` | short response -/

def joinWith (sep : String) : List String → String
  | [] => ""
  | [x] => x
  | x :: xs => x ++ sep ++ joinWith sep xs

def showPlan (rs : List PReq) : String :=
  if rs.isEmpty then "0"
  else s!"{rs.length} " ++ joinWith "," (rs.map (fun r => s!"{r.start}:{r.max}"))

def showErr : Err → String
  | .invalid => "err-invalid"
  | .dir => "err-dir"
  | .tooHigh => "err-toohigh"
  | .noStart => "err-nostart"
  | .noEnd => "err-noend"
  | .noDesc => "err-nodesc"
  | .range => "err-range"
  | .other => "err"

def showBlocks (bs : List BData) : String :=
  if bs.isEmpty then "ok 0"
  else s!"ok {bs.length} " ++ joinWith "," (bs.map (fun b => s!"{b.id}/{b.present}"))

def showEntry (b : BData) : String := s!"{b.id}/{b.present}"

/-- first and last entry only -/
def showShort : Except Err (List BData) → String
  | .error e => showErr e
  | .ok [] => "ok 0"
  | .ok [b] => s!"ok 1 {showEntry b}"
  | .ok (b :: bs) => s!"ok {bs.length + 1} {showEntry b}..{showEntry (bs.getLast?.getD b)}"

def showResp : Except Err (List BData) → String
  | .ok bs => showBlocks bs
  | .error e => showErr e

/-- `p:k,p:k,…` (or `-`): `none` = not parseable (`bad-op`), `some none` = `bad-tree` -/
def parseTree (s : String) : Option (Option Tree) :=
  if s = "-" then some (some genesisTree)
  else
    let rec go (parts : List String) (t : Option Tree) : Option (Option Tree) :=
      match parts with
      | [] => some t
      | part :: rest =>
        match part.splitOn ":" with
        | [ps, ks] =>
          match ps.toNat?, ks.toNat? with
          | some p, some k =>
            if k < 1 ∨ k > 2000 then none
            else
              match t with
              | none => go rest none
              | some tr => go rest (if p ≥ tr.size then none else some (addSeg tr k p))
          | _, _ => none
        | _ => none
    go (s.splitOn ",") (some genesisTree)

def parseFrom (s : String) : Option From :=
  match s.toList with
  | 'n' :: rest => (String.ofList rest).toNat?.bind (fun n => if n < W then some (From.num n) else none)
  | 'h' :: rest => (String.ofList rest).toNat?.map From.hash
  | _ => none

def parseDir (s : String) : Option Nat :=
  if s = "a" then some 0 else if s = "d" then some 1 else if s = "x" then some 3 else none

def parseMax (s : String) : Option (Option Nat) :=
  if s = "nil" then some none
  else s.toNat?.bind (fun n => if n < 2 ^ 32 then some (some n) else none)

/-- what the property demands for a by-number request that names block 0 (the real code answers
    an ascending one from block 1 and a descending one with nothing) -/
def specGenesis (t : Tree) (r : Request) : Except Err (List BData) :=
  let max := effMax r.max
  if r.dir = 0 then
    ascByNumber t r.mask (min max (bestNum t + 1)) 0
  else
    descByNumber t r.mask (min max 1) 0

/-- the block state of a case: the tree, checked like the harness does, then finalised -/
def buildState (st : String) (fin : Nat) : Except String Tree :=
  match parseTree st with
  | none => .error "bad-op"
  | some none => .error "bad-tree"
  | some (some t) =>
    if countNum t (maxNum t) ≠ 1 then .error "bad-tree"
    else if fin > maxNum t then .error "bad-tree"
    else .ok (if fin = 0 then t else finalise t fin)

def parseReq : List String → Option Request
  | [sfrom, sdir, smax, smask] =>
    match smask.toNat?, parseFrom sfrom, parseDir sdir, parseMax smax with
    | some mask, some fr, some dir, some mx => if mask ≥ 256 then none else some ⟨fr, dir, mx, mask⟩
    | _, _, _, _ => none
  | _ => none

def parseOps : List String → Option (List (Nat × Request))
  | [] => some []
  | o :: rest =>
    match words o with
    | sp :: rq =>
      match sp.toNat?, parseReq rq, parseOps rest with
      | some p, some r, some tl => if p > 9 then none else some ((p, r) :: tl)
      | _, _, _ => none
    | [] => none

def runOps (t : Tree) : Cache → List (Nat × Request) → List String
  | _, [] => []
  | c, (p, r) :: rest =>
    let (c', o) := request t c p r
    (match o with
      | .refused => "same"
      | .answered x => showShort x) :: runOps t c' rest

def stepSeq (line : String) : String :=
  match line.splitOn "|" with
  | [hdr, body] =>
    match words hdr with
    | ["seq", st, sfin] =>
      match sfin.toNat? with
      | none => "bad-op"
      | some fin =>
        let parts := if (words body).isEmpty then [] else body.splitOn ";"
        match parseOps parts with
        | none => "bad-op"
        | some ops =>
          match buildState st fin with
          | .error e => e
          | .ok t => if ops.isEmpty then "-" else joinWith ";" (runOps t [] ops)
    | _ => "bad-op"
  | _ => "bad-op"

def step (line : String) : String :=
  if line.startsWith "seq " then stepSeq line else
  match words line with
  | ["const", "MaxBlocksInResponse"] => toString maxBlocks
  | ["plan", sa, sb, sf] =>
    match sa.toNat?, sb.toNat?, sf.toNat? with
    | some a, some b, some f =>
      if a ≥ W ∨ b ≥ W ∨ f ≥ 256 then "bad-op"
      else if a ≤ b ∧ (b + W - ((a + W - 1) % W)) % W > 2 ^ 22 then "bad-op"
      else
        let out := showPlan (plan a b)
        -- the whole range 0 … 2^64-1: the block count wraps to 0 and nothing is planned
        if a = 0 ∧ b = W - 1 then out ++ "\tspec=planned\tkf=plan-full-uint-range" else out
    | _, _, _ => "bad-op"
  | ["const", "maxNumberOfSameRequestPerPeer"] => toString maxSame
  | ["srv", st, sfin, sfrom, sdir, smax, smask] =>
    match sfin.toNat?, parseReq [sfrom, sdir, smax, smask] with
    | some fin, some r =>
      match buildState st fin with
      | .error e => e
      | .ok t =>
        let out := showResp (serve t r)
        match r.from_ with
        | .num 0 =>
          if r.mask ≠ 0 ∧ r.dir ≤ 1 then
            out ++ "\tspec=" ++ showResp (specGenesis t r) ++ "\tkf=genesis-by-number"
          else out
        | _ => out
    | _, _ => "bad-op"
  | _ => "bad-op"

def main : IO Unit := runDriver step
