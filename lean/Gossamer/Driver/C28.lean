import Gossamer.Base.Proto
import Gossamer.Model.C28
import Gossamer.Lib.C28Hash
open Gossamer Gossamer.C28

/- line:   `heapBase,pages,maxPages|op;op;...`
     ops:  `alloc n` | `free k d` | `poke k d v` | `grow d` | `setpages n` | `const`
           (`k` = index of a successful alloc, or `-` for absolute; address = ptr(k) + d mod 2^32)
   output: per op `<result>,<verdict>` joined by `;`, then `|` and the final allocator state.
   After every successful alloc the driver (like the harness) stores marker words inside the
   rounded-up block; the verdict is `+` iff every marker of every live allocation is intact. -/

structure Ent where
  k : Nat
  ptr : Nat
  blk : Nat

structure DS where
  /-- wrapper mode: ops go through the host functions `ext_allocator_malloc/free_version_1` on a real
      wazero memory; an allocator error is the observable `p-<class>` (panic); the allocator's
      private state is not visible, the final summary is the page count only -/
  w : Bool
  hb : Nat
  r : Run hashStore
  allocs : Array Nat
  live : List Ent      -- most recent first
  outs : List String   -- reversed

def errName : Err → String
  | .poisoned => "poisoned" | .shrunk => "shrunk" | .tooLarge => "toolarge" | .badHead => "badhead"
  | .cannotRead => "cannotread" | .invalidOrder => "invalidorder" | .headOccupied => "headoccupied"
  | .outOfSpace => "outofspace" | .cannotGrow => "cannotgrow" | .cannotWrite => "cannotwrite"
  | .badPtr => "badptr" | .emptyHeader => "emptyheader" | .underflow => "underflow" | .panic => "panic"

/-- rounded-up block size as the guest computes it (independent of the allocator model) -/
def blockOf (n : Nat) : Nat := Id.run do
  let mut b := 8
  for _ in [0:40] do
    if b < n then b := b * 2
  return b

def markOffs (blk : Nat) : List Nat := Id.run do
  let mut l := [0, blk - 8]
  for j in [4:26] do
    if 2 ^ j < blk then l := (2 ^ j - 8) :: 2 ^ j :: l
  return l

def pat (k off : Nat) : Nat :=
  ((k + 1) * 0x9E3779B97F4A7C15 + off * 0xC2B2AE3D27D4EB4F + 0x0123456789ABCDEF) % 18446744073709551616

def entOk (m : Mem hashStore) (e : Ent) : Bool :=
  (markOffs e.blk).all fun off => m.read64 ((e.ptr + off) % U32) == some (pat e.k off)

def overlapAny : List Ent → Bool
  | [] => false
  | e :: es => es.any (fun f => e.ptr - 8 < f.ptr + f.blk && f.ptr - 8 < e.ptr + e.blk && 8 ≤ e.ptr && 8 ≤ f.ptr
                        || e.ptr < 8 || f.ptr < 8) || overlapAny es

/-- `+` when every marker of every live allocation is intact and the live blocks are pairwise disjoint,
    8-aligned, not below the heap base and inside the memory; else the failing checks -/
def verdict (d : DS) : String :=
  let x := if d.live.all (entOk d.r.m) then "" else "X"
  let o := if overlapAny d.live then "O" else ""
  let a := if d.live.all (fun e => e.ptr % 8 = 0) then "" else "A"
  let b := if d.live.all (fun e => d.hb + 8 ≤ e.ptr) then "" else "B"
  let m := if d.live.all (fun e => e.ptr + e.blk ≤ d.r.m.size) then "" else "M"
  let s := x ++ o ++ a ++ b ++ m
  if s = "" then "+" else s

def eraseEnt (p : Nat) : List Ent → List Ent
  | [] => []
  | e :: es => if e.ptr = p then es else e :: eraseEnt p es

def addrOf (d : DS) (k : String) (off : Nat) : Option Nat :=
  if k = "-" then some (off % U32) else
  match k.toNat? with
  | none => none
  | some i => some (((d.allocs[i]?).getD 0 + off) % U32)

def emit (d : DS) (res : String) : DS := { d with outs := (res ++ "," ++ verdict d) :: d.outs }

def opStep (d : DS) (op : String) : DS :=
  match words op with
  | ["alloc", n] =>
    match n.toNat? with
    | none => emit d "bad-op"
    | some n =>
      match (if d.w then (match hostMalloc d.r n with
                          | (r', .val p) => (r', Out.ptr p)
                          | (r', .panic e) => (r', Out.err e)
                          | (r', .unit) => (r', Out.ok))
             else d.r.step (.alloc n)) with
      | (r', .ptr p) =>
        let k := d.allocs.size
        let blk := blockOf n
        let r'' := (markOffs blk).foldl (fun r off => (r.step (.poke ((p + off) % U32) (pat k off))).1) r'
        emit { d with r := r'', allocs := d.allocs.push p, live := { k := k, ptr := p, blk := blk } :: d.live } (toString p)
      | (r', .err e) => emit { d with r := r' } ((if d.w then "p-" else "e-") ++ errName e)
      | (r', _) => emit { d with r := r' } "?"
  | ["free", k, off] =>
    match off.toNat?, addrOf d k (off.toNat?.getD 0) with
    | some _, some p =>
      match (if d.w then (match hostFree d.r p with
                          | (r', .unit) => (r', Out.ok)
                          | (r', .panic e) => (r', Out.err e)
                          | (r', .val q) => (r', Out.ptr q))
             else d.r.step (.free p)) with
      | (r', .ok) => emit { d with r := r', live := eraseEnt p d.live } "ok"
      | (r', .err e) => emit { d with r := r' } ((if d.w then "p-" else "e-") ++ errName e)
      | (r', _) => emit { d with r := r' } "?"
    | _, _ => emit d "bad-op"
  | ["poke", k, off, v] =>
    match off.toNat?, addrOf d k (off.toNat?.getD 0), v.toNat? with
    | some _, some a, some v =>
      match d.r.step (.poke a (v % 18446744073709551616)) with
      | (r', .wrote b) => emit { d with r := r' } (if b then "w1" else "w0")
      | (r', _) => emit { d with r := r' } "?"
    | _, _, _ => emit d "bad-op"
  | ["grow", n] =>
    match n.toNat? with
    | none => emit d "bad-op"
    | some n =>
      match d.r.step (.grow (n % U32)) with
      | (r', .grew b) => emit { d with r := r' } (if b then "g1" else "g0")
      | (r', _) => emit { d with r := r' } "?"
  | ["setpages", n] =>
    match n.toNat? with
    | none => emit d "bad-op"
    | some n => if d.w then emit d "bad-op" else
        emit { d with r := { d.r with m := { d.r.m with pages := n % U32 } } } "s"
  | ["const"] =>
    emit d s!"{NUM_ORDERS} {MIN_ALLOC} {MAX_ALLOC} {PAGE} {MAX_PAGES} {NIL} {HDR}"
  | _ => emit d "bad-op"

def showFinal (d : DS) : String :=
  let s := d.r.s
  let hs := (List.range 23).filterMap fun o =>
    if s.heads o = NIL then none else some s!"{o}:{s.heads o}"
  s!"base={s.base} bumper={s.bumper} poisoned={s.poisoned} last={s.lastSize} ba={s.bytesAllocated} peak={s.peak} sum={s.sum} asu={s.addrUsed} pages={d.r.m.pages} heads={",".intercalate hs}"

def runCase (w : Bool) (hb pg mx : Nat) (ops : String) : String :=
  let d0 : DS := { w := w, hb := hb % U32, r := Run.init hashStore (hb % U32) (pg % U32) (mx % U32),
                   allocs := #[], live := [], outs := [] }
  let d := (ops.splitOn ";").foldl (fun d op => if (words op).isEmpty then d else opStep d op) d0
  let fin := if w then s!"pages={d.r.m.pages}" else showFinal d
  let out := ";".intercalate d.outs.reverse ++ "|" ++ fin
  -- known finding: a heap base within 7 bytes of 4 GiB cannot be aligned; the Go code wraps the
  -- aligned base to 0 and then hands out memory below the real heap base
  if (hb % U32) + 7 ≥ U32 ∧ d.allocs.size > 0 then
    out ++ "\tspec=no allocation may succeed: the aligned heap base does not fit 32 bits\tkf=heapbase-wrap"
  else out

/-- header `heapBase,pages,maxPages` (fake memory, direct calls) or `w,heapBase,pages,maxPages`
    (real wazero memory, host functions) -/
def step (line : String) : String :=
  match line.splitOn "|" with
  | [hdr, ops] =>
    match hdr.splitOn "," with
    | [a, b, c] =>
      match a.toNat?, b.toNat?, c.toNat? with
      | some hb, some pg, some mx => runCase false hb pg mx ops
      | _, _, _ => "bad-op"
    | ["w", a, b, c] =>
      match a.toNat?, b.toNat?, c.toNat? with
      | some hb, some pg, some mx => runCase true hb pg mx ops
      | _, _, _ => "bad-op"
    | _ => "bad-op"
  | _ => "bad-op"

def main : IO Unit := runDriver step
