import Gossamer.Base.Proto
import Gossamer.Model.C29
import Gossamer.Lib.SigRef
open Gossamer Gossamer.C29 Gossamer.HashRef Gossamer.SigRef

/- lines:
   `h <msg>`                      → `b8 b128 b256 keccak256 twox64 twox128 twox256 sha256`
   `ed <pk> <msg> <sig>`          → ok|fail   model = Go stdlib rules, spec = ZIP-215 rules
   `ecv <pub> <msg> <sig64>`      → ok|fail
   `ecr <msg> <sig65>`            → 04‖x‖y | err
   `ecrc <msg> <sig65>`           → 02/03‖x | err
   `sr <pk> <msg> <sig> <kind>`   → ok|fail by construction (no Lean reference for schnorrkel) -/
def verdict (b : Bool) : String := if b then "ok" else "fail"

def step (line : String) : String :=
  match words line with
  | ["h", x] => match ofHex? x with
    | some m => s!"{hex (blake2b8 m)} {hex (blake2b128 m)} {hex (blake2bHash m)} {hex (keccak256 m)} {hex (twox64 m)} {hex (twox128 m)} {hex (twox256 m)} {hex (sha256 m)}"
    | none => "bad-op"
  | ["ed", pk, m, sg] => match ofHex? pk, ofHex? m, ofHex? sg with
    | some pk, some m, some sg =>
      let go := ed25519VerifyGo pk m sg
      let zip := ed25519VerifyZip215 pk m sg
      if go == zip then verdict go else s!"{verdict go}\tspec={verdict zip}\tkf=ed25519-not-zip215"
    | _, _, _ => "bad-op"
  | ["ecv", pb, m, sg] => match ofHex? pb, ofHex? m, ofHex? sg with
    | some pb, some m, some sg => verdict (ecdsaVerify pb m sg)
    | _, _, _ => "bad-op"
  | ["ecr", m, sg] => match ofHex? m, ofHex? sg with
    | some m, some sg => match ecdsaRecover m sg with
      | some q => "04" ++ toHex q
      | none => "err"
    | _, _ => "bad-op"
  | ["ecrc", m, sg] => match ofHex? m, ofHex? sg with
    | some m, some sg => match ecdsaRecover m sg with
      | some q => (if natOfBE (q.drop 32) % 2 == 1 then "03" else "02") ++ toHex (q.take 32)
      | none => "err"
    | _, _ => "bad-op"
  | ["sr", _, _, _, kind] => if kind == "honest" then "ok" else "fail"
  | _ => "bad-op"

def main : IO Unit := runDriver step
