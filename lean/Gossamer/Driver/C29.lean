import Gossamer.Base.Proto
import Gossamer.Model.C29
import Gossamer.Lib.SigRef
import Gossamer.Lib.SrRef
open Gossamer Gossamer.C29 Gossamer.HashRef Gossamer.SigRef Gossamer.SrRef

/- lines:
   `h <msg>`                      → `b8 b128 b256 keccak256 twox64 twox128 twox256 sha256`
   `ed <pk> <msg> <sig>`          → ok|fail   model = Go stdlib rules, spec = ZIP-215 rules
   `ecv <pub> <msg> <sig64>`      → ok|fail
   `ecr <msg> <sig65>`            → 04‖x‖y | err
   `ecrc <msg> <sig65>`           → 02/03‖x | err
   `mt <app> <clabel> <n> {<label> <msg>}*` → challenge bytes of a merlin transcript
   `rd <32 bytes>`                → err | canonical ristretto255 re-encoding
   `rv <k>`                       → encoding of k·B, twice (published constant ‖ library value on the Go side)
   `sr <pk> <msg> <sig>`          → `<ok|fail> dep=<ok|fail>`  model = go-schnorrkel/gossamer rules,
                                     spec = Rust schnorrkel rules (Lib/SrRef.lean)
   host functions (harness/C29/host_test.go; model `…Go` and Substrate rule `…Ref` in Model/C29.lean):
   `hh <msg>`                     → blake2_128 blake2_256 keccak_256 sha2_256 twox_64 twox_128 twox_256
   `hed|hsr1|hsr2 <pk> <msg> <sig64>`, `hecv <pub33> <msg> <sig65>`  → 0|1
   `hecr1|hecr2|hecc1|hecc2 <msg32> <sig65>`  → SCALE Result bytes (`00‖key` | `01‖EcdsaVerifyError`)
   prefix `b`: between start/finish_batch_verify (no-ops) → `<ret> finish=1`;
   prefix `q`: SignatureVerifier started by hand → `<ret> batch=<true|false>` (no spec: dead code in production) -/
def verdict (b : Bool) : String := if b then "ok" else "fail"

def allHex? : List String → Option (List Bytes)
  | [] => some []
  | x :: xs => match ofHex? x, allHex? xs with
    | some b, some bs => some (b :: bs)
    | _, _ => none

def appendPairs (t : Transcript) : List Bytes → Transcript
  | l :: m :: rest => appendPairs (appendMessage t l m) rest
  | _ => t

/-- is this public key the identity element (the only key go-schnorrkel refuses)? -/
def isIdentityKey (pk : Bytes) : Bool :=
  match rDecode pk with
  | some a => rEq a edId
  | none => false

def srLine (pk m sg : Bytes) : String :=
  let vGo := srVerifyGo pk m sg
  let vRef := srVerifyRef pk m sg
  let model := s!"{verdict vGo} dep={verdict (srVerifyDeprecatedGo pk m sg)}"
  let spec := s!"{verdict vRef} dep={verdict (srVerifyDeprecatedRef pk m sg)}"
  if model == spec then model
  else if isIdentityKey pk then s!"{model}\tspec={spec}\tkf=sr25519-identity-key"
  -- any other key: only the deprecated entry point is known to differ; a different verdict of
  -- VerifySignature itself carries no tag and is reported as a violation
  else if vGo == vRef then s!"{model}\tspec={spec}\tkf=sr25519-deprecated-differs"
  else s!"{model}\tspec={spec}"

def bit (b : Bool) : String := if b then "1" else "0"

/-- the region of finding `ecdsa-recover-v1-overflowing`: version 1 only, r or s not below the group order -/
def overflowTag (sg : Bytes) : String :=
  if natOfBE (sg.take 32) ≥ skN || natOfBE ((sg.drop 32).take 32) ≥ skN then "ecdsa-recover-v1-overflowing" else ""

/-- one host call: (model, spec, tag); an empty tag means model and spec must coincide -/
def hostCall (op : String) (args : List Bytes) : Option (String × String × String) :=
  match op, args with
  | "hh", [m] =>
    let o := s!"{hex (blake2b128 m)} {hex (blake2bHash m)} {hex (keccak256 m)} {hex (sha256 m)} {hex (twox64 m)} {hex (twox128 m)} {hex (twox256 m)}"
    some (o, o, "")
  | "hed", [pk, m, sg] =>
    some (bit (ed25519VerifyGo pk m sg), bit (ed25519VerifyZip215 pk m sg), "ed25519-not-zip215")
  | "hsr1", [pk, m, sg] =>
    some (bit (hostSr1Go pk m sg), bit (srVerifyDeprecatedRef pk m sg), "sr25519-v1-always-valid")
  | "hsr2", [pk, m, sg] =>
    some (bit (hostSr2Go pk m sg), bit (srVerifyRef pk m sg),
      if pk == zeros32 then "sr25519-zero-key-always-valid" else "")
  | "hecv", [pub, m, sg] =>
    some (bit (hostEcvGo pub m sg), bit (hostEcvRef pub m sg), "")
  | "hecr1", [m, sg] => some (hex (hostRecoverGo false m sg), hex (hostRecoverRef 1 false m sg), overflowTag sg)
  | "hecr2", [m, sg] => some (hex (hostRecoverGo false m sg), hex (hostRecoverRef 2 false m sg), "")
  | "hecc1", [m, sg] => some (hex (hostRecoverGo true m sg), hex (hostRecoverRef 1 true m sg), overflowTag sg)
  | "hecc2", [m, sg] => some (hex (hostRecoverGo true m sg), hex (hostRecoverRef 2 true m sg), "")
  | _, _ => none

/-- the queueing branch (SignatureVerifier started by hand; dead code in production because
    `ext_crypto_start_batch_verify_version_1` is a no-op): returns 1 once the key parses, the verdict is
    that of the package-level `VerifySignature` -/
def hostQueued (op : String) (args : List Bytes) : Option String :=
  match op, args with
  | "hed", [pk, m, sg] => some s!"1 batch={ed25519VerifyGo pk m sg}"
  | "hsr1", [pk, m, sg] | "hsr2", [pk, m, sg] =>
    if (rDecode pk).isSome then some s!"1 batch={srVerifyGo pk m sg}" else some "0 batch=true"
  | "hecv", [pub, m, sg] =>
    if (skParsePub pub).isSome then some s!"1 batch={hostEcvQueued pub m sg}" else some "0 batch=true"
  | _, _ => none

def hostLine (op0 : String) (args : List Bytes) : String :=
  let mode := op0.front
  let op : String := if mode == 'b' || mode == 'q' then String.ofList (op0.toList.drop 1) else op0
  if mode == 'q' then (hostQueued op args).getD "bad-op" else
  match hostCall op args with
  | none => "bad-op"
  | some (model, spec, tag) =>
    if mode == 'b' && (op == "hh" || op.startsWith "hecr" || op.startsWith "hecc") then "bad-op" else
    let sfx := if mode == 'b' then " finish=1" else ""
    if model == spec then model ++ sfx
    else if tag == "" then s!"{model}{sfx}\tspec={spec}{sfx}"
    else s!"{model}{sfx}\tspec={spec}{sfx}\tkf={tag}"

def step (line : String) : String :=
  match words line with
  | ["h", x] => match ofHex? x with
    | some m => s!"{hex (blake2b8 m)} {hex (blake2b128 m)} {hex (blake2bHash m)} {hex (keccak256 m)} {hex (twox64 m)} {hex (twox128 m)} {hex (twox256 m)} {hex (sha256 m)}"
    | none => "bad-op"
  | ["hc", x] => match ofHex? x with
    -- the same digests; the helpers must be pure functions of the message also under concurrency
    | some m => s!"{hex (blake2b8 m)} {hex (blake2b128 m)} {hex (blake2bHash m)} {hex (keccak256 m)} {hex (twox64 m)} {hex (twox128 m)} {hex (twox256 m)} {hex (sha256 m)} conc=ok"
    | none => "bad-op"
  | ["ed", pk, m, sg] => match ofHex? pk, ofHex? m, ofHex? sg with
    | some pk, some m, some sg =>
      let go := ed25519VerifyGo pk m sg
      let zip := ed25519VerifyZip215 pk m sg
      if go == zip then verdict go else s!"{verdict go}\tspec={verdict zip}\tkf=ed25519-not-zip215"
    | _, _, _ => "bad-op"
  | ["ecv", pb, m, sg] => match ofHex? pb, ofHex? m, ofHex? sg with
    | some pb, some m, some sg => verdict (ecdsaVerify pb m sg)
    | _, _, _ => "bad-op"
  | ["ecr", m, sg] => match ofHex? m, ofHex? sg with
    | some m, some sg => match ecdsaRecover m sg with
      | some q => "04" ++ toHex q
      | none => "err"
    | _, _ => "bad-op"
  | ["ecrc", m, sg] => match ofHex? m, ofHex? sg with
    | some m, some sg => match ecdsaRecover m sg with
      | some q => (if natOfBE (q.drop 32) % 2 == 1 then "03" else "02") ++ toHex (q.take 32)
      | none => "err"
    | _, _ => "bad-op"
  | "mt" :: app :: cl :: n :: rest => match ofHex? app, ofHex? cl, n.toNat?, allHex? rest with
    | some app, some cl, some n, some ps =>
      if n == 0 || n > 4096 || ps.length % 2 ≠ 0 then "bad-op"
      else hex (challengeBytes (appendPairs (newTranscript app) ps) cl n).2
    | _, _, _, _ => "bad-op"
  | ["rd", x] => match ofHex? x with
    | some b => if b.length ≠ 32 then "bad-op" else
      match rDecode b with
      | some q => hex (rEncode q)
      | none => "err"
    | none => "bad-op"
  | ["rv", k] => match k.toNat? with
    | some k => if k > 15 then "bad-op" else
      let e := hex (rEncode (edMul k edB))
      s!"{e} {e}"
    | none => "bad-op"
  | ["sr", pk, m, sg] => match ofHex? pk, ofHex? m, ofHex? sg with
    | some pk, some m, some sg => srLine pk m sg
    | _, _, _ => "bad-op"
  | op :: rest =>
    if (op.startsWith "h" || op.startsWith "bh" || op.startsWith "qh") && !rest.isEmpty then
      match allHex? rest with
      | some args => hostLine op args
      | none => "bad-op"
    else "bad-op"
  | _ => "bad-op"

def main : IO Unit := runDriver step
