import Gossamer.Base.Proto
import Gossamer.Model.C29
import Gossamer.Lib.SigRef
import Gossamer.Lib.SrRef
open Gossamer Gossamer.C29 Gossamer.HashRef Gossamer.SigRef Gossamer.SrRef

/- lines:
   `h <msg>`                      → `b8 b128 b256 keccak256 twox64 twox128 twox256 sha256`
   `ed <pk> <msg> <sig>`          → ok|fail   model = Go stdlib rules, spec = ZIP-215 rules
   `ecv <pub> <msg> <sig64>`      → ok|fail
   `ecr <msg> <sig65>`            → 04‖x‖y | err
   `ecrc <msg> <sig65>`           → 02/03‖x | err
   `mt <app> <clabel> <n> {<label> <msg>}*` → challenge bytes of a merlin transcript
   `rd <32 bytes>`                → err | canonical ristretto255 re-encoding
   `rv <k>`                       → encoding of k·B, twice (published constant ‖ library value on the Go side)
   `sr <pk> <msg> <sig>`          → `<ok|fail> dep=<ok|fail>`  model = go-schnorrkel/gossamer rules,
                                     spec = Rust schnorrkel rules (Lib/SrRef.lean) -/
def verdict (b : Bool) : String := if b then "ok" else "fail"

def allHex? : List String → Option (List Bytes)
  | [] => some []
  | x :: xs => match ofHex? x, allHex? xs with
    | some b, some bs => some (b :: bs)
    | _, _ => none

def appendPairs (t : Transcript) : List Bytes → Transcript
  | l :: m :: rest => appendPairs (appendMessage t l m) rest
  | _ => t

/-- is this public key the identity element (the only key go-schnorrkel refuses)? -/
def isIdentityKey (pk : Bytes) : Bool :=
  match rDecode pk with
  | some a => rEq a edId
  | none => false

def srLine (pk m sg : Bytes) : String :=
  let model := s!"{verdict (srVerifyGo pk m sg)} dep={verdict (srVerifyDeprecatedGo pk m sg)}"
  let spec := s!"{verdict (srVerifyRef pk m sg)} dep={verdict (srVerifyDeprecatedRef pk m sg)}"
  if model == spec then model
  else s!"{model}\tspec={spec}\tkf={if isIdentityKey pk then "sr25519-identity-key" else "sr25519-deprecated-differs"}"

/-! host functions of lib/runtime/wazero/imports.go -/

def zeros32 : Bytes := List.replicate 32 0

/-- `ext_crypto_sr25519_verify_version_1` as written: 0 only when the public key does not decode;
    the result of `VerifyDeprecated` is logged, not returned -/
def hostSr1Go (pk _m _sg : Bytes) : Bool := (rDecode pk).isSome

/-- `ext_crypto_sr25519_verify_version_2` as written: the all-zero key is handed to version 1 -/
def hostSr2Go (pk m sg : Bytes) : Bool :=
  if pk == zeros32 then hostSr1Go pk m sg else srVerifyGo pk m sg

/-- `ext_crypto_ecdsa_verify_version_2` as written: BLAKE2b-256 of the message, plain (low-s) ECDSA
    verification of the first 64 signature bytes; the recovery id is never read -/
def hostEcvGo (pub m sg : Bytes) : Bool := ecdsaVerify pub (blake2b 32 m) (sg.take 64)

/-- Substrate `ecdsa::Pair::verify`: recover the key from the 65-byte signature (recovery id 0..3, no
    27 offset) over BLAKE2b-256 of the message and compare its compressed form with the given key -/
def hostEcvRef (pub m sg : Bytes) : Bool :=
  if sg.length ≠ 65 ∨ (sg.getD 64 0).toNat > 3 then false else
  match ecdsaRecover (blake2b 32 m) sg with
  | some q => ((if natOfBE (q.drop 32) % 2 == 1 then 3 else 2) :: q.take 32) == pub
  | none => false

def compressQ (q : Bytes) : Bytes := (if natOfBE (q.drop 32) % 2 == 1 then 3 else 2) :: q.take 32

/-- SCALE `Result<[u8; N], EcdsaVerifyError>` as gossamer writes it: `00 ‖ key` or the single byte `01` -/
def hostRecoverGo (compressed : Bool) (m sg : Bytes) : Bytes :=
  match ecdsaRecover m sg with
  | some q => 0 :: (if compressed then compressQ q else q)
  | none => [1]

/-- the same as Substrate's `secp256k1_ecdsa_recover(_compressed)`: the error carries its variant
    (BadRS = 0, BadV = 1, BadSignature = 2); version 1 parses r and s "overflowing" (reduced mod n),
    version 2 rejects r, s ≥ n with BadRS -/
def hostRecoverRef (ver : Nat) (compressed : Bool) (m sg : Bytes) : Bytes :=
  let v0 := (sg.getD 64 0).toNat
  let v := if v0 > 26 then v0 - 27 else v0
  let r := natOfBE (sg.take 32)
  let s := natOfBE ((sg.drop 32).take 32)
  let sg' : Bytes := if ver == 1 then beBytes 32 (r % skN) ++ beBytes 32 (s % skN) ++ [sg.getD 64 0] else sg
  if ver == 1 then
    if v > 3 then [1, 1] else
    match ecdsaRecover m sg' with
    | some q => 0 :: (if compressed then compressQ q else q)
    | none => [1, 2]
  else
    if v > 3 then [1, 1] else
    if r ≥ skN || s ≥ skN then [1, 0] else
    match ecdsaRecover m sg' with
    | some q => 0 :: (if compressed then compressQ q else q)
    | none => [1, 2]

def bit (b : Bool) : String := if b then "1" else "0"

/-- one host call: (model, spec, tag) -/
def hostCall (op : String) (args : List Bytes) : Option (String × String × String) :=
  match op, args with
  | "hh", [m] =>
    let o := s!"{hex (blake2b128 m)} {hex (blake2bHash m)} {hex (keccak256 m)} {hex (sha256 m)} {hex (twox64 m)} {hex (twox128 m)} {hex (twox256 m)}"
    some (o, o, "")
  | "hed", [pk, m, sg] =>
    some (bit (ed25519VerifyGo pk m sg), bit (ed25519VerifyZip215 pk m sg), "ed25519-not-zip215")
  | "hsr1", [pk, m, sg] =>
    some (bit (hostSr1Go pk m sg), bit (srVerifyDeprecatedRef pk m sg), "sr25519-v1-always-valid")
  | "hsr2", [pk, m, sg] =>
    some (bit (hostSr2Go pk m sg), bit (srVerifyRef pk m sg),
      if pk == zeros32 then "sr25519-zero-key-always-valid" else "")
  | "hecv", [pub, m, sg] =>
    some (bit (hostEcvGo pub m sg), bit (hostEcvRef pub m sg), "ecdsa-verify-ignores-recovery-id")
  | "hecr1", [m, sg] => some (hex (hostRecoverGo false m sg), hex (hostRecoverRef 1 false m sg), "R")
  | "hecr2", [m, sg] => some (hex (hostRecoverGo false m sg), hex (hostRecoverRef 2 false m sg), "R")
  | "hecc1", [m, sg] => some (hex (hostRecoverGo true m sg), hex (hostRecoverRef 1 true m sg), "R")
  | "hecc2", [m, sg] => some (hex (hostRecoverGo true m sg), hex (hostRecoverRef 2 true m sg), "R")
  | _, _ => none

/-- the queueing branch (SignatureVerifier started by hand; dead code in production because
    `ext_crypto_start_batch_verify_version_1` is a no-op): returns 1 once the key parses, the verdict is
    that of the package-level `VerifySignature` -/
def hostQueued (op : String) (args : List Bytes) : Option String :=
  match op, args with
  | "hed", [pk, m, sg] => some s!"1 batch={ed25519VerifyGo pk m sg}"
  | "hsr1", [pk, m, sg] | "hsr2", [pk, m, sg] =>
    if (rDecode pk).isSome then some s!"1 batch={srVerifyGo pk m sg}" else some "0 batch=true"
  | "hecv", [pub, m, sg] =>
    if (skParsePub pub).isSome then some s!"1 batch={hostEcvGo pub m sg}" else some "0 batch=true"
  | _, _ => none

def hostLine (op0 : String) (args : List Bytes) : String :=
  let mode := op0.front
  let op : String := if mode == 'b' || mode == 'q' then String.ofList (op0.toList.drop 1) else op0
  if mode == 'q' then (hostQueued op args).getD "bad-op" else
  match hostCall op args with
  | none => "bad-op"
  | some (model, spec, tag) =>
    if mode == 'b' && (op == "hh" || tag == "R") then "bad-op" else
    let sfx := if mode == 'b' then " finish=1" else ""
    -- recovery: the error variant is missing (tag by cause)
    let tag := if tag == "R" then
        (if spec.startsWith "00" then "ecdsa-recover-v1-overflowing" else "ecdsa-recover-error-untyped") else tag
    if model == spec then model ++ sfx
    else s!"{model}{sfx}\tspec={spec}{sfx}\tkf={tag}"

def step (line : String) : String :=
  match words line with
  | ["h", x] => match ofHex? x with
    | some m => s!"{hex (blake2b8 m)} {hex (blake2b128 m)} {hex (blake2bHash m)} {hex (keccak256 m)} {hex (twox64 m)} {hex (twox128 m)} {hex (twox256 m)} {hex (sha256 m)}"
    | none => "bad-op"
  | ["ed", pk, m, sg] => match ofHex? pk, ofHex? m, ofHex? sg with
    | some pk, some m, some sg =>
      let go := ed25519VerifyGo pk m sg
      let zip := ed25519VerifyZip215 pk m sg
      if go == zip then verdict go else s!"{verdict go}\tspec={verdict zip}\tkf=ed25519-not-zip215"
    | _, _, _ => "bad-op"
  | ["ecv", pb, m, sg] => match ofHex? pb, ofHex? m, ofHex? sg with
    | some pb, some m, some sg => verdict (ecdsaVerify pb m sg)
    | _, _, _ => "bad-op"
  | ["ecr", m, sg] => match ofHex? m, ofHex? sg with
    | some m, some sg => match ecdsaRecover m sg with
      | some q => "04" ++ toHex q
      | none => "err"
    | _, _ => "bad-op"
  | ["ecrc", m, sg] => match ofHex? m, ofHex? sg with
    | some m, some sg => match ecdsaRecover m sg with
      | some q => (if natOfBE (q.drop 32) % 2 == 1 then "03" else "02") ++ toHex (q.take 32)
      | none => "err"
    | _, _ => "bad-op"
  | "mt" :: app :: cl :: n :: rest => match ofHex? app, ofHex? cl, n.toNat?, allHex? rest with
    | some app, some cl, some n, some ps =>
      if n == 0 || n > 4096 || ps.length % 2 ≠ 0 then "bad-op"
      else hex (challengeBytes (appendPairs (newTranscript app) ps) cl n).2
    | _, _, _, _ => "bad-op"
  | ["rd", x] => match ofHex? x with
    | some b => if b.length ≠ 32 then "bad-op" else
      match rDecode b with
      | some q => hex (rEncode q)
      | none => "err"
    | none => "bad-op"
  | ["rv", k] => match k.toNat? with
    | some k => if k > 15 then "bad-op" else
      let e := hex (rEncode (edMul k edB))
      s!"{e} {e}"
    | none => "bad-op"
  | ["sr", pk, m, sg] => match ofHex? pk, ofHex? m, ofHex? sg with
    | some pk, some m, some sg => srLine pk m sg
    | _, _, _ => "bad-op"
  | op :: rest =>
    if (op.startsWith "h" || op.startsWith "bh" || op.startsWith "qh") && !rest.isEmpty then
      match allHex? rest with
      | some args => hostLine op args
      | none => "bad-op"
    else "bad-op"
  | _ => "bad-op"

def main : IO Unit := runDriver step
