import Gossamer.Base.Proto
import Gossamer.Model.C29
open Gossamer Gossamer.C29 Gossamer.HashRef

/- line: `h <hex msg>` → `b8 b128 b256 keccak256 twox64 twox128 twox256 sha256` (hex, space separated) -/
def step (line : String) : String :=
  match words line with
  | ["h", x] => match ofHex? x with
    | some m => s!"{hex (blake2b8 m)} {hex (blake2b128 m)} {hex (blake2bHash m)} {hex (keccak256 m)} {hex (twox64 m)} {hex (twox128 m)} {hex (twox256 m)} {hex (sha256 m)}"
    | none => "bad-op"
  | _ => "bad-op"

def main : IO Unit := runDriver step
