import Gossamer.Base.Proto
import Gossamer.Lib.Blake2b
import Gossamer.Lib.C08Spec
import Gossamer.Lib.C08Host
open Gossamer Gossamer.C08

/- line:   `alpha|op;op;…`  (see harness/C08/c08_test.go for the op language)
   output: observables of the model over the in-memory-trie backend (= the Go code), `;`-joined;
           when the overlay specification gives something else: TAB `spec=<spec observables>` and
           TAB `kf=<tag>` when the op at which model and spec part lies in the region of a known
           finding. -/

def joinS (sep : String) : List String → String
  | [] => ""
  | [a] => a
  | a :: r => a ++ sep ++ joinS sep r

def showOptB : Option Bytes → String
  | none => "nil"
  | some b => hex b

def showMap (es : List (Bytes × Option Bytes)) : String :=
  if es.isEmpty then "empty" else joinS "," (es.map (fun e => hex e.1 ++ "=" ++ showOptB e.2))

partial def showOut : Out → String
  | .ok => "ok"
  | .panic => "panic"
  | .val v => showOptB v
  | .cnt n all => toString n ++ " " ++ (if all then "true" else "false")
  | .keys ks => if ks.isEmpty then "none" else joinS "," (ks.map hex)
  | .ents es => showMap es
  | .dump es kids root =>
    "E=" ++ showMap es ++
      String.join (kids.map (fun k => " C" ++ hex k.1 ++ "=" ++
        (match k.2 with | some m => showMap m | none => "!")))
      ++ " R=" ++ toHex root
  | .many l => joinS "/" (l.map showOut)
  | .const b => hex b
  | .bad => "bad-op"

/-! ### parsing -/

def parseNat? (s : String) : Option Nat :=
  if s.isEmpty then none
  else s.toList.foldl (fun acc c => acc.bind (fun n =>
    if '0' ≤ c ∧ c ≤ '9' then some (n * 10 + (c.toNat - 48)) else none)) (some 0)

def parseVal? (s : String) : Option (Option Bytes) :=
  if s == "nil" then some none else (ofHex? s).map some

def parseOp (x y : UInt8) (sep : Bool) (s : String) : Op :=
  match words s with
  | ["put", k, v] => match ofHex? k, parseVal? v with
    | some k, some v => .put k v
    | _, _ => .bad
  | ["get", k] => match ofHex? k with | some k => .get k | none => .bad
  | ["del", k] => match ofHex? k with | some k => .del k | none => .bad
  | ["clr", p] => match ofHex? p with | some p => .clr p | none => .bad
  | ["clrl", p, n] => match ofHex? p, parseNat? n with
    | some p, some n => if n < 4294967296 then .clrl p n else .bad
    | _, _ => .bad
  | ["next", k] => match ofHex? k with | some k => .next k | none => .bad
  | ["ents"] => .ents
  | ["cput", c, k, v] => match ofHex? c, ofHex? k, parseVal? v with
    | some c, some k, some v => .cput c k v
    | _, _, _ => .bad
  | ["cget", c, k] => match ofHex? c, ofHex? k with
    | some c, some k => .cget c k
    | _, _ => .bad
  | ["cdel", c, k] => match ofHex? c, ofHex? k with
    | some c, some k => .cdel c k
    | _, _ => .bad
  | ["cclr", c, p] => match ofHex? c, ofHex? p with
    | some c, some p => .cclr c p
    | _, _ => .bad
  | ["cclrl", c, p, n] => match ofHex? c, ofHex? p, parseNat? n with
    | some c, some p, some n => if n < 4294967296 then .cclrl c p n else .bad
    | _, _, _ => .bad
  | ["cnext", c, k] => match ofHex? c, ofHex? k with
    | some c, some k => .cnext c k
    | _, _ => .bad
  | ["ckeys", c, p] => match ofHex? c, ofHex? p with
    | some c, some p => .ckeys c p
    | _, _ => .bad
  | ["kill", c] => match ofHex? c with | some c => .kill c | none => .bad
  | ["killl", c, n] => match ofHex? c with
    | some c =>
      if n == "none" then .killl c none
      else match parseNat? n with
        | some n => if n < 4294967296 then .killl c (some n) else .bad
        | none => .bad
    | none => .bad
  | ["croot", c] => match ofHex? c with | some c => .croot c | none => .bad
  | ["start"] => .start
  | ["commit"] => .commit
  | ["rollback"] => .rollback
  | ["snap"] => .snap x y sep
  | ["const"] => .const
  | _ => .bad

def parseLine (line : String) : Option (List Op) :=
  match line.splitOn "|" with
  | [hdr, body] =>
    let go (y : UInt8) (sep : Bool) := some ((body.splitOn ";").map (parseOp 0x61 y sep))
    if hdr == "0" then go 0x71 false
    else if hdr == "1" then go 0x62 false
    else if hdr == "2" then go 0x71 true
    else if hdr == "3" then go 0x62 true
    else none
  | _ => none

/-! ### the three runs -/

def H : Bytes → Bytes := Blake2b.hash256
def Hc : Entries → Bytes := specRoot Ver.v0 H

def memDumper : Dumper Mem where
  kids := fun m =>
    ((sortEnt (Trie.entries m.main)).filter (fun e => Logical.isChildKey e.1)).map (fun e =>
      let ck := e.1.drop childPrefix.length
      (ck, match Mem.getChild m ck with
        | .present c => some (sortEnt (Trie.entries c))
        | _ => none))

def idealDumper : Dumper Logical where
  kids := fun l => l.kids.map (fun e => (e.1, some (e.2.map (fun x => (x.1, some x.2)))))

def runM (ops : List Op) : List String :=
  ((runTS (memBackend H) memDumper Diff.sortedOrder { base := Mem.empty, txs := [] } ops).2).map showOut

def runI (ops : List Op) : List String :=
  ((runTS (idealBackend Hc Hc) idealDumper Diff.sortedOrder
    { base := Logical.empty, txs := [] } ops).2).map showOut

def runS (ops : List Op) : List String :=
  ((specRun Hc Hc { back := Logical.empty, stack := [] } ops).2).map showOut

/-! ### which known finding explains a difference -/

structure Scan where
  m : TS Mem
  i : TS Logical
  s : SS
  mainStrs : List Bytes     -- strings used as main keys so far
  kidStrs : List Bytes      -- strings used as child-trie keys so far

def bM := memBackend H
def bI := idealBackend Hc Hc

/-- logical content of every level of the model over the ideal backend (innermost first) -/
def absI (t : TS Logical) : List Logical :=
  t.txs.map (fun d => (applyToTrie bI t.base d.sortedOrder).getD t.base) ++ [t.base]

def absS (s : SS) : List Logical := s.stack ++ [s.back]

def overlapsRegion (p : Bytes) : Bool := p.isPrefixOf childPrefix || childPrefix.isPrefixOf p

def diffTouchesRegion (d : Diff) : Bool :=
  (KMap.keys d.c.upserts).any Logical.isChildKey || d.c.deletes.any Logical.isChildKey

/-- some child-root entry of the main trie has no object under its hash -/
def hasDangling (m : Mem) : Bool :=
  (Trie.entries m.main).any (fun e =>
    Logical.isChildKey e.1 && !(KMap.has (toHash (e.2.getD [])) m.kids))

def opMainKeys : Op → List Bytes
  | .put k _ => [k]
  | .del k => [k]
  | _ => []

def opKid : Op → List Bytes
  | .cput c _ _ => [c] | .cget c _ => [c] | .cdel c _ => [c] | .cclr c _ => [c]
  | .cclrl c _ _ => [c] | .cnext c _ => [c] | .ckeys c _ => [c] | .kill c => [c]
  | .killl c _ => [c] | .croot c => [c]
  | _ => []

def opHasEmptyKey : Op → Bool
  | .put k _ => k.isEmpty | .del k => k.isEmpty | .get k => k.isEmpty
  | .cput _ k _ => k.isEmpty | .cget _ k => k.isEmpty | .cdel _ k => k.isEmpty
  | _ => false

def backendTag (hdr : String) (sc : Scan) (op : Op) (post : TS Mem) (out : String) : String :=
  let depth0 := sc.m.txs.isEmpty
  let region := match op with
    | .put k _ => Logical.isChildKey k
    | .del k => Logical.isChildKey k
    | .clr p => overlapsRegion p
    | .clrl p _ => overlapsRegion p
    | .commit => (match sc.m.txs with | [d] => diffTouchesRegion d | _ => false)
    | _ => false
  if region then "child-root-key-unprotected"
  else if hasDangling post.base || hasDangling sc.m.base || out == "panic" then
    "child-tries-keyed-by-hash"
  else
    let stale := depth0 && (match op with
      | .cclr _ _ => true | .cclrl _ _ _ => true | .killl _ (some _) => true | _ => false)
    if stale then "child-root-stale-outside-tx"
    else
      let quirk := hdr == "1" || hdr == "3" || opHasEmptyKey op || (match op with
        | .clrl _ _ => depth0 | .cclrl _ _ _ => depth0 | _ => false)
      if quirk then "base-trie-c02" else ""

def tsTag (sc : Scan) (op : Op) (oI oS : Out) : String :=
  let depth0 := sc.i.txs.isEmpty
  let coll := sc.mainStrs.any (fun k => sc.kidStrs.contains k)
  let noKid (c : Bytes) : Bool :=
    (KMap.find c sc.s.top.kids).isNone && (KMap.find c sc.s.back.kids).isNone
  let rootDeleted : Bool := match sc.i.txs with
    | d :: _ => d.c.deletes.any Logical.isChildKey
    | [] => false
  match op, oI, oS with
  | .croot _, _, _ => "child-root-ignores-overlay"
  | .get k, _, _ =>
    if Logical.isChildKey k && rootDeleted then "child-root-key-unprotected"
    else if coll then "deletes-shared-by-main-and-child" else ""
  | .next _, _, _ =>
    if rootDeleted then "child-root-key-unprotected"
    else if coll then "deletes-shared-by-main-and-child" else ""
  | .ents, _, _ =>
    if rootDeleted then "child-root-key-unprotected"
    else if coll then "deletes-shared-by-main-and-child" else ""
  | .clrl _ n, .cnt a _, .cnt b _ =>
    if a == b && depth0 && n == 0 then "limit0-reports-remaining"
    else if coll then "deletes-shared-by-main-and-child"
    else if a == b && !depth0 then "alldeleted-counts-nonmatching"
    else ""
  | .cclrl c _ n, .cnt a _, .cnt b _ =>
    if noKid c && depth0 then "nochild-reports-remaining"
    else if a == b && depth0 && n == 0 then "limit0-reports-remaining"
    else if coll then "deletes-shared-by-main-and-child"
    else if a == b && !depth0 then "alldeleted-counts-nonmatching"
    else ""
  | .killl c _, .cnt _ _, .cnt _ _ =>
    if noKid c then "nochild-reports-remaining"
    else if coll then "deletes-shared-by-main-and-child" else ""
  | .cput c _ _, _, _ =>
    if (match sc.i.txs with | d :: _ => KSet.has c d.c.deletes | [] => false) then
      (if sc.mainStrs.contains c then "deletes-shared-by-main-and-child"
       else "child-recreated-after-kill")
    else if coll then "deletes-shared-by-main-and-child" else ""
  | _, _, _ => if coll then "deletes-shared-by-main-and-child" else ""

/-- the first part of two `snap` outputs that differs, as the read op that produced it -/
def firstDiffRead : List Op → List Out → List Out → Option (Op × Out × Out)
  | op :: r, a :: ra, b :: rb => if showOut a == showOut b then firstDiffRead r ra rb else some (op, a, b)
  | _, _, _ => none

/-- tag of the first op at which the three runs part -/
def findTag (hdr : String) : Scan → List Op → String
  | _, [] => ""
  | sc, op :: r =>
    let xm := stepTS bM memDumper Diff.sortedOrder sc.m op
    let xi := stepTS bI idealDumper Diff.sortedOrder sc.i op
    let xs := specStep Hc Hc sc.s op
    let sc0 : Scan := { sc with mainStrs := opMainKeys op ++ sc.mainStrs, kidStrs := opKid op ++ sc.kidStrs }
    let dumpM := showOut (.dump (bM.entries xm.1.base) (memDumper.kids xm.1.base) (bM.hash xm.1.base))
    let dumpI := showOut (.dump (bI.entries xi.1.base) (idealDumper.kids xi.1.base) (bI.hash xi.1.base))
    if showOut xm.2 != showOut xi.2 || dumpM != dumpI || xm.1.txs != xi.1.txs then
      match op, xm.2, xi.2 with
      | .snap x y sep, .many a, .many b =>
        match firstDiffRead (snapReads x y sep) a b with
        | some (rop, oa, _) => backendTag hdr sc0 rop xm.1 (showOut oa)
        | none => backendTag hdr sc0 op xm.1 (showOut xm.2)
      | _, _, _ => backendTag hdr sc0 op xm.1 (showOut xm.2)
    else if showOut xi.2 != showOut xs.2 then
      match op, xi.2, xs.2 with
      | .snap x y sep, .many a, .many b =>
        match firstDiffRead (snapReads x y sep) a b with
        | some (rop, oa, ob) => tsTag sc0 rop oa ob
        | none => tsTag sc0 op xi.2 xs.2
      | _, _, _ => tsTag sc0 op xi.2 xs.2
    else if absI xi.1 != absS xs.1 then tsTag sc0 op xi.2 xs.2
    else findTag hdr { sc0 with m := xm.1, i := xi.1, s := xs.1 } r

/-! ### host level: the same op language through the storage host functions -/

def parseLim? (s : String) : Option (Option Nat) :=
  if s == "none" then some none
  else match parseNat? s with
    | some n => if n < 4294967296 then some (some n) else none
    | none => none

def parseHOp (x y : UInt8) (sep : Bool) (s : String) : HOp :=
  match words s with
  | ["put", k, v] => match ofHex? k, ofHex? v with
    | some k, some v => .put k v
    | _, _ => .bad
  | ["get", k] => match ofHex? k with | some k => .get k | none => .bad
  | ["has", k] => match ofHex? k with | some k => .has k | none => .bad
  | ["read", k, o, n] => match ofHex? k, parseNat? o, parseNat? n with
    | some k, some o, some n => if n ≤ 8 then .read k o n else .bad
    | _, _, _ => .bad
  | ["del", k] => match ofHex? k with | some k => .del k | none => .bad
  | ["clr", p] => match ofHex? p with | some p => .clr p | none => .bad
  | ["clrl", p, n] => match ofHex? p, parseLim? n with
    | some p, some n => .clrl p n
    | _, _ => .bad
  | ["next", k] => match ofHex? k with | some k => .next k | none => .bad
  | ["root"] => .root
  | ["cput", c, k, v] => match ofHex? c, ofHex? k, ofHex? v with
    | some c, some k, some v => .cput c k v
    | _, _, _ => .bad
  | ["cget", c, k] => match ofHex? c, ofHex? k with
    | some c, some k => .cget c k
    | _, _ => .bad
  | ["chas", c, k] => match ofHex? c, ofHex? k with
    | some c, some k => .chas c k
    | _, _ => .bad
  | ["cdel", c, k] => match ofHex? c, ofHex? k with
    | some c, some k => .cdel c k
    | _, _ => .bad
  | ["cclr", c, p] => match ofHex? c, ofHex? p with
    | some c, some p => .cclr c p
    | _, _ => .bad
  | ["cclrl", c, p, n] => match ofHex? c, ofHex? p, parseLim? n with
    | some c, some p, some n => .cclrl c p n
    | _, _, _ => .bad
  | ["cnext", c, k] => match ofHex? c, ofHex? k with
    | some c, some k => .cnext c k
    | _, _ => .bad
  | ["croot", c] => match ofHex? c with | some c => .croot c | none => .bad
  | ["kill", c] => match ofHex? c with | some c => .kill c | none => .bad
  | ["killl2", c, n] => match ofHex? c, parseLim? n with
    | some c, some n => .killl2 c n
    | _, _ => .bad
  | ["killl", c, n] => match ofHex? c, parseLim? n with
    | some c, some n => .killl3 c n
    | _, _ => .bad
  | ["start"] => .start
  | ["commit"] => .commit
  | ["rollback"] => .rollback
  | ["snap"] => .snap x y sep
  | _ => .bad

def parseHostLine (line : String) : Option (List HOp) :=
  match line.splitOn "|" with
  | [hdr, body] =>
    let go (y : UInt8) (sep : Bool) := some ((body.splitOn ";").map (parseHOp 0x61 y sep))
    if hdr == "h0" then go 0x71 false
    else if hdr == "h1" then go 0x62 false
    else if hdr == "h2" then go 0x71 true
    else if hdr == "h3" then go 0x62 true
    else none
  | _ => none

def showHOut : HOut → String
  | .void => "void"
  | .panic => "panic"
  | .u32 n => "u32:" ++ toString n
  | .bytes b => hex b
  | .ptr0 => "ptr0"
  | .readRes r b => hex r ++ "," ++ hex b
  | .snap o => showOut o
  | .bad => "bad-op"

def hostStepLine (line : String) : String :=
  match parseHostLine line with
  | none => "bad-op"
  | some hops =>
    let m := joinS ";" ((hostRun (tsMach bM memDumper Diff.sortedOrder)
      { base := Mem.empty, txs := [] } hops).2.map showHOut)
    let s := joinS ";" ((hostRun (specMach Hc Hc) { back := Logical.empty, stack := [] } hops).2.map showHOut)
    if m == s then m
    else
      let hdr := String.ofList (((line.splitOn "|").headD "").toList.drop 1)
      let shadow := hops.map (fun h => h.op.getD Op.const)
      let tag := findTag hdr
        { m := { base := Mem.empty, txs := [] }, i := { base := Logical.empty, txs := [] },
          s := { back := Logical.empty, stack := [] }, mainStrs := [], kidStrs := [] } shadow
      m ++ "\tspec=" ++ s ++ (if tag.isEmpty then "" else "\tkf=" ++ tag)

def step (line : String) : String :=
  if line.startsWith "h" then hostStepLine line else
  -- block execution / initialisation run inside a transaction (source check of instance.go)
  if line == "ast ExecuteBlock" || line == "ast InitializeBlock" then "start<exec" else
  match parseLine line with
  | none => "bad-op"
  | some ops =>
    let m := joinS ";" (runM ops)
    let s := joinS ";" (runS ops)
    if m == s then m
    else
      let hdr := (line.splitOn "|").headD ""
      let tag := findTag hdr
        { m := { base := Mem.empty, txs := [] }, i := { base := Logical.empty, txs := [] },
          s := { back := Logical.empty, stack := [] }, mainStrs := [], kidStrs := [] } ops
      m ++ "\tspec=" ++ s ++ (if tag.isEmpty then "" else "\tkf=" ++ tag)

def main : IO Unit := runDriver step
