import Gossamer.Base.Proto
import Gossamer.Lib.Blake2b
import Gossamer.Lib.C08Spec
open Gossamer Gossamer.C08

/- line:   `alpha|op;op;…`  (see harness/C08/c08_test.go for the op language)
   output: observables of the model over the in-memory-trie backend (= the Go code), `;`-joined;
           when the overlay specification gives something else: TAB `spec=<spec observables>` and
           TAB `kf=<tag>` when the op at which model and spec part lies in the region of a known
           finding. -/

def joinS (sep : String) : List String → String
  | [] => ""
  | [a] => a
  | a :: r => a ++ sep ++ joinS sep r

def showOptB : Option Bytes → String
  | none => "nil"
  | some b => hex b

def showMap (es : List (Bytes × Option Bytes)) : String :=
  if es.isEmpty then "empty" else joinS "," (es.map (fun e => hex e.1 ++ "=" ++ showOptB e.2))

partial def showOut : Out → String
  | .ok => "ok"
  | .panic => "panic"
  | .val v => showOptB v
  | .cnt n all => toString n ++ " " ++ (if all then "true" else "false")
  | .keys ks => if ks.isEmpty then "none" else joinS "," (ks.map hex)
  | .ents es => showMap es
  | .dump es kids root =>
    "E=" ++ showMap es ++
      String.join (kids.map (fun k => " C" ++ String.ofList ((toHex k.1).toList.take 8) ++ "=" ++ showMap k.2))
      ++ " R=" ++ toHex root
  | .many l => joinS "/" (l.map showOut)
  | .const b => hex b
  | .bad => "bad-op"

/-! ### parsing -/

def parseNat? (s : String) : Option Nat :=
  if s.isEmpty then none
  else s.toList.foldl (fun acc c => acc.bind (fun n =>
    if '0' ≤ c ∧ c ≤ '9' then some (n * 10 + (c.toNat - 48)) else none)) (some 0)

def parseVal? (s : String) : Option (Option Bytes) :=
  if s == "nil" then some none else (ofHex? s).map some

def parseOp (x y : UInt8) (s : String) : Op :=
  match words s with
  | ["put", k, v] => match ofHex? k, parseVal? v with
    | some k, some v => .put k v
    | _, _ => .bad
  | ["get", k] => match ofHex? k with | some k => .get k | none => .bad
  | ["del", k] => match ofHex? k with | some k => .del k | none => .bad
  | ["clr", p] => match ofHex? p with | some p => .clr p | none => .bad
  | ["clrl", p, n] => match ofHex? p, parseNat? n with
    | some p, some n => if n < 4294967296 then .clrl p n else .bad
    | _, _ => .bad
  | ["next", k] => match ofHex? k with | some k => .next k | none => .bad
  | ["ents"] => .ents
  | ["cput", c, k, v] => match ofHex? c, ofHex? k, parseVal? v with
    | some c, some k, some v => .cput c k v
    | _, _, _ => .bad
  | ["cget", c, k] => match ofHex? c, ofHex? k with
    | some c, some k => .cget c k
    | _, _ => .bad
  | ["cdel", c, k] => match ofHex? c, ofHex? k with
    | some c, some k => .cdel c k
    | _, _ => .bad
  | ["cclr", c, p] => match ofHex? c, ofHex? p with
    | some c, some p => .cclr c p
    | _, _ => .bad
  | ["cclrl", c, p, n] => match ofHex? c, ofHex? p, parseNat? n with
    | some c, some p, some n => if n < 4294967296 then .cclrl c p n else .bad
    | _, _, _ => .bad
  | ["cnext", c, k] => match ofHex? c, ofHex? k with
    | some c, some k => .cnext c k
    | _, _ => .bad
  | ["ckeys", c, p] => match ofHex? c, ofHex? p with
    | some c, some p => .ckeys c p
    | _, _ => .bad
  | ["kill", c] => match ofHex? c with | some c => .kill c | none => .bad
  | ["killl", c, n] => match ofHex? c with
    | some c =>
      if n == "none" then .killl c none
      else match parseNat? n with
        | some n => if n < 4294967296 then .killl c (some n) else .bad
        | none => .bad
    | none => .bad
  | ["croot", c] => match ofHex? c with | some c => .croot c | none => .bad
  | ["start"] => .start
  | ["commit"] => .commit
  | ["rollback"] => .rollback
  | ["snap"] => .snap x y
  | ["const"] => .const
  | _ => .bad

def parseLine (line : String) : Option (List Op) :=
  match line.splitOn "|" with
  | [alpha, body] =>
    if alpha == "0" then some ((body.splitOn ";").map (parseOp 0x61 0x71))
    else if alpha == "1" then some ((body.splitOn ";").map (parseOp 0x61 0x62))
    else none
  | _ => none

/-! ### the three runs -/

def H : Bytes → Bytes := Blake2b.hash256
def Hc : Entries → Bytes := specRoot Ver.v0 H

def memDumper : Dumper Mem where
  kids := fun m => m.kids.map (fun e => (e.1, sortEnt (Trie.entries e.2)))

def idealDumper : Dumper Logical where
  kids := fun l =>
    (l.kids.map (fun e => (Hc e.2, e.2.map (fun x => (x.1, some x.2))))).mergeSort
      (fun a b => !(klt b.1 a.1))

def runM (ops : List Op) : List String :=
  ((runTS (memBackend H) memDumper Diff.sortedOrder { base := Mem.empty, txs := [] } ops).2).map showOut

def runI (ops : List Op) : List String :=
  ((runTS (idealBackend Hc Hc) idealDumper Diff.sortedOrder
    { base := Logical.empty, txs := [] } ops).2).map showOut

def runS (ops : List Op) : List String :=
  ((specRun Hc Hc { back := Logical.empty, stack := [] } ops).2).map showOut

def step (line : String) : String :=
  match parseLine line with
  | none => "bad-op"
  | some ops =>
    let m := joinS ";" (runM ops)
    let s := joinS ";" (runS ops)
    if m == s then m
    else
      let i := joinS ";" (runI ops)
      m ++ "\tspec=" ++ s ++ "\tkf=" ++ (if m == i then "todo-ts" else "todo-backend")

def main : IO Unit := runDriver step
