import Gossamer.Base.Proto
import Gossamer.Lib.Blake2b
import Gossamer.Model.C03
import Gossamer.Lib.C03State
import Gossamer.Lib.C03Child
open Gossamer Gossamer.C03

/- line:   `op;op;…`  (ops: put h k v | del h k | clr h p | clrl h p n | snap h | ver h 0|1 | hash h |
                        hashall | wd h | drop h;  handles `h0`, `h1`, … in creation order)
   output: per op `<result> h0:<entries> h1:<entries> …` (live handles), `;`-joined: the run of the
   heap model.  When the forest-of-independent-tries specification (snap = deep copy) gives something
   else: TAB `spec=<its run>`, and TAB `kf=parent-write-after-snapshot` if some op of the line writes
   through a handle that has a live snapshot (the region excluded by `C03_isolated`).
   A line with an op of the second run's vocabulary (`state fresh store evict tstate gs ents`; the
   generator starts every such line with `state`) belongs to the second run (dot/state `InmemoryStorageState`):
   see `Lib/C03State.lean`; there the known-finding region is a write through a trie state that was
   given to `StoreTrie` (its trie object is the parent of the snapshots `TrieState` hands out). -/
def step (line : String) : String :=
  if C03S.isStateLine line then C03S.step Blake2b.hash256 line else
  if C03C.isChildLine line then C03C.step Blake2b.hash256 line else
  let ops := parseLine line
  let H := Blake2b.hash256
  let guardOK := !violatesGuard H St.init ops
  -- the side condition of the hash clause of `C03_isolated` must hold on every guarded run: if it
  -- ever failed the model output is marked, which the differential run reports as a violation
  let mark := if guardOK && rootsNested H St.init ops then "#roots-nested" else ""
  let m := C02.joinWith ";" (run H false ops) ++ mark
  let s := C02.joinWith ";" (run H true ops)
  if m == s then m
  else m ++ "\tspec=" ++ s ++
    (if !guardOK then "\tkf=parent-write-after-snapshot" else "")

def main : IO Unit := runDriver step
