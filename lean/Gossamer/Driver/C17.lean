import Gossamer.Base.Proto
import Gossamer.Model.C17
open Gossamer Gossamer.C17

/- line:  `op;op;…`  (see harness/C17/c17_test.go)
   output: the outputs of the ops joined by `;` -/

structure DSt where
  st : St
  /-- blocks defined by the line: id ↦ block (id 0 = genesis); model hash = id + 1 -/
  defs : List (Nat × Blk)

def maxID : Nat := 12

def genesisBlk : Blk := { hash := 1, parent := 0, number := 0, sroot := 0 }

def defOf (d : DSt) (id : Nat) : Option Blk :=
  match d.defs.find? (fun p => p.1 = id) with
  | some p => some p.2
  | none => none

def idStr (d : DSt) (h : Nat) : String :=
  match d.defs.find? (fun p => p.2.hash = h) with
  | some p => toString p.1
  | none => "?"

def flag (b : Bool) (c : String) : String := if b then c else "-"

def rangeName : RangeRes → String
  | .ok _ => "ok"
  | .endNotFound => "end"
  | .startNotFound => "start"
  | .startGreater => "greater"
  | .nilBlock => "nil"
  | .notAncestor => "notanc"

def finName : FinRes → String
  | .ok => "ok"
  | .errUnknown => "err-unknown"
  | .errSetID => "err-setid"
  | .errRange r => "err-range-" ++ rangeName r
  | .errMissing => "err-missing"
  | .errHeader => "err-header"

def observe (d : DSt) : String :=
  let st := d.st
  let f := match highestFinalised st with
    | some h => idStr d h
    | none => "err"
  let blocks := d.defs.map fun (id, b) =>
    s!"{id}:" ++ flag (getHeader st b.hash).isSome "H" ++ flag (getHeader st b.hash).isSome "h"
      ++ flag (findB st.dbHdr b.hash).isSome "D" ++ flag (findB st.unfin b.hash).isSome "U"
      ++ flag (st.tries.contains b.sroot) "T" ++ flag (findB st.tree b.hash).isSome "X"
  let nums := match (highestFinalised st).bind (getHeader st) with
    | none => "err"
    | some hd => " ".intercalate ((List.range (hd.number + 1)).map fun n =>
        match hashByNumber st n with
        | some h => idStr d h
        | none => "err")
  s!"F={f} L={idStr d st.root} T={st.tries.length} B[" ++ " ".intercalate blocks ++ "] N[" ++ nums ++ "]"

def insertById (x : Nat × Blk) : List (Nat × Blk) → List (Nat × Blk)
  | [] => [x]
  | y :: ys => if x.1 < y.1 then x :: y :: ys else y :: insertById x ys

def opStep (d : DSt) (f : List String) : DSt × String :=
  match f with
  | ["add", a, b, c] =>
    match a.toNat?, b.toNat?, c.toNat? with
    | some id, some p, some s =>
      if s > 60000 then (d, "bad-op") else
      let dd : Option (DSt × Blk) :=
        match defOf d id with
        | some blk => some (d, blk)
        | none =>
          match defOf d p with
          | none => none
          | some pb =>
            if id < 1 ∨ id > maxID then none
            else
              let blk : Blk := { hash := id + 1, parent := pb.hash, number := pb.number + 1, sroot := s }
              some ({ d with defs := insertById (id, blk) d.defs }, blk)
      match dd with
      | none => (d, "bad-op")
      | some (d', blk) =>
        let (st', r) := addBlock d'.st blk
        ({ d' with st := st' }, match r with
          | .ok => "ok"
          | .errParent => "err-parent"
          | .errExists => "err-exists"
          | .errNumber => "err")
    | _, _, _ => (d, "bad-op")
  | ["fin", a, b, c] =>
    match a.toNat?, b.toNat?, c.toNat? with
    | some id, some r, some s =>
      let h := match defOf d id with
        | some blk => blk.hash
        | none => 1000 + id
      let (st', res) := setFinalised genesisBlk.hash d.st h r s
      let d' := { d with st := st' }
      (d', finName res ++ " " ++ observe d')
    | _, _, _ => (d, "bad-op")
  | ["obs"] => (d, observe d)
  | _ => (d, "bad-op")

def step' (line : String) : String :=
  if line.contains '|' then "bad-op"
  else
    let d0 : DSt := { st := St.init genesisBlk, defs := [(0, genesisBlk)] }
    let (_, outs) := (line.splitOn ";").foldl (fun (acc : DSt × List String) o =>
      let f := words o
      if f.isEmpty then acc
      else
        let (d', out) := opStep acc.1 f
        (d', out :: acc.2)) (d0, [])
    ";".intercalate outs.reverse

def main : IO Unit := runDriver step'
