import Gossamer.Base.Proto
import Gossamer.Model.C30
open Gossamer Gossamer.C30

/- Sequence line: `<maxIn> <maxOut> <ro>|op;op;...` over peers 0..4 with
     ar|rr|ap|rp|in|dc|dcr <peers> ><hint>    sr <peers> <unreserved, in order> ><hint>    sp    so    rep <value> <peers> ><hint>    tk ><hint>    adv <k> <mask>
   (`<peers>`/`<mask>`: digit string or `-`; `<hint>`: the messages the implementation emitted, e.g.
   `C1D2`).  Output: one record per op joined by `;`
     `<msgs>[!] <numIn>,<numOut> r<reserved> n<noSlot> <delta> <inv>`
   then `|<full state>`; `badhint` ends the case when the model cannot emit the hinted messages.
   Single lines: `add a b`, `sub a b`, `tickrep r`, `const NAME`. -/

abbrev NP : Nat := 5

def parseInt? (s : String) : Option Int :=
  match s.toList with
  | '-' :: rest => (String.ofList rest).toNat?.map (fun k => -(Int.ofNat k))
  | _ => s.toNat?.map Int.ofNat

def parsePeer? (c : Char) : Option (Fin NP) :=
  let v := c.toNat - 48
  if h : '0' ≤ c ∧ v < NP then some ⟨v, h.2⟩ else none

def parsePeers? (s : String) : Option (List (Fin NP)) :=
  if s = "-" then some [] else s.toList.mapM parsePeer?

def parseHintChars? : List Char → Option (List (Msg NP))
  | [] => some []
  | [_] => none
  | k :: d :: rest => do
    let p ← parsePeer? d
    let m ← match k with
      | 'C' => some (Msg.connect p)
      | 'D' => some (Msg.drop p)
      | 'A' => some (Msg.accept p)
      | 'R' => some (Msg.reject p)
      | _ => none
    let r ← parseHintChars? rest
    pure (m :: r)

def parseHint? (s : String) : Option (List (Msg NP)) :=
  match s.toList with
  | '>' :: rest => parseHintChars? rest
  | _ => none

def parseOp? (toks : List String) : Option (String × Op NP × List (Msg NP)) :=
  match toks with
  | ["tk", h] => do let hh ← parseHint? h; pure ("tk", Op.tick, hh)
  | ["tk"] => some ("tk", Op.tick, [])
  | ["sp"] => some ("sp", Op.sortedPeers, [])
  | ["so"] => some ("so", Op.setReservedOnly, [])
  | ["sr", ps, ord, h] => do
    let pp ← parsePeers? ps
    let oo ← parsePeers? ord
    let hh ← parseHint? h
    pure ("sr", Op.setReserved pp oo, hh)
  | ["adv", k, m] => do
    let kk ← k.toNat?
    let mm ← parsePeers? m
    pure ("adv", Op.adv kk mm, [])
  | ["rep", v, ps, h] => do
    let vv ← parseInt? v
    let pp ← parsePeers? ps
    let hh ← parseHint? h
    if vv < minI32 ∨ vv > maxI32 then none else pure ("rep", Op.report vv pp, hh)
  | [name, ps, h] => do
    let pp ← parsePeers? ps
    let hh ← parseHint? h
    match name with
    | "ar" => pure (name, Op.addReserved pp, hh)
    | "rr" => pure (name, Op.removeReserved pp, hh)
    | "ap" => pure (name, Op.addPeer pp, hh)
    | "rp" => pure (name, Op.removePeer pp, hh)
    | "in" => pure (name, Op.incoming pp, hh)
    | "dc" => pure (name, Op.disconnect pp, hh)
    | "dcr" => pure (name, Op.disconnectRefused pp, hh)
    | _ => none
  | _ => none

def showMsg : Msg NP → String
  | .connect p => s!"C{p.val}"
  | .drop p => s!"D{p.val}"
  | .accept p => s!"A{p.val}"
  | .reject p => s!"R{p.val}"

def showMsgs (l : List (Msg NP)) : String :=
  if l.isEmpty then "-" else String.join (l.map showMsg)

def descNode (s : PS NP) (p : Fin NP) : String :=
  match s.nodes p with
  | none => "x"
  | some nd =>
    let c := match nd.st with
      | .notMember => "m" | .ingoing => "i" | .outgoing => "o" | .notConnected => "n"
    s!"{c}{nd.rep}"

def digitsOf (f : Fin NP → Bool) : String :=
  String.join ((allPeers NP).filter f |>.map (fun p => toString p.val))

def invFlags (s : PS NP) : String :=
  let nonResBanned := (allPeers NP).any (fun p => !s.reserved p && bannedConnected s p)
  let resBannedConn := (allPeers NP).any (fun p => s.reserved p && bannedConnected s p)
  let fl := (if s.numIn ≤ s.maxIn then "" else "a") ++ (if s.numOut ≤ s.maxOut then "" else "b")
    ++ (if s.numIn = cntIn s then "" else "c") ++ (if s.numOut = cntOut s then "" else "d")
    ++ (if nonResBanned then "e" else "") ++ (if resBannedConn then "f" else "")
  if fl.isEmpty then "ok" else fl

def deltaOf (s0 s1 : PS NP) : String :=
  let ch := (allPeers NP).filter (fun p => descNode s0 p != descNode s1 p)
  if ch.isEmpty then "=" else ",".intercalate (ch.map (fun p => s!"{p.val}{descNode s1 p}"))

def fullState (s : PS NP) : String :=
  ",".intercalate ((allPeers NP).map (descNode s))

/-- same state with the peer-indexed functions tabulated (keeps evaluation time linear in the
    number of ops; extensionally the identity) -/
def normalize (s : PS NP) : PS NP :=
  let nd := ((allPeers NP).map s.nodes).toArray
  let ns := ((allPeers NP).map s.noSlot).toArray
  let rs := ((allPeers NP).map s.reserved).toArray
  let fm := ((allPeers NP).map s.fmask).toArray
  { s with nodes := fun p => nd[p.val]!, noSlot := fun p => ns[p.val]!, reserved := fun p => rs[p.val]!,
           fmask := fun p => fm[p.val]! }

structure DAcc where
  /-- the case drives the real Handler through its API: errors of the methods are not observable -/
  viaHandler : Bool
  s : PS NP
  outs : List String      -- per-op records (model)
  specs : List String     -- per-op records (spec: invariant flags forced to ok)
  firstBad : Option String
  onlySlots : Bool
  stopped : Bool

def runOps (acc : DAcc) : List (String × Op NP × List (Msg NP)) → DAcc
  | [] => acc
  | (name, op, hint) :: rest =>
    let r := step acc.s op hint
    let s1 := normalize r.1
    let msgs := r.2.1
    let isAdv := match op with | .adv _ _ => true | _ => false
    -- setReservedPeer: the peers the line says were unreserved must be the ones the model unreserves
    let srOk := match op with
      | .setReserved _ ord =>
        let removed := (allPeers NP).filter (fun p => acc.s.reserved p && !s1.reserved p)
        removed == (allPeers NP).filter (fun p => decide (p ∈ ord))
      | _ => true
    if !isAdv && (msgs != hint || !srOk) then
      { acc with outs := acc.outs ++ ["badhint"], specs := acc.specs ++ ["badhint"], stopped := true }
    else
      let fl := invFlags s1
      let shown := match op with
        | .sortedPeers => "S" ++ (let l : List (Fin NP) := sortedPeers acc.s; if l.isEmpty then "-" else String.join (l.map (fun (p : Fin NP) => toString p.val)))
        | _ => showMsgs msgs
      let pre := s!"{shown}{if r.2.2 && !acc.viaHandler then "!" else ""} {s1.numIn},{s1.numOut} r{digitsOf s1.reserved} n{digitsOf s1.noSlot} {deltaOf acc.s s1} "
      let bad := fl != "ok"
      let acc' : DAcc :=
        { viaHandler := acc.viaHandler, s := s1, outs := acc.outs ++ [pre ++ fl], specs := acc.specs ++ [pre ++ "ok"],
          firstBad := if bad && acc.firstBad.isNone then some name else acc.firstBad,
          onlySlots := acc.onlySlots && (fl.toList.all (fun c => c == 'a' || c == 'b' || c == 'o' || c == 'k')),
          stopped := false }
      runOps acc' rest

def stepSeq (hdr body : String) : String :=
  let hw := words hdr
  let via := hw.length == 4 && hw.getLast? == some "h"
  match (if via then hw.dropLast else hw) with
  | [a, b, r] =>
    match a.toNat?, b.toNat?, r.toNat? with
    | some mi, some mo, some ro =>
      let opsS := (body.splitOn ";").filter (· ≠ "")
      match opsS.mapM (fun o => parseOp? (words o)) with
      | none => "bad-op"
      | some ops =>
        let acc := runOps { viaHandler := via, s := newPS mi mo (ro != 0), outs := [], specs := [], firstBad := none,
                            onlySlots := true, stopped := false } ops
        let fin := if acc.stopped then "" else "|" ++ fullState acc.s
        let model := ";".intercalate acc.outs ++ fin
        let spec := ";".intercalate acc.specs ++ fin
        if model == spec then model
        else
          let kf := if (acc.firstBad == some "rr" || acc.firstBad == some "sr") && acc.onlySlots
            then "\tkf=unreserve-over-max" else ""
          model ++ "\tspec=" ++ spec ++ kf
    | _, _, _ => "bad-op"
  | _ => "bad-op"

def inRange (v : Int) : Bool := decide (minI32 ≤ v) && decide (v ≤ maxI32)

def step1 (line : String) : String :=
  match line.splitOn "|" with
  | [hdr, body] => stepSeq hdr body
  | _ =>
    match words line with
    | ["add", a, b] =>
      match parseInt? a, parseInt? b with
      | some x, some y =>
        if inRange x && inRange y then
          let r := (add32 (Int32.ofInt x) (Int32.ofInt y)).toInt
          if r = addI x y then toString r else "model-inconsistent"
        else "bad-op"
      | _, _ => "bad-op"
    | ["sub", a, b] =>
      match parseInt? a, parseInt? b with
      | some x, some y =>
        if inRange x && inRange y then
          let r := (sub32 (Int32.ofInt x) (Int32.ofInt y)).toInt
          if r = subI x y then toString r else "model-inconsistent"
        else "bad-op"
      | _, _ => "bad-op"
    | ["tickrep", a] =>
      match parseInt? a with
      | some x =>
        if inRange x then
          let r := (tick32 (Int32.ofInt x)).toInt
          if r = tickI x then toString r else "model-inconsistent"
        else "bad-op"
      | none => "bad-op"
    | ["const", "BannedThresholdValue"] => toString bannedThreshold
    | ["const", "disconnectReputationChange"] => toString disconnectChange
    | ["const", "MinInt32"] => toString minI32
    | ["const", "MaxInt32"] => toString maxI32
    | _ => "bad-op"

def main : IO Unit := runDriver step1
