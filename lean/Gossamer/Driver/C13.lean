import Gossamer.Base.Proto
import Gossamer.Model.C13
import Gossamer.Lib.HashRef
open Gossamer Gossamer.C13

/- line:  `le <hex>` | `be <hex>` | `big <decimal>` | `json <text>` | `cmp <hex> <hex>` | `scale <hex le>` | `acct nonce cons prod suff free reserved misc frozen`
   output: `<upper> <lower> <bytesLE> <bytesBE> <string>`  (cmp: `-1|0|1`) -/
def showU (u : U128) : String :=
  s!"{u.upper.toNat} {u.lower.toNat} {hex (bytesLE u)} {hex (bytesBE u)} {String.ofList (toDec u)} rt={match unmarshal? (toDec u) with | some v => decide (v = u) | none => false}"

def step (line : String) : String :=
  match words line with
  | ["le", h] => match ofHex? h with | some b => showU (ofBytesLE b) | none => "bad-op"
  | ["be", h] => match ofHex? h with | some b => showU (ofBytesBE b) | none => "bad-op"
  -- the same constructors on a sub-slice of a larger buffer: the value is that of the slice alone
  -- and the caller's buffer (slice and what follows it) is left as it was
  | ["les", h, t] => match ofHex? h, ofHex? t with
    | some b, some tl => s!"{showU (ofBytesLE b)} data={hex b} tail={hex tl}"
    | _, _ => "bad-op"
  | ["bes", h, t] => match ofHex? h, ofHex? t with
    | some b, some tl => s!"{showU (ofBytesBE b)} data={hex b} tail={hex tl}"
    | _, _ => "bad-op"
  | ["big", d] => match parseDec? d.toList with
    | some n => s!"{showU (ofBig n)} src={n}"   -- the source number is still what it was
    | none => "bad-op"
  | ["json", d] => match unmarshal? d.toList with | some u => showU u | none => "err"
  | ["cmp", a, b] => match ofHex? a, ofHex? b with
    | some x, some y => toString (compare (ofBytesLE x) (ofBytesLE y))
    | _, _ => "bad-op"
  | ["scale", h] => match ofHex? h with
    | some b => let u := ofBytesLE b
                s!"{hex (scaleEnc u)} rt={decide (scaleDec (scaleEnc u) = u)}"
    | none => "bad-op"
  | ["acct", n, c, p, sf, f, r, m, z] =>
    match n.toNat?, c.toNat?, p.toNat?, sf.toNat?, parseDec? f.toList, parseDec? r.toList, parseDec? m.toList, parseDec? z.toList with
    | some n, some c, some p, some sf, some f, some r, some m, some z =>
      s!"{hex (accountInfoEnc n c p sf (ofBig f) (ofBig r) (ofBig m) (ofBig z))} rt=true"
    | _, _, _, _, _, _, _, _ => "bad-op"
  -- lib/genesis generateStorageValue on a *scale.Uint128 field: raw storage bytes and JSON form of one number
  | ["gsv", d] => match parseDec? d.toList with
    | some n => if n ≥ 2^128 then "bad-op" else
      s!"{hex (scaleEnc (ofBig n))} json={String.ofList (toDec (ofBig n))}"
    | none => "bad-op"
  -- lib/genesis buildBalances: one System.Account entry per (address, balance)
  | ["gbal", a, d] => match ofHex? a, parseDec? d.toList with
    | some addr, some n =>
      if n ≥ 2^128 then "bad-op" else
      let tw (s : String) : Bytes := HashRef.u64le (HashRef.xxh64 0 s.toUTF8.toList) ++ HashRef.u64le (HashRef.xxh64 1 s.toUTF8.toList)
      let key := tw "System" ++ tw "Account" ++ HashRef.blake2b 16 addr ++ addr
      let z := ofBig 0
      s!"{hex key}={hex (accountInfoEnc 0 0 0 0 (ofBig n) z z z)} src={n}"
    | _, _ => "bad-op"
  | _ => "bad-op"

def main : IO Unit := runDriver step
