import Gossamer.Base.Proto
import Gossamer.Lib.Blake2b
import Gossamer.Model.C05
open Gossamer Gossamer.C05

/- line:  `<ver><mode>[h]|op;op;…`   (`h`: host-function run, `ver` observable ok | fail)
   `<ver><mode>|op;op;…`   (ver = 0 | 1; mode z | s | a = behaviour of short reads of the data
   of a byte slice inside pkg/scale: zero-fill, strict, either; hex tokens, `-` = empty)
     put k v        Put on the current trie                                  → `-`
     gen ks         P := Generate(root(trie), ks, db); R := root(trie)        → `ok:<n>:<digest>` | `notfound`
     genx ks        P := P ++ Generate(root(trie), ks, db)  (R unchanged)     → same
     drop i | dup i j | flip i j x | raw h | rawf h | rot n                   → `-`   (edits of P)
     rootx i        R := blake2b(P[i])   (a root chosen by the prover)        → `-`
     ver k v        Verify(P, R, k, v)                                        → ok | notfound | mismatch | …
   ks = comma separated keys, `_` = no key.  Indices are taken modulo the length of P.
   spec= : what the property demands where the (faithful) model deviates from it. -/

def H : Bytes → Bytes := Blake2b.hash256

structure St where
  ver : Ver
  host : Bool             -- `ver` goes through ext_trie_blake2_256_verify_proof_version_1/2: observable ok | fail
  modes : List Bool       -- behaviour(s) of short reads inside pkg/scale assumed by the line (`true` = strict)
  t : Trie
  proof : List Bytes
  pairs : Pairs           -- `pairsOf H proof`, computed when the proof changes
  root : Bytes
  refT : Option Trie      -- the state whose root is `root` (none: root chosen by the prover)
  honest : List Bytes     -- keys whose honest proof nodes are all still in `proof`

def parseKeys (s : String) : Option (List Bytes) :=
  if s = "_" then some [] else (s.splitOn ",").mapM ofHex?

def le4 (n : Nat) : Bytes := leBytes 4 n

def proofDigest (p : List Bytes) : String :=
  toHex ((H (p.flatMap fun e => le4 e.length ++ e)).take 4)

def genOut : Option (List Bytes) → String
  | none => "notfound"
  | some p => s!"ok:{p.length}:{proofDigest p}"

mutual
/-- what a proof for `key` has to contain whether or not the key is present: the root and the
    nodes of 32 bytes or more on the longest path that spells a prefix of the key (and the value
    of the node when it is held by hash) -/
def pathNodes (ver : Ver) : Bool → ETrie → Nibs → List Bytes
  | _, .nil, _ => []
  | isRoot, .leaf enc pk v, key =>
    let me := if isRoot || decide (enc.length ≥ 32) then [enc] else []
    if pk == key then me ++ valueNode ver (some v) else me
  | isRoot, .branch enc pk v kids, key =>
    let me := if isRoot || decide (enc.length ≥ 32) then [enc] else []
    if pk == key then me ++ valueNode ver v
    else if !(pk.isPrefixOf key) then me
    else
      match key.drop pk.length with
      | i :: rest => me ++ pathKid ver kids i.val rest
      | [] => me
def pathKid (ver : Ver) : List ETrie → Nat → Nibs → List Bytes
  | [], _, _ => []
  | c :: _, 0, key => pathNodes ver false c key
  | _ :: cs, i + 1, key => pathKid ver cs i key
end

/-- the proof the property demands for `ks` (present or absent keys): the nodes on each key's path -/
def specProof (ver : Ver) (t : ETrie) (ks : List Bytes) : List Bytes :=
  (ks.foldl (fun st k => dedupInto H st (pathNodes ver true t (Trie.keyLEToNibbles k))) ([], [])).2

def St.setProof (s : St) (p : List Bytes) : St := { s with proof := p, pairs := pairsOf H p }

def setAt {α : Type} (l : List α) (i : Nat) (a : α) : List α := l.take i ++ a :: l.drop (i + 1)

def flipByte (e : Bytes) (j : Nat) (x : UInt8) : Bytes :=
  if e.isEmpty then e else
    let j := j % e.length
    setAt e j (e.getD j 0 ^^^ x)

/-- one op: new state, model output, spec output, finding tag ("" none, "!" = deviation without tag) -/
def stepOp (s : St) (op : String) : St × String × String × String :=
  let same (s' : St) (o : String) := (s', o, o, "")
  let n := s.proof.length
  match words op with
  | ["put", k, v] =>
    match ofHex? k, ofHex? v with
    | some kb, some vb => same { s with t := Trie.put s.t kb vb } "-"
    | _, _ => same s "bad-op"
  | [g, ks] =>
    if g = "gen" || g = "genx" then
      match parseKeys ks with
      | none => same s "bad-op"
      | some keys =>
        let et := annot s.ver H s.t
        let r := generateE s.ver H et keys
        let sp := specProof s.ver et keys
        let mo := genOut r
        let so := genOut (some sp)
        let absent := keys.any fun k => (Trie.lookup s.t (toNibs k)).isNone
        let tag := if mo = so then "" else if absent then "generate-absent" else "!"
        let got := r.getD []
        let s' : St :=
          if g = "gen" then
            { s.setProof got with root := H et.enc, refT := some s.t,
                                  honest := if r.isSome then keys else [] }
          else s.setProof (s.proof ++ got)
        (s', mo, so, tag)
    else if g = "drop" then
      match ks.toNat? with
      | some i => same (if n = 0 then s else { s.setProof (s.proof.eraseIdx (i % n)) with honest := [] }) "-"
      | none => same s "bad-op"
    else if g = "raw" then
      match ofHex? ks with
      | some e => same (s.setProof (s.proof ++ [e])) "-"
      | none => same s "bad-op"
    else if g = "rawf" then
      match ofHex? ks with
      | some e => same (s.setProof (e :: s.proof)) "-"
      | none => same s "bad-op"
    else if g = "rot" then
      match ks.toNat? with
      | some i => same (if n = 0 then s else s.setProof (s.proof.rotateLeft (i % n))) "-"
      | none => same s "bad-op"
    else if g = "rootx" then
      match ks.toNat? with
      | some i =>
        same (if n = 0 then s else { s with root := H (s.proof.getD (i % n) []), refT := none }) "-"
      | none => same s "bad-op"
    else same s "bad-op"
  | ["dup", i, j] =>
    match i.toNat?, j.toNat? with
    | some i, some j =>
      if n = 0 then same s "-"
      else
        let e := s.proof.getD (i % n) []
        let j := j % (n + 1)
        same (s.setProof (s.proof.take j ++ e :: s.proof.drop j)) "-"
    | _, _ => same s "bad-op"
  | ["flip", i, j, x] =>
    match i.toNat?, j.toNat?, ofHex? x with
    | some i, some j, some [xb] =>
      if n = 0 then same s "-"
      else
        let i := i % n
        same { s.setProof (setAt s.proof i (flipByte (s.proof.getD i []) j xb)) with honest := [] } "-"
    | _, _, _ => same s "bad-op"
  | ["ver", k, v] =>
    match ofHex? k, ofHex? v with
    | some kb, some vb =>
      -- host run: i32 1 iff Verify returned nil; the _2 function is used when len(key)+len(value) is
      -- odd and rejects an unknown state version (passed when len(value) % 5 = 4) before verifying
      let badVersion := s.host && (kb.length + vb.length) % 2 == 1 && vb.length % 5 == 4
      let obs (o : String) : String :=
        if !s.host then o
        else if badVersion then "fail"
        else if o = "ok" || o = "panic" then o else "fail"
      let mos := s.modes.map fun strict => verifyP strict s.pairs s.root kb vb
      let mo := mos.headD .panic
      if mos.any (· ≠ mo) then same s "mode-dependent" else
      match s.refT with
      | none => same s (obs mo.str)
      | some r =>
        let truth := Trie.lookup r (toNibs kb)
        if mo = .ok then
          if truth = some vb then same s (obs mo.str)
          else
            match truth with
            | none =>
              (s, obs mo.str, obs "notfound",
                if obs mo.str = obs "notfound" then ""
                else if Trie.emptyKeyHit r (toNibs kb) then "empty-remaining-key" else "!")
            | some _ =>
              (s, obs mo.str, obs "mismatch",
                if obs mo.str = obs "mismatch" then "" else if vb.isEmpty then "empty-claim" else "!")
        else if s.honest.contains kb && truth = some vb && !badVersion then (s, obs mo.str, "ok", "!")
        else same s (obs mo.str)
    | _, _ => same s "bad-op"
  | _ => same s "bad-op"

def runOps (s : St) : List String → List (String × String × String)
  | [] => []
  | op :: r =>
    let (s', m, sp, tag) := stepOp s op
    -- a Go panic ends the sequence
    (m, sp, tag) :: (if m = "panic" then [] else runOps s' r)

def step (line : String) : String :=
  match line.splitOn "|" with
  | [hd, body] =>
    let (hd, host) := if hd.endsWith "h" then (hd.dropRight 1, true) else (hd, false)
    match hd.toList with
    | [v, m] =>
      let modes : List Bool :=
        if m = 'z' then [false] else if m = 's' then [true] else if m = 'a' then [false, true] else []
      if (v ≠ '0' ∧ v ≠ '1') || modes.isEmpty then "bad-op"
      else
        let ver := if v = '1' then Ver.v1 else Ver.v0
        let s0 : St := { ver := ver, host := host, modes := modes, t := Trie.nil, proof := [], pairs := [],
                         root := [], refT := none, honest := [] }
        let outs := runOps s0 (body.splitOn ";")
        let m := ";".intercalate (outs.map (·.1))
        let sp := ";".intercalate (outs.map (·.2.1))
        if m = sp then m
        else
          let tags := (outs.map (·.2.2)).filter (· ≠ "")
          let kf := if tags.contains "!" then "" else tags.headD ""
          m ++ "\tspec=" ++ sp ++ (if kf.isEmpty then "" else "\tkf=" ++ kf)
    | _ => "bad-op"
  | _ => "bad-op"

def main : IO Unit := runDriver step
