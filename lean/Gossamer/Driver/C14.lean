import Gossamer.Base.Proto
import Gossamer.Lib.ChainText
import Gossamer.Lib.Blake2b
import Gossamer.Model.C14
open Gossamer Gossamer.Scale Gossamer.Chain Gossamer.ChainText Gossamer.C14

/- line:   `<kind> <value text>` | `const <name>` | `idx <vdt>` | `prert <babe digest>` |
           `hcache <header>;<number>`
   output: `enc=<hex> rt=ok|rt=err|dec=<text> [hard=ok] [hash=<hex>]` (`hard=ok`: the harness's
   stale-receiver / aliasing / input-mutation checks passed; the model has no such effects), see harness/C14/c14_test.go.
   `spec=` is what the specification demands (reference encoder of Lib/ChainTypes.lean +
   round trip), printed when the model of the Go code differs from it. -/

structure Kind where
  spec : CTy
  go : CTy
  dec : Bool := true
  hash : Bool := false

def kindOf : String → Option Kind
  | "header" => some { spec := header, go := goHeader, hash := true }
  | "digest" => some { spec := digest, go := goDigest }
  | "babepre" => some { spec := babePreDigest, go := babePreDigest }
  | "babecons" => some { spec := babeConsensusDigest, go := babeConsensusDigest }
  | "gpcons" => some { spec := grandpaConsensusDigest, go := grandpaConsensusDigest }
  | "body" => some { spec := body, go := body }
  | "vote" => some { spec := vote, go := vote }
  | "signedvote" => some { spec := signedVote, go := signedVote }
  | "equivproof" => some { spec := equivocationProof, go := equivocationProof }
  | "gpauth" => some { spec := grandpaAuthority, go := grandpaAuthority }
  | "babeauth" => some { spec := babeAuthority, go := babeAuthority }
  | "fullvote" => some { spec := fullVote, go := fullVote }
  | "signedmsg" => some { spec := signedMessage, go := signedMessage }
  | "votemsg" => some { spec := voteMessage, go := voteMessage }
  | "commitmsg" => some { spec := commitMessage, go := commitMessage }
  | "neighbour" => some { spec := versionedNeighbourPacket, go := versionedNeighbourPacket }
  | "catchupreq" => some { spec := catchUpRequest, go := catchUpRequest }
  | "catchupresp" => some { spec := catchUpResponse, go := catchUpResponse }
  | "gmsg" => some { spec := grandpaMessage, go := grandpaMessage }
  | "commit" => some { spec := commit, go := commit }
  | "justification" => some { spec := justification, go := justification }
  | "fgcommit32" => some { spec := fgCommit u32, go := fgCommit u32 }
  | "fgcommit64" => some { spec := fgCommit u64, go := fgCommit u64 }
  | "fgsigned32" => some { spec := fgSignedMessage u32, go := fgSignedMessage u32 }
  | "fgmsg32" => some { spec := fgMessage u32, go := fgMessage u32 }
  | "fgsched32" => some { spec := fgScheduledChange u32, go := fgScheduledChange u32 }
  | "localized" => some { spec := localizedPayload u32, go := localizedPayload u32, dec := false }
  | _ => none

def h256hex (b : Bytes) : String := hex (Blake2b.hash256 b)

def specOut (k : Kind) (e : Bytes) : String :=
  s!"enc={hex e}" ++ (if k.dec then " rt=ok hard=ok" else "") ++ (if k.hash then " hash=" ++ h256hex e else "")

def scaleCase (k : Kind) (text : String) : String :=
  match parseVal k.spec text with
  | none => "bad-op"
  | some v =>
    let se := enc k.spec v
    let so := specOut k se
    if wtc k.go v then
      let e := marshal k.go v
      let rt :=
        if !k.dec then ""
        else match unmarshal k.go e with
          | some (v', _) => (if v' == v then " rt=ok" else " dec=" ++ showVal k.go v') ++ " hard=ok"
          | none => " rt=err"
      let m := s!"enc={hex e}{rt}" ++ (if k.hash then " hash=" ++ h256hex e else "")
      if m == so then m else m ++ "\tspec=" ++ so ++ "\tkf=uint-5to7"
    else
      let d := match unmarshal k.go se with
        | some _ => "ok"
        | none => "err"
      s!"unrep asm={hex se} dec={d}\tspec={so}\tkf=digest-other"

/-! finality-grandpa justification -/

def ancestryNumbers : Val → List Nat
  | .pair _ (.pair _ (.pair (.list hs) _)) =>
    hs.map (fun h => match h with | .pair _ (.pair (.nat n) _) => n | _ => 0)
  | _ => []

def justCase (n : CTy) (bits : Nat) (text : String) : String :=
  let sty := fgJustification n
  match parseVal sty text with
  | none => "bad-op"
  | some v =>
    if (ancestryNumbers v).any (fun x => 2 ^ bits ≤ x) then "unrep"
    else
      let se := enc sty v
      let so := s!"enc={hex se} rt=ok hard=ok"
      if wtc (goFgJustification n) v then
        let e := marshal (goFgJustification n) v
        let rt := match decodeFgJust n e with
          | .ok v' => (if v' == v then " rt=ok" else " dec=" ++ showVal sty v') ++ " hard=ok"
          | .err => " rt=err"
          | .panic => " rt=panic"
        let m := s!"enc={hex e}{rt}"
        if m == so then m else m ++ "\tspec=" ++ so ++ "\tkf=uint-5to7"
      else
        let d := match decodeFgJust n se with
          | .ok _ => "ok"
          | .err => "err"
          | .panic => "panic"
        s!"unrep asm={hex se} dec={d}\tspec={so}\tkf=fg-ancestry-digest"

/-! block request / response -/

def breqTy : CTy :=
  st [("RequestedData", u8), ("StartingBlock", en [(0, "uint", u64), (1, "Hash", h256)]),
      ("Direction", u8), ("Max", .option u32)]

def blockDataTy : CTy :=
  st [("Hash", h256), ("Header", .option goHeader), ("Body", .option (.seq bytes)),
      ("Receipt", .option bytes), ("MessageQueue", .option bytes), ("Justification", .option bytes)]

def brespTy : CTy := st [("BlockData", .seq (.option blockDataTy))]

def natsOfBytes (b : Bytes) : Val := .list (b.map (fun x => .nat x.toNat))

def reqOfVal : Val → Option BlockRequestMessage
  | .pair (.nat rd) (.pair (.variant k x) (.pair (.nat dir) (.pair mx .unit))) =>
    let m : Option (Option Nat) := match mx with
      | .none => some none
      | .some (.nat n) => some (some n)
      | _ => none
    let sb : Option StartingBlock := match k, x with
      | 0, .nat n => some (.number n)
      | 1, .list vs => some (.hash (bytesOfNats vs))
      | _, _ => none
    match m, sb with
    | some m, some sb => some ⟨rd, sb, dir, m⟩
    | _, _ => none
  | _ => none

def valOfReq (m : BlockRequestMessage) : Val :=
  .pair (.nat m.requestedData) (.pair
    (match m.startingBlock with
      | .number n => .variant 0 (.nat n)
      | .hash b => .variant 1 (natsOfBytes b))
    (.pair (.nat m.direction) (.pair
      (match m.max with
        | none => .none
        | some n => .some (.nat n)) .unit)))

def breqCase (text : String) : String :=
  match (parseVal breqTy text).bind reqOfVal with
  | none => "bad-op"
  | some m =>
    let e := m.encode
    match BlockRequestMessage.decode e with
    | none => s!"enc={hex e} rt=err"
    | some m' => (if m' = m then s!"enc={hex e} rt=ok" else s!"enc={hex e} dec={showVal breqTy (valOfReq m')}") ++ " hard=ok"

def optBytesOfVal : Val → Option Bytes
  | .some (.bytes b) => some b
  | _ => none

def blockOfVal : Val → Option BlockDataM
  | .some (.pair (.list h) (.pair hdr (.pair bdy (.pair rc (.pair mq (.pair js .unit)))))) =>
    some { hash := bytesOfNats h
           header := (match hdr with
             | .some v => some v
             | _ => none)
           body := (match bdy with
             | .some (.list es) => some (es.map bytesOfVal)
             | _ => none)
           receipt := optBytesOfVal rc
           messageQueue := optBytesOfVal mq
           justification := optBytesOfVal js }
  | _ => none

def valOfOptBytes : Option Bytes → Val
  | none => .none
  | some b => .some (.bytes b)

def valOfBlock (d : BlockDataM) : Val :=
  .some (.pair (natsOfBytes d.hash) (.pair
    (match d.header with
      | some v => .some v
      | none => .none)
    (.pair
      (match d.body with
        | some es => .some (.list (es.map Val.bytes))
        | none => .none)
      (.pair (valOfOptBytes d.receipt) (.pair (valOfOptBytes d.messageQueue)
        (.pair (valOfOptBytes d.justification) .unit))))))

def showBlocks (ds : List BlockDataM) : String :=
  showVal brespTy (.pair (.list (ds.map valOfBlock)) .unit)

def brespCase (text : String) : String :=
  match parseVal brespTy text with
  | some (.pair (.list bs) .unit) =>
    if !wtc brespTy (.pair (.list bs) .unit) then "unrep"
    else
      match optMapM blockOfVal bs with
      | none => "bad-op"
      | some ds =>
        let e := responseEncode ds
        let want := ds.map BlockDataM.norm
        let so := s!"enc={hex e} " ++ (if showBlocks want == text then "rt=ok" else "dec=" ++ showBlocks want) ++ " hard=ok"
        let m := match responseDecode e with
          | none => s!"enc={hex e} rt=err"
          | some ds' =>
            let t := showBlocks ds'
            (if t == text then s!"enc={hex e} rt=ok" else s!"enc={hex e} dec={t}") ++ " hard=ok"
        if m == so then m else m ++ "\tspec=" ++ so ++ "\tkf=uint-5to7"
  | _ => "bad-op"

/-! header hash cache -/

def setNumber (v : Val) (n : Nat) : Val :=
  match v with
  | .pair ph (.pair _ rest) => .pair ph (.pair (.nat n) rest)
  | _ => v

def hcacheCase (text : String) : String :=
  match text.splitOn ";" with
  | [ht, nt] =>
    match parseVal goHeader ht, (number nt.toList) with
    | some v, some (n, []) =>
      let H := Blake2b.hash256
      let (h1, s1) := (HeaderM.fresh v).hash H
      let v' := setNumber v n
      let (h2, _) := (s1.setFields v').hash H
      let (h3, _) := (HeaderM.fresh v').hash H
      let m := s!"{hex h1} {hex h2} {hex h3}"
      let so := s!"{hex h1} {hex h3} {hex h3}"
      if m == so then m else m ++ "\tspec=" ++ so ++ "\tkf=hash-stale-cache"
    | _, _ => "bad-op"
  | _ => "bad-op"

def prertCase (text : String) : String :=
  match parseVal babePreDigest text with
  | none => "bad-op"
  | some v =>
    let e := marshal babePreDigest v
    "pre=" ++ showVal enginePayload (.pair (natsOfBytes babeEngineID) (.pair (.bytes e) .unit))

def constCase : String → String
  | "BabeEngineID" => hex babeEngineID
  | "GrandpaEngineID" => hex grandpaEngineID
  | "PrimitivesGrandpaEngineID" => hex grandpaEngineID
  | "MaxBlocksInResponse" => toString maxBlocksInResponse
  | "RequestedDataHeader" => toString requestedDataHeader
  | "RequestedDataBody" => toString requestedDataBody
  | "RequestedDataReceipt" => toString requestedDataReceipt
  | "RequestedDataMessageQueue" => toString requestedDataMessageQueue
  | "RequestedDataJustification" => toString requestedDataJustification
  | "BootstrapRequestData" => toString bootstrapRequestData
  | "Ascending" => "0"
  | "Descending" => "1"
  | "FromBlockNumber" => "0"
  | "FromBlockHash" => "1"
  | "prevote" => "0"
  | "precommit" => "1"
  | "primaryProposal" => "2"
  | _ => "bad-op"

def idxCase : String → String
  | "DigestItem" =>
    let m := showTable goDigestItem
    let s := showTable digestItem
    m ++ "\tspec=" ++ s ++ "\tkf=digest-other"
  | "BabeDigest" => showTable babePreDigest
  | "BabeConsensusDigest" => showTable babeConsensusDigest
  | "VersionedNextConfigData" => showTable versionedNextConfigData
  | "GrandpaConsensusDigest" => showTable grandpaConsensusDigest
  | "GrandpaEquivocationEnum" => showTable (en [(0, "PreVote", equivocation), (1, "PreCommit", equivocation)])
  | "grandpaMessage" => showTable grandpaMessage
  | "VersionedNeighbourPacket" => showTable versionedNeighbourPacket
  | "Message" => showTable (fgMessage u32)
  | _ => "bad-op"

def step (line : String) : String :=
  match line.splitOn " " with
  | [kind, text] =>
    match kind with
    | "const" => constCase text
    | "idx" => idxCase text
    | "prert" => prertCase text
    | "hcache" => hcacheCase text
    | "breq" => breqCase text
    | "bresp" => brespCase text
    | "fgjust32" => justCase u32 32 text
    | "fgjust64" => justCase u64 64 text
    | _ =>
      match kindOf kind with
      | some k => scaleCase k text
      | none => "bad-op"
  | _ => "bad-op"

def main : IO Unit := runDriver step
