/-
Base: byte strings, hex, little/big-endian numerals.  Core Lean only.
-/
namespace Gossamer

abbrev Bytes := List UInt8

/-- value of a little-endian digit string -/
def natOfLE : Bytes → Nat
  | [] => 0
  | b :: bs => b.toNat + 256 * natOfLE bs

/-- value of a big-endian digit string (Go `big.Int.SetBytes`) -/
def natOfBE (b : Bytes) : Nat := b.foldl (fun acc x => acc * 256 + x.toNat) 0

/-- `len` little-endian digits of `n` (truncating, like Go `PutUintXX`) -/
def leBytes : Nat → Nat → Bytes
  | 0, _ => []
  | len + 1, n => UInt8.ofNat (n % 256) :: leBytes len (n / 256)

/-- `len` big-endian digits of `n` -/
def beBytes (len n : Nat) : Bytes := (leBytes len n).reverse

/-- minimal little-endian digits of `n` (`[]` for 0) -/
def leMin (n : Nat) : Bytes :=
  if h : n = 0 then [] else UInt8.ofNat (n % 256) :: leMin (n / 256)
termination_by n
decreasing_by omega

def hexDigit (n : Nat) : Char :=
  if n < 10 then Char.ofNat (48 + n) else Char.ofNat (87 + n)

def hexOfByte (b : UInt8) : List Char := [hexDigit (b.toNat / 16), hexDigit (b.toNat % 16)]

def toHex (b : Bytes) : String := String.ofList (b.flatMap hexOfByte)

def hexVal? (c : Char) : Option Nat :=
  if '0' ≤ c ∧ c ≤ '9' then some (c.toNat - 48)
  else if 'a' ≤ c ∧ c ≤ 'f' then some (c.toNat - 87)
  else if 'A' ≤ c ∧ c ≤ 'F' then some (c.toNat - 55)
  else none

def ofHexChars? : List Char → Option Bytes
  | [] => some []
  | [_] => none
  | a :: b :: rest => do
    let x ← hexVal? a
    let y ← hexVal? b
    let r ← ofHexChars? rest
    pure (UInt8.ofNat (x * 16 + y) :: r)

/-- parse hex; the token `-` denotes the empty string -/
def ofHex? (s : String) : Option Bytes :=
  if s = "-" then some [] else ofHexChars? s.toList

/-- print hex; the empty string is `-` so that tokens never vanish -/
def hex (b : Bytes) : String := if b.isEmpty then "-" else toHex b

theorem natOfLE_append (a b : Bytes) : natOfLE (a ++ b) = natOfLE a + 256 ^ a.length * natOfLE b := by
  induction a with
  | nil => simp [natOfLE]
  | cons x xs ih =>
    simp only [List.cons_append, natOfLE, ih, List.length_cons, Nat.pow_succ]
    rw [Nat.mul_add, Nat.add_assoc, ← Nat.mul_assoc, Nat.mul_comm 256 (256 ^ xs.length)]

theorem natOfBE_foldl (acc : Nat) (b : Bytes) :
    b.foldl (fun acc x => acc * 256 + x.toNat) acc = acc * 256 ^ b.length + natOfBE b := by
  induction b generalizing acc with
  | nil => simp [natOfBE]
  | cons x xs ih =>
    simp only [List.foldl_cons, natOfBE, List.length_cons]
    rw [ih, ih (0 * 256 + x.toNat)]
    simp only [Nat.zero_mul, Nat.zero_add, Nat.pow_succ]
    rw [Nat.add_mul, Nat.mul_assoc, Nat.mul_comm 256 (256 ^ xs.length), Nat.add_assoc]

theorem natOfBE_cons (x : UInt8) (xs : Bytes) :
    natOfBE (x :: xs) = x.toNat * 256 ^ xs.length + natOfBE xs := by
  simp only [natOfBE, List.foldl_cons]
  have := natOfBE_foldl (0 * 256 + x.toNat) xs
  simp only [natOfBE] at this
  rw [this]; simp

theorem natOfBE_snoc (b : Bytes) (x : UInt8) : natOfBE (b ++ [x]) = natOfBE b * 256 + x.toNat := by
  simp [natOfBE, List.foldl_append]

theorem natOfBE_reverse (b : Bytes) : natOfBE b.reverse = natOfLE b := by
  induction b with
  | nil => simp [natOfBE, natOfLE]
  | cons x xs ih =>
    rw [List.reverse_cons, natOfBE_snoc, ih, natOfLE]; omega

theorem natOfLE_leBytes (len n : Nat) : natOfLE (leBytes len n) = n % 256 ^ len := by
  induction len generalizing n with
  | zero => simp [leBytes, natOfLE, Nat.mod_one]
  | succ k ih =>
    simp only [leBytes, natOfLE, ih, Nat.pow_succ]
    have : (UInt8.ofNat (n % 256)).toNat = n % 256 := by
      simp [UInt8.toNat_ofNat']
    rw [this, Nat.mul_comm (256 ^ k) 256, Nat.mod_mul]
    
theorem length_leBytes (len n : Nat) : (leBytes len n).length = len := by
  induction len generalizing n with
  | zero => rfl
  | succ k ih => simp [leBytes, ih]

end Gossamer
