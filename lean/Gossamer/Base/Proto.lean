/-
Base: the line protocol shared by every driver.
One case per input line; the driver prints exactly one output line per input line.
-/
import Gossamer.Base.Bytes
namespace Gossamer

partial def driverLoop (h : IO.FS.Stream) (out : IO.FS.Stream) (f : String → String) : IO Unit := do
  let line ← h.getLine
  if line.isEmpty then return ()
  let l := if line.back == '\n' then String.ofList line.toList.dropLast else line
  out.putStrLn (f l)
  driverLoop h out f

/-- run a pure per-line function over stdin -/
def runDriver (f : String → String) : IO Unit := do
  let i ← IO.getStdin
  let o ← IO.getStdout
  driverLoop i o f
  o.flush

def words (s : String) : List String := (s.splitOn " ").filter (· ≠ "")

end Gossamer
