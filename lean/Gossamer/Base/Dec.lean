/- Decimal numerals: printing and parsing, with the round-trip theorem. Core only. -/
import Gossamer.Base.Bytes
namespace Gossamer

def decDigit (d : Nat) : Char := Char.ofNat (48 + d)

/-- most-significant-first decimal digits, accumulator style; `decAux n []` for `n>0` -/
def decAux (n : Nat) (acc : List Char) : List Char :=
  if h : n = 0 then acc else decAux (n / 10) (decDigit (n % 10) :: acc)
termination_by n
decreasing_by omega

/-- decimal rendering as Go's `%d` of a non-negative big.Int -/
def decChars (n : Nat) : List Char := if n = 0 then ['0'] else decAux n []

def decStr (n : Nat) : String := String.ofList (decChars n)

def decVal? (c : Char) : Option Nat :=
  if '0' ≤ c ∧ c ≤ '9' then some (c.toNat - 48) else none

/-- parse a non-empty digit string, left to right -/
def parseDecAux : List Char → Nat → Option Nat
  | [], acc => some acc
  | c :: cs, acc => match decVal? c with
    | some d => parseDecAux cs (acc * 10 + d)
    | none => none

def parseDec? (cs : List Char) : Option Nat :=
  if cs.isEmpty then none else parseDecAux cs 0

theorem decVal_decDigit (d : Nat) (h : d < 10) : decVal? (decDigit d) = some d := by
  have : d = 0 ∨ d = 1 ∨ d = 2 ∨ d = 3 ∨ d = 4 ∨ d = 5 ∨ d = 6 ∨ d = 7 ∨ d = 8 ∨ d = 9 := by omega
  rcases this with h|h|h|h|h|h|h|h|h|h <;> subst h <;> decide

theorem parseDecAux_append (a b : List Char) (acc : Nat) :
    parseDecAux (a ++ b) acc = (parseDecAux a acc).bind (fun x => parseDecAux b x) := by
  induction a generalizing acc with
  | nil => simp [parseDecAux]
  | cons c cs ih =>
    simp only [List.cons_append, parseDecAux]
    cases decVal? c <;> simp [ih]

/-- key lemma: parsing `decAux n acc` from accumulator `p` -/
theorem parse_decAux (n : Nat) (acc : List Char) (p : Nat) :
    parseDecAux (decAux n acc) p =
      parseDecAux acc (p * 10 ^ (decAux n []).length + n) := by
  induction n using Nat.strongRecOn generalizing acc p with
  | _ n ih =>
    unfold decAux
    by_cases h : n = 0
    · simp [h]
    · simp only [h, dite_false]
      have hlt : n / 10 < n := by omega
      rw [ih (n / 10) hlt (decDigit (n % 10) :: acc) p]
      rw [show decAux (n / 10) [decDigit (n % 10)] = decAux (n/10) [] ++ [decDigit (n % 10)] from ?app]
      · simp only [parseDecAux, decVal_decDigit (n % 10) (by omega), List.length_append,
          List.length_cons, List.length_nil, Nat.pow_succ]
        congr 1
        have := Nat.div_add_mod n 10
        rw [Nat.add_mul, Nat.mul_assoc]; omega
      case app =>
        have gen : ∀ (m : Nat) (a b : List Char), decAux m (a ++ b) = decAux m a ++ b := by
          intro m
          induction m using Nat.strongRecOn with
          | _ m ihm =>
            intro a b
            unfold decAux
            by_cases hm : m = 0
            · simp [hm]
            · simp only [hm, dite_false]
              have := ihm (m / 10) (by omega) (decDigit (m % 10) :: a) b
              simpa using this
        simpa using gen (n / 10) [] [decDigit (n % 10)]

theorem parseDec_decChars (n : Nat) : parseDec? (decChars n) = some n := by
  unfold decChars parseDec?
  by_cases h : n = 0
  · subst h; decide
  · simp only [h, if_false]
    have hne : (decAux n []).isEmpty = false := by
      unfold decAux; simp only [h, dite_false]
      have gen : ∀ (m : Nat) (a : List Char), a ≠ [] → decAux m a ≠ [] := by
        intro m
        induction m using Nat.strongRecOn with
        | _ m ihm =>
          intro a ha; unfold decAux
          by_cases hm : m = 0
          · simp [hm, ha]
          · simp only [hm, dite_false]; exact ihm _ (by omega) _ (by simp)
      have := gen (n / 10) [decDigit (n % 10)] (by simp)
      cases hd : decAux (n / 10) [decDigit (n % 10)] with
      | nil => exact absurd hd this
      | cons _ _ => rfl
    rw [hne]; simp only [Bool.false_eq_true, if_false]
    have := parse_decAux n [] 0
    simpa [parseDecAux] using this

end Gossamer
