/-
C27: theory of the abstract state machine `specStep` (Substrate `check_equivocation`) of Model/C27:
step characterisation (`sstep_cases`), the reachable-state invariant `Inv` (provenance of every stored
entry, one entry per signer and slot, start marker bounded by an earlier clock value), exactness,
idempotence, retention, history-level completeness, and the `start ≤ stored slot` partial invariant
with its counterexample.  Core Lean only.
-/
import Gossamer.Model.C27
open Gossamer Gossamer.C27
namespace Gossamer.C27

theorem run_append {σ ι ο : Type} (step : σ → ι → ο × σ) (s : σ) (a b : List ι) :
    run step s (a ++ b) =
      ((run step s a).1 ++ (run step (run step s a).2 b).1, (run step (run step s a).2 b).2) := by
  induction a generalizing s with
  | nil => simp [run]
  | cons i is ih => simp [run, ih]

theorem run_snoc_state {σ ι ο : Type} (step : σ → ι → ο × σ) (s : σ) (a : List ι) (i : ι) :
    (run step s (a ++ [i])).2 = (step (run step s a).2 i).2 := by
  rw [run_append]; simp [run]

theorem snoc_induction {α : Type} {P : List α → Prop} (hnil : P [])
    (hsnoc : ∀ l a, P l → P (l ++ [a])) : ∀ l, P l := by
  have : ∀ l : List α, P l.reverse := by
    intro l
    induction l with
    | nil => exact hnil
    | cons a r ih => rw [List.reverse_cons]; exact hsnoc _ _ ih
  intro l
  have h := this l.reverse
  rwa [List.reverse_reverse] at h

section
variable {H S Hh : Type} [DecidableEq S] [DecidableEq Hh]

/-- the retained window seen by a check: not older than the capacity, not before the start marker -/
def inWindow (st : Spec H S) (o : Op H S) : Prop :=
  o.slotNow - o.slot ≤ 1000 ∧ st.start.getD o.slot ≤ o.slotNow

/-- the state written by a recording check -/
def written (st : Spec H S) (o : Op H S) : Spec H S :=
  let first := st.start.getD o.slot
  let newFirst := if o.slotNow - first ≥ 2000 then o.slotNow - 1000 else first
  { start := some newFirst,
    slots := fun n =>
      if first ≤ n ∧ n < newFirst then []
      else if n = o.slot then st.slots o.slot ++ [(o.header, o.signer)]
      else st.slots n }

theorem sstep_out_of_window (hash : H → Hh) (st : Spec H S) (o : Op H S) (h : ¬ inWindow st o) :
    sstep hash st o = (.none, st) := by
  simp only [inWindow] at h
  simp only [sstep, specStep]
  by_cases h1 : o.slotNow - o.slot > 1000
  · simp [h1]
  · have h2 : o.slotNow < st.start.getD o.slot := by omega
    simp [h1, h2]

theorem sstep_in_window (hash : H → Hh) (st : Spec H S) (o : Op H S) (h : inWindow st o) :
    sstep hash st o =
      match (st.slots o.slot).find? (fun e => e.2 = o.signer) with
      | some (prev, _) =>
        if hash o.header ≠ hash prev then (.proof o.slot o.signer prev o.header, st) else (.none, st)
      | none => (.none, written st o) := by
  obtain ⟨h1, h2⟩ := h
  have h1' : ¬ o.slotNow - o.slot > 1000 := by omega
  have h2' : ¬ o.slotNow < st.start.getD o.slot := by omega
  simp only [sstep, specStep, h1', h2', if_false, written]
  rfl

/-- a recording check never prunes the slot it writes -/
theorem written_slot (st : Spec H S) (o : Op H S) (h : inWindow st o) :
    (written st o).slots o.slot = st.slots o.slot ++ [(o.header, o.signer)] := by
  obtain ⟨h1, h2⟩ := h
  simp only [written]
  generalize st.start.getD o.slot = first at h2
  have : ¬ (first ≤ o.slot ∧ o.slot < if o.slotNow - first ≥ 2000 then o.slotNow - 1000 else first) := by
    split <;> omega
  simp [this]

theorem written_slots_other (st : Spec H S) (o : Op H S) (n : Nat) (hn : n ≠ o.slot) :
    (written st o).slots n = st.slots n ∨ (written st o).slots n = [] := by
  simp only [written]
  generalize (if o.slotNow - st.start.getD o.slot ≥ 2000 then o.slotNow - 1000 else st.start.getD o.slot) = nf
  by_cases h : st.start.getD o.slot ≤ n ∧ n < nf
  · right; simp [h]
  · left; simp [h, hn]

theorem sstep_cases (hash : H → Hh) (st : Spec H S) (o : Op H S) :
    (sstep hash st o).2 = st ∨
    (inWindow st o ∧ (st.slots o.slot).find? (fun e => e.2 = o.signer) = none ∧
      sstep hash st o = (.none, written st o)) := by
  by_cases hw : inWindow st o
  · rw [sstep_in_window hash st o hw]
    cases hf : (st.slots o.slot).find? (fun e => e.2 = o.signer) with
    | some e =>
      left; obtain ⟨prev, ps⟩ := e
      simp only
      split <;> rfl
    | none => right; exact ⟨hw, rfl, rfl⟩
  · left; rw [sstep_out_of_window hash st o hw]

theorem mem_written (st : Spec H S) (o : Op H S) (n : Nat) (e : H × S)
    (h : e ∈ (written st o).slots n) :
    e ∈ st.slots n ∨ (n = o.slot ∧ e = (o.header, o.signer)) := by
  simp only [written] at h
  generalize (if o.slotNow - st.start.getD o.slot ≥ 2000 then o.slotNow - 1000 else st.start.getD o.slot) = nf at h
  by_cases hr : st.start.getD o.slot ≤ n ∧ n < nf
  · simp [hr] at h
  · simp only [hr, if_false] at h
    by_cases hn : n = o.slot
    · subst hn
      simp only [if_true, List.mem_append, List.mem_singleton] at h
      rcases h with h | h
      · left; exact h
      · right; exact ⟨rfl, h⟩
    · simp only [hn, if_false] at h
      left; exact h

/-- the abstract state after a history, from the empty database -/
def sst (hash : H → Hh) (ops : List (Op H S)) : Spec H S := (run (sstep hash) Spec.empty ops).2

theorem sst_snoc (hash : H → Hh) (ops : List (Op H S)) (o : Op H S) :
    sst hash (ops ++ [o]) = (sstep hash (sst hash ops) o).2 := run_snoc_state _ _ _ _

/-- `e` was put into slot `n` by the check `o` that came after the history `p1` -/
def RecordedBy (hash : H → Hh) (p1 : List (Op H S)) (o : Op H S) (n : Nat) (e : H × S) : Prop :=
  o.slot = n ∧ (o.header, o.signer) = e ∧ inWindow (sst hash p1) o ∧
    (sstep hash (sst hash p1) o).1 = .none

structure Inv (hash : H → Hh) (hist : List (Op H S)) : Prop where
  prov : ∀ n e, e ∈ (sst hash hist).slots n →
    ∃ p1 o p2, hist = p1 ++ o :: p2 ∧ RecordedBy hash p1 o n e
  uniq : ∀ n, ((sst hash hist).slots n).Pairwise (fun a b => a.2 ≠ b.2)
  startb : ∀ f, (sst hash hist).start = some f → ∃ o ∈ hist, f ≤ o.slotNow
  empty : (sst hash hist).start = none → ∀ n, (sst hash hist).slots n = []

theorem inv_all (hash : H → Hh) : ∀ hist : List (Op H S), Inv hash hist := by
  apply snoc_induction
  · exact ⟨fun n e h => by simp [sst, run, Spec.empty] at h, fun n => by simp [sst, run, Spec.empty],
      fun f h => by simp [sst, run, Spec.empty] at h, fun _ n => by simp [sst, run, Spec.empty]⟩
  · intro hist o ih
    rcases sstep_cases hash (sst hash hist) o with hsame | ⟨hw, hfind, hwr⟩
    · -- state unchanged
      have hs : sst hash (hist ++ [o]) = sst hash hist := by rw [sst_snoc, hsame]
      refine ⟨?_, ?_, ?_, ?_⟩
      · intro n e h
        rw [hs] at h
        obtain ⟨p1, o', p2, hh, hr⟩ := ih.prov n e h
        exact ⟨p1, o', p2 ++ [o], by simp [hh], hr⟩
      · intro n; rw [hs]; exact ih.uniq n
      · intro f h; rw [hs] at h
        obtain ⟨x, hx, hle⟩ := ih.startb f h
        exact ⟨x, by simp [hx], hle⟩
      · intro h n; rw [hs] at h ⊢; exact ih.empty h n
    · have hs : sst hash (hist ++ [o]) = written (sst hash hist) o := by rw [sst_snoc, hwr]
      refine ⟨?_, ?_, ?_, ?_⟩
      · intro n e h
        rw [hs] at h
        rcases mem_written _ _ _ _ h with h | ⟨hn, he⟩
        · obtain ⟨p1, o', p2, hh, hr⟩ := ih.prov n e h
          exact ⟨p1, o', p2 ++ [o], by simp [hh], hr⟩
        · exact ⟨hist, o, [], rfl, hn.symm, he.symm, hw, by rw [hwr]⟩
      · intro n; rw [hs]
        by_cases hn : n = o.slot
        · subst hn
          rw [written_slot _ _ hw, List.pairwise_append]
          refine ⟨ih.uniq _, by simp, ?_⟩
          intro a ha b hb
          simp only [List.mem_singleton] at hb
          subst hb
          have := List.find?_eq_none.mp hfind a ha
          simpa using this
        · rcases written_slots_other (sst hash hist) o n hn with h | h
          · rw [h]; exact ih.uniq n
          · rw [h]; exact List.Pairwise.nil
      · intro f h; rw [hs] at h
        simp only [written, Option.some.injEq] at h
        obtain ⟨hw1, hw2⟩ := hw
        exact ⟨o, by simp, by rw [← h]; split <;> omega⟩
      · intro h; rw [hs] at h; simp [written] at h


/-- signers are pairwise different within every slot -/
def UniqueSigners (st : Spec H S) : Prop := ∀ n, (st.slots n).Pairwise (fun a b => a.2 ≠ b.2)

theorem find_of_mem_unique {l : List (H × S)} (hu : l.Pairwise (fun a b => a.2 ≠ b.2)) {a : H} {s : S}
    (hm : (a, s) ∈ l) : l.find? (fun e => e.2 = s) = some (a, s) := by
  induction l with
  | nil => simp at hm
  | cons x r ih =>
    rw [List.pairwise_cons] at hu
    simp only [List.mem_cons] at hm
    rcases hm with hm | hm
    · subst hm; simp
    · have : x.2 ≠ s := hu.1 (a, s) hm
      simp [this, ih hu.2 hm]

theorem mem_of_find {l : List (H × S)} {s : S} {e : H × S} (h : l.find? (fun e => e.2 = s) = some e) :
    e ∈ l ∧ e.2 = s := by
  have h1 := List.mem_of_find?_eq_some h
  have h2 := List.find?_some h
  exact ⟨h1, by simpa using h2⟩

/-- shape of every returned proof -/
theorem spec_proof_shape (hash : H → Hh) (st : Spec H S) (o : Op H S) {sl : Nat} {off : S} {a b : H}
    (h : (sstep hash st o).1 = .proof sl off a b) :
    sl = o.slot ∧ off = o.signer ∧ b = o.header ∧ hash a ≠ hash b ∧ inWindow st o ∧
      (a, o.signer) ∈ st.slots o.slot := by
  by_cases hw : inWindow st o
  · rw [sstep_in_window hash st o hw] at h
    cases hf : (st.slots o.slot).find? (fun e => e.2 = o.signer) with
    | none => rw [hf] at h; simp at h
    | some e =>
      obtain ⟨prev, ps⟩ := e
      rw [hf] at h
      simp only at h
      obtain ⟨hm, hs⟩ := mem_of_find hf
      simp only at hs
      subst hs
      by_cases hh : hash o.header = hash prev
      · simp [hh] at h
      · simp only [ne_eq, hh, not_false_eq_true, if_true, Out.proof.injEq] at h
        obtain ⟨r1, r2, r3, r4⟩ := h
        subst r1 r2 r3 r4
        exact ⟨rfl, rfl, rfl, fun x => hh x.symm, hw, hm⟩
  · rw [sstep_out_of_window hash st o hw] at h; simp at h

/-- exactness: a proof is returned exactly when, within the retained window, the signer has a
    different header recorded for the slot -/
theorem spec_exact (hash : H → Hh) (st : Spec H S) (hu : UniqueSigners st) (o : Op H S) (a : H) :
    (sstep hash st o).1 = .proof o.slot o.signer a o.header ↔
      (inWindow st o ∧ (a, o.signer) ∈ st.slots o.slot ∧ hash a ≠ hash o.header) := by
  constructor
  · intro h
    obtain ⟨_, _, _, h4, h5, h6⟩ := spec_proof_shape hash st o h
    exact ⟨h5, h6, h4⟩
  · intro ⟨hw, hm, hh⟩
    rw [sstep_in_window hash st o hw, find_of_mem_unique (hu o.slot) hm]
    have : hash o.header ≠ hash a := fun x => hh x.symm
    simp [this]

/-- re-checking the recorded header gives no proof and changes nothing -/
theorem spec_recheck_recorded (hash : H → Hh) (st : Spec H S) (hu : UniqueSigners st) (o : Op H S)
    (a : H) (hm : (a, o.signer) ∈ st.slots o.slot) (hh : hash a = hash o.header) :
    sstep hash st o = (.none, st) := by
  by_cases hw : inWindow st o
  · rw [sstep_in_window hash st o hw, find_of_mem_unique (hu o.slot) hm]
    simp [hh]
  · exact sstep_out_of_window hash st o hw

/-- a check that returned no proof returns no proof when repeated, and the state stays put -/
theorem spec_idempotent (hash : H → Hh) (st : Spec H S) (o : Op H S)
    (h : (sstep hash st o).1 = .none) :
    sstep hash (sstep hash st o).2 o = (.none, (sstep hash st o).2) := by
  rcases sstep_cases hash st o with hsame | ⟨hw, hfind, hwr⟩
  · rw [hsame]
    have : sstep hash st o = ((sstep hash st o).1, (sstep hash st o).2) := rfl
    rw [this, h, hsame]
  · rw [hwr]
    simp only
    have hw' : inWindow (written st o) o := by
      obtain ⟨h1, h2⟩ := hw
      refine ⟨h1, ?_⟩
      simp only [written, Option.getD_some]
      split <;> omega
    rw [sstep_in_window hash _ o hw', written_slot st o hw]
    have : (st.slots o.slot ++ [(o.header, o.signer)]).find? (fun e => e.2 = o.signer)
        = some (o.header, o.signer) := by
      rw [List.find?_append, hfind]; simp
    rw [this]; simp

/-- an entry survives every check whose current slot is at most 1000 ahead of the entry's slot -/
theorem spec_retained_step (hash : H → Hh) (st : Spec H S) (o : Op H S) (n : Nat) (e : H × S)
    (hm : e ∈ st.slots n) (hnow : o.slotNow ≤ n + 1000) : e ∈ (sstep hash st o).2.slots n := by
  rcases sstep_cases hash st o with hsame | ⟨hw, hfind, hwr⟩
  · rw [hsame]; exact hm
  · rw [hwr]
    by_cases hn : n = o.slot
    · subst hn; rw [written_slot st o hw]; simp [hm]
    · simp only [written]
      have : ¬ (st.start.getD o.slot ≤ n ∧
          n < if o.slotNow - st.start.getD o.slot ≥ 2000 then o.slotNow - 1000 else st.start.getD o.slot) := by
        split <;> omega
      simp [this, hn, hm]

theorem spec_retained (hash : H → Hh) (ops : List (Op H S)) (st : Spec H S) (n : Nat) (e : H × S)
    (hm : e ∈ st.slots n) (hnow : ∀ o ∈ ops, o.slotNow ≤ n + 1000) :
    e ∈ (run (sstep hash) st ops).2.slots n := by
  induction ops generalizing st with
  | nil => exact hm
  | cons o r ih =>
    simp only [run]
    exact ih _ (spec_retained_step hash st o n e hm (hnow o (by simp)))
      (fun x hx => hnow x (by simp [hx]))


theorem uniqueSigners_sst (hash : H → Hh) (hist : List (Op H S)) : UniqueSigners (sst hash hist) :=
  (inv_all hash hist).uniq

theorem sst_append_cons (hash : H → Hh) (p1 p2 : List (Op H S)) (o : Op H S) :
    sst hash (p1 ++ o :: p2) = (run (sstep hash) (sstep hash (sst hash p1) o).2 p2).2 := by
  simp only [sst, run_append, run]

/-- start marker is below the current slot of any check that is not earlier than all previous ones -/
theorem start_le_now (hash : H → Hh) (hist : List (Op H S)) (o : Op H S)
    (hfut : o.slot ≤ o.slotNow) (ht : ∀ x ∈ hist, x.slotNow ≤ o.slotNow) :
    (sst hash hist).start.getD o.slot ≤ o.slotNow := by
  cases h : (sst hash hist).start with
  | none => simpa using hfut
  | some f =>
    obtain ⟨x, hx, hle⟩ := (inv_all hash hist).startb f h
    have := ht x hx
    simp only [Option.getD_some]; omega

/-- history-level completeness: the first in-window check of a (slot, signer) is recorded; as long
    as time has not moved more than 1000 slots past that slot, a later check of the same signer and
    slot with a different header yields the proof carrying both headers -/
theorem spec_complete_history (hash : H → Hh) (p1 p2 : List (Op H S)) (o' o : Op H S)
    (hfirst : ∀ x ∈ p1, ¬ (x.slot = o'.slot ∧ x.signer = o'.signer))
    (hfut : o'.slot ≤ o'.slotNow) (hcap : o'.slotNow - o'.slot ≤ 1000)
    (ht1 : ∀ x ∈ p1, x.slotNow ≤ o'.slotNow)
    (ht2 : ∀ x ∈ p1 ++ o' :: p2, x.slotNow ≤ o.slotNow)
    (hslot : o.slot = o'.slot) (hsig : o.signer = o'.signer)
    (hrecent : o.slotNow ≤ o'.slot + 1000)
    (hh : hash o'.header ≠ hash o.header) :
    (sstep hash (sst hash (p1 ++ o' :: p2)) o).1 = .proof o.slot o.signer o'.header o.header := by
  have hw1 : inWindow (sst hash p1) o' := ⟨hcap, start_le_now hash p1 o' hfut ht1⟩
  have hnone : ((sst hash p1).slots o'.slot).find? (fun e => e.2 = o'.signer) = none := by
    rw [List.find?_eq_none]
    intro e he hs
    obtain ⟨q1, x, q2, hq, hx1, hx2, _⟩ := (inv_all hash p1).prov _ e he
    have hs' : e.2 = o'.signer := by simpa using hs
    apply hfirst x (by rw [hq]; simp)
    refine ⟨hx1, ?_⟩
    rw [← hs', ← hx2]
  have hstep : sstep hash (sst hash p1) o' = (.none, written (sst hash p1) o') := by
    rw [sstep_in_window hash _ o' hw1, hnone]
  have hmem1 : (o'.header, o'.signer) ∈ (sstep hash (sst hash p1) o').2.slots o'.slot := by
    rw [hstep]; simp only; rw [written_slot _ _ hw1]; simp
  have ho'now : o'.slotNow ≤ o.slotNow := ht2 o' (by simp)
  have hmem : (o'.header, o.signer) ∈ (sst hash (p1 ++ o' :: p2)).slots o.slot := by
    rw [sst_append_cons, hslot, hsig]
    apply spec_retained hash p2 _ _ _ hmem1
    intro x hx
    have := ht2 x (by simp [hx])
    omega
  have hw : inWindow (sst hash (p1 ++ o' :: p2)) o := by
    refine ⟨by omega, start_le_now hash _ o (by omega) ht2⟩
  exact (spec_exact hash _ (uniqueSigners_sst hash _) o o'.header).mpr ⟨hw, hmem, hh⟩

/-! ### the `start ≤ stored slot` invariant holds only when no check is below the start marker -/

/-- every check of the history had its slot at or above the start marker of its time -/
def AboveStart (hash : H → Hh) (hist : List (Op H S)) : Prop :=
  ∀ p1 o p2, hist = p1 ++ o :: p2 → ∀ f, (sst hash p1).start = some f → f ≤ o.slot

theorem spec_start_le_stored (hash : H → Hh) : ∀ hist : List (Op H S), AboveStart hash hist →
    ∀ n f, (sst hash hist).slots n ≠ [] → (sst hash hist).start = some f → f ≤ n := by
  apply snoc_induction
  · intro _ n f h; simp [sst, run, Spec.empty] at h
  · intro hist o ih ha n f hne hst
    have ha' : AboveStart hash hist := by
      intro p1 x p2 hh
      exact ha p1 x (p2 ++ [o]) (by simp [hh])
    have hao := ha hist o [] rfl
    rcases sstep_cases hash (sst hash hist) o with hsame | ⟨hw, hfind, hwr⟩
    · have hs : sst hash (hist ++ [o]) = sst hash hist := by rw [sst_snoc, hsame]
      rw [hs] at hne hst
      exact ih ha' n f hne hst
    · have hs : sst hash (hist ++ [o]) = written (sst hash hist) o := by rw [sst_snoc, hwr]
      rw [hs] at hne hst
      obtain ⟨hw1, hw2⟩ := hw
      simp only [written, Option.some.injEq] at hne hst
      -- `first ≤ n`
      have hfn : (sst hash hist).start.getD o.slot ≤ n := by
        cases hstart : (sst hash hist).start with
        | none =>
          have hemp := (inv_all hash hist).empty hstart
          by_cases hn : n = o.slot
          · simp [hn]
          · simp [hn, hemp] at hne
        | some f0 =>
          simp only [Option.getD_some]
          by_cases hn : n = o.slot
          · rw [hn]; exact hao f0 hstart
          · apply ih ha' n f0 _ hstart
            intro hnil
            simp [hn, hnil] at hne
      generalize (sst hash hist).start.getD o.slot = first at hne hst hfn hw2
      rw [← hst]
      by_cases hr : first ≤ n ∧ n < (if o.slotNow - first ≥ 2000 then o.slotNow - 1000 else first)
      · simp [hr] at hne
      · omega

end

/-- without that hypothesis the invariant fails: a check of an older slot (still within the capacity)
    is stored below the start marker, and no later pruning ever removes it -/
theorem spec_start_le_stored_counterexample :
    let hist : List (Op Nat Nat) := [⟨10, 10, 0, 0⟩, ⟨10, 5, 0, 0⟩]
    (sst (fun x : Nat => x) hist).start = some 10 ∧ (sst (fun x : Nat => x) hist).slots 5 ≠ [] := by
  simp [sst, run, sstep, specStep, Spec.empty]

end Gossamer.C27
