import Gossamer.Model.C27
open Gossamer Gossamer.C27
namespace Gossamer.C27

theorem run_append {σ ι ο : Type} (step : σ → ι → ο × σ) (s : σ) (a b : List ι) :
    run step s (a ++ b) =
      ((run step s a).1 ++ (run step (run step s a).2 b).1, (run step (run step s a).2 b).2) := by
  induction a generalizing s with
  | nil => simp [run]
  | cons i is ih => simp [run, ih]

theorem run_snoc_state {σ ι ο : Type} (step : σ → ι → ο × σ) (s : σ) (a : List ι) (i : ι) :
    (run step s (a ++ [i])).2 = (step (run step s a).2 i).2 := by
  rw [run_append]; simp [run]

theorem snoc_induction {α : Type} {P : List α → Prop} (hnil : P [])
    (hsnoc : ∀ l a, P l → P (l ++ [a])) : ∀ l, P l := by
  have : ∀ l : List α, P l.reverse := by
    intro l
    induction l with
    | nil => exact hnil
    | cons a r ih => rw [List.reverse_cons]; exact hsnoc _ _ ih
  intro l
  have h := this l.reverse
  rwa [List.reverse_reverse] at h

section
variable {H S Hh : Type} [DecidableEq S] [DecidableEq Hh]

/-- the retained window seen by a check: not older than the capacity, not before the start marker -/
def inWindow (st : Spec H S) (o : Op H S) : Prop :=
  o.slotNow - o.slot ≤ 1000 ∧ st.start.getD o.slot ≤ o.slotNow

/-- the state written by a recording check -/
def written (st : Spec H S) (o : Op H S) : Spec H S :=
  let first := st.start.getD o.slot
  let newFirst := if o.slotNow - first ≥ 2000 then o.slotNow - 1000 else first
  { start := some newFirst,
    slots := fun n =>
      if first ≤ n ∧ n < newFirst then []
      else if n = o.slot then st.slots o.slot ++ [(o.header, o.signer)]
      else st.slots n }

theorem sstep_out_of_window (hash : H → Hh) (st : Spec H S) (o : Op H S) (h : ¬ inWindow st o) :
    sstep hash st o = (.none, st) := by
  simp only [inWindow] at h
  simp only [sstep, specStep]
  by_cases h1 : o.slotNow - o.slot > 1000
  · simp [h1]
  · have h2 : o.slotNow < st.start.getD o.slot := by omega
    simp [h1, h2]

theorem sstep_in_window (hash : H → Hh) (st : Spec H S) (o : Op H S) (h : inWindow st o) :
    sstep hash st o =
      match (st.slots o.slot).find? (fun e => e.2 = o.signer) with
      | some (prev, _) =>
        if hash o.header ≠ hash prev then (.proof o.slot o.signer prev o.header, st) else (.none, st)
      | none => (.none, written st o) := by
  obtain ⟨h1, h2⟩ := h
  have h1' : ¬ o.slotNow - o.slot > 1000 := by omega
  have h2' : ¬ o.slotNow < st.start.getD o.slot := by omega
  simp only [sstep, specStep, h1', h2', if_false, written]
  rfl

/-- a recording check never prunes the slot it writes -/
theorem written_slot (st : Spec H S) (o : Op H S) (h : inWindow st o) :
    (written st o).slots o.slot = st.slots o.slot ++ [(o.header, o.signer)] := by
  obtain ⟨h1, h2⟩ := h
  simp only [written]
  generalize st.start.getD o.slot = first at h2
  have : ¬ (first ≤ o.slot ∧ o.slot < if o.slotNow - first ≥ 2000 then o.slotNow - 1000 else first) := by
    split <;> omega
  simp [this]

theorem written_slots_other (st : Spec H S) (o : Op H S) (n : Nat) (hn : n ≠ o.slot) :
    (written st o).slots n = st.slots n ∨ (written st o).slots n = [] := by
  simp only [written]
  generalize (if o.slotNow - st.start.getD o.slot ≥ 2000 then o.slotNow - 1000 else st.start.getD o.slot) = nf
  by_cases h : st.start.getD o.slot ≤ n ∧ n < nf
  · right; simp [h]
  · left; simp [h, hn]

end
end Gossamer.C27
