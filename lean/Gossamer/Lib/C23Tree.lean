/-
C23: facts about the static block tree of a case (`par`, `chain`, `num`, `anc`).  Core Lean only.
-/
import Gossamer.Model.C23
namespace Gossamer.C23

/-- a well-formed case tree: the parent of block `i+1` is one of `0..i` -/
def Tree.WF (t : Tree) : Prop := ∀ i (h : i < t.parents.length), t.parents[i] ≤ i

instance (t : Tree) : Decidable t.WF := by unfold Tree.WF; exact inferInstance

theorem par_lt {t : Tree} (wf : t.WF) {b : Nat} (hb : 0 < b) : par t b < b := by
  unfold par
  by_cases h : b - 1 < t.parents.length
  · have hw := wf (b - 1) h
    rw [List.getD_eq_getElem?_getD, List.getElem?_eq_getElem h, Option.getD_some]
    omega
  · rw [List.getD_eq_getElem?_getD, List.getElem?_eq_none (Nat.le_of_not_lt h), Option.getD_none]
    exact hb

theorem up_zero (t : Tree) (f : Nat) : up t f 0 = [0] := by
  cases f <;> simp [up]

theorem up_succ (t : Tree) (f b : Nat) (hb : b ≠ 0) : up t (f + 1) b = b :: up t f (par t b) := by
  simp [up, hb]

/-- more fuel than the block id changes nothing -/
theorem up_fuel {t : Tree} (wf : t.WF) : ∀ (b f : Nat), b ≤ f → up t f b = up t b b := by
  intro b
  induction b using Nat.strongRecOn with
  | _ b ih =>
    intro f hf
    by_cases h0 : b = 0
    · subst h0; rw [up_zero, up_zero]
    · have hlt : par t b < b := par_lt wf (Nat.pos_of_ne_zero h0)
      obtain ⟨f', rfl⟩ : ∃ f', f = f' + 1 := ⟨f - 1, by omega⟩
      obtain ⟨b', hb'⟩ : ∃ b', b = b' + 1 := ⟨b - 1, by omega⟩
      have e2 : up t b b = b :: up t b' (par t b) := by
        rw [hb'] ; rw [up_succ t b' (b' + 1) (by omega)]
      rw [up_succ t f' b h0, e2, ih (par t b) hlt f' (by omega), ih (par t b) hlt b' (by omega)]

theorem chain_zero (t : Tree) : chain t 0 = [0] := rfl

theorem chain_succ {t : Tree} (wf : t.WF) {b : Nat} (hb : 0 < b) : chain t b = b :: chain t (par t b) := by
  have hlt : par t b < b := par_lt wf hb
  obtain ⟨b', hb'⟩ : ∃ b', b = b' + 1 := ⟨b - 1, by omega⟩
  unfold chain
  have e : up t b b = b :: up t b' (par t b) := by
    rw [hb']; rw [up_succ t b' (b' + 1) (by omega)]
  rw [e, up_fuel wf (par t b) b' (by omega)]

theorem anc_iff (t : Tree) (a d : Nat) : anc t a d = true ↔ a ∈ chain t d := by
  simp [anc]

theorem anc_refl {t : Tree} (wf : t.WF) (b : Nat) : anc t b b = true := by
  rw [anc_iff]
  by_cases h : b = 0
  · subst h; simp [chain_zero]
  · rw [chain_succ wf (Nat.pos_of_ne_zero h)]; simp

theorem anc_zero_right {t : Tree} {a : Nat} (h : anc t a 0 = true) : a = 0 := by
  rw [anc_iff, chain_zero] at h; simpa using h

/-- unfolding ancestry at the descendant -/
theorem anc_step {t : Tree} (wf : t.WF) {a d : Nat} (hd : 0 < d) :
    anc t a d = true ↔ a = d ∨ anc t a (par t d) = true := by
  rw [anc_iff, anc_iff, chain_succ wf hd]; simp

theorem anc_le {t : Tree} (wf : t.WF) : ∀ (d a : Nat), anc t a d = true → a ≤ d := by
  intro d
  induction d using Nat.strongRecOn with
  | _ d ih =>
    intro a h
    by_cases hd : d = 0
    · subst hd; rw [anc_zero_right h]; exact Nat.le_refl _
    · have hpos := Nat.pos_of_ne_zero hd
      rcases (anc_step wf hpos).1 h with rfl | h'
      · exact Nat.le_refl _
      · have h1 := ih (par t d) (par_lt wf hpos) a h'
        have h2 : par t d < d := par_lt wf hpos
        omega

theorem anc_antisymm {t : Tree} (wf : t.WF) {a b : Nat} (h1 : anc t a b = true) (h2 : anc t b a = true) : a = b :=
  Nat.le_antisymm (anc_le wf _ _ h1) (anc_le wf _ _ h2)

theorem anc_genesis {t : Tree} (wf : t.WF) : ∀ (d : Nat), anc t 0 d = true := by
  intro d
  induction d using Nat.strongRecOn with
  | _ d ih =>
    by_cases hd : d = 0
    · subst hd; exact anc_refl wf 0
    · have hpos := Nat.pos_of_ne_zero hd
      exact (anc_step wf hpos).2 (Or.inr (ih _ (par_lt wf hpos)))

theorem anc_trans {t : Tree} (wf : t.WF) : ∀ (c a b : Nat), anc t a b = true → anc t b c = true → anc t a c = true := by
  intro c
  induction c using Nat.strongRecOn with
  | _ c ih =>
    intro a b hab hbc
    by_cases hc : c = 0
    · subst hc; have := anc_zero_right hbc; subst this; exact hab
    · have hpos := Nat.pos_of_ne_zero hc
      rcases (anc_step wf hpos).1 hbc with rfl | h'
      · exact hab
      · exact (anc_step wf hpos).2 (Or.inr (ih _ (par_lt wf hpos) a b hab h'))

/-- two ancestors of one block are comparable -/
theorem anc_linear {t : Tree} (wf : t.WF) : ∀ (c a b : Nat), anc t a c = true → anc t b c = true →
    anc t a b = true ∨ anc t b a = true := by
  intro c
  induction c using Nat.strongRecOn with
  | _ c ih =>
    intro a b ha hb
    by_cases hc : c = 0
    · subst hc; rw [anc_zero_right ha, anc_zero_right hb]; exact Or.inl (anc_refl wf 0)
    · have hpos := Nat.pos_of_ne_zero hc
      rcases (anc_step wf hpos).1 ha with rfl | ha'
      · exact Or.inr hb
      · rcases (anc_step wf hpos).1 hb with rfl | hb'
        · exact Or.inl ha
        · exact ih _ (par_lt wf hpos) a b ha' hb'

theorem anc_par {t : Tree} (wf : t.WF) {b : Nat} (hb : 0 < b) : anc t (par t b) b = true :=
  (anc_step wf hb).2 (Or.inr (anc_refl wf _))

theorem num_zero (t : Tree) : num t 0 = 0 := rfl

theorem num_succ {t : Tree} (wf : t.WF) {b : Nat} (hb : 0 < b) : num t b = num t (par t b) + 1 := by
  unfold num
  rw [chain_succ wf hb]
  have : 0 < (chain t (par t b)).length := by
    unfold chain
    cases h : par t b <;> simp [up]
  simp only [List.length_cons]
  omega

theorem num_le_of_anc {t : Tree} (wf : t.WF) : ∀ (d a : Nat), anc t a d = true → num t a ≤ num t d := by
  intro d
  induction d using Nat.strongRecOn with
  | _ d ih =>
    intro a h
    by_cases hd : d = 0
    · subst hd; rw [anc_zero_right h]; exact Nat.le_refl _
    · have hpos := Nat.pos_of_ne_zero hd
      rcases (anc_step wf hpos).1 h with rfl | h'
      · exact Nat.le_refl _
      · have h1 := ih _ (par_lt wf hpos) a h'
        rw [num_succ wf hpos]; omega

theorem num_lt_of_anc_ne {t : Tree} (wf : t.WF) {a d : Nat} (h : anc t a d = true) (hne : a ≠ d) :
    num t a < num t d := by
  have hd : d ≠ 0 := by
    intro h0; subst h0; exact hne (anc_zero_right h)
  have hpos := Nat.pos_of_ne_zero hd
  rcases (anc_step wf hpos).1 h with rfl | h'
  · exact absurd rfl hne
  · have h1 := num_le_of_anc wf _ _ h'
    rw [num_succ wf hpos]; omega

/-- equal numbers on one chain: the same block -/
theorem anc_num_eq {t : Tree} (wf : t.WF) {a d : Nat} (h : anc t a d = true) (hn : num t d ≤ num t a) : a = d := by
  by_cases hne : a = d
  · exact hne
  · have h1 := num_lt_of_anc_ne wf h hne; omega

/-- a strict ancestor is an ancestor of the parent -/
theorem anc_par_of_ne {t : Tree} (wf : t.WF) {a d : Nat} (h : anc t a d = true) (hne : a ≠ d) :
    anc t a (par t d) = true := by
  have hd : d ≠ 0 := by
    intro h0; subst h0; exact hne (anc_zero_right h)
  rcases (anc_step wf (Nat.pos_of_ne_zero hd)).1 h with rfl | h'
  · exact absurd rfl hne
  · exact h'

end Gossamer.C23
