/-
C08: committing the outermost transaction = applying the operations directly (on the fragment of
`C08Refine`): first for the specification, then transferred to the model by the simulation.
-/
import Gossamer.Lib.C08SimStep
import Gossamer.Lib.C08Rollback
set_option linter.unusedSectionVars false
set_option linter.unusedSimpArgs false
namespace Gossamer.C08
open Gossamer

/-- the transactional key-value fragment (no child-trie deletion, no prefix clears, no ordered reads) -/
def OpOK0 (CK : Bytes → Bool) : Op → Prop
  | .put k _ => Logical.isChildKey k = false ∧ CK k = false
  | .del k => Logical.isChildKey k = false ∧ CK k = false
  | .get k => Logical.isChildKey k = false ∧ CK k = false
  | .cput c _ _ => CK c = true
  | .cdel c _ => CK c = true
  | .cget c _ => CK c = true
  | .start => True
  | .commit => True
  | .rollback => True
  | _ => False

theorem ok0_ok {CK : Bytes → Bool} {op : Op} (h : OpOK0 CK op) : OpOK CK op := by
  cases op <;> simp only [OpOK0] at h <;> first | exact h | exact absurd h id

/-- no child-trie key is marked deleted in any open transaction -/
def NoCKDel (CK : Bytes → Bool) (t : TS Logical) : Prop :=
  ∀ d ∈ t.txs, ∀ k ∈ d.c.deletes, CK k = false

section safe
variable (Hc Hm : Entries → Bytes) (D : Dumper Logical) {CK : Bytes → Bool}

theorem step_noCK (t : TS Logical) (op : Op) (hop : OpOK0 CK op) (h : NoCKDel CK t) :
    NoCKDel CK (stepTS (idealBackend Hc Hm) D Diff.sortedOrder t op).1 := by
  obtain ⟨b, txs⟩ := t
  cases txs with
  | nil =>
    cases op <;> simp only [OpOK0] at hop <;> try (exact absurd hop id)
    all_goals simp only [stepTS, putTS, deleteTS, setChildStorageTS, clearChildStorageTS, startTS,
      commitTS, rollbackTS, readOp, idealBackend]
    all_goals first
      | exact h
      | (intro d hd; simp at hd; done)
      | (intro d hd k hk
         simp only [List.head?_nil, Option.getD_none, List.mem_singleton] at hd
         subst hd
         simp [Diff.empty, CDiff.empty] at hk)
  | cons d r =>
    have hd := h d (by simp)
    have hr : ∀ x ∈ r, ∀ k ∈ x.c.deletes, CK k = false := fun x hx => h x (by simp [hx])
    have hcons : ∀ d', (∀ k ∈ d'.c.deletes, CK k = false) →
        NoCKDel CK ({ base := b, txs := d' :: r } : TS Logical) := by
      intro d' hd' x hx
      rcases List.mem_cons.mp hx with hx | hx
      · subst hx; exact hd'
      · exact hr x hx
    cases op <;> simp only [OpOK0] at hop <;> try (exact absurd hop id)
    all_goals simp only [stepTS, putTS, deleteTS, setChildStorageTS, clearChildStorageTS, startTS,
      commitTS, rollbackTS, readOp]
    · -- put
      apply hcons
      intro k hk
      simp only [Diff.upsert, CDiff.upsert] at hk
      exact hd k ((KSet.mem_del _ _ _).mp hk).2
    · exact h
    · -- del
      apply hcons
      intro k hk
      simp only [Diff.delete, CDiff.delete] at hk
      rcases (KSet.mem_ins _ _ _).mp hk with hk | hk
      · rw [hk]; exact hop.2
      · exact hd k hk
    · -- cput
      apply hcons
      intro k hk
      simp only [Diff.upsertChild] at hk
      exact hd k ((KSet.mem_del _ _ _).mp hk).2
    · exact h
    · -- cdel
      apply hcons
      intro k hk
      exact hd k hk
    · -- start
      simp only [List.head?_cons, Option.getD_some]
      intro x hx
      rcases List.mem_cons.mp hx with hx | hx
      · subst hx; exact hd
      · exact h x hx
    · -- commit
      cases r with
      | nil =>
        simp only []
        split <;> (intro x hx; simp at hx)
      | cons u r' =>
        intro x hx
        rcases List.mem_cons.mp hx with hx | hx
        · subst hx; exact hd
        · exact hr x (by simp [hx])
    · exact hr

theorem safe_of_ok0 (ops : List Op) (hops : ∀ op ∈ ops, OpOK0 CK op) :
    ∀ (t : TS Logical), NoCKDel CK t → SafeRun Hc Hm D CK t ops := by
  induction ops with
  | nil => intro t _; trivial
  | cons op r ih =>
    intro t ht
    have hop := hops op (by simp)
    refine ⟨⟨ok0_ok hop, ?_⟩, ih (fun x hx => hops x (by simp [hx])) _ (step_noCK Hc Hm D t op hop ht)⟩
    cases op <;> try trivial
    rename_i c k v
    cases htx : t.txs with
    | nil => trivial
    | cons d r' =>
      simp only
      intro hmem
      have := ht d (by rw [htx]; simp) c hmem
      simp only [OpOK0] at hop
      rw [hop] at this; cases this

end safe

section spec
variable (Hc Hm : Entries → Bytes) {CK : Bytes → Bool}

/-- On the fragment, an operation that is not start/commit/rollback reads and writes only the
    current storage: two specification states with the same current storage give the same
    observable and the same new current storage, and keep their stack shape. -/
theorem spec_plain (s s' : SS) (h : s.top = s'.top) (op : Op) (hop : OpOK0 CK op)
    (hp : isTx op = false) :
    (specStep Hc Hm s op).2 = (specStep Hc Hm s' op).2 ∧
      (specStep Hc Hm s op).1.top = (specStep Hc Hm s' op).1.top ∧
      (specStep Hc Hm s op).1.stack.length = s.stack.length ∧
      (specStep Hc Hm s' op).1.stack.length = s'.stack.length := by
  have top_setTop : ∀ (x : SS) (l : Logical), (x.setTop l).top = l := by
    intro x l
    unfold SS.setTop SS.top
    cases x.stack <;> rfl
  have len_setTop : ∀ (x : SS) (l : Logical), (x.setTop l).stack.length = x.stack.length := by
    intro x l
    unfold SS.setTop
    cases x.stack <;> rfl
  cases op <;> simp only [OpOK0] at hop <;> try (exact absurd hop id)
  all_goals try (simp [isTx] at hp; done)
  · -- put
    simp only [specStep, hop.1, Bool.false_eq_true, if_false, top_setTop, len_setTop, h]
    refine ⟨?_, ?_, ?_, ?_⟩ <;> first | trivial | rfl | exact h
  · -- get
    rename_i k
    simp only [specStep, specRead]
    rw [mainView_get Hc s k hop.1, mainView_get Hc s' k hop.1, h]
    refine ⟨?_, ?_, ?_, ?_⟩ <;> first | trivial | rfl | exact h
  · -- del
    simp only [specStep, hop.1, Bool.false_eq_true, if_false, top_setTop, len_setTop, h]
    refine ⟨?_, ?_, ?_, ?_⟩ <;> first | trivial | rfl | exact h
  · -- cput
    simp only [specStep, top_setTop, len_setTop, h]
    refine ⟨?_, ?_, ?_, ?_⟩ <;> first | trivial | rfl | exact h
  · -- cget
    simp only [specStep, specRead, h]
    refine ⟨?_, ?_, ?_, ?_⟩ <;> first | trivial | rfl | exact h
  · -- cdel
    simp only [specStep, top_setTop, len_setTop, h]
    refine ⟨?_, ?_, ?_, ?_⟩ <;> first | trivial | rfl | exact h

/-- plain runs from states with the same current storage -/
theorem spec_plain_run (xs : List Op) (hops : ∀ op ∈ xs, OpOK0 CK op)
    (hp : ∀ op ∈ xs, isTx op = false) :
    ∀ (s s' : SS), s.top = s'.top →
      (specRun Hc Hm s xs).2 = (specRun Hc Hm s' xs).2 ∧
      (specRun Hc Hm s xs).1.top = (specRun Hc Hm s' xs).1.top ∧
      (specRun Hc Hm s xs).1.stack.length = s.stack.length ∧
      (specRun Hc Hm s' xs).1.stack.length = s'.stack.length := by
  induction xs with
  | nil => intro s s' h; exact ⟨rfl, h, rfl, rfl⟩
  | cons op r ih =>
    intro s s' h
    obtain ⟨h1, h2, h3, h4⟩ := spec_plain Hc Hm s s' h op (hops op (by simp)) (hp op (by simp))
    obtain ⟨g1, g2, g3, g4⟩ := ih (fun x hx => hops x (by simp [hx])) (fun x hx => hp x (by simp [hx]))
      _ _ h2
    simp only [specRun]
    exact ⟨by rw [h1, g1], g2, by rw [g3, h3], by rw [g4, h4]⟩

theorem specRun_append (s : SS) (l1 l2 : List Op) :
    (specRun Hc Hm s (l1 ++ l2)).1 = (specRun Hc Hm (specRun Hc Hm s l1).1 l2).1 := by
  induction l1 generalizing s with
  | nil => rfl
  | cons o r ih => simp only [List.cons_append, specRun]; exact ih _

/-- specification: with no transaction open, `start ++ xs ++ commit` leaves the committed state
    that `xs` alone leaves -/
theorem spec_commit_direct (b : Logical) (xs : List Op) (hops : ∀ op ∈ xs, OpOK0 CK op)
    (hp : ∀ op ∈ xs, isTx op = false) :
    (specRun Hc Hm { back := b, stack := [] } ([Op.start] ++ xs ++ [Op.commit])).1 =
      (specRun Hc Hm { back := b, stack := [] } xs).1 := by
  rw [specRun_append, specRun_append]
  have hs : (specRun Hc Hm { back := b, stack := [] } [Op.start]).1 = { back := b, stack := [b] } := rfl
  rw [hs]
  obtain ⟨_, g2, g3, g4⟩ := spec_plain_run Hc Hm xs hops hp { back := b, stack := [b] }
    { back := b, stack := [] } rfl
  generalize specRun Hc Hm { back := b, stack := [b] } xs = ra at g2 g3
  generalize specRun Hc Hm { back := b, stack := [] } xs = rb at g2 g4
  obtain ⟨⟨ab, as⟩, _⟩ := ra
  obtain ⟨⟨bb, bs⟩, _⟩ := rb
  simp only [List.length_cons, List.length_nil] at g3 g4
  match as, g3 with
  | [l], _ =>
    match bs, g4 with
    | [], _ =>
      simp only [SS.top, List.head?_cons, Option.getD_some, List.head?_nil, Option.getD_none] at g2
      simp only [specRun, specStep]
      rw [g2]

end spec

section model
variable (Hc Hm : Entries → Bytes) (D : Dumper Logical) {CK : Bytes → Bool}

theorem runTS_append {β τ : Type} (B : Backend β τ) (D : Dumper β) (ord : Diff → ApplyOrder)
    (a : TS β) (l1 l2 : List Op) :
    (runTS B D ord a (l1 ++ l2)).1 = (runTS B D ord (runTS B D ord a l1).1 l2).1 := by
  induction l1 generalizing a with
  | nil => rfl
  | cons o r ih => simp only [List.cons_append, runTS]; exact ih _

/-- model over the ideal trie: from any state reached on the fragment with no transaction open,
    `start ++ xs ++ commit` leaves exactly the state that `xs` applied directly leaves -/
theorem commit_direct {t : TS Logical} {s : SS} (h : Sim CK t s) (hd0 : t.txs = [])
    (xs : List Op) (hops : ∀ op ∈ xs, OpOK0 CK op) (hp : ∀ op ∈ xs, isTx op = false) :
    (runTS (idealBackend Hc Hm) D Diff.sortedOrder t ([Op.start] ++ xs ++ [Op.commit])).1 =
      (runTS (idealBackend Hc Hm) D Diff.sortedOrder t xs).1 := by
  have hall : ∀ op ∈ [Op.start] ++ xs ++ [Op.commit], OpOK0 CK op := by
    intro op hop
    simp only [List.mem_append, List.mem_singleton] at hop
    rcases hop with (rfl | hop) | rfl
    · trivial
    · exact hops op hop
    · trivial
  have hno : NoCKDel CK t := by intro d hd; rw [hd0] at hd; simp at hd
  have h1 := (sim_run Hc Hm D h _ (safe_of_ok0 Hc Hm D _ hall t hno)).1
  have h2 := (sim_run Hc Hm D h _ (safe_of_ok0 Hc Hm D _ hops t hno)).1
  have hs : s = { back := t.base, stack := [] } := by
    obtain ⟨sb, ss⟩ := s
    have e1 := h.back
    have e2 := h.stack
    simp only [hd0, List.map_nil] at e1 e2
    rw [e1, e2]
  rw [hs, spec_commit_direct Hc Hm t.base xs hops hp] at h1
  generalize runTS (idealBackend Hc Hm) D Diff.sortedOrder t ([Op.start] ++ xs ++ [Op.commit]) = ra at h1
  generalize runTS (idealBackend Hc Hm) D Diff.sortedOrder t xs = rb at h2
  rw [hs] at h2
  have hz : (specRun Hc Hm { back := t.base, stack := [] } xs).1.stack.length = 0 := by
    have := (spec_plain_run Hc Hm xs hops hp { back := t.base, stack := [] }
      { back := t.base, stack := [] } rfl).2.2.1
    simpa using this
  generalize specRun Hc Hm { back := t.base, stack := [] } xs = rs at h1 h2 hz
  obtain ⟨⟨ab, at_⟩, _⟩ := ra
  obtain ⟨⟨bb, bt⟩, _⟩ := rb
  have e1 := h1.back
  have e2 := h2.back
  have e3 := h1.stack
  have e4 := h2.stack
  simp only at e1 e2 e3 e4
  have hb : ab = bb := e1.symm.trans e2
  subst hb
  have hl : at_.length = bt.length := by
    have := congrArg List.length (e3.symm.trans e4)
    simpa using this
  -- at depth 0 both stacks of diffs are empty
  have ha : at_ = [] := by
    have := congrArg List.length e3
    rw [hz] at this
    simpa using this.symm
  have hbt : bt = [] := by
    have := congrArg List.length e4
    rw [hz] at this
    simpa using this.symm
  rw [ha, hbt]

end model

end Gossamer.C08
