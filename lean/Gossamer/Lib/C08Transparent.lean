/-
C08: committing the outermost transaction = applying the operations directly (on the fragment of
`C08Refine`): first for the specification, then transferred to the model by the simulation.
-/
import Gossamer.Lib.C08SimStep
import Gossamer.Lib.C08Rollback
set_option linter.unusedSectionVars false
set_option linter.unusedSimpArgs false
namespace Gossamer.C08
open Gossamer

section spec
variable (Hc Hm : Entries → Bytes) {CK : Bytes → Bool}

/-- On the fragment, an operation that is not start/commit/rollback reads and writes only the
    current storage: two specification states with the same current storage give the same
    observable and the same new current storage, and keep their stack shape. -/
theorem spec_plain (s s' : SS) (h : s.top = s'.top) (op : Op) (hop : OpOK CK op)
    (hp : isTx op = false) :
    (specStep Hc Hm s op).2 = (specStep Hc Hm s' op).2 ∧
      (specStep Hc Hm s op).1.top = (specStep Hc Hm s' op).1.top ∧
      (specStep Hc Hm s op).1.stack.length = s.stack.length ∧
      (specStep Hc Hm s' op).1.stack.length = s'.stack.length := by
  have top_setTop : ∀ (x : SS) (l : Logical), (x.setTop l).top = l := by
    intro x l
    unfold SS.setTop SS.top
    cases x.stack <;> rfl
  have len_setTop : ∀ (x : SS) (l : Logical), (x.setTop l).stack.length = x.stack.length := by
    intro x l
    unfold SS.setTop
    cases x.stack <;> rfl
  cases op <;> simp only [OpOK] at hop <;> try (exact absurd hop id)
  all_goals try (simp [isTx] at hp; done)
  · -- put
    simp only [specStep, hop.1, Bool.false_eq_true, if_false, top_setTop, len_setTop, h]
    refine ⟨?_, ?_, ?_, ?_⟩ <;> first | trivial | rfl | exact h
  · -- get
    rename_i k
    simp only [specStep, specRead]
    rw [mainView_get Hc s k hop.1, mainView_get Hc s' k hop.1, h]
    refine ⟨?_, ?_, ?_, ?_⟩ <;> first | trivial | rfl | exact h
  · -- del
    simp only [specStep, hop.1, Bool.false_eq_true, if_false, top_setTop, len_setTop, h]
    refine ⟨?_, ?_, ?_, ?_⟩ <;> first | trivial | rfl | exact h
  · -- cput
    simp only [specStep, top_setTop, len_setTop, h]
    refine ⟨?_, ?_, ?_, ?_⟩ <;> first | trivial | rfl | exact h
  · -- cget
    simp only [specStep, specRead, h]
    refine ⟨?_, ?_, ?_, ?_⟩ <;> first | trivial | rfl | exact h
  · -- cdel
    simp only [specStep, top_setTop, len_setTop, h]
    refine ⟨?_, ?_, ?_, ?_⟩ <;> first | trivial | rfl | exact h

/-- plain runs from states with the same current storage -/
theorem spec_plain_run (xs : List Op) (hops : ∀ op ∈ xs, OpOK CK op)
    (hp : ∀ op ∈ xs, isTx op = false) :
    ∀ (s s' : SS), s.top = s'.top →
      (specRun Hc Hm s xs).2 = (specRun Hc Hm s' xs).2 ∧
      (specRun Hc Hm s xs).1.top = (specRun Hc Hm s' xs).1.top ∧
      (specRun Hc Hm s xs).1.stack.length = s.stack.length ∧
      (specRun Hc Hm s' xs).1.stack.length = s'.stack.length := by
  induction xs with
  | nil => intro s s' h; exact ⟨rfl, h, rfl, rfl⟩
  | cons op r ih =>
    intro s s' h
    obtain ⟨h1, h2, h3, h4⟩ := spec_plain Hc Hm s s' h op (hops op (by simp)) (hp op (by simp))
    obtain ⟨g1, g2, g3, g4⟩ := ih (fun x hx => hops x (by simp [hx])) (fun x hx => hp x (by simp [hx]))
      _ _ h2
    simp only [specRun]
    exact ⟨by rw [h1, g1], g2, by rw [g3, h3], by rw [g4, h4]⟩

theorem specRun_append (s : SS) (l1 l2 : List Op) :
    (specRun Hc Hm s (l1 ++ l2)).1 = (specRun Hc Hm (specRun Hc Hm s l1).1 l2).1 := by
  induction l1 generalizing s with
  | nil => rfl
  | cons o r ih => simp only [List.cons_append, specRun]; exact ih _

/-- specification: with no transaction open, `start ++ xs ++ commit` leaves the committed state
    that `xs` alone leaves -/
theorem spec_commit_direct (b : Logical) (xs : List Op) (hops : ∀ op ∈ xs, OpOK CK op)
    (hp : ∀ op ∈ xs, isTx op = false) :
    (specRun Hc Hm { back := b, stack := [] } ([Op.start] ++ xs ++ [Op.commit])).1 =
      (specRun Hc Hm { back := b, stack := [] } xs).1 := by
  rw [specRun_append, specRun_append]
  have hs : (specRun Hc Hm { back := b, stack := [] } [Op.start]).1 = { back := b, stack := [b] } := rfl
  rw [hs]
  obtain ⟨_, g2, g3, g4⟩ := spec_plain_run Hc Hm xs hops hp { back := b, stack := [b] }
    { back := b, stack := [] } rfl
  generalize specRun Hc Hm { back := b, stack := [b] } xs = ra at g2 g3
  generalize specRun Hc Hm { back := b, stack := [] } xs = rb at g2 g4
  obtain ⟨⟨ab, as⟩, _⟩ := ra
  obtain ⟨⟨bb, bs⟩, _⟩ := rb
  simp only [List.length_cons, List.length_nil] at g3 g4
  match as, g3 with
  | [l], _ =>
    match bs, g4 with
    | [], _ =>
      simp only [SS.top, List.head?_cons, Option.getD_some, List.head?_nil, Option.getD_none] at g2
      simp only [specRun, specStep]
      rw [g2]

end spec

section model
variable (Hc Hm : Entries → Bytes) (D : Dumper Logical) {CK : Bytes → Bool}

theorem runTS_append {β τ : Type} (B : Backend β τ) (D : Dumper β) (ord : Diff → ApplyOrder)
    (a : TS β) (l1 l2 : List Op) :
    (runTS B D ord a (l1 ++ l2)).1 = (runTS B D ord (runTS B D ord a l1).1 l2).1 := by
  induction l1 generalizing a with
  | nil => rfl
  | cons o r ih => simp only [List.cons_append, runTS]; exact ih _

/-- model over the ideal trie: from any state reached on the fragment with no transaction open,
    `start ++ xs ++ commit` leaves exactly the state that `xs` applied directly leaves -/
theorem commit_direct {t : TS Logical} {s : SS} (h : Sim CK t s) (hd : t.txs = [])
    (xs : List Op) (hops : ∀ op ∈ xs, OpOK CK op) (hp : ∀ op ∈ xs, isTx op = false) :
    (runTS (idealBackend Hc Hm) D Diff.sortedOrder t ([Op.start] ++ xs ++ [Op.commit])).1 =
      (runTS (idealBackend Hc Hm) D Diff.sortedOrder t xs).1 := by
  have hall : ∀ op ∈ [Op.start] ++ xs ++ [Op.commit], OpOK CK op := by
    intro op hop
    simp only [List.mem_append, List.mem_singleton] at hop
    rcases hop with (rfl | hop) | rfl
    · trivial
    · exact hops op hop
    · trivial
  have h1 := (sim_run Hc Hm D h _ hall).1
  have h2 := (sim_run Hc Hm D h _ hops).1
  have hs : s = { back := t.base, stack := [] } := by
    obtain ⟨sb, ss⟩ := s
    have e1 := h.back
    have e2 := h.stack
    simp only [hd, List.map_nil] at e1 e2
    rw [e1, e2]
  rw [hs, spec_commit_direct Hc Hm t.base xs hops hp] at h1
  generalize runTS (idealBackend Hc Hm) D Diff.sortedOrder t ([Op.start] ++ xs ++ [Op.commit]) = ra at h1
  generalize runTS (idealBackend Hc Hm) D Diff.sortedOrder t xs = rb at h2
  rw [hs] at h2
  have hz : (specRun Hc Hm { back := t.base, stack := [] } xs).1.stack.length = 0 := by
    have := (spec_plain_run Hc Hm xs hops hp { back := t.base, stack := [] }
      { back := t.base, stack := [] } rfl).2.2.1
    simpa using this
  generalize specRun Hc Hm { back := t.base, stack := [] } xs = rs at h1 h2 hz
  obtain ⟨⟨ab, at_⟩, _⟩ := ra
  obtain ⟨⟨bb, bt⟩, _⟩ := rb
  have e1 := h1.back
  have e2 := h2.back
  have e3 := h1.stack
  have e4 := h2.stack
  simp only at e1 e2 e3 e4
  have hb : ab = bb := e1.symm.trans e2
  subst hb
  have hl : at_.length = bt.length := by
    have := congrArg List.length (e3.symm.trans e4)
    simpa using this
  -- at depth 0 both stacks of diffs are empty
  have ha : at_ = [] := by
    have := congrArg List.length e3
    rw [hz] at this
    simpa using this.symm
  have hbt : bt = [] := by
    have := congrArg List.length e4
    rw [hz] at this
    simpa using this.symm
  rw [ha, hbt]

end model

end Gossamer.C08
